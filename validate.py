#!/opt/veriftools/pyvenv/bin/python
import json,jsonschema,glob,sys
jsonschema.validate(json.load(open('/verif/MANIFEST.json')),json.load(open('/root/.vp/MANIFEST.schema.json')))
es=json.load(open('/root/.vp/EVIDENCE.schema.json'))
m=json.load(open('/verif/MANIFEST.json'))
for c in m['checks']:
    try:
        jsonschema.validate(json.load(open(c['evidence_file'])),es)
    except Exception as e:
        print('EVIDENCE INVALID',c['property_id'],str(e)[:300]); sys.exit(1)
print('manifest and',len(m['checks']),'evidence files valid')
