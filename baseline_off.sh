#!/bin/sh
# Runs the repository's pinned test suite with the verif build tag OFF (the guard for all hooks).
# Writes go test -json output to $1 (default /dev/null), prints a summary, restores go.work.sum
# (which go rewrites in workspace mode). Exit 0 iff >= 596 tests pass and only the two tests that
# fail in the pinned baseline (localkm TestLoadKeys, TestLoadKeys/bad_key_in_dir) fail.
OUT="${1:-/dev/null}"
unset GOFLAGS GOWORK
export GOPROXY=off GOSUMDB=off GOTOOLCHAIN=local
TMP=$(mktemp)
for m in . ./gcetcbendorsement; do
  (cd /repo/$m && go test -json -vet=off -count=1 -timeout 25m ./...) >> "$TMP" 2>&1
done
git -C /repo checkout -- go.work.sum 2>/dev/null
[ "$OUT" != /dev/null ] && cp "$TMP" "$OUT"
python3 - "$TMP" <<'PY'
import json,sys
p=0; fails=[]
for l in open(sys.argv[1]):
    try: e=json.loads(l)
    except Exception: continue
    if e.get('Test') and e.get('Action')=='pass': p+=1
    if e.get('Test') and e.get('Action')=='fail': fails.append(e['Package']+'::'+e['Test'])
known={'github.com/google/gce-tcb-verifier/testing/nonprod/localkm::TestLoadKeys','github.com/google/gce-tcb-verifier/testing/nonprod/localkm::TestLoadKeys/bad_key_in_dir'}
bad=[f for f in fails if f not in known]
print(f"baseline (verif tag off): {p} passed, {len(fails)} failed, unexpected failures: {bad}")
sys.exit(0 if p>=596 and not bad else 1)
PY
rc=$?
rm -f "$TMP"
exit $rc
