#!/usr/bin/env python3
# Generates MANIFEST.json from the table below (single source of truth for the registered checks).
import json
CLAIMED = {
 "C14": dict(engine="EndorseCommit", technique="TLC model checking of EndorseCommit.tla + replay of every emitted behaviour on endorse.VirtualFirmware + TLC trace validation of the recorded call logs",
   text="TLC explores every outcome script of the commit retry loop (all retry budgets, every call failing retriably/permanently, concurrent commits) and checks the C14 invariants on the design; every terminal behaviour is replayed on the real endorse.VirtualFirmware with scripted VersionControl/ChangeOps doubles and the C14 predicates are evaluated on the real call log and final head; all recorded logs (also from random drivers beyond the bound) are validated against the trace specification.",
   note="Trusted: TLC, the optimistic-concurrency model of the version-control backend in the double, the Go predicates in harness/ec/pred.go. Faults only at interface calls.", ref="5/C14"),
 "C15": dict(engine="EndorseCommit", technique="TLC model checking of EndorseCommit.tla (effects set) + replay/trace validation + exhaustive flag sweep on endorse.VirtualFirmware",
   text="The side-effect classes of every step are tracked in the specification; TLC checks that dry-run / measurement-only behaviours never reach workspace, write, chmod, commit (and CA/signer) effects and never panic; every emitted behaviour and a sweep over technology/VMSA/shape/snapshot/overwrite/candidate combinations runs on the real code with recording doubles, comparing what a dry run signs and a measurement-only run prints with the real run.",
   note="Trusted: TLC, the recording doubles. Signed-byte comparison only where the document has a single protobuf serialisation (one SNP measurement or TDX only).", ref="5/C15"),
}
CLAIMED["C13"] = dict(engine="ManifestIndex", technique="TLC closure of ManifestIndex.tla + replay of every transition on endorse.VirtualFirmware",
   text="TLC computes the closure of reachable (manifest, files) states for a pool of images x names x overwrite (plus snapshot runs) and checks uniqueness, resolution, latest-lookup and no-clobber on the design; every transition of that closure is materialised as a real version-control head, executed with one real endorse run, projected back and the C13 predicates evaluated; random walks over a larger pool (in-memory backend and localnonvcs on disk) go beyond the bound.",
   note="Trusted: TLC, the projection in harness/ec/manifest.go. Ill-formed hand-written manifests are outside the statement.", ref="5/C13")
CLAIMED["C10"] = dict(engine="KeyAuthority", technique="TLC model checking of KeyAuthority.tla (faults/crashes) + fault injection at every real call of rotation + TLC trace validation of the recorded logs",
   text="TLC checks on the design that after every abort position of every rotation in every history the recorded primary is usable, that destruction follows the durable record and that the store is consistent; on the real code every call rotation makes (Manager, Signer, CA, storage; enumerated from the real call log, so new calls get a position automatically) is made to fail and the process is crashed after it, for each shipped key manager x CA combination and 0..N prior rotations; fresh instances are loaded and must sign a verifiable document, a later --overwrite rotation must succeed; logs of the storage-backed combinations are validated against Trace_KeyAuthority.",
   note="Trusted: TLC, the fault-injecting doubles, object-atomic storage writes. memkm is volatile, so crashes are applied to localkm only.", ref="5/C10")
CLAIMED["C11"] = dict(engine="KeyAuthority", technique="TLC model checking of KeyAuthority.tla (invariant in every state = every write prefix) + reload at every prefix of recorded real write sequences + trace validation",
   text="C11_StoreConsistent is an invariant of every reachable state of the model, hence of every prefix of every write order; on the real code the storage double records the object writes of real bootstraps and rotations (repeated to vary upload order), every prefix is materialised and read back through a fresh gcsca instance, and the recorded logs are validated against the trace specification, which rejects a manifest written ahead of a certificate it names.",
   note="Trusted: TLC, object-atomic writes. Upload order of pending certificates depends on Go map iteration; orders seen are reported in the evidence.", ref="5/C11")
CLAIMED["C12"] = dict(engine="KeyAuthority", technique="TLC model checking of KeyAuthority.tla over command histories + replay of every emitted history through the cobra commands",
   text="TLC checks the chain-of-trust invariants (certificate shapes at issuance and as stored, serial succession, only-primary-signs, no name reuse, no clobber, total wipeout) on every state of all command histories up to the bound; every emitted command history (including re-bootstrap over a populated authority) is executed through cmd.MakeApp for memkm+memca, localkm+gcsca and localkm+localca with prefix sharing, and after each command the real certificates, key store and objects are read back and the C12 predicates evaluated.",
   note="Trusted: TLC, crypto/x509 parsing. Readings: 'every signing certificate' = the one a command issues plus the recorded primary's; no-clobber applies to stored objects (gcsca/localca), not to the in-memory memca; only-primary-signs is evaluated on histories without failed/refused commands.", ref="5/C12")
CLAIMED["C03"] = dict(engine="KeyAuthority", technique="TLC model checking of KeyAuthority.tla (issued set) + replay of emitted bootstrap/rotate/endorse histories on the real pipeline with re-verification after every step",
   text="In the model every endorsement ever issued stays verifiable under the root in every later state (rotations, failed rotations, crashes); TLC-emitted histories bootstrap.(rotate|endorse)* are executed on the real commands and endorse.VirtualFirmware with seeded requests, and after every step every endorsement produced so far is verified with verify.Endorsement at both ends of and inside the validity window, each listed measurement for its configuration, and the documented openssl flow is redone in Go over the inspect outputs.",
   note="Trusted: TLC, crypto/rsa, crypto/x509, protobuf. Requests are seeded samples per history step, not exhaustive.", ref="5/C03")
CLAIMED["C01"] = dict(engine="Verify", technique="TLC model checking of the decision table Verify.tla (126000 rows) + replay of every row on real keys, certificates, signatures and attestations through every entry point",
   text="Verify.tla transcribes verify.EndorsementProto check by check and every entry point that wraps it; TLC proves on all rows (payload x signature x certificate x roots x time x provenance x entry point) that accept implies a valid PSS/SHA-256 signature by the carried certificate's key and a chain to the caller's roots at the caller's time; every row is realised with real RSA material and executed on the library functions, the SNP validator closure, SevValidate, TdxValidate and the three CLI commands; an independent rsa.VerifyPSS + x509.Verify oracle cross-checks the specification's classification.",
   note="Trusted: TLC, crypto/rsa, crypto/x509; forgeries outside the listed classes are not enumerated (thorough adds nothing beyond the class product).", ref="5/C01")
PENDING = {}
import os
props=[json.loads(l) for l in open('/verif/properties.jsonl')]
checks=[]; na=[]
for p in props:
    i=p['id']
    if i in CLAIMED:
        c=CLAIMED[i]
        checks.append({"property_id":i,"quick_cmd":f"./check {i} quick","thorough_cmd":f"./check {i} thorough",
          "evidence_file":f"/verif/evidence/{i}.json","replay_cmd_template":"cat {path}","engine":c["engine"],
          "level_claimed":{"category":"model_checking","text":c["text"],"design_ref":c["ref"]},
          "level_note":c["note"],"technique":c["technique"]})
    else:
        na.append({"property_id":i,"reason":PENDING.get(i,"check not built yet in this round (see DESIGN.md section 8 for the order); nothing is claimed for it")})
m={"version":1,
 "setup_cmd":"cd /verif/harness && GOFLAGS=-mod=mod GOWORK=off GOPROXY=off GOSUMDB=off GOTOOLCHAIN=local go build -tags verif -o /verif/bin/vcheck ./cmd/vcheck",
 "hooks":{"guard":"verif","enable":"go build -tags verif (the harness module replaces both repository modules with /repo and is compiled from the working tree on every check)",
   "baseline_off_cmd":"/verif/baseline_off.sh","source_commits":json.load(open('/verif/hook_commits.json')) if os.path.exists('/verif/hook_commits.json') else [],"add_only":True},
 "engines":[{"name":"Verify","path":"spec/Verify.tla","serves_properties":["C01"],"kind_free_text":"decision-table specification of the authenticity checks; Go binding in harness/rp/c01.go"},{"name":"KeyAuthority","path":"spec/KeyAuthority.tla","serves_properties":["C10","C11","C12","C03"],"kind_free_text":"TLA+ state machine of key store + CA store with bootstrap/rotate/wipeout/endorse, faults and crashes; trace spec spec/Trace_KeyAuthority.tla; Go binding in harness/ka"},{"name":"ManifestIndex","path":"spec/ManifestIndex.tla","serves_properties":["C13"],"kind_free_text":"TLA+ transcription of the manifest merge rules; closure + per-transition replay; Go binding in harness/ec/manifest.go"},{"name":"EndorseCommit","path":"spec/EndorseCommit.tla","serves_properties":["C14","C15"],"kind_free_text":"TLA+ state machine of sign + commit retry loop; TLC exhaustive + behaviour emission + trace validation (spec/Trace_EndorseCommit.tla); Go binding in harness/ec"}],
 "checks":checks,"not_applicable":na,
 "notes":"All checks: ./check <id> <tier> rebuilds harness/cmd/vcheck from /repo's working tree with -tags verif. Exit 2 = infrastructure error (never a verdict)."}
json.dump(m,open('/verif/MANIFEST.json','w'),indent=1)
print(len(checks),"claimed",len(na),"not applicable")
