package vk

import (
	"bufio"
	"encoding/json"
	"fmt"
	"io"
	"os"
	"os/exec"
	"runtime"
	"strings"
	"time"
)

// ChildResult is what the guarded child process observed for one case.
type ChildResult struct {
	Status string // "ok" | "err" | "panic" | "hang" (watchdog) | "crash" (process died, e.g. out of memory)
	Detail string
	Alloc  uint64        // bytes allocated while the case ran (runtime.MemStats.TotalAlloc delta)
	Dur    time.Duration // wall time of the case
}

// ChildInfo is returned by a handler (as an error) to report a successful case with a detail text.
type ChildInfo string

func (c ChildInfo) Error() string { return string(c) }

// ChildHandlers are the functions a child process can run; registered by the check packages.
var ChildHandlers = map[string]func(json.RawMessage) error{}

// ChildMain is the body of `vcheck child <kind>`: cases (one JSON value per line) on stdin.
func ChildMain(kind string) {
	h, ok := ChildHandlers[kind]
	if !ok {
		fmt.Println("NOHANDLER")
		os.Exit(3)
	}
	in := bufio.NewReaderSize(os.Stdin, 1<<20)
	out := bufio.NewWriter(os.Stdout)
	i := 0
	for {
		line, err := in.ReadBytes('\n')
		if len(line) > 1 {
			fmt.Fprintf(out, "START %d\n", i)
			out.Flush()
			var ms0, ms1 runtime.MemStats
			runtime.ReadMemStats(&ms0)
			t0 := time.Now()
			status, detail := "ok", ""
			func() {
				defer func() {
					if r := recover(); r != nil {
						status, detail = "panic", fmt.Sprint(r)+" @ "+panicSite()
					}
				}()
				if e := h(json.RawMessage(line)); e != nil {
					if info, ok := e.(ChildInfo); ok {
						detail = string(info)
					} else {
						status, detail = "err", e.Error()
					}
				}
			}()
			d := time.Since(t0)
			runtime.ReadMemStats(&ms1)
			detail = strings.ReplaceAll(detail, "\n", " ")
			if len(detail) > 300 {
				detail = detail[:300]
			}
			fmt.Fprintf(out, "END %d %s %d %d %s\n", i, status, ms1.TotalAlloc-ms0.TotalAlloc, d.Nanoseconds(), detail)
			out.Flush()
			i++
		}
		if err != nil {
			break
		}
	}
}

// RunChildCases runs the cases in a child process with an address-space limit (so that a huge
// allocation is a detectable fatal error instead of taking the checker down) and a per-case
// watchdog. A case that kills or hangs the child is recorded and the rest continues in a new child.
func RunChildCases(kind string, cases []json.RawMessage, perCase time.Duration, memKiB int) ([]ChildResult, error) {
	res := make([]ChildResult, len(cases))
	next := 0
	for next < len(cases) {
		self, err := os.Executable()
		if err != nil {
			return nil, err
		}
		cmd := exec.Command("sh", "-c", fmt.Sprintf("ulimit -v %d; exec %q child %s", memKiB, self, kind))
		cmd.Env = append(os.Environ(), "GOMAXPROCS=2", "GOGC=50")
		stdin, _ := cmd.StdinPipe()
		stdout, _ := cmd.StdoutPipe()
		var errb strings.Builder
		cmd.Stderr = &errb
		if err := cmd.Start(); err != nil {
			return nil, err
		}
		base := next
		go func() {
			w := bufio.NewWriter(stdin)
			for _, c := range cases[base:] {
				w.Write(c)
				w.WriteByte('\n')
			}
			w.Flush()
			stdin.Close()
		}()
		lines := make(chan string, 1024)
		go func() {
			rd := bufio.NewReaderSize(stdout, 1<<20)
			for {
				l, err := rd.ReadString('\n')
				if l != "" {
					lines <- strings.TrimRight(l, "\n")
				}
				if err != nil {
					close(lines)
					return
				}
			}
		}()
		cur := -1
		timer := time.NewTimer(perCase + 20*time.Second)
		alive := true
		for alive {
			select {
			case l, ok := <-lines:
				if !ok {
					alive = false
					break
				}
				var i int
				switch {
				case strings.HasPrefix(l, "START "):
					fmt.Sscanf(l, "START %d", &i)
					cur = base + i
					if !timer.Stop() {
						select {
						case <-timer.C:
						default:
						}
					}
					timer.Reset(perCase)
				case strings.HasPrefix(l, "END "):
					var st string
					var alloc uint64
					var ns int64
					n, _ := fmt.Sscanf(l, "END %d %s %d %d", &i, &st, &alloc, &ns)
					if n == 4 {
						detail := ""
						if p := strings.SplitN(l, " ", 6); len(p) == 6 {
							detail = p[5]
						}
						res[base+i] = ChildResult{Status: st, Detail: detail, Alloc: alloc, Dur: time.Duration(ns)}
						next = base + i + 1
						cur = -1
					}
				case l == "NOHANDLER":
					cmd.Process.Kill()
					return nil, fmt.Errorf("child has no handler %q", kind)
				}
			case <-timer.C:
				cmd.Process.Kill()
				if cur >= 0 {
					res[cur] = ChildResult{Status: "hang", Detail: fmt.Sprintf("no result within %v", perCase), Dur: perCase}
					next = cur + 1
				} else {
					io.Copy(io.Discard, stdout)
					cmd.Wait()
					return nil, fmt.Errorf("child for %s made no progress: %s", kind, errb.String())
				}
				alive = false
			}
		}
		timer.Stop()
		cmd.Wait()
		if cur >= 0 && res[cur].Status == "" {
			d := errb.String()
			if len(d) > 400 {
				d = d[:400]
			}
			res[cur] = ChildResult{Status: "crash", Detail: strings.ReplaceAll(d, "\n", " | ")}
			next = cur + 1
		} else if next == base && cur < 0 {
			return nil, fmt.Errorf("child for %s exited without running a case: %s", kind, errb.String())
		}
	}
	return res, nil
}

// RunChildCasesParallel shards the cases over several guarded child processes.
func RunChildCasesParallel(kind string, cases []json.RawMessage, perCase time.Duration, memKiB int, shards int) ([]ChildResult, error) {
	if shards < 1 {
		shards = 1
	}
	if shards > len(cases) {
		shards = len(cases)
	}
	if shards <= 1 {
		return RunChildCases(kind, cases, perCase, memKiB)
	}
	res := make([]ChildResult, len(cases))
	errs := make([]error, shards)
	done := make(chan int, shards)
	per := (len(cases) + shards - 1) / shards
	n := 0
	for s := 0; s < shards; s++ {
		lo, hi := s*per, (s+1)*per
		if hi > len(cases) {
			hi = len(cases)
		}
		if lo >= hi {
			break
		}
		n++
		go func(s, lo, hi int) {
			r, err := RunChildCases(kind, cases[lo:hi], perCase, memKiB)
			errs[s] = err
			copy(res[lo:hi], r)
			done <- s
		}(s, lo, hi)
	}
	for i := 0; i < n; i++ {
		<-done
	}
	for _, e := range errs {
		if e != nil {
			return nil, e
		}
	}
	return res, nil
}

// panicSite names the innermost non-runtime frames of the panicking goroutine (called from the
// deferred recover, so the panicking frames are still on the stack).
func panicSite() string {
	pcs := make([]uintptr, 40)
	n := runtime.Callers(3, pcs)
	frames := runtime.CallersFrames(pcs[:n])
	var out []string
	for {
		f, more := frames.Next()
		if !strings.HasPrefix(f.Function, "runtime.") && f.Function != "" {
			fn := f.Function
			if i := strings.LastIndex(fn, "/"); i >= 0 {
				fn = fn[i+1:]
			}
			out = append(out, fmt.Sprintf("%s:%d", fn, f.Line))
			if len(out) == 4 {
				break
			}
		}
		if !more {
			break
		}
	}
	return strings.Join(out, " < ")
}
