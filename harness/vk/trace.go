package vk

import (
	"bytes"
	"fmt"
	"os"
	"sort"
	"strings"
	"time"
)

// ValidateTraces feeds batched traces (each a list of ndjson lines whose first line is the
// reset/config record) to a trace specification that keeps the high-water mark of consumed lines in
// TLC register 1 and prints <<"VTRACE-REJECT", n>> from its postcondition. Rejected traces are
// removed and validation repeated, so the remaining traces are still checked. Returns the indices of
// rejected traces and, for each, the 0-based index of the first event that could not be explained.
func ValidateTraces(run *Run, module, cfg string, traces [][]string, dfs bool) (rejected []int, at map[int]int, err error) {
	at = map[int]int{}
	idx := make([]int, len(traces))
	for i := range traces {
		idx[i] = i
	}
	for round := 0; round < 40 && len(idx) > 0; round++ {
		var b bytes.Buffer
		var starts []int
		line := 1
		for _, k := range idx {
			starts = append(starts, line)
			for _, l := range traces[k] {
				b.WriteString(l)
				b.WriteByte('\n')
				line++
			}
		}
		if d := os.Getenv("VERIF_TRACE_DUMP"); d != "" {
			os.WriteFile(d, b.Bytes(), 0o644)
		}
		res, terr := RunTLC(TLCOpts{Module: module, Config: cfg, Workers: 1, Timeout: 15 * time.Minute,
			ExtraFiles: map[string][]byte{"trace.ndjson": b.Bytes()}, DFS: dfs})
		if terr == nil {
			run.AddTLC(res)
			return rejected, at, nil
		}
		if res == nil || res.Violated == "" {
			return rejected, at, terr
		}
		hw := 0
		for _, ln := range strings.Split(res.Output, "\n") {
			var n int
			if _, e := fmt.Sscanf(strings.TrimSpace(ln), `<<"VTRACE-REJECT", %d>>`, &n); e == nil {
				hw = n
			}
			if _, e := fmt.Sscanf(strings.TrimSpace(ln), `/\ l = %d`, &n); e == nil && res.Violated != "postcondition" {
				hw = n - 1
			}
		}
		if hw == 0 {
			return rejected, at, fmt.Errorf("trace validation failed without a locatable line: %v", terr)
		}
		bad := sort.Search(len(starts), func(i int) bool { return starts[i] > hw }) - 1
		if bad < 0 {
			bad = 0
		}
		rejected = append(rejected, idx[bad])
		at[idx[bad]] = hw - starts[bad]
		idx = append(idx[:bad:bad], idx[bad+1:]...)
	}
	return rejected, at, nil
}
