// Package vk is the verification kit shared by all property checks: TLC driver, emitted-case
// reader, evidence writer, verdict/known-finding handling and child-process runner.
package vk

import (
	"bufio"
	"bytes"
	"encoding/json"
	"fmt"
	"io"
	"os"
	"os/exec"
	"path/filepath"
	"regexp"
	"runtime"
	"strconv"
	"strings"
	"time"
)

// VerifRoot is the directory that holds spec/, evidence/, replay/ (normally /verif).
func VerifRoot() string {
	if r := os.Getenv("VERIF_ROOT"); r != "" {
		return r
	}
	return "/verif"
}

// TLCOpts configures one TLC run.
type TLCOpts struct {
	Module   string // e.g. "EndorseCommit" (file Module.tla in spec/)
	Config   string // e.g. "MC_EndorseCommit_quick.cfg"
	Workers  int    // 0 = all cores
	Timeout  time.Duration
	Simulate string // e.g. "num=200" → -simulate num=200
	Depth    int    // -depth for simulation
	Seed     int64  // -seed for simulation
	Coverage bool
	// ExtraFiles are written into the scratch directory before the run (e.g. trace.ndjson).
	ExtraFiles map[string][]byte
	// ExpectViolation: the run is a negative control; an invariant violation is the expected result.
	ExpectViolation bool
	// DFS makes TLC use the depth-first state queue (good for branching trace specs).
	DFS bool
	// Deadlock false => pass -deadlock (i.e. do not check deadlock) unless cfg says so.
	NoDeadlock bool
}

// TLCResult is what the driver extracts from TLC's output.
type TLCResult struct {
	Generated   int64
	Distinct    int64
	Initial     int64
	Depth       int
	Violated    string            // name of violated invariant/property, "" if none
	Cases       []json.RawMessage // VCASE payloads
	Edges       []json.RawMessage // VEDGE payloads
	Output      string
	WallS       float64
	Cmd         string
	ZeroCovered []string // with Coverage: action lines with count 0
}

// Transitions is the number of successor computations (generated minus initial states).
func (r *TLCResult) Transitions() int64 {
	t := r.Generated - r.Initial
	if t < 1 {
		t = r.Generated
	}
	return t
}

var (
	reStates  = regexp.MustCompile(`(\d+) states generated, (\d+) distinct states found`)
	reDepth   = regexp.MustCompile(`The depth of the complete state graph search is (\d+)`)
	reInit    = regexp.MustCompile(`Finished computing initial states: (\d+) distinct state`)
	reInvViol = regexp.MustCompile(`Error: Invariant (\S+) is violated`)
	reActViol = regexp.MustCompile(`Error: Action property (\S+) is violated`)
	reTmpViol = regexp.MustCompile(`Error: Temporal properties were violated`)
	rePost    = regexp.MustCompile(`Error: Postcondition`)
)

func copySpecDir(dst string) error {
	src := filepath.Join(VerifRoot(), "spec")
	ents, err := os.ReadDir(src)
	if err != nil {
		return err
	}
	for _, e := range ents {
		if e.IsDir() {
			continue
		}
		n := e.Name()
		if !(strings.HasSuffix(n, ".tla") || strings.HasSuffix(n, ".cfg")) {
			continue
		}
		b, err := os.ReadFile(filepath.Join(src, n))
		if err != nil {
			return err
		}
		if err := os.WriteFile(filepath.Join(dst, n), b, 0o644); err != nil {
			return err
		}
	}
	return nil
}

// unescapeTLCString undoes TLC's string printing (\" and \\).
func unescapeTLCString(s string) string {
	var b strings.Builder
	for i := 0; i < len(s); i++ {
		if s[i] == '\\' && i+1 < len(s) {
			i++
			switch s[i] {
			case 'n':
				b.WriteByte('\n')
			case 't':
				b.WriteByte('\t')
			default:
				b.WriteByte(s[i])
			}
			continue
		}
		b.WriteByte(s[i])
	}
	return b.String()
}

// RunTLC runs TLC in a scratch directory and parses its output. An error is returned only for
// infrastructure problems (timeout, java failure, parse error, unexpected spec violation).
func RunTLC(o TLCOpts) (*TLCResult, error) {
	dir, err := os.MkdirTemp("", "vk-tlc-")
	if err != nil {
		return nil, err
	}
	defer os.RemoveAll(dir)
	if err := copySpecDir(dir); err != nil {
		return nil, err
	}
	for n, b := range o.ExtraFiles {
		if err := os.WriteFile(filepath.Join(dir, n), b, 0o644); err != nil {
			return nil, err
		}
	}
	if o.Workers <= 0 {
		o.Workers = runtime.NumCPU()
	}
	if o.Timeout == 0 {
		o.Timeout = 10 * time.Minute
	}
	args := []string{"-XX:+UseParallelGC", "-Xss64m"}
	if o.DFS {
		args = append(args, "-Dtlc2.tool.queue.IStateQueue=StateDeque")
	}
	args = append(args, "-cp", "/opt/veriftools/tla/tla2tools.jar:/opt/veriftools/tla/CommunityModules-deps.jar", "tlc2.TLC",
		"-metadir", filepath.Join(dir, "meta"), "-workers", strconv.Itoa(o.Workers), "-config", o.Config)
	if o.Simulate != "" {
		args = append(args, "-simulate", o.Simulate)
		if o.Depth > 0 {
			args = append(args, "-depth", strconv.Itoa(o.Depth))
		}
		args = append(args, "-seed", strconv.FormatInt(o.Seed, 10))
	}
	if o.Coverage {
		args = append(args, "-coverage", "1")
	}
	if o.NoDeadlock {
		args = append(args, "-deadlock")
	}
	args = append(args, o.Module+".tla")
	cmd := exec.Command("java", args...)
	cmd.Dir = dir
	stdout, err := cmd.StdoutPipe()
	if err != nil {
		return nil, err
	}
	cmd.Stderr = cmd.Stdout
	res := &TLCResult{Cmd: "java " + strings.Join(args[:len(args)], " ")}
	t0 := time.Now()
	if err := cmd.Start(); err != nil {
		return nil, err
	}
	timer := time.AfterFunc(o.Timeout, func() { cmd.Process.Kill() })
	defer timer.Stop()
	var keep bytes.Buffer
	rd := bufio.NewReaderSize(stdout, 1<<20)
	for {
		line, err := rd.ReadString('\n')
		if len(line) > 0 {
			l := strings.TrimRight(line, "\r\n")
			switch {
			case strings.HasPrefix(l, `<<"VCASE", "`) && strings.HasSuffix(l, `">>`):
				res.Cases = append(res.Cases, json.RawMessage(unescapeTLCString(l[len(`<<"VCASE", "`):len(l)-3])))
			case strings.HasPrefix(l, `<<"VEDGE", "`) && strings.HasSuffix(l, `">>`):
				res.Edges = append(res.Edges, json.RawMessage(unescapeTLCString(l[len(`<<"VEDGE", "`):len(l)-3])))
			default:
				if keep.Len() < 1<<20 {
					keep.WriteString(l)
					keep.WriteByte('\n')
				}
				if m := reStates.FindStringSubmatch(l); m != nil {
					res.Generated, _ = strconv.ParseInt(m[1], 10, 64)
					res.Distinct, _ = strconv.ParseInt(m[2], 10, 64)
				}
				if m := reDepth.FindStringSubmatch(l); m != nil {
					res.Depth, _ = strconv.Atoi(m[1])
				}
				if m := reInit.FindStringSubmatch(l); m != nil {
					res.Initial, _ = strconv.ParseInt(m[1], 10, 64)
				}
				if m := reInvViol.FindStringSubmatch(l); m != nil {
					res.Violated = m[1]
				}
				if m := reActViol.FindStringSubmatch(l); m != nil {
					res.Violated = m[1]
				}
				if reTmpViol.MatchString(l) {
					res.Violated = "temporal"
				}
				if rePost.MatchString(l) {
					res.Violated = "postcondition"
				}
				if o.Coverage && strings.HasSuffix(l, ": 0") && strings.Contains(l, "<") {
					res.ZeroCovered = append(res.ZeroCovered, strings.TrimSpace(l))
				}
			}
		}
		if err == io.EOF {
			break
		}
		if err != nil {
			return nil, err
		}
	}
	werr := cmd.Wait()
	res.WallS = time.Since(t0).Seconds()
	res.Output = keep.String()
	if os.Getenv("VERIF_DEBUG") != "" {
		fmt.Printf("timing: tlc %s %s %.1fs (%d cases)\n", o.Module, o.Config, res.WallS, len(res.Cases)+len(res.Edges))
	}
	if time.Since(t0) >= o.Timeout {
		return res, fmt.Errorf("TLC timed out after %v (%s %s)", o.Timeout, o.Module, o.Config)
	}
	if res.Violated != "" {
		if o.ExpectViolation {
			return res, nil
		}
		return res, fmt.Errorf("TLC reports %s violated in the design model %s/%s (spec problem, not a code verdict):\n%s", res.Violated, o.Module, o.Config, tail(res.Output, 60))
	}
	if o.ExpectViolation {
		return res, fmt.Errorf("negative control %s/%s: TLC found no violation (invariant is vacuous?)", o.Module, o.Config)
	}
	if werr != nil || strings.Contains(res.Output, "Error:") {
		return res, fmt.Errorf("TLC failed (%v) on %s/%s:\n%s", werr, o.Module, o.Config, tail(res.Output, 60))
	}
	if res.Generated == 0 && o.Simulate == "" {
		return res, fmt.Errorf("TLC output had no state counts:\n%s", tail(res.Output, 40))
	}
	return res, nil
}

func tail(s string, n int) string {
	lines := strings.Split(strings.TrimRight(s, "\n"), "\n")
	if len(lines) > n {
		lines = lines[len(lines)-n:]
	}
	return strings.Join(lines, "\n")
}
