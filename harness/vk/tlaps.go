package vk

import (
	"context"
	"fmt"
	"os"
	"os/exec"
	"regexp"
	"strconv"
	"time"
)

var tlapsOK = regexp.MustCompile(`All (\d+) obligations? proved`)

// RunTLAPS checks the proofs of a module of spec/ with the TLA+ proof system in a scratch directory
// and returns the number of proof obligations discharged. Anything else (unproved obligations, a
// parse error, a timeout) is an infrastructure error: the proofs are about the specification, and
// a specification whose proof no longer goes through decides nothing.
func RunTLAPS(run *Run, module string, timeout time.Duration) (int, error) {
	dir, err := os.MkdirTemp("", "vk-tlaps-")
	if err != nil {
		return 0, err
	}
	defer os.RemoveAll(dir)
	if err := copySpecDir(dir); err != nil {
		return 0, err
	}
	ctx, cancel := context.WithTimeout(context.Background(), timeout)
	defer cancel()
	cmd := exec.CommandContext(ctx, "tlapm", "--threads", "8", "--cleanfp", "-I", dir, module+".tla")
	cmd.Dir = dir
	out, err := cmd.CombinedOutput()
	m := tlapsOK.FindSubmatch(out)
	if m == nil {
		return 0, fmt.Errorf("tlapm %s.tla: proofs not discharged (%v):\n%s", module, err, tail(string(out), 25))
	}
	n, _ := strconv.Atoi(string(m[1]))
	run.mu.Lock()
	run.CheckerCmds = append(run.CheckerCmds, fmt.Sprintf("tlapm --threads 8 %s.tla (%d obligations proved)", module, n))
	if run.Extra == nil {
		run.Extra = map[string]any{}
	}
	run.Extra["tlaps_obligations_proved_"+module] = n
	run.mu.Unlock()
	return n, nil
}
