package vk

import (
	"context"
	"fmt"
	"os"
	"os/exec"
	"regexp"
	"strconv"
	"syscall"
	"time"
)

var tlapsOK = regexp.MustCompile(`All (\d+) obligations? proved`)

// RunTLAPS checks the proofs of a module of spec/ with the TLA+ proof system in a scratch directory
// and returns the number of proof obligations discharged. Anything else (unproved obligations, a
// parse error, a timeout) is an infrastructure error: the proofs are about the specification, and
// a specification whose proof no longer goes through decides nothing.
func RunTLAPS(run *Run, module string, timeout time.Duration) (int, error) {
	dir, err := os.MkdirTemp("", "vk-tlaps-")
	if err != nil {
		return 0, err
	}
	defer os.RemoveAll(dir)
	if err := copySpecDir(dir); err != nil {
		return 0, err
	}
	ctx, cancel := context.WithTimeout(context.Background(), timeout)
	defer cancel()
	// The back-end provers run under wall-clock limits, so an obligation can fail on a loaded machine that
	// is proved in seconds on an idle one: the limits are stretched, and a run with failed obligations
	// is repeated (twice at most) with the fingerprints of what was already proved kept, so that only
	// the failed obligations are tried again, with more time.
	var out []byte
	var m [][]byte
	for attempt, stretch := 1, 3; attempt <= 3; attempt, stretch = attempt+1, stretch*3 {
		args := []string{"--threads", "8", "--stretch", strconv.Itoa(stretch), "-I", dir, module + ".tla"}
		if attempt == 1 {
			args = append([]string{"--cleanfp"}, args...)
		}
		cmd := exec.CommandContext(ctx, "tlapm", args...)
		cmd.Dir = dir
		// (its own process group: a back-end prover that tlapm leaves behind after a time-out is ended with it)
		cmd.SysProcAttr = &syscall.SysProcAttr{Setpgid: true}
		out, err = cmd.CombinedOutput()
		if cmd.Process != nil {
			syscall.Kill(-cmd.Process.Pid, syscall.SIGKILL)
		}
		if m = tlapsOK.FindSubmatch(out); m != nil || ctx.Err() != nil {
			break
		}
	}
	if m == nil {
		return 0, fmt.Errorf("tlapm %s.tla: proofs not discharged (%v):\n%s", module, err, tail(string(out), 25))
	}
	n, _ := strconv.Atoi(string(m[1]))
	run.mu.Lock()
	run.CheckerCmds = append(run.CheckerCmds, fmt.Sprintf("tlapm --threads 8 %s.tla (%d obligations proved)", module, n))
	if run.Extra == nil {
		run.Extra = map[string]any{}
	}
	run.Extra["tlaps_obligations_proved_"+module] = n
	run.mu.Unlock()
	return n, nil
}
