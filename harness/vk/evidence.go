package vk

import (
	"crypto/sha256"
	"encoding/hex"
	"encoding/json"
	"fmt"
	"os"
	"path/filepath"
	"sort"
	"strconv"
	"strings"
	"sync"
	"time"
)

// Run carries the state of one check invocation.
type Run struct {
	ID    string
	Tier  string
	Seed  int64
	start time.Time

	mu          sync.Mutex
	violations  []string // replay paths
	known       map[string]bool
	kf          *KnownFindings
	States      int64
	Transitions int64
	Traces      int64 // cases replayed on the real code + real traces validated by TLC
	Evaluations int64
	Distinct    map[string]struct{}
	Samples     []any
	Drift       int64
	Exhaustive  bool
	Extra       map[string]any
	Assumptions []string
	CheckerCmds []string
	Rule        string
	infraErr    error
}

// KnownFindings is the committed /verif/known_findings.json.
type KnownFindings struct {
	Findings []struct {
		Property string `json:"property"`
		Key      string `json:"key"`
		What     string `json:"what"`
	} `json:"findings"`
	Fixed []string `json:"fixed"`
}

func Quick(tier string) bool { return tier != "thorough" }

// NewRun reads tier/seed from args/env and loads the known findings.
func NewRun(id, tierArg string) *Run {
	tier := tierArg
	if t := os.Getenv("VERIF_TIER"); t == "quick" || t == "thorough" {
		tier = t
	}
	if tier != "thorough" {
		tier = "quick"
	}
	var seed int64 = 1
	if s := os.Getenv("VERIF_SEED"); s != "" {
		if v, err := strconv.ParseInt(s, 10, 64); err == nil {
			seed = v
		}
	}
	r := &Run{ID: id, Tier: tier, Seed: seed, start: time.Now(), known: map[string]bool{}, Distinct: map[string]struct{}{}, Extra: map[string]any{}}
	r.kf = &KnownFindings{}
	if b, err := os.ReadFile(filepath.Join(VerifRoot(), "known_findings.json")); err == nil {
		if err := json.Unmarshal(b, r.kf); err != nil {
			r.infraErr = fmt.Errorf("known_findings.json: %v", err)
		}
	}
	return r
}

func (r *Run) IsQuick() bool { return r.Tier == "quick" }

// AddTLC accumulates the state/transition counters of a TLC run.
func (r *Run) AddTLC(res *TLCResult) {
	r.mu.Lock()
	defer r.mu.Unlock()
	r.States += res.Distinct
	r.Transitions += res.Transitions()
	r.CheckerCmds = append(r.CheckerCmds, res.Cmd)
}

// Case records that one case was executed on the real code. key identifies the abstract case
// (distinctness), nontrivial says whether it counts as non-trivial.
func (r *Run) Case(key string, nontrivial bool) {
	r.mu.Lock()
	defer r.mu.Unlock()
	r.Evaluations++
	r.Traces++
	if nontrivial {
		r.Distinct[key] = struct{}{}
	}
}

// Sample keeps up to 5 example cases for the evidence file.
func (r *Run) Sample(v any) {
	r.mu.Lock()
	defer r.mu.Unlock()
	if len(r.Samples) < 5 {
		r.Samples = append(r.Samples, v)
	}
}

// Stdout is the process's standard output as it was at start: some drivers redirect os.Stdout while a
// command under test prints; the interface lines (VIOLATION, KNOWN-FINDING, PASS, ...) must never end
// up in such a capture.
var Stdout = os.Stdout

func (r *Run) AddDrift(n int64) {
	r.mu.Lock()
	r.Drift += n
	r.mu.Unlock()
}

// Violation reports a property violation observed on real code. findingKey identifies the failing
// input class / call site / history; if it matches an entry of known_findings.json it is printed as
// KNOWN-FINDING and does not affect the exit status.
func (r *Run) Violation(findingKey string, what string, replay any) {
	r.mu.Lock()
	defer r.mu.Unlock()
	for _, f := range r.kf.Findings {
		if f.Property == r.ID && f.Key == findingKey {
			if !r.known[findingKey] {
				r.known[findingKey] = true
				fmt.Fprintf(Stdout, "KNOWN-FINDING: property=%s %s (%s)\n", r.ID, f.What, findingKey)
			}
			return
		}
	}
	b, _ := json.MarshalIndent(map[string]any{"property": r.ID, "finding_key": findingKey, "what": what, "tier": r.Tier, "seed": r.Seed, "case": replay}, "", " ")
	h := sha256.Sum256([]byte(findingKey))
	dir := filepath.Join(VerifRoot(), "replay", r.ID)
	os.MkdirAll(dir, 0o755)
	p := filepath.Join(dir, hex.EncodeToString(h[:6])+".json")
	os.WriteFile(p, b, 0o644)
	for _, v := range r.violations {
		if v == p {
			return
		}
	}
	r.violations = append(r.violations, p)
	if len(r.violations) <= 20 {
		fmt.Fprintf(Stdout, "VIOLATION property=%s replay=%s\n", r.ID, p)
		fmt.Fprintf(Stdout, "  what: %s\n", what)
	}
}

// Infra records an infrastructure error (exit 2).
func (r *Run) Infra(err error) {
	r.mu.Lock()
	defer r.mu.Unlock()
	if r.infraErr == nil && err != nil {
		r.infraErr = err
	}
}

func (r *Run) Failed() bool {
	r.mu.Lock()
	defer r.mu.Unlock()
	return len(r.violations) > 0 || r.infraErr != nil
}

// Finish writes the evidence file and returns the process exit code.
func (r *Run) Finish() int {
	r.mu.Lock()
	defer r.mu.Unlock()
	if r.infraErr != nil {
		fmt.Fprintf(Stdout, "ERROR property=%s %v\n", r.ID, r.infraErr)
		return 2
	}
	cov := map[string]any{
		"states":                        r.States,
		"transitions":                   r.Transitions,
		"traces_validated_against_impl": r.Traces,
		"evaluations":                   r.Evaluations,
		"distinct_nontrivial":           len(r.Distinct),
		"rule":                          r.Rule,
		"samples":                       r.Samples,
		"exhaustive":                    r.Exhaustive,
		"drift":                         r.Drift,
		"checker_cmd":                   strings.Join(r.CheckerCmds, " ; "),
	}
	ks := make([]string, 0, len(r.Extra))
	for k := range r.Extra {
		ks = append(ks, k)
	}
	sort.Strings(ks)
	for _, k := range ks {
		cov[k] = r.Extra[k]
	}
	if len(r.Samples) == 0 {
		cov["samples"] = []any{"(no case executed)"}
	}
	kn := make([]string, 0)
	for k := range r.known {
		kn = append(kn, k)
	}
	sort.Strings(kn)
	cov["known_findings_seen"] = kn
	ev := map[string]any{
		"property_id": r.ID,
		"tier":        r.Tier,
		"seed":        r.Seed,
		"level":       "model_checking",
		"coverage":    cov,
		"assumptions": r.Assumptions,
		"wall_s":      time.Since(r.start).Seconds(),
		"violations":  len(r.violations),
	}
	if r.Assumptions == nil {
		ev["assumptions"] = []string{}
	}
	b, _ := json.MarshalIndent(ev, "", " ")
	// evidence of engines that serve no listed property ("X-...") is kept apart from the per-property files
	evdir := filepath.Join(VerifRoot(), "evidence")
	if strings.HasPrefix(r.ID, "X-") {
		evdir = filepath.Join(evdir, "engines")
	}
	os.MkdirAll(evdir, 0o755)
	if err := os.WriteFile(filepath.Join(evdir, r.ID+".json"), append(b, '\n'), 0o644); err != nil {
		fmt.Fprintf(Stdout, "ERROR property=%s cannot write evidence: %v\n", r.ID, err)
		return 2
	}
	if len(r.violations) > 0 {
		fmt.Fprintf(Stdout, "FAIL property=%s violations=%d\n", r.ID, len(r.violations))
		return 1
	}
	fmt.Fprintf(Stdout, "PASS property=%s tier=%s seed=%d states=%d transitions=%d impl_cases=%d distinct=%d drift=%d wall=%.1fs\n",
		r.ID, r.Tier, r.Seed, r.States, r.Transitions, r.Traces, len(r.Distinct), r.Drift, time.Since(r.start).Seconds())
	return 0
}

// Pick selects a pseudo-random 1/stride of the indices (seeded). Unlike "every stride-th index" it
// cannot alias with the period of an enumeration order (a dimension of the same size as the stride
// would otherwise always contribute the same value).
func Pick(i int, seed int64, stride int) bool {
	if stride <= 1 {
		return true
	}
	z := uint64(i)*0x9e3779b97f4a7c15 + uint64(seed)*0xbf58476d1ce4e5b9
	z ^= z >> 30
	z *= 0xbf58476d1ce4e5b9
	z ^= z >> 27
	z *= 0x94d049bb133111eb
	z ^= z >> 31
	return z%uint64(stride) == 0
}
