package ec

import (
	"bytes"
	"context"
	"crypto/sha512"
	"errors"
	"fmt"
	"io"
	"os"
	"path"
	"sync"
	"sync/atomic"
	"time"

	"github.com/google/gce-tcb-verifier/endorse"
	"github.com/google/gce-tcb-verifier/keys"
	epb "github.com/google/gce-tcb-verifier/proto/endorsement"
	rpb "github.com/google/gce-tcb-verifier/proto/releases"
	"github.com/google/gce-tcb-verifier/sev"
	"github.com/google/go-sev-guest/proto/sevsnp"
	"google.golang.org/protobuf/encoding/prototext"
	"google.golang.org/protobuf/proto"

	"verifharness/fx"
)

// Cfg mirrors the spec's cfg record.
type Cfg struct {
	Retries   int  `json:"retries"`
	DryRun    bool `json:"dryRun"`
	MeasOnly  bool `json:"measOnly"`
	Snapshot  bool `json:"snapshot"`
	Exists0   bool `json:"exists0"`
	Overwrite bool `json:"overwrite"`
}

// Case is one behaviour emitted by TLC.
type Case struct {
	Cfg  Cfg      `json:"cfg"`
	Hist []Event  `json:"hist"`
	Head []string `json:"head"`
	Endo string   `json:"endo"`
}

// Obs is what one real run produced.
type Obs struct {
	Cfg           Cfg
	Wiring        string // how the version-control system was named in the Context (VCS | VCSs | VCS+VCSs)
	Log           []Event
	Ret           string // ok | err | noretries | panic
	RetErr        string
	Head0, Head   map[string][]byte
	HeadNames     []string // abstract names of the final manifest entries (old/mine/oN/?path)
	ManifestErr   string
	Others        []string
	SignedDigests [][]byte
	Results       []string
	Stdout        string
	Drift         int
	MineDigest    []byte
	EndoPath      string
	ManPath       string
}

const (
	root   = "/vroot"
	outDir = "out"
)

var (
	imgMine = fx.Image(0x1000, 11)
	imgOld  = fx.Image(0x1000, 22)

	oldOnce sync.Once
	oldEndo []byte
	oldErr  error
)

func request() *sev.SnpEndorsementRequest {
	return &sev.SnpEndorsementRequest{Product: sevsnp.SevProduct_SEV_PRODUCT_MILAN, LaunchVmsas: 2,
		ImageID: "11111111-2222-3333-4444-555555555555"}
}

// passDecider never faults.
type passDecider struct{}

func (passDecider) Decide(_ string, _ int, natural string) string { return natural }
func (passDecider) OthersBefore(string) int                       { return 0 }

// oldEndorsement is a genuinely signed endorsement of imgOld (the pre-existing file of exists0).
func oldEndorsement() ([]byte, error) {
	oldOnce.Do(func() {
		plainWiring.Store(true)
		o := runRaw(Cfg{Retries: 0}, passDecider{}, imgOld, nil)
		plainWiring.Store(false)
		if o.Ret != "ok" {
			oldErr = fmt.Errorf("cannot produce the pre-existing endorsement: %s %s", o.Ret, o.RetErr)
			return
		}
		oldEndo = o.Head[o.EndoPath]
	})
	return oldEndo, oldErr
}

func digestOf(img []byte) []byte { d := sha512.Sum384(img); return d[:] }

var stdoutMu sync.Mutex

// RunCase executes endorse.VirtualFirmware once under the given configuration and decider.
func RunCase(cfg Cfg, d Decider) *Obs {
	head := map[string][]byte{}
	if cfg.Exists0 {
		oe, err := oldEndorsement()
		if err != nil {
			return &Obs{Cfg: cfg, Ret: "infra", RetErr: err.Error()}
		}
		head[path.Join(root, outDir, "endorsement.binarypb")] = oe
		m := &rpb.VMEndorsementMap{Entries: []*rpb.VMEndorsementMap_Entry{{Digest: digestOf(imgOld), Path: "endorsement.binarypb"}}}
		b, _ := prototext.Marshal(m)
		head[path.Join(root, outDir, endorse.ManifestFile)] = b
	}
	return runRaw(cfg, d, imgMine, head)
}

var wiringCounter, backendCounter atomic.Int64

// plainWiring forces the VCS-field wiring while fixtures are produced.
var plainWiring atomic.Bool

// wire connects the version-control double to the request in one of the three ways a Context can
// name it: the VCS field, the transitional VCSs list, or both (the primary also being listed).
func wire(ectx *endorse.Context, w endorse.VersionControl) string {
	if plainWiring.Load() {
		ectx.VCS = w
		return "VCS"
	}
	switch wiringCounter.Add(1) % 3 {
	case 1:
		ectx.VCS, ectx.VCSs = nil, []endorse.VersionControl{w}
		return "VCSs"
	case 2:
		ectx.VCS, ectx.VCSs = w, []endorse.VersionControl{w}
		return "VCS+VCSs"
	}
	ectx.VCS = w
	return "VCS"
}

func runRaw(cfg Cfg, d Decider, img []byte, head map[string][]byte) *Obs {
	if head == nil {
		head = map[string][]byte{}
	}
	w := &World{Root: root, OutDir: outDir, Head: copyMap(head), D: d}
	ca, signer, err := fx.DevAuthority()
	if err != nil {
		return &Obs{Cfg: cfg, Ret: "infra", RetErr: err.Error()}
	}
	kc := &keys.Context{CA: &CA{CertificateAuthority: ca, W: w}, Signer: &Signer{Signer: signer, W: w}, Random: fx.NewLockedRand(3)}
	ectx := &endorse.Context{
		SevSnp: request(), Image: img, ClSpec: 12345, Timestamp: fx.DevNow, VCS: w,
		CommitRetries: cfg.Retries, OutDir: outDir, DryRun: cfg.DryRun, MeasurementOnly: cfg.MeasOnly,
	}
	if cfg.Snapshot {
		ectx.SnapshotDir = "snap"
		ectx.ImageName = "fw.fd"
	}
	wiring := wire(ectx, w)
	base := fx.Ctx(kc, cfg.Overwrite, false)
	// backends differ in what a successful commit returns, and the caller's context may end while the
	// commit that lands is in flight: neither changes what the run has to report
	if !plainWiring.Load() {
		switch backendCounter.Add(1) % 4 {
		case 1:
			w.NilCommit = true
			wiring += ",nil-commit-id"
		case 2:
			var cancel context.CancelFunc
			base, cancel = context.WithCancel(base)
			defer cancel()
			w.OnCommit = cancel
			wiring += ",context-cancelled-as-the-commit-lands"
		case 3:
			// ... or right after the attempt's last workspace operation, before it asks for the commit
			var cancel context.CancelFunc
			base, cancel = context.WithCancel(base)
			defer cancel()
			w.OnManifestWrite = cancel
			wiring += ",context-cancelled-after-the-manifest-write"
		}
	}
	ctx := endorse.NewContext(base, ectx)
	o := &Obs{Cfg: cfg, Wiring: wiring, Head0: head, MineDigest: digestOf(img),
		EndoPath: path.Join(root, outDir, "endorsement.binarypb"), ManPath: path.Join(root, outDir, endorse.ManifestFile)}

	runVF(ctx, cfg, w, o)
	// abstract the final manifest
	m, err := ParseManifest(w.Head[o.ManPath])
	if err != nil {
		o.ManifestErr = err.Error()
	} else {
		for _, e := range m.Entries {
			switch {
			case bytes.Equal(e.Digest, o.MineDigest) && e.Path == "endorsement.binarypb":
				o.HeadNames = append(o.HeadNames, "mine")
			case bytes.Equal(e.Digest, digestOf(imgOld)) && e.Path == "endorsement.binarypb":
				o.HeadNames = append(o.HeadNames, "old")
			case len(e.Path) > 9 && bytes.Equal(e.Digest, OtherDigest(e.Path[:len(e.Path)-9])):
				o.HeadNames = append(o.HeadNames, e.Path[:len(e.Path)-9])
			default:
				o.HeadNames = append(o.HeadNames, "?"+e.Path)
			}
		}
	}
	return o
}

// runVF calls endorse.VirtualFirmware, captures panic / stdout, and completes the log.
func runVF(ctx context.Context, cfg Cfg, w *World, o *Obs) {
	runVFWith(func() error { return endorse.VirtualFirmware(ctx) }, cfg, w, o)
}

// runVFWith: vf is what runs the endorse pipeline (the library call, or the whole endorse command).
func runVFWith(vf func() error, cfg Cfg, w *World, o *Obs) {
	call := func() {
		defer func() {
			if r := recover(); r != nil {
				o.Ret = "panic"
				o.RetErr = fmt.Sprint(r)
			}
		}()
		err := vf()
		if cfg.MeasOnly || cfg.DryRun {
			// side effects started in the background by a run that should have none must still be seen
			time.Sleep(25 * time.Millisecond)
		}
		switch {
		case err == nil:
			o.Ret = "ok"
		case errors.Is(err, endorse.ErrNoRetries):
			o.Ret, o.RetErr = "noretries", err.Error()
		default:
			o.Ret, o.RetErr = "err", err.Error()
		}
	}
	if cfg.MeasOnly {
		// measurement-only prints to the process stdout: capture it (serialised).
		stdoutMu.Lock()
		old := os.Stdout
		r, wp, perr := os.Pipe()
		if perr == nil {
			os.Stdout = wp
			done := make(chan string)
			go func() { b, _ := io.ReadAll(r); done <- string(b) }()
			call()
			wp.Close()
			os.Stdout = old
			o.Stdout = <-done
			r.Close()
		} else {
			call()
		}
		stdoutMu.Unlock()
		if o.Stdout != "" && o.Ret != "panic" {
			w.log("Print", 0, "ok")
		}
	} else {
		call()
	}
	if o.Ret == "panic" {
		w.log("Panic", 0, "panic")
	}
	w.log("Return", 0, o.Ret)
	o.Log = w.Log
	o.Head = w.Head
	o.Others = w.Others
	o.SignedDigests = w.SignedDigests
	o.Results = w.Results
	if sd, ok := w.D.(*ScriptDecider); ok {
		o.Drift = sd.Drift
	}
}

// SignedGolden parses an endorsement and returns its golden measurement.
func SignedGolden(b []byte) (*epb.VMGoldenMeasurement, error) {
	e := &epb.VMLaunchEndorsement{}
	if err := proto.Unmarshal(b, e); err != nil {
		return nil, err
	}
	g := &epb.VMGoldenMeasurement{}
	if err := proto.Unmarshal(e.SerializedUefiGolden, g); err != nil {
		return nil, err
	}
	return g, nil
}

// ScriptDecider replays the outcomes of a TLC behaviour.
type ScriptDecider struct {
	Hist  []Event
	pos   int
	Drift int
}

func decidable(op string) bool {
	switch op {
	case "Retriable", "Result", "Destroy", "Return", "Print", "Other", "Panic":
		return false
	}
	return true
}

func (s *ScriptDecider) skip() {
	for s.pos < len(s.Hist) && !decidable(s.Hist[s.pos].Op) && s.Hist[s.pos].Op != "Other" {
		s.pos++
	}
}

func (s *ScriptDecider) OthersBefore(op string) int {
	n := 0
	for {
		s.skip()
		if s.pos < len(s.Hist) && s.Hist[s.pos].Op == "Other" {
			n++
			s.pos++
			continue
		}
		return n
	}
}

func (s *ScriptDecider) Decide(op string, ws int, natural string) string {
	s.skip()
	if s.pos >= len(s.Hist) || s.Hist[s.pos].Op != op {
		s.Drift++
		return natural
	}
	out := s.Hist[s.pos].Out
	s.pos++
	switch out {
	case "retriable", "permanent":
		return out
	}
	if out != natural {
		s.Drift++
	}
	return natural
}

var _ = context.Background
