package ec

import (
	"bytes"
	"encoding/json"
	"fmt"
	"math/rand"
	"os"
	"path"
	"path/filepath"
	"reflect"
	"sort"
	"sync"
	"time"

	"github.com/google/gce-tcb-verifier/endorse"
	"github.com/google/gce-tcb-verifier/keys"
	rpb "github.com/google/gce-tcb-verifier/proto/releases"
	"github.com/google/gce-tcb-verifier/testing/nonprod/localnonvcs"
	"google.golang.org/protobuf/encoding/prototext"

	"verifharness/fx"
	"verifharness/vk"
)

// --- binding of spec/ManifestIndex.tla (C13) ---

type mEntry struct {
	Path   string `json:"path"`
	Digest string `json:"digest"`
}
type mAct struct {
	Op   string `json:"op"`
	Img  string `json:"img"`
	Name string `json:"name"`
	Ow   bool   `json:"ow"`
	Kg   bool   `json:"kg"`
	Res  string `json:"res"`
}
type mEdge struct {
	Man    []mEntry          `json:"man"`
	Files  map[string]string `json:"files"`
	Act    mAct              `json:"act"`
	Man2   []mEntry          `json:"man2"`
	Files2 map[string]string `json:"files2"`
}

var (
	poolMu   sync.Mutex
	poolImg  = map[string][]byte{}
	poolEndo = map[string][]byte{}
)

func poolImage(id string) []byte {
	poolMu.Lock()
	defer poolMu.Unlock()
	if b, ok := poolImg[id]; ok {
		return b
	}
	var n int64
	fmt.Sscanf(id, "i%d", &n)
	b := fx.Image(0x1000, 100+n)
	poolImg[id] = b
	return b
}

// poolEndorsement returns a genuinely signed endorsement of image id.
func poolEndorsement(id string) ([]byte, error) {
	img := poolImage(id)
	poolMu.Lock()
	if b, ok := poolEndo[id]; ok {
		poolMu.Unlock()
		return b, nil
	}
	poolMu.Unlock()
	o := runRaw(Cfg{}, passDecider{}, img, nil)
	if o.Ret != "ok" {
		return nil, fmt.Errorf("cannot sign pool image %s: %s %s", id, o.Ret, o.RetErr)
	}
	poolMu.Lock()
	poolEndo[id] = o.Head[o.EndoPath]
	poolMu.Unlock()
	return o.Head[o.EndoPath], nil
}

func imgIDOfDigest(d []byte, ids []string) string {
	for _, id := range ids {
		if bytes.Equal(digestOf(poolImage(id)), d) {
			return id
		}
	}
	return "?"
}

// materialise builds the version-control head for an abstract (man, files) state.
func materialise(man []mEntry, files map[string]string) (map[string][]byte, error) {
	head := map[string][]byte{}
	for name, img := range files {
		if img == "none" {
			continue
		}
		e, err := poolEndorsement(img)
		if err != nil {
			return nil, err
		}
		head[path.Join(root, outDir, name+".binarypb")] = e
	}
	if len(man) > 0 {
		m := &rpb.VMEndorsementMap{}
		for _, e := range man {
			m.Entries = append(m.Entries, &rpb.VMEndorsementMap_Entry{Digest: digestOf(poolImage(e.Digest)), Path: e.Path + ".binarypb"})
		}
		b, _ := prototext.Marshal(m)
		head[path.Join(root, outDir, endorse.ManifestFile)] = b
	}
	return head, nil
}

// project reads a head back into the abstract state; errs lists C13 predicate failures.
func project(head map[string][]byte, names, imgs []string) (man []mEntry, files map[string]string, errs []Finding) {
	add := func(k, f string, a ...any) { errs = append(errs, Finding{"C13", k, fmt.Sprintf(f, a...)}) }
	files = map[string]string{}
	for _, n := range names {
		files[n] = "none"
		if b, ok := head[path.Join(root, outDir, n+".binarypb")]; ok {
			g, err := SignedGolden(b)
			if err != nil {
				files[n] = "?unparseable"
				continue
			}
			files[n] = imgIDOfDigest(g.Digest, imgs)
		}
	}
	mb, ok := head[path.Join(root, outDir, endorse.ManifestFile)]
	if !ok {
		return nil, files, nil
	}
	m, err := ParseManifest(mb)
	if err != nil {
		add("manifest-unparseable", "manifest does not parse: %v", err)
		return nil, files, errs
	}
	seenP, seenD := map[string]bool{}, map[string]bool{}
	for _, e := range m.Entries {
		p := e.Path
		if len(p) > 9 && p[len(p)-9:] == ".binarypb" {
			p = p[:len(p)-9]
		}
		d := imgIDOfDigest(e.Digest, imgs)
		man = append(man, mEntry{p, d})
		if seenP[e.Path] {
			add("duplicate-path", "manifest lists path %q twice", e.Path)
		}
		if seenD[string(e.Digest)] {
			add("duplicate-digest", "manifest lists digest of %s twice", d)
		}
		seenP[e.Path], seenD[string(e.Digest)] = true, true
		fb, ok := head[path.Join(root, outDir, e.Path)]
		if !ok {
			add("dangling-entry", "manifest entry %q names a file that does not exist", e.Path)
			continue
		}
		g, err := SignedGolden(fb)
		if err != nil {
			add("dangling-entry", "manifest entry %q names a file that is not an endorsement: %v", e.Path, err)
			continue
		}
		if !bytes.Equal(g.Digest, e.Digest) {
			add("entry-digest-mismatch", "entry %q lists the digest of %s but the file's signed digest is of %s", e.Path, d, imgIDOfDigest(g.Digest, imgs))
		}
	}
	return man, files, errs
}

// runEndorse performs one real endorse run on the given head.
// candidateOf: the abstract name "endorsement" stands for a run without --candidate_name (the
// default file name endorsement.binarypb).
func candidateOf(name string) string {
	if name == "endorsement" {
		return ""
	}
	return name
}

// reuseCtx, when set, is the request object of the previous run of the same driver: a caller may
// keep one endorse.Context and change its fields between runs (in-memory walks do)
func runEndorse(head map[string][]byte, img []byte, candidate string, overwrite, snapshot, keepGoing bool, opt ...any) (*World, string, string) {
	dry := false
	var reuse **endorse.Context
	for _, o := range opt {
		switch v := o.(type) {
		case bool:
			dry = v
		case **endorse.Context:
			reuse = v
		}
	}
	candidate = candidateOf(candidate)
	w := &World{Root: root, OutDir: outDir, Head: copyMap(head), D: passDecider{}}
	ca, signer, err := fx.DevAuthority()
	if err != nil {
		return w, "infra", err.Error()
	}
	kc := &keys.Context{CA: ca, Signer: signer, Random: fx.NewLockedRand(3)}
	ectx := &endorse.Context{SevSnp: request(), ClSpec: 12345, Timestamp: fx.DevNow, OutDir: outDir}
	if reuse != nil {
		if *reuse != nil {
			ectx = *reuse
		}
		*reuse = ectx
	}
	// (VirtualFirmware records ec.VCS in ec.VCSs on first use: a caller that hands the request a new
	// backend sets both)
	ectx.Image, ectx.VCS, ectx.VCSs, ectx.CandidateName, ectx.DryRun = img, w, nil, candidate, dry
	ectx.SnapshotDir, ectx.ImageName = "", ""
	if snapshot {
		ectx.SnapshotDir = "snap"
		ectx.ImageName = "fw.fd"
	}
	ctx := endorse.NewContext(fx.Ctx(kc, overwrite, keepGoing), ectx)
	ret, msg := "ok", ""
	func() {
		defer func() {
			if r := recover(); r != nil {
				ret, msg = "panic", fmt.Sprint(r)
			}
		}()
		if err := endorse.VirtualFirmware(ctx); err != nil {
			ret, msg = "err", err.Error()
		}
	}()
	return w, ret, msg
}

// checkStep evaluates C13 on one real transition.
func checkStep(from map[string][]byte, w *World, ret string, act mAct, names, imgs []string) (man []mEntry, files map[string]string, fs []Finding) {
	man, files, fs = project(w.Head, names, imgs)
	add := func(k, f string, a ...any) { fs = append(fs, Finding{"C13", k, fmt.Sprintf(f, a...)}) }
	if ret == "panic" {
		add("panic", "endorse run panicked")
	}
	if act.Op == "endorse" {
		if ret == "ok" {
			found := ""
			for _, e := range man {
				if e.Digest == act.Img {
					found = e.Path
				}
			}
			if found != act.Name {
				add("latest-not-indexed", "after endorsing %s as %q the manifest maps its digest to %q", act.Img, act.Name, found)
			}
			if files[act.Name] != act.Img {
				add("latest-not-indexed", "after endorsing %s as %q the file holds %s", act.Img, act.Name, files[act.Name])
			}
		}
		if !act.Ow {
			for _, n := range names {
				p := path.Join(root, outDir, n+".binarypb")
				if old, ok := from[p]; ok && !bytes.Equal(old, w.Head[p]) {
					add("clobber", "existing endorsement file %q replaced without overwrite permission", n)
				}
			}
		}
	}
	for p, old := range from {
		if _, ok := w.Head[p]; !ok && len(old) > 0 {
			add("file-removed", "file %s disappeared", p)
		}
	}
	if act.Op == "dryrun" {
		for p, b := range w.Head {
			if !bytes.Equal(from[p], b) {
				add("dry-run-changed-head", "a dry run changed %s", p)
			}
		}
	}
	if act.Op == "snapshot" {
		for p, b := range w.Head {
			if filepath.Dir(p) == path.Join(root, outDir) {
				if !bytes.Equal(from[p], b) {
					add("snapshot-touched-index", "snapshot run changed %s", p)
				}
			}
		}
	}
	return
}

// RunC13 is the C13 check.
func RunC13(run *vk.Run) {
	tier := "quick"
	if !run.IsQuick() {
		tier = "thorough"
	}
	run.Assumptions = append(run.Assumptions, "runs start from manifests produced by earlier runs (well-formed); hand-edited ill-formed manifests are outside the statement",
		"file contents are identified by the firmware digest signed inside them")
	res, err := vk.RunTLC(vk.TLCOpts{Module: "ManifestIndex", Config: "MC_ManifestIndex_" + tier + ".cfg", Timeout: 15 * time.Minute})
	if err != nil {
		run.Infra(err)
		return
	}
	run.AddTLC(res)
	for _, neg := range []string{"Neg_ManifestIndex_noremove.cfg", "Neg_ManifestIndex_append.cfg"} {
		if _, err := vk.RunTLC(vk.TLCOpts{Module: "ManifestIndex", Config: neg, Timeout: 5 * time.Minute, ExpectViolation: true}); err != nil {
			run.Infra(err)
			return
		}
	}
	em, err := vk.RunTLC(vk.TLCOpts{Module: "ManifestIndex", Config: "Emit_ManifestIndex_" + tier + ".cfg", Workers: 1, Timeout: 20 * time.Minute})
	if err != nil {
		run.Infra(err)
		return
	}
	if int64(len(em.Edges)) != em.Generated-1 {
		run.Infra(fmt.Errorf("emitted %d transitions but TLC generated %d", len(em.Edges), em.Generated-1))
		return
	}
	names := []string{"a", "b", "c", "endorsement", "q/a"} // "q/a": a candidate name with a directory part (same base name as "a")
	imgs := []string{"i1", "i2", "i3", "i4"}
	for _, id := range imgs {
		if _, err := poolEndorsement(id); err != nil {
			run.Infra(err)
			return
		}
	}
	var drift int64
	var mu sync.Mutex
	parallel(len(em.Edges), func(i int) {
		var e mEdge
		if err := json.Unmarshal(em.Edges[i], &e); err != nil {
			run.Infra(err)
			return
		}
		from, err := materialise(e.Man, e.Files)
		if err != nil {
			run.Infra(err)
			return
		}
		w, ret, msg := runEndorse(from, poolImage(e.Act.Img), e.Act.Name, e.Act.Ow, e.Act.Op == "snapshot", e.Act.Kg, e.Act.Op == "dryrun")
		if ret == "infra" {
			run.Infra(fmt.Errorf("%s", msg))
			return
		}
		man, files, fs := checkStep(from, w, ret, e.Act, names, imgs)
		for _, f := range fs {
			run.Violation(f.Key, f.What, map[string]any{"from_manifest": e.Man, "from_files": e.Files, "action": e.Act, "returned": ret, "error": msg, "manifest_after": man, "files_after": files})
		}
		d := 0
		if (ret == "ok") != (e.Act.Res == "ok") || !sameEntries(man, e.Man2) {
			d = 1
		}
		for n, v := range e.Files2 {
			if files[n] != v {
				d = 1
			}
		}
		if d == 1 {
			mu.Lock()
			drift++
			if drift <= 3 {
				fmt.Fprintf(vk.Stdout, "DRIFT property=C13 real successor differs from ManifestIndex: from=%v/%v act=%+v real=%v/%v (%s %s) spec=%v/%v\n", e.Man, e.Files, e.Act, man, files, ret, msg, e.Man2, e.Files2)
			}
			mu.Unlock()
		}
		run.Case(string(em.Edges[i]), len(e.Man) > 0)
		if i%1999 == 0 {
			run.Sample(map[string]any{"from_manifest": e.Man, "action": e.Act, "real_manifest_after": man, "returned": ret})
		}
	})
	run.AddDrift(drift)
	// random walks beyond the closure bound, on the in-memory backend and on localnonvcs (real files)
	walks, steps := 4, 150
	if !run.IsQuick() {
		walks, steps = 32, 600
	}
	parallel(walks, func(wi int) {
		r := rand.New(rand.NewSource(run.Seed*7919 + int64(wi)))
		wnames := []string{"a", "b", "c", "endorsement", "e", "f", "q/a", "q/e"}
		wimgs := []string{"i1", "i2", "i3", "i4", "i5", "i6", "i7"}
		head := map[string][]byte{}
		useDisk := wi%2 == 1
		var dir string
		if useDisk {
			dir, _ = os.MkdirTemp("", "vk-c13-")
			defer os.RemoveAll(dir)
		}
		var hist []mAct
		var shared *endorse.Context // the in-memory walks keep one request object for the whole walk
		for s := 0; s < steps; s++ {
			act := mAct{Op: "endorse", Img: wimgs[r.Intn(len(wimgs))], Name: wnames[r.Intn(len(wnames))], Ow: r.Intn(2) == 0, Kg: r.Intn(4) == 0}
			if r.Intn(10) == 0 {
				act.Op, act.Name = "snapshot", ""
			} else if r.Intn(8) == 0 {
				act.Op = "dryrun"
			}
			hist = append(hist, act)
			var w *World
			var ret, msg string
			if useDisk {
				w, ret, msg = runEndorseDisk(dir, poolImage(act.Img), act.Name, act.Ow, act.Op == "snapshot", act.Kg, act.Op == "dryrun")
			} else {
				w, ret, msg = runEndorse(head, poolImage(act.Img), act.Name, act.Ow, act.Op == "snapshot", act.Kg, act.Op == "dryrun", &shared)
			}
			if ret == "infra" {
				run.Infra(fmt.Errorf("%s", msg))
				return
			}
			man, files, fs := checkStep(head, w, ret, act, wnames, wimgs)
			for _, f := range fs {
				tailN := len(hist)
				if tailN > 12 {
					tailN = 12
				}
				run.Violation(f.Key, f.What, map[string]any{"walk": wi, "step": s, "disk": useDisk, "last_actions": hist[len(hist)-tailN:], "returned": ret, "error": msg, "manifest_after": man, "files_after": files})
			}
			head = w.Head
			run.Case(fmt.Sprintf("walk%d-%d", wi, s), true)
		}
	})
	// one request that names several release directories (Context.VCSs, the documented transition setup):
	// after a successful run every one of them maps the digest to a written file
	for _, nOw := range [][4]int{{2, 0, 0, 0}, {3, 0, 0, 0}, {2, 1, 0, 0}, {3, 1, 0, 0}, {2, 0, 1, 1}, {3, 0, 1, 1}, {3, 0, 0, 1}} {
		// n directories; overwrite; --keep_going; taken: the first directory already holds another image
		// under the name (without overwrite permission it refuses the run)
		n, ow, kg, taken := nOw[0], nOw[1] == 1, nOw[2] == 1, nOw[3] == 1
		names, imgs := []string{"a", "b"}, []string{"i1", "i2"}
		// the directories start from different states: empty, or already holding another image as "b"
		var worlds []*World
		var inits []map[string][]byte
		var vcss []endorse.VersionControl
		for k := 0; k < n; k++ {
			head := map[string][]byte{}
			if taken && k == 0 {
				w0, ret, msg := runEndorse(head, poolImage("i2"), "a", false, false, false)
				if ret != "ok" {
					run.Infra(fmt.Errorf("two-directories fixture: %s %s", ret, msg))
					return
				}
				head = w0.Head
			} else if k%2 == 1 {
				w0, ret, msg := runEndorse(head, poolImage("i2"), "b", false, false, false)
				if ret != "ok" {
					run.Infra(fmt.Errorf("two-directories fixture: %s %s", ret, msg))
					return
				}
				head = w0.Head
			}
			w := &World{Root: root, OutDir: outDir, Head: copyMap(head), D: passDecider{}}
			worlds = append(worlds, w)
			inits = append(inits, copyMap(head))
			vcss = append(vcss, w)
		}
		ca, signer, err := fx.DevAuthority()
		if err != nil {
			run.Infra(err)
			return
		}
		kc := &keys.Context{CA: ca, Signer: signer, Random: fx.NewLockedRand(3)}
		ectx := &endorse.Context{SevSnp: request(), ClSpec: 12345, Timestamp: fx.DevNow, OutDir: outDir, Image: poolImage("i1"), CandidateName: candidateOf("a"), VCSs: vcss}
		ret, msg := "ok", ""
		func() {
			defer func() {
				if r := recover(); r != nil {
					ret, msg = "panic", fmt.Sprint(r)
				}
			}()
			if err := endorse.VirtualFirmware(endorse.NewContext(fx.Ctx(kc, ow, kg), ectx)); err != nil {
				ret, msg = "err", err.Error()
			}
		}()
		if ret != "ok" && !taken {
			// nothing in these directories stands in the way of the run
			run.Violation("several-directories-refused", fmt.Sprintf("one run over %d release directories none of which holds the name or the digest (overwrite %v) fails: %s %s", n, ow, ret, msg), nil)
		}
		for k, w := range worlds {
			from := inits[k]
			_, _, fs := checkStep(from, w, ret, mAct{Op: "endorse", Img: "i1", Name: "a", Ow: ow}, names, imgs)
			for _, f := range fs {
				run.Violation(f.Key+":several-directories", fmt.Sprintf("one run over %d release directories (returned %s %s), directory %d: %s", n, ret, msg, k+1, f.What), map[string]any{"directories": n, "directory": k + 1, "returned": ret})
			}
		}
		run.Case(fmt.Sprintf("several-directories:%d:%v:%v:%v", n, ow, kg, taken), true)
	}
	run.Exhaustive = true
	run.Rule = "every transition of the reachable closure of ManifestIndex.tla (pool of 3x3 quick / 4x4 thorough images x names x overwrite x keep-going, plus dry runs and snapshot runs) is materialised as a real version-control head, one real endorse.VirtualFirmware run is made and the C13 predicates are evaluated on the projected result; plus seeded random walks over a 7x6 pool on the in-memory backend and on localnonvcs with real files; non-trivial = source manifest non-empty"
}

func sameEntries(a, b []mEntry) bool {
	if len(a) == 0 && len(b) == 0 {
		return true
	}
	return reflect.DeepEqual(a, b)
}

// runEndorseDisk runs endorse through testing/nonprod/localnonvcs on a real directory and returns a
// World whose Head mirrors the directory afterwards (paths rebased to the in-memory root).
func runEndorseDisk(dir string, img []byte, candidate string, overwrite, snapshot, keepGoing bool, dry ...bool) (*World, string, string) {
	candidate = candidateOf(candidate)
	ca, signer, err := fx.DevAuthority()
	if err != nil {
		return nil, "infra", err.Error()
	}
	kc := &keys.Context{CA: ca, Signer: signer, Random: fx.NewLockedRand(3)}
	ectx := &endorse.Context{SevSnp: request(), Image: img, ClSpec: 12345, Timestamp: fx.DevNow, VCS: &localnonvcs.T{Root: dir}, OutDir: outDir, CandidateName: candidate, DryRun: len(dry) > 0 && dry[0]}
	if snapshot {
		ectx.SnapshotDir = "snap"
		ectx.ImageName = "fw.fd"
	}
	ctx := endorse.NewContext(fx.Ctx(kc, overwrite, keepGoing), ectx)
	ret, msg := "ok", ""
	func() {
		defer func() {
			if r := recover(); r != nil {
				ret, msg = "panic", fmt.Sprint(r)
			}
		}()
		if err := endorse.VirtualFirmware(ctx); err != nil {
			ret, msg = "err", err.Error()
		}
	}()
	w := &World{Root: root, OutDir: outDir, Head: map[string][]byte{}}
	filepath.Walk(dir, func(p string, info os.FileInfo, err error) error {
		if err == nil && !info.IsDir() {
			b, _ := os.ReadFile(p)
			rel, _ := filepath.Rel(dir, p)
			w.Head[path.Join(root, rel)] = b
		}
		return nil
	})
	return w, ret, msg
}

var _ = sort.Strings
