// Package ec binds spec/EndorseCommit.tla to endorse.VirtualFirmware: recording / scripted doubles
// for VersionControl, ChangeOps, CertificateAuthority and Signer, behaviour replay, the C13/C14/C15
// predicates on recorded call logs, and TLC trace validation of those logs.
package ec

import (
	"bytes"
	"context"
	"crypto"
	"crypto/sha512"
	"errors"
	"fmt"
	"os"
	"path"
	"sort"
	"strings"
	"sync"

	"github.com/google/gce-tcb-verifier/endorse"
	rpb "github.com/google/gce-tcb-verifier/proto/releases"
	styp "github.com/google/gce-tcb-verifier/sign/types"
	"google.golang.org/protobuf/encoding/prototext"
)

// Event is the record logged for one interface call; identical in shape to the spec's `ev`.
type Event struct {
	Op  string `json:"op"`
	Ws  int    `json:"ws"`
	Out string `json:"out"`
}

var (
	errRetriable = errors.New("injected retriable backend error")
	errPermanent = errors.New("injected permanent backend error")
)

// Decider chooses the outcome of a call. natural is what the backend would answer without a
// fault ("ok", "notfound", "found", "conflict"); the result is natural, "retriable" or "permanent".
// It may also ask for concurrent-writer commits to happen before the call (others > 0).
type Decider interface {
	Decide(op string, ws int, natural string) (out string)
	OthersBefore(op string) int
}

// World is the shared state of one endorse run: the version-control head, the event log, the
// decider; it implements endorse.VersionControl.
type World struct {
	mu      sync.Mutex
	Root    string
	OutDir  string
	Head    map[string][]byte
	Log     []Event
	D       Decider
	nextWs  int
	nOthers int
	nPerm   int
	Others  []string // entry names committed by the concurrent writer
	// SignedDigests records the SHA-256 digests handed to Signer.Sign.
	SignedDigests [][]byte
	Results       []string
	// NilCommit: a successful TryCommit is represented by nil (as testing/nonprod/localnonvcs does);
	// OnCommit runs when a commit has landed, before TryCommit returns
	NilCommit bool
	OnCommit  func()
	// OnManifestWrite runs when an attempt has written the manifest into its workspace (the last
	// workspace operation of the change step)
	OnManifestWrite func()
}

// markedPermanent: how this backend says "do not retry" -- a marker wrapped around the underlying
// error (the backoff.Permanent idiom); what is underneath may well look transient
type markedPermanent struct{ inner error }

func (m *markedPermanent) Error() string { return "permanent: " + m.inner.Error() }
func (m *markedPermanent) Unwrap() error { return m.inner }

func (w *World) log(op string, ws int, out string) { w.Log = append(w.Log, Event{op, ws, out}) }

func (w *World) errFor(op, out string) error {
	switch out {
	case "retriable":
		return fmt.Errorf("%s: %w", op, errRetriable)
	case "permanent":
		// in turn: a marker around an error that is transient underneath, a permanent error caused by a deadline, a flat permanent error
		// (which form: by the position in the run's history, so that every form occurs as a run's first
		// permanent error)
		w.nPerm++
		switch len(w.Log) % 3 {
		case 1:
			return &markedPermanent{inner: fmt.Errorf("%s: %w", op, errRetriable)}
		case 2:
			// a permanent refusal whose cause is a deadline (the backend knows that retrying cannot help,
			// e.g. the submission may have landed): whether to retry is the backend's call, not the error type's
			return fmt.Errorf("%s: %w: %w", op, errPermanent, context.DeadlineExceeded)
		}
		return fmt.Errorf("%s: %w", op, errPermanent)
	case "conflict":
		return fmt.Errorf("%s: merge conflict: %w", op, errRetriable)
	}
	return nil
}

func (w *World) manifestPath() string { return path.Join(w.Root, w.OutDir, endorse.ManifestFile) }

// ParseManifest parses manifest bytes (empty = empty map).
func ParseManifest(b []byte) (*rpb.VMEndorsementMap, error) {
	m := &rpb.VMEndorsementMap{}
	if err := prototext.Unmarshal(b, m); err != nil {
		return nil, err
	}
	return m, nil
}

// OtherDigest is the firmware digest the concurrent writer's n-th entry carries.
func OtherDigest(name string) []byte {
	d := sha512.Sum384([]byte("other firmware " + name))
	return d[:]
}

// otherCommit models someone else committing an endorsement + manifest entry to the head.
func (w *World) otherCommit() {
	w.nOthers++
	name := fmt.Sprintf("o%d", w.nOthers)
	m, err := ParseManifest(w.Head[w.manifestPath()])
	if err != nil {
		m = &rpb.VMEndorsementMap{}
	}
	m.Entries = append(m.Entries, &rpb.VMEndorsementMap_Entry{Digest: OtherDigest(name), Path: name + ".binarypb"})
	b, _ := prototext.Marshal(m)
	w.Head[w.manifestPath()] = append([]byte("# other writer\n"), b...)
	w.Head[path.Join(w.Root, w.OutDir, name+".binarypb")] = []byte("endorsement of " + name)
	w.Others = append(w.Others, name)
	w.log("Other", 0, name)
}

func (w *World) maybeOthers(op string) {
	for n := w.D.OthersBefore(op); n > 0; n-- {
		w.otherCommit()
	}
}

// GetChangeOps implements endorse.VersionControl.
func (w *World) GetChangeOps(context.Context) (endorse.ChangeOps, error) {
	w.mu.Lock()
	defer w.mu.Unlock()
	w.maybeOthers("GetOps")
	out := w.D.Decide("GetOps", 0, "ok")
	if out != "ok" {
		w.log("GetOps", 0, out)
		return nil, w.errFor("GetChangeOps", out)
	}
	w.nextWs++
	ws := &Workspace{w: w, id: w.nextWs, base: copyMap(w.Head), cur: copyMap(w.Head)}
	w.log("GetOps", ws.id, "ok")
	return ws, nil
}

// RetriableError implements endorse.VersionControl.
func (w *World) RetriableError(err error) bool {
	w.mu.Lock()
	defer w.mu.Unlock()
	var mp *markedPermanent
	r := errors.Is(err, errRetriable) && !errors.As(err, &mp)
	w.log("Retriable", 0, fmt.Sprint(r))
	return r
}

// Result implements endorse.VersionControl.
func (w *World) Result(commit any, p string) {
	w.mu.Lock()
	defer w.mu.Unlock()
	w.Results = append(w.Results, fmt.Sprintf("%v|%s", commit, p))
	w.log("Result", 0, "ok")
}

// ReleasePath implements endorse.VersionControl.
func (w *World) ReleasePath(_ context.Context, p string) string { return path.Join(w.Root, p) }

func copyMap(m map[string][]byte) map[string][]byte {
	r := make(map[string][]byte, len(m))
	for k, v := range m {
		r[k] = append([]byte(nil), v...)
	}
	return r
}

func sameMap(a, b map[string][]byte) bool {
	if len(a) != len(b) {
		return false
	}
	for k, v := range a {
		if bv, ok := b[k]; !ok || !bytes.Equal(v, bv) {
			return false
		}
	}
	return true
}

// Workspace implements endorse.ChangeOps: a private copy of the head taken at creation.
type Workspace struct {
	w         *World
	id        int
	base, cur map[string][]byte
	destroyed bool
	committed bool
}

type notFound struct{ p string }

func (n *notFound) Error() string { return "workspace: no such file " + n.p }

func (ws *Workspace) fileOpName(paths []string) string {
	for _, p := range paths {
		if p == ws.w.manifestPath() {
			return "WriteMan"
		}
	}
	for _, p := range paths {
		if strings.HasSuffix(p, ".signed") {
			return "WriteSig"
		}
	}
	for _, p := range paths {
		if strings.HasSuffix(p, ".binarypb") {
			return "WriteEndo"
		}
	}
	return "WriteFw"
}

func (ws *Workspace) used() string {
	if ws.destroyed {
		return "!use-after-destroy"
	}
	return ""
}

// WriteOrCreateFiles implements endorse.ChangeOps.
func (ws *Workspace) WriteOrCreateFiles(_ context.Context, files ...*endorse.File) error {
	w := ws.w
	w.mu.Lock()
	defer w.mu.Unlock()
	var paths []string
	for _, f := range files {
		paths = append(paths, f.Path)
	}
	op := ws.fileOpName(paths) + ws.used()
	out := w.D.Decide(op, ws.id, "ok")
	w.log(op, ws.id, out)
	if out != "ok" {
		return w.errFor(op, out)
	}
	for _, f := range files {
		ws.cur[f.Path] = append([]byte(nil), f.Contents...)
		if f.Path == w.manifestPath() && w.OnManifestWrite != nil {
			w.OnManifestWrite()
		}
	}
	return nil
}

// ReadFile implements endorse.ChangeOps.
func (ws *Workspace) ReadFile(_ context.Context, p string) ([]byte, error) {
	w := ws.w
	w.mu.Lock()
	defer w.mu.Unlock()
	b, ok := ws.cur[p]
	if p == w.manifestPath() {
		w.maybeOthers("ReadMan")
		nat := "ok"
		if !ok {
			nat = "notfound"
		}
		op := "ReadMan" + ws.used()
		out := w.D.Decide(op, ws.id, nat)
		w.log(op, ws.id, out)
		if out == "notfound" {
			return nil, &notFound{p}
		}
		if out != "ok" {
			return nil, w.errFor(op, out)
		}
		return append([]byte(nil), b...), nil
	}
	nat := "found"
	if !ok {
		nat = "notfound"
	}
	op := "Exists" + ws.used()
	out := w.D.Decide(op, ws.id, nat)
	w.log(op, ws.id, out)
	switch out {
	case "found":
		return append([]byte(nil), b...), nil
	case "notfound":
		return nil, &notFound{p}
	}
	return nil, w.errFor(op, out)
}

// SetBinaryWritable implements endorse.ChangeOps.
func (ws *Workspace) SetBinaryWritable(_ context.Context, p string) error {
	w := ws.w
	w.mu.Lock()
	defer w.mu.Unlock()
	op := "Chmod" + ws.used()
	out := w.D.Decide(op, ws.id, "ok")
	w.log(op, ws.id, out)
	if out != "ok" {
		return w.errFor(op, out)
	}
	if _, ok := ws.cur[p]; !ok {
		return fmt.Errorf("chmod of missing file %s: %w", p, errPermanent)
	}
	return nil
}

// IsNotFound implements endorse.ChangeOps.
func (ws *Workspace) IsNotFound(err error) bool {
	var nf *notFound
	return errors.As(err, &nf) || errors.Is(err, os.ErrNotExist)
}

// Destroy implements endorse.ChangeOps.
func (ws *Workspace) Destroy() {
	w := ws.w
	w.mu.Lock()
	defer w.mu.Unlock()
	w.log("Destroy"+ws.used(), ws.id, "ok")
	ws.destroyed = true
}

// TryCommit implements endorse.ChangeOps: optimistic concurrency on the whole head.
func (ws *Workspace) TryCommit(context.Context) (any, error) {
	w := ws.w
	w.mu.Lock()
	defer w.mu.Unlock()
	nat := "ok"
	if !sameMap(w.Head, ws.base) {
		nat = "conflict"
	}
	op := "Commit" + ws.used()
	out := w.D.Decide(op, ws.id, nat)
	w.log(op, ws.id, out)
	if out != "ok" {
		return nil, w.errFor(op, out)
	}
	w.Head = copyMap(ws.cur)
	ws.committed = true
	if w.OnCommit != nil {
		w.OnCommit()
	}
	if w.NilCommit {
		return nil, nil
	}
	return fmt.Sprintf("commit-of-ws-%d", ws.id), nil
}

// HeadManifest returns the entries of the committed manifest as name → hex digest.
func (w *World) HeadManifest() (map[string][]byte, []string, error) {
	m, err := ParseManifest(w.Head[w.manifestPath()])
	if err != nil {
		return nil, nil, err
	}
	r := map[string][]byte{}
	var order []string
	for _, e := range m.Entries {
		r[e.Path] = e.Digest
		order = append(order, e.Path)
	}
	sort.Strings(order)
	return r, order, nil
}

// CA wraps a real CertificateAuthority and logs / faults the three calls SignDoc makes.
type CA struct {
	styp.CertificateAuthority
	W *World
}

func (c *CA) call(op string) error {
	c.W.mu.Lock()
	defer c.W.mu.Unlock()
	out := c.W.D.Decide(op, 0, "ok")
	c.W.log(op, 0, out)
	return c.W.errFor(op, out)
}

func (c *CA) PrimarySigningKeyVersion(ctx context.Context) (string, error) {
	if err := c.call("CAPrimary"); err != nil {
		return "", err
	}
	return c.CertificateAuthority.PrimarySigningKeyVersion(ctx)
}
func (c *CA) Certificate(ctx context.Context, k string) ([]byte, error) {
	if err := c.call("CACert"); err != nil {
		return nil, err
	}
	return c.CertificateAuthority.Certificate(ctx, k)
}
func (c *CA) CABundle(ctx context.Context, k string) ([]byte, error) {
	if err := c.call("CABundle"); err != nil {
		return nil, err
	}
	return c.CertificateAuthority.CABundle(ctx, k)
}
func (c *CA) PrimaryRootKeyVersion(ctx context.Context) (string, error) {
	c.call("CAOther")
	return c.CertificateAuthority.PrimaryRootKeyVersion(ctx)
}
func (c *CA) NewMutation() styp.CertificateAuthorityMutation {
	c.call("CAOther")
	return c.CertificateAuthority.NewMutation()
}
func (c *CA) Finalize(ctx context.Context, m styp.CertificateAuthorityMutation) error {
	c.call("CAOther")
	return c.CertificateAuthority.Finalize(ctx, m)
}
func (c *CA) Wipeout(ctx context.Context) error {
	c.call("CAOther")
	return c.CertificateAuthority.Wipeout(ctx)
}

// Signer wraps a real signer.
type Signer struct {
	styp.Signer
	W *World
}

func (s *Signer) Sign(ctx context.Context, k string, d styp.Digest, o crypto.SignerOpts) ([]byte, error) {
	s.W.mu.Lock()
	out := s.W.D.Decide("Sign", 0, "ok")
	s.W.log("Sign", 0, out)
	s.W.SignedDigests = append(s.W.SignedDigests, append([]byte(nil), d.SHA256...))
	s.W.mu.Unlock()
	if out != "ok" {
		return nil, s.W.errFor("Sign", out)
	}
	return s.Signer.Sign(ctx, k, d, o)
}
func (s *Signer) PublicKey(ctx context.Context, k string) ([]byte, error) {
	s.W.mu.Lock()
	s.W.log("SignerOther", 0, "ok")
	s.W.mu.Unlock()
	return s.Signer.PublicKey(ctx, k)
}
