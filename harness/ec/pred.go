package ec

import (
	"bytes"
	"fmt"
	"sort"
	"strings"
)

// Finding is one way in which a recorded run breaks a property predicate.
type Finding struct {
	Prop, Key, What string
}

func max(a, b int) int {
	if a > b {
		return a
	}
	return b
}

// PredC14 evaluates the C14 statement on the recorded call log and final head of one run that was
// neither dry-run nor measurement-only.
func PredC14(o *Obs) []Finding {
	var fs []Finding
	add := func(key, f string, a ...any) { fs = append(fs, Finding{"C14", key, fmt.Sprintf(f, a...)}) }
	cfg := o.Cfg
	// split into attempts at GetOps events
	attempts := 0
	curWs := 0             // workspace of the running attempt (0 = none)
	open := map[int]bool{} // created and not destroyed
	okCommits := 0
	results := 0
	committedWs := 0
	readManIn := map[int]bool{}
	lastFail := "" // kind of the failure that ended the previous attempt
	attemptFailed := false
	seenWs := map[int]bool{}
	for i, e := range o.Log {
		if strings.Contains(e.Op, "!use-after-destroy") {
			add("use-after-destroy", "event %d %v: workspace used after Destroy", i, e)
		}
		switch e.Op {
		case "GetOps":
			attempts++
			if attempts > 1 {
				if lastFail != "retriable" {
					add("retry-nonretriable", "attempt %d started although the previous attempt ended with a %q error", attempts, lastFail)
				}
				for id := range open {
					if id != committedWs {
						add("workspace-leak", "attempt %d started while workspace %d of a failed attempt was not destroyed", attempts, id)
					}
				}
			}
			attemptFailed = false
			lastFail = ""
			if e.Out == "ok" {
				if seenWs[e.Ws] {
					add("stale-workspace", "workspace %d handed out twice", e.Ws)
				}
				seenWs[e.Ws] = true
				open[e.Ws] = true
				curWs = e.Ws
			} else {
				curWs = 0
				lastFail = e.Out
				attemptFailed = true
			}
		case "ReadMan", "Exists", "WriteEndo", "Chmod", "WriteMan", "WriteSig", "WriteFw", "Commit":
			if e.Ws != curWs || curWs == 0 {
				add("stale-workspace", "event %d %v uses workspace %d but the current attempt's workspace is %d", i, e, e.Ws, curWs)
			}
			if attemptFailed {
				add("op-after-failure", "event %d %v: the attempt continued after a failed call", i, e)
			}
			if e.Op == "ReadMan" && (e.Out == "ok" || e.Out == "notfound") {
				readManIn[e.Ws] = true
			}
			if e.Op == "WriteMan" && !readManIn[e.Ws] {
				add("manifest-not-read-in-attempt", "manifest written in workspace %d without having been read there", e.Ws)
			}
			switch e.Out {
			case "retriable", "conflict":
				lastFail, attemptFailed = "retriable", true
			case "permanent":
				lastFail, attemptFailed = "permanent", true
			case "found":
				if e.Op == "Exists" && !cfg.Overwrite {
					lastFail, attemptFailed = "permanent", true // cannot overwrite: the code must give up
				}
			}
			if e.Op == "Commit" && e.Out == "ok" {
				okCommits++
				committedWs = e.Ws
			}
		case "Destroy":
			if !open[e.Ws] {
				add("double-destroy", "workspace %d destroyed but not open", e.Ws)
			}
			delete(open, e.Ws)
		case "Result":
			results++
			if okCommits != results {
				add("dishonest-result", "Result recorded (%d) without a matching successful commit (%d)", results, okCommits)
			}
		case "Return":
			for id := range open {
				if id != committedWs {
					add("workspace-leak", "returned %q while workspace %d of a failed attempt was not destroyed", e.Out, id)
				}
			}
		}
	}
	if bound := max(1, cfg.Retries+1); attempts > bound {
		add("attempt-bound", "%d attempts made with retry budget %d (bound %d)", attempts, cfg.Retries, bound)
	}
	if (o.Ret == "ok") != (okCommits == 1) || okCommits > 1 {
		add("dishonest-result", "returned %q with %d successful commits", o.Ret, okCommits)
	}
	if results != okCommits {
		add("dishonest-result", "%d Result calls for %d successful commits", results, okCommits)
	}
	// no lost update: every concurrent entry is in the final manifest (and its file in the head)
	if o.ManifestErr != "" {
		add("manifest-unparseable", "final manifest does not parse: %s", o.ManifestErr)
	}
	names := map[string]int{}
	for _, n := range o.HeadNames {
		names[n]++
	}
	for _, on := range o.Others {
		if names[on] != 1 {
			add("lost-update", "entry %s committed by the concurrent writer is missing from the final manifest %v", on, o.HeadNames)
		}
	}
	if o.Ret == "ok" && !cfg.Snapshot {
		if names["mine"] != 1 {
			add("missing-entry", "run succeeded but the manifest %v has no entry for its firmware digest", o.HeadNames)
		}
		g, err := SignedGolden(o.Head[o.EndoPath])
		if err != nil || !bytes.Equal(g.GetDigest(), o.MineDigest) {
			add("missing-entry", "run succeeded but the committed endorsement file does not carry its firmware digest (err=%v)", err)
		}
	}
	if o.Ret != "ok" {
		// a failed run must not have changed the head (apart from the concurrent writer)
		if !bytes.Equal(o.Head[o.EndoPath], o.Head0[o.EndoPath]) {
			add("dishonest-result", "returned %q but the committed endorsement file changed", o.Ret)
		}
		if names["mine"] != 0 {
			add("dishonest-result", "returned %q but the manifest lists the new entry", o.Ret)
		}
	}
	return fs
}

// PredC13Clobber: without overwrite permission an existing endorsement file is never replaced.
func PredC13Clobber(o *Obs) []Finding {
	if o.Cfg.Exists0 && !o.Cfg.Overwrite && !bytes.Equal(o.Head[o.EndoPath], o.Head0[o.EndoPath]) {
		return []Finding{{"C13", "clobber", "existing endorsement file replaced without overwrite permission"}}
	}
	return nil
}

// PredC15 evaluates the side-effect clauses of C15 on one dry-run or measurement-only run.
func PredC15(o *Obs) []Finding {
	var fs []Finding
	add := func(key, f string, a ...any) { fs = append(fs, Finding{"C15", key, fmt.Sprintf(f, a...)}) }
	cfg := o.Cfg
	if !cfg.DryRun && !cfg.MeasOnly {
		return nil
	}
	mode := "dry-run"
	if cfg.MeasOnly {
		mode = "measurement-only"
	}
	if o.Ret == "panic" {
		add(mode+"-panic", "%s run panicked: %s", mode, o.RetErr)
	}
	for _, e := range o.Log {
		switch e.Op {
		case "GetOps":
			add(mode+"-workspace", "%s run created a workspace", mode)
		case "WriteEndo", "WriteMan", "WriteSig", "WriteFw":
			add(mode+"-write", "%s run wrote a file (%s)", mode, e.Op)
		case "Chmod":
			add(mode+"-write", "%s run changed a file mode", mode)
		case "Commit":
			add(mode+"-commit", "%s run committed", mode)
		case "CAPrimary", "CACert", "CABundle", "CAOther":
			if cfg.MeasOnly {
				add("measurement-only-ca", "measurement-only run used the certificate authority (%s)", e.Op)
			}
		case "Sign", "SignerOther":
			if cfg.MeasOnly {
				add("measurement-only-signer", "measurement-only run used the signer (%s)", e.Op)
			}
		}
	}
	if !sameMap(o.Head, o.Head0) {
		add(mode+"-write", "%s run changed the committed head", mode)
	}
	return fs
}

// LogString renders a log compactly.
func LogString(l []Event) string {
	var b strings.Builder
	for i, e := range l {
		if i > 0 {
			b.WriteByte(' ')
		}
		fmt.Fprintf(&b, "%s", e.Op)
		if e.Ws != 0 {
			fmt.Fprintf(&b, "#%d", e.Ws)
		}
		if e.Out != "ok" {
			fmt.Fprintf(&b, "=%s", e.Out)
		}
	}
	return b.String()
}

func sortedCopy(s []string) []string {
	r := append([]string(nil), s...)
	sort.Strings(r)
	return r
}
