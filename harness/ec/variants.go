package ec

import (
	"encoding/hex"
	"fmt"
	"path"

	"github.com/google/gce-tcb-verifier/endorse"
	"github.com/google/gce-tcb-verifier/keys"
	"github.com/google/gce-tcb-verifier/sev"
	"github.com/google/gce-tcb-verifier/tdx"
	"github.com/google/go-sev-guest/proto/sevsnp"

	"verifharness/fx"
)

// Variant is one point of the C15 configuration sweep.
type Variant struct {
	Name      string
	Snp, Tdx  bool
	Vmsas     uint32
	Shapes    []string
	EarlyAcc  bool
	Snapshot  bool
	Overwrite bool
	Candidate string
	AlsoDry   bool
	Svn       uint32
	Genoa     bool // SEV-SNP product line (false: Milan)
	AutoID    bool // no image id is given: the tool picks one
}

var img2M = fx.Image(2*1024*1024, 5)

// Variants enumerates technology × VMSA × shape × snapshot × overwrite × candidate × (dry ∧ meas).
func Variants(quick bool) []Variant {
	var vs []Variant
	techs := []struct{ snp, tdx bool }{{true, false}, {false, true}, {true, true}}
	for _, t := range techs {
		for _, vm := range []uint32{0, 1, 4} {
			if !t.snp && vm != 0 {
				continue
			}
			for _, sh := range [][]string{nil, {"c3-standard-4"}} {
				if !t.tdx && sh != nil {
					continue
				}
				for _, snap := range []bool{false, true} {
					for _, ow := range []bool{false, true} {
						for _, cand := range []string{"", "rc1"} {
							for _, also := range []bool{false, true} {
								if quick && (ow != snap || (cand != "") != also) {
									continue // quick: a pairwise-ish subset
								}
								v := Variant{Snp: t.snp, Tdx: t.tdx, Vmsas: vm, Shapes: sh, EarlyAcc: sh != nil, Snapshot: snap, Overwrite: ow, Candidate: cand, AlsoDry: also}
								if snap {
									v.Svn = 3
								}
								// the product decides where the VMSA pages are measured: alternate it over the sweep
								// (thorough: both products for every SNP variant)
								prods := []bool{len(vs)%2 == 1}
								if !quick && t.snp {
									prods = []bool{false, true}
								}
								for _, genoa := range prods {
									v := v
									v.Genoa = genoa && t.snp
									v.AutoID = t.snp && len(vs)%3 != 1 // two thirds of the SNP variants leave the image id to the tool
									v.Name = fmt.Sprintf("snp=%v tdx=%v vmsas=%d shapes=%v snapshot=%v overwrite=%v candidate=%q meas+dry=%v genoa=%v autoid=%v", t.snp, t.tdx, vm, sh, snap, ow, cand, also, v.Genoa, v.AutoID)
									vs = append(vs, v)
								}
							}
						}
					}
				}
			}
		}
	}
	return vs
}

func (v Variant) run(cfg Cfg, d Decider) *Obs {
	w := &World{Root: root, OutDir: outDir, Head: map[string][]byte{}, D: d}
	ca, signer, err := fx.DevAuthority()
	if err != nil {
		return &Obs{Cfg: cfg, Ret: "infra", RetErr: err.Error()}
	}
	kc := &keys.Context{CA: &CA{CertificateAuthority: ca, W: w}, Signer: &Signer{Signer: signer, W: w}, Random: fx.NewLockedRand(3)}
	ectx := &endorse.Context{Image: img2M, ClSpec: 777, Timestamp: fx.DevNow, VCS: w, CommitRetries: cfg.Retries, OutDir: outDir,
		DryRun: cfg.DryRun, MeasurementOnly: cfg.MeasOnly, CandidateName: v.Candidate}
	if v.Snp {
		product := sevsnp.SevProduct_SEV_PRODUCT_MILAN
		if v.Genoa {
			product = sevsnp.SevProduct_SEV_PRODUCT_GENOA
		}
		ectx.SevSnp = &sev.SnpEndorsementRequest{Product: product, LaunchVmsas: v.Vmsas, ImageID: "11111111-2222-3333-4444-555555555555", Svn: v.Svn}
		if v.AutoID {
			ectx.SevSnp.ImageID = ""
		}
	}
	if v.Tdx {
		ectx.Tdx = &tdx.EndorsementRequest{MachineShapes: v.Shapes, IncludeEarlyAccept: v.EarlyAcc, Svn: v.Svn}
	}
	if cfg.Snapshot {
		ectx.SnapshotDir = "snap"
		ectx.ImageName = "fw.fd"
	}
	wiring := wire(ectx, w)
	ctx := endorse.NewContext(fx.Ctx(kc, cfg.Overwrite, false), ectx)
	o := &Obs{Cfg: cfg, Wiring: wiring, Head0: map[string][]byte{}, MineDigest: digestOf(img2M)}
	name := "endorsement"
	if v.Candidate != "" {
		name = v.Candidate
	}
	o.EndoPath = path.Join(root, outDir, name+".binarypb")
	if cfg.Snapshot {
		o.EndoPath = path.Join(root, "snap", "fw.fd.signed")
	}
	o.ManPath = path.Join(root, outDir, endorse.ManifestFile)
	runVF(ctx, cfg, w, o)
	return o
}

// expectedLines renders the measurement-only output a real run's signed document implies.
func (v Variant) expectedLines(realO *Obs) []string {
	g, err := SignedGolden(realO.Head[realO.EndoPath])
	if err != nil {
		return []string{"<real run's endorsement unreadable: " + err.Error() + ">"}
	}
	var lines []string
	if g.SevSnp != nil {
		if v.Vmsas != 0 {
			lines = append(lines, hex.EncodeToString(g.SevSnp.Measurements[v.Vmsas]))
		} else {
			for n, m := range g.SevSnp.Measurements {
				lines = append(lines, fmt.Sprintf("%d %s", n, hex.EncodeToString(m)))
			}
		}
	}
	if g.Tdx != nil {
		for _, m := range g.Tdx.Measurements {
			lines = append(lines, fmt.Sprintf("RAM:%d UnacceptedMemory:%t MRTD:%s", m.RamGib, !m.EarlyAccept, hex.EncodeToString(m.Mrtd)))
		}
	}
	return lines
}
