package ec

// The endorse COMMAND (cmd.MakeApp, real flag handling and initialisation) in its three modes, with
// the recording doubles injected through the Global component slot: what the flag layer does before
// endorse.VirtualFirmware is part of a dry run / a measurement-only run too.

import (
	"bytes"
	"context"
	"crypto/rand"
	"encoding/hex"
	"fmt"
	"io"
	"os"
	"path/filepath"
	"strings"

	"github.com/google/gce-tcb-verifier/cmd"
	"github.com/google/gce-tcb-verifier/endorse"
	"github.com/google/gce-tcb-verifier/keys"
	"github.com/google/gce-tcb-verifier/storage/local"
	"github.com/google/gce-tcb-verifier/testing/nonprod/localnonvcs"
	"github.com/spf13/cobra"

	"verifharness/fx"
	"verifharness/vk"
)

type cliGlobal struct {
	w  *World // nil: the version-control backend is left to the Endorse component (the disk-backed one)
	kc *keys.Context
}

func (g *cliGlobal) AddFlags(*cobra.Command)                          {}
func (g *cliGlobal) PersistentPreRunE(*cobra.Command, []string) error { return nil }
func (g *cliGlobal) InitContext(ctx context.Context) (context.Context, error) {
	kc, err := keys.FromContext(ctx)
	if err != nil {
		return nil, err
	}
	kc.CA, kc.Signer = g.kc.CA, g.kc.Signer
	ec, err := endorse.FromContext(ctx)
	if err != nil {
		return nil, err
	}
	if g.w != nil {
		ec.VCS = g.w
	}
	return ctx, nil
}

// runEndorseCLI runs `endorse <args>` in-process against a fresh in-memory world.
func runEndorseCLI(cfg Cfg, args []string) *Obs {
	w := &World{Root: root, OutDir: outDir, Head: map[string][]byte{}, D: passDecider{}}
	ca, signer, err := fx.DevAuthority()
	if err != nil {
		return &Obs{Cfg: cfg, Ret: "infra", RetErr: err.Error()}
	}
	g := &cliGlobal{w: w, kc: &keys.Context{CA: &CA{CertificateAuthority: ca, W: w}, Signer: &Signer{Signer: signer, W: w}}}
	o := &Obs{Cfg: cfg, Wiring: "endorse command", Head0: map[string][]byte{}, MineDigest: digestOf(img2M)}
	app := cmd.MakeApp(context.Background(), &cmd.AppComponents{Global: g, SignatureRandom: rand.Reader, Storage: &local.StorageClient{}})
	app.SetOut(io.Discard)
	app.SetErr(io.Discard)
	app.SilenceErrors, app.SilenceUsage = true, true
	app.SetArgs(append([]string{"endorse", "--quiet"}, args...))
	runVFWith(func() error { return app.Execute() }, cfg, w, o)
	o.Head = w.Head
	o.SignedDigests = w.SignedDigests
	return o
}

// treeOf lists every file and directory under dir (names and sizes).
func treeOf(dir string) string {
	var b strings.Builder
	filepath.Walk(dir, func(p string, info os.FileInfo, err error) error {
		if err == nil && p != dir {
			fmt.Fprintf(&b, "%s:%d;", strings.TrimPrefix(p, dir), info.Size())
		}
		return nil
	})
	return b.String()
}

// diskModes: the command assembled with the repository's disk-backed version control
// (testing/nonprod/localnonvcs as the Endorse component): a dry run or a measurement-only run into a
// directory that does not exist yet leaves the file system exactly as it was.
func diskModes(run *vk.Run, fw string) {
	ca, signer, err := fx.DevAuthority()
	if err != nil {
		run.Infra(err)
		return
	}
	for _, mode := range [][]string{{"--dry_run"}, {"--measurement_only"}, {"--measurement_only", "--dry_run"}, {"--dry_run", "--snapshot_dir", "fresh/snap"}} {
		outRoot, err := os.MkdirTemp("", "vk-c15-disk-")
		if err != nil {
			run.Infra(err)
			return
		}
		w := &World{Root: root, OutDir: outDir, Head: map[string][]byte{}, D: passDecider{}}
		g := &cliGlobal{kc: &keys.Context{CA: &CA{CertificateAuthority: ca, W: w}, Signer: &Signer{Signer: signer, W: w}}}
		app := cmd.MakeApp(context.Background(), &cmd.AppComponents{Global: g, Endorse: &localnonvcs.T{}, SignatureRandom: rand.Reader, Storage: &local.StorageClient{}})
		app.SetOut(io.Discard)
		app.SetErr(io.Discard)
		app.SilenceErrors, app.SilenceUsage = true, true
		app.SetArgs(append([]string{"endorse", "--quiet", "--uefi", fw, "--add_snp", "--snp_launch_vmsas", "1", "--clspec", "5", "--out_root", outRoot, "--out_dir", "fresh/out"}, mode...))
		cfg := Cfg{DryRun: strings.Contains(strings.Join(mode, " "), "dry_run"), MeasOnly: mode[0] == "--measurement_only"}
		o := &Obs{Cfg: cfg, Wiring: "endorse command + localnonvcs", Head0: map[string][]byte{}, Head: map[string][]byte{}}
		before := treeOf(outRoot)
		runVFWith(func() error { return app.Execute() }, cfg, w, o)
		after := treeOf(outRoot)
		os.RemoveAll(outRoot)
		name := "endorse command with the disk-backed version control, " + strings.Join(mode, " ")
		run.Case("cli-disk|"+name, true)
		if o.Ret != "ok" {
			run.Violation("command-mode-fails", fmt.Sprintf("%s returns %s (%s)", name, o.Ret, o.RetErr), nil)
		}
		if before != after {
			run.Violation("dry-run-write:disk", fmt.Sprintf("%s changed the file system under --out_root: %q", name, after), map[string]any{"mode": mode, "tree_after": after})
		}
	}
}

// sweepC15CLI: real run, dry run and measurement-only run of the same command line (with an SVSM
// measurement file and an explicit timestamp, without them, with a snapshot directory).
func sweepC15CLI(run *vk.Run) {
	dir, err := os.MkdirTemp("", "vk-c15-cli-")
	if err != nil {
		run.Infra(err)
		return
	}
	defer os.RemoveAll(dir)
	fw := filepath.Join(dir, "fw.fd")
	svsm := filepath.Join(dir, "svsm.txt")
	os.WriteFile(fw, img2M, 0o600)
	os.WriteFile(svsm, []byte(hex.EncodeToString(fx.Sha384([]byte("svsm measurement")))+"\n"), 0o600)
	diskModes(run, fw)
	for _, withSvsm := range []bool{false, true} {
		for _, withTime := range []bool{false, true} {
			for _, snap := range []bool{false, true} {
				common := []string{"--uefi", fw, "--add_snp", "--snp_launch_vmsas", "1", "--snp_image_id", "11111111-2222-3333-4444-555555555555", "--clspec", "5", "--out_dir", outDir}
				name := fmt.Sprintf("endorse command svsm-measurement=%v timestamp-flag=%v snapshot=%v", withSvsm, withTime, snap)
				if withSvsm {
					common = append(common, "--svsm_snp_measurement_path", svsm)
				}
				if withTime {
					common = append(common, "--timestamp", "2025-03-01T00:00:00Z")
				}
				if snap {
					common = append(common, "--snapshot_dir", "snap")
				}
				realO := runEndorseCLI(Cfg{Snapshot: snap, Overwrite: true}, append(append([]string{}, common...), "--overwrite"))
				if realO.Ret != "ok" {
					run.Infra(fmt.Errorf("C15 command sweep: reference real run failed for %s: %s %s", name, realO.Ret, realO.RetErr))
					return
				}
				dry := runEndorseCLI(Cfg{DryRun: true, Snapshot: snap}, append(append([]string{}, common...), "--dry_run"))
				meas := runEndorseCLI(Cfg{MeasOnly: true, Snapshot: snap}, append(append([]string{}, common...), "--measurement_only"))
				measDry := runEndorseCLI(Cfg{MeasOnly: true, DryRun: true, Snapshot: snap}, append(append([]string{}, common...), "--measurement_only", "--dry_run"))
				for _, o := range []*Obs{dry, meas, measDry} {
					for _, f := range PredC15(o) {
						run.Violation(f.Key, f.What+" ["+name+"]", map[string]any{"variant": name, "cfg": o.Cfg, "log": o.Log, "returned": o.Ret, "error": o.RetErr})
					}
					if o.Ret != "ok" {
						run.Violation("command-mode-fails", fmt.Sprintf("the command succeeds as a real run but returns %s (%s) with cfg %+v [%s]", o.Ret, o.RetErr, o.Cfg, name), nil)
					}
					run.Case("cli|"+name+fmt.Sprint(o.Cfg), true)
				}
				// with an explicit timestamp and image id a single-count SNP document has one serialisation
				if withTime && dry.Ret == "ok" && (len(dry.SignedDigests) != 1 || len(realO.SignedDigests) != 1 || !bytes.Equal(dry.SignedDigests[0], realO.SignedDigests[0])) {
					run.Violation("dry-run-measurements-differ", "dry-run signs a different document than the real run ["+name+"]",
						map[string]any{"variant": name, "dry_signed": fmt.Sprintf("%x", dry.SignedDigests), "real_signed": fmt.Sprintf("%x", realO.SignedDigests)})
				}
				if meas.Ret == "ok" && realO.Ret == "ok" && meas.Stdout != measDry.Stdout {
					run.Violation("measurement-only-differs", "measurement-only prints something else with --dry_run than without ["+name+"]", map[string]any{"plain": meas.Stdout, "with_dry_run": measDry.Stdout})
				}
			}
		}
	}
}

// failOp fails one kind of call with a fixed outcome, every time.
type failOp struct{ op, out string }

func (f failOp) Decide(op string, _ int, natural string) string {
	if strings.HasPrefix(op, f.op) {
		return f.out
	}
	return natural
}
func (failOp) OthersBefore(string) int { return 0 }

// severalBackends: a request that names several version-control backends (Context.VCSs). The run
// reports success exactly when the commit landed on every backend it names, whatever the
// keep-going setting; a backend whose submission failed is never reported as done.
func severalBackends(run *vk.Run) {
	ca, signer, err := fx.DevAuthority()
	if err != nil {
		run.Infra(err)
		return
	}
	for _, keepGoing := range []bool{false, true} {
		for _, fail := range []failOp{{"Commit", "permanent"}, {"Commit", "retriable"}, {"GetOps", "permanent"}, {"ReadMan", "permanent"}, {"", ""}} {
			for _, failing := range []int{0, 1, 2} {
				ws := []*World{}
				var vcss []endorse.VersionControl
				for k := 0; k < 3; k++ {
					w := &World{Root: root, OutDir: outDir, Head: map[string][]byte{}, D: passDecider{}}
					if k == failing && fail.op != "" {
						w.D = fail
					}
					ws = append(ws, w)
					vcss = append(vcss, w)
				}
				kc := &keys.Context{CA: ca, Signer: signer, Random: fx.NewLockedRand(3)}
				ectx := &endorse.Context{SevSnp: request(), Image: imgMine, ClSpec: 12345, Timestamp: fx.DevNow, VCSs: vcss, CommitRetries: 1, OutDir: outDir}
				var rerr error
				func() {
					defer func() {
						if p := recover(); p != nil {
							rerr = fmt.Errorf("PANIC: %v", p)
						}
					}()
					rerr = endorse.VirtualFirmware(endorse.NewContext(fx.Ctx(kc, false, keepGoing), ectx))
				}()
				landed := 0
				for _, w := range ws {
					if len(w.Head) > 0 {
						landed++
					}
				}
				name := fmt.Sprintf("backends=3 failing=%d (%s %s) keep_going=%v", failing, fail.op, fail.out, keepGoing)
				run.Case("several-backends:"+name, true)
				if rerr == nil && landed != 3 {
					run.Violation("success-without-commit:several-backends", fmt.Sprintf("the run reports success although the commit landed on %d of the 3 backends it names [%s]", landed, name), map[string]any{"case": name})
				}
				if rerr != nil && fail.op == "" {
					run.Violation("failure-without-fault:several-backends", fmt.Sprintf("the run fails without any backend failing: %v [%s]", rerr, name), nil)
				}
			}
		}
	}
}
