package ec

import (
	"bytes"
	"encoding/hex"
	"encoding/json"
	"fmt"
	"math/rand"
	"reflect"
	"runtime"
	"sort"
	"strings"
	"sync"
	"time"

	"verifharness/ka"
	"verifharness/vk"
)

// RandDecider injects faults and concurrent commits at random.
type RandDecider struct {
	R         *rand.Rand
	PFault    float64
	POther    float64
	MaxOthers int
	others    int
}

func (d *RandDecider) Decide(op string, ws int, natural string) string {
	if natural == "conflict" {
		return natural // the backend detects the conflict before anything else can go wrong
	}
	if d.R.Float64() < d.PFault {
		if d.R.Intn(3) == 0 {
			return "permanent"
		}
		return "retriable"
	}
	return natural
}
func (d *RandDecider) OthersBefore(string) int {
	if d.others < d.MaxOthers && d.R.Float64() < d.POther {
		d.others++
		return 1
	}
	return 0
}

type traced struct {
	cfg   Cfg
	log   []Event
	what  string
	preds int // number of predicate findings (0 = predicates satisfied)
}

// traceLines renders recorded runs as the ndjson the trace spec reads.
func traceLines(ts []traced) ([]byte, []int) {
	var b bytes.Buffer
	var starts []int
	line := 1
	for _, t := range ts {
		starts = append(starts, line)
		c := map[string]any{"op": "Cfg", "ws": 0, "out": "", "retries": t.cfg.Retries, "dryRun": t.cfg.DryRun,
			"measOnly": t.cfg.MeasOnly, "snapshot": t.cfg.Snapshot, "exists0": t.cfg.Exists0, "overwrite": t.cfg.Overwrite}
		j, _ := json.Marshal(c)
		b.Write(j)
		b.WriteByte('\n')
		line++
		for _, e := range t.log {
			j, _ := json.Marshal(e)
			b.Write(j)
			b.WriteByte('\n')
			line++
		}
	}
	return b.Bytes(), starts
}

// ValidateTraces feeds recorded runs to TLC (Trace_EndorseCommit). It returns the indices of
// rejected traces. Rejected traces are removed and validation is repeated so the rest is checked.
func ValidateTraces(run *vk.Run, ts []traced) (rejected []int, err error) {
	idx := make([]int, len(ts))
	for i := range ts {
		idx[i] = i
	}
	for round := 0; round < 25 && len(idx) > 0; round++ {
		cur := make([]traced, len(idx))
		for i, k := range idx {
			cur[i] = ts[k]
		}
		data, starts := traceLines(cur)
		res, terr := vk.RunTLC(vk.TLCOpts{Module: "Trace_EndorseCommit", Config: "Trace_EndorseCommit.cfg", Workers: 1,
			Timeout: 10 * time.Minute, ExtraFiles: map[string][]byte{"trace.ndjson": data}, ExpectViolation: false})
		if terr == nil {
			run.AddTLC(res)
			return rejected, nil
		}
		if res == nil || res.Violated == "" {
			return rejected, terr
		}
		// locate the offending line: high-water mark (postcondition) or l of the violating state
		hw := 0
		for _, ln := range strings.Split(res.Output, "\n") {
			var n int
			if _, e := fmt.Sscanf(strings.TrimSpace(ln), `<<"VTRACE-REJECT", %d>>`, &n); e == nil {
				hw = n
			}
			if _, e := fmt.Sscanf(strings.TrimSpace(ln), `/\ l = %d`, &n); e == nil && res.Violated != "postcondition" {
				hw = n - 1
			}
		}
		if hw == 0 {
			return rejected, fmt.Errorf("trace validation failed without a locatable line: %v", terr)
		}
		bad := sort.Search(len(starts), func(i int) bool { return starts[i] > hw }) - 1
		if bad < 0 {
			bad = 0
		}
		rejected = append(rejected, idx[bad])
		idx = append(idx[:bad:bad], idx[bad+1:]...)
	}
	return rejected, nil
}

func parallel(n int, f func(i int)) {
	var wg sync.WaitGroup
	ch := make(chan int)
	for w := 0; w < runtime.NumCPU(); w++ {
		wg.Add(1)
		go func() {
			defer wg.Done()
			for i := range ch {
				f(i)
			}
		}()
	}
	for i := 0; i < n; i++ {
		ch <- i
	}
	close(ch)
	wg.Wait()
}

func relevant(prop string, c Cfg) bool {
	side := c.DryRun || c.MeasOnly
	if prop == "C15" {
		return side
	}
	return !side
}

// Run is the shared engine for C14 and C15.
func Run(run *vk.Run, prop string) {
	tier := "quick"
	if !run.IsQuick() {
		tier = "thorough"
	}
	run.Assumptions = append(run.Assumptions,
		"version-control backend modelled as optimistic concurrency on the whole head (commit conflicts iff the head moved since workspace creation)",
		"faults are injected only at VersionControl/ChangeOps/CertificateAuthority/Signer interface calls",
		"SEV-SNP request with 2 launch VMSAs on the 4 KiB example firmware; development keys")
	// 1. the design: exhaustive model check + negative controls
	res, err := vk.RunTLC(vk.TLCOpts{Module: "EndorseCommit", Config: "MC_EndorseCommit_" + tier + ".cfg", Timeout: 15 * time.Minute})
	if err != nil {
		run.Infra(err)
		return
	}
	run.AddTLC(res)
	// thorough: the bounded runs cover retry budgets -1 .. MaxRetries; the proof (attempt bound of C14, no
	// effects of measurement-only / dry runs of C15) holds for any budget and any number of other writers
	if !run.IsQuick() {
		if _, err := vk.RunTLAPS(run, "EndorseCommitProof", 20*time.Minute); err != nil {
			run.Infra(err)
			return
		}
	}
	for _, neg := range []string{"Neg_EndorseCommit_dryrun.cfg", "Neg_EndorseCommit_cached.cfg"} {
		if _, err := vk.RunTLC(vk.TLCOpts{Module: "EndorseCommit", Config: neg, Timeout: 5 * time.Minute, ExpectViolation: true}); err != nil {
			run.Infra(err)
			return
		}
	}
	// 2. behaviours for replay
	em, err := vk.RunTLC(vk.TLCOpts{Module: "EndorseCommit", Config: "Emit_EndorseCommit_" + tier + ".cfg", Workers: 1, Timeout: 15 * time.Minute})
	if err != nil {
		run.Infra(err)
		return
	}
	var cases []Case
	for _, raw := range em.Cases {
		var c Case
		if err := json.Unmarshal(raw, &c); err != nil {
			run.Infra(fmt.Errorf("bad VCASE: %v", err))
			return
		}
		if relevant(prop, c.Cfg) {
			cases = append(cases, c)
		}
	}
	if len(cases) == 0 {
		run.Infra(fmt.Errorf("no behaviours emitted for %s", prop))
		return
	}
	run.Extra["behaviours_emitted"] = len(em.Cases)
	run.Extra["behaviours_relevant"] = len(cases)

	var mu sync.Mutex
	var traces []traced
	report := func(o *Obs, origin string, fs []Finding) {
		for _, f := range fs {
			if f.Prop != prop {
				continue
			}
			run.Violation(f.Key, f.What, map[string]any{"origin": origin, "cfg": o.Cfg, "log": o.Log, "returned": o.Ret, "error": o.RetErr, "final_manifest": o.HeadNames})
		}
	}
	preds := func(o *Obs) []Finding {
		var fs []Finding
		if relevant("C14", o.Cfg) {
			fs = append(fs, PredC14(o)...)
		}
		fs = append(fs, PredC15(o)...)
		fs = append(fs, PredC13Clobber(o)...)
		return fs
	}
	var drift int64
	// 3. replay every behaviour on the real code
	parallel(len(cases), func(i int) {
		c := cases[i]
		sd := &ScriptDecider{Hist: c.Hist}
		o := RunCase(c.Cfg, sd)
		if o.Ret == "infra" {
			run.Infra(fmt.Errorf("%s", o.RetErr))
			return
		}
		fs := preds(o)
		nprop := 0
		for _, f := range fs {
			if f.Prop == prop {
				nprop++
			}
		}
		report(o, "replay of TLC behaviour "+LogString(c.Hist), fs)
		d := 0
		if !reflect.DeepEqual(o.Log, c.Hist) || !reflect.DeepEqual(sortedCopy(o.HeadNames), sortedCopy(c.Head)) {
			d = 1
		}
		mu.Lock()
		drift += int64(d)
		traces = append(traces, traced{c.Cfg, o.Log, "replay", nprop})
		mu.Unlock()
		run.Case(fmt.Sprintf("%v|%s", c.Cfg, LogString(c.Hist)), len(c.Hist) > 2)
		if i%997 == 0 {
			run.Sample(map[string]any{"cfg": c.Cfg, "spec_behaviour": LogString(c.Hist), "real_log": LogString(o.Log), "returned": o.Ret, "final_manifest": o.HeadNames})
		}
	})
	// 4. random drivers beyond the exhaustive bound
	nRand := 300
	if !run.IsQuick() {
		nRand = 20000
	}
	parallel(nRand, func(i int) {
		r := rand.New(rand.NewSource(run.Seed*1000003 + int64(i)))
		cfg := Cfg{Retries: r.Intn(10) - 1, Snapshot: r.Intn(5) == 0, Exists0: r.Intn(3) == 0, Overwrite: r.Intn(2) == 0}
		if prop == "C15" {
			cfg.DryRun = true
			cfg.MeasOnly = r.Intn(3) == 0
		}
		o := RunCase(cfg, &RandDecider{R: r, PFault: 0.12, POther: 0.15, MaxOthers: 3})
		if o.Ret == "infra" {
			run.Infra(fmt.Errorf("%s", o.RetErr))
			return
		}
		fs := preds(o)
		nprop := 0
		for _, f := range fs {
			if f.Prop == prop {
				nprop++
			}
		}
		report(o, fmt.Sprintf("random driver seed=%d i=%d", run.Seed, i), fs)
		mu.Lock()
		traces = append(traces, traced{cfg, o.Log, "random", nprop})
		mu.Unlock()
		run.Case(fmt.Sprintf("%v|%s", cfg, LogString(o.Log)), len(o.Log) > 2)
		if i == 0 {
			run.Sample(map[string]any{"cfg": cfg, "random_run_log": LogString(o.Log), "returned": o.Ret, "final_manifest": o.HeadNames})
		}
	})
	if prop == "C14" {
		severalBackends(run)
	}
	if prop == "C15" {
		sweepC15(run)
		sweepC15CLI(run)
		ka.CheckEndorseModesLeaveAuthorityAlone(run)
	}
	if run.Failed() {
		// still validate traces for the evidence, but predicates already decided
	}
	// 5. trace validation of every recorded run
	sort.SliceStable(traces, func(i, j int) bool { return LogString(traces[i].log) < LogString(traces[j].log) })
	rej, err := ValidateTraces(run, traces)
	if err != nil {
		run.Infra(err)
		return
	}
	tdrift := 0
	for _, k := range rej {
		if traces[k].preds == 0 {
			tdrift++
			if tdrift <= 3 {
				fmt.Fprintf(vk.Stdout, "DRIFT property=%s trace rejected by Trace_EndorseCommit although the property predicates hold: cfg=%+v log=%s\n", prop, traces[k].cfg, LogString(traces[k].log))
			}
		}
	}
	run.Extra["traces_rejected_by_spec"] = len(rej)
	run.Extra["real_traces_accepted_by_spec"] = len(traces) - len(rej)
	run.AddDrift(drift + int64(tdrift))
	run.Exhaustive = true
	run.Rule = "every terminal behaviour of EndorseCommit.tla within the tier's bounds (all outcome scripts of every interface call, all retry budgets -1..N, concurrent commits) is replayed on endorse.VirtualFirmware with scripted doubles; plus seeded random fault/concurrency runs with budgets up to 8; a case is non-trivial when its log has more than two events; distinct = distinct (cfg, behaviour)"
}

// sweepC15 runs the configuration sweep of C15: technology subsets, VMSA counts, machine shapes,
// snapshot, overwrite; compares what dry-run signs and measurement-only prints with a real run.
func sweepC15(run *vk.Run) {
	for _, v := range Variants(run.IsQuick()) {
		v := v
		realO := v.run(Cfg{Retries: 0, Snapshot: v.Snapshot, Overwrite: true}, passDecider{})
		dry := v.run(Cfg{Retries: 0, DryRun: true, Snapshot: v.Snapshot, Overwrite: v.Overwrite}, passDecider{})
		meas := v.run(Cfg{Retries: 0, MeasOnly: true, DryRun: v.AlsoDry, Snapshot: v.Snapshot, Overwrite: v.Overwrite}, passDecider{})
		if realO.Ret != "ok" {
			run.Infra(fmt.Errorf("C15 sweep: reference real run failed for %s: %s %s", v.Name, realO.Ret, realO.RetErr))
			return
		}
		for _, o := range []*Obs{dry, meas} {
			for _, f := range PredC15(o) {
				run.Violation(f.Key, f.What+" ["+v.Name+"]", map[string]any{"variant": v.Name, "cfg": o.Cfg, "log": o.Log, "returned": o.Ret, "error": o.RetErr})
			}
			run.Case("sweep|"+v.Name+fmt.Sprint(o.Cfg), true)
		}
		if dry.Ret == "ok" {
			// protobuf map fields serialise in random order, so the signed bytes of a document with
			// more than one SNP measurement differ from run to run; digests are compared only when the
			// document has a single serialisation (and the image id is given: a tool-chosen id is random).
			deterministic := (!v.Snp || v.Vmsas != 0) && !v.AutoID
			if len(dry.SignedDigests) != 1 || len(realO.SignedDigests) != 1 || (deterministic && !bytes.Equal(dry.SignedDigests[0], realO.SignedDigests[0])) {
				run.Violation("dry-run-measurements-differ", "dry-run signs a different document than the real run ["+v.Name+"]",
					map[string]any{"variant": v.Name, "dry": hexs(dry.SignedDigests), "real": hexs(realO.SignedDigests)})
			}
		} else if dry.Ret != "panic" {
			run.Violation("dry-run-fails", fmt.Sprintf("dry-run does not complete: %s %s [%s]", dry.Ret, dry.RetErr, v.Name), map[string]any{"variant": v.Name})
		}
		if meas.Ret == "ok" {
			want := v.expectedLines(realO)
			got := strings.Split(strings.TrimSpace(meas.Stdout), "\n")
			sort.Strings(want)
			sort.Strings(got)
			if !reflect.DeepEqual(want, got) {
				run.Violation("measurement-only-differs", "measurement-only prints other measurements than the real run signs ["+v.Name+"]",
					map[string]any{"variant": v.Name, "printed": got, "signed": want})
			}
		} else if meas.Ret != "panic" {
			run.Violation("measurement-only-fails", fmt.Sprintf("measurement-only does not complete: %s %s [%s]", meas.Ret, meas.RetErr, v.Name), map[string]any{"variant": v.Name})
		}
		run.Sample(map[string]any{"variant": v.Name, "dry_log": LogString(dry.Log), "meas_log": LogString(meas.Log), "meas_stdout_lines": len(strings.Split(strings.TrimSpace(meas.Stdout), "\n"))})
	}
}

func hexs(bs [][]byte) []string {
	var r []string
	for _, b := range bs {
		r = append(r, hex.EncodeToString(b))
	}
	return r
}
