package ka

// C15, the authority side: a dry run and a measurement-only run of the nonprod-style endorse command
// (key manager and certificate authority composed as in testing/nonprod) leave the key directory and
// the authority's objects exactly as they were, and a measurement-only run does not ask the
// certificate authority's storage for anything.

import (
	"crypto/rsa"
	"crypto/sha256"
	"crypto/x509"
	"encoding/pem"
	"fmt"
	"os"
	"path/filepath"
	"sort"
	"strings"

	"verifharness/fx"
	"verifharness/vk"
)

func hashTree(dir string) string {
	var lines []string
	filepath.Walk(dir, func(p string, info os.FileInfo, err error) error {
		if err != nil || p == dir {
			return nil
		}
		l := fmt.Sprintf("%s %v %d", strings.TrimPrefix(p, dir), info.Mode(), info.Size())
		if !info.IsDir() {
			b, _ := os.ReadFile(p)
			l += fmt.Sprintf(" %x %d", sha256.Sum256(b), info.ModTime().UnixNano())
		}
		lines = append(lines, l)
		return nil
	})
	sort.Strings(lines)
	return strings.Join(lines, "\n")
}

// CheckEndorseModesLeaveAuthorityAlone is called by the C15 check.
func CheckEndorseModesLeaveAuthorityAlone(run *vk.Run) {
	work, err := os.MkdirTemp("", "vk-c15-auth-")
	if err != nil {
		run.Infra(err)
		return
	}
	defer os.RemoveAll(work)
	fw := filepath.Join(work, "fw.fd")
	os.WriteFile(fw, fx.Image(0x1000, 77), 0o600)
	modes := [][]string{{"--dry_run"}, {"--measurement_only"}, {"--measurement_only", "--dry_run"}, {"--dry_run", "--candidate_name", "c1"}}
	// part A: keys on disk (localkm), also in the older PKCS #1 encoding; authority objects on disk (localca)
	for _, legacy := range []bool{false, true} {
		a, err := NewAuthority(Combo{"localkm", "localca"})
		if err != nil {
			run.Infra(err)
			return
		}
		if err := a.Exec(&Tap{}, "bootstrap", "--timestamp", ts(T0)); err != nil {
			run.Infra(fmt.Errorf("bootstrap: %v", err))
			a.Close()
			return
		}
		if legacy {
			files, _ := filepath.Glob(filepath.Join(a.Dir, "keys", "*.pem"))
			n := 0
			for _, f := range files {
				b, _ := os.ReadFile(f)
				blk, _ := pem.Decode(b)
				if blk == nil || blk.Type != "PRIVATE KEY" {
					continue
				}
				k, perr := x509.ParsePKCS8PrivateKey(blk.Bytes)
				if perr != nil {
					continue
				}
				if rk, ok := k.(interface{ Validate() error }); ok && rk.Validate() == nil {
					if der := marshalPKCS1(k); der != nil {
						os.WriteFile(f, pem.EncodeToMemory(&pem.Block{Type: "RSA PRIVATE KEY", Bytes: der}), 0o600)
						n++
					}
				}
			}
			if n == 0 {
				run.Infra(fmt.Errorf("no key file could be re-encoded as PKCS #1 under %s", filepath.Join(a.Dir, "keys")))
				a.Close()
				return
			}
		}
		for _, mode := range modes {
			outRoot := filepath.Join(work, fmt.Sprintf("out-%v-%d", legacy, len(mode)))
			os.MkdirAll(outRoot, 0o755)
			before := hashTree(a.Dir)
			args := append([]string{"endorse", "--uefi", fw, "--add_snp", "--snp_launch_vmsas", "1", "--clspec", "5", "--out_root", outRoot, "--out_dir", "o"}, mode...)
			xerr := a.Exec(&Tap{}, args...)
			after := hashTree(a.Dir)
			name := fmt.Sprintf("endorse %s with the key directory / on-disk authority of the nonprod command (key files in PKCS #1: %v)", strings.Join(mode, " "), legacy)
			run.Case("authority-alone|"+name, true)
			if xerr != nil && legacy {
				// (whether the older encoding is readable at all is not this statement's topic)
				continue
			}
			if xerr != nil {
				run.Violation("command-mode-fails:authority", fmt.Sprintf("%s fails: %v", name, xerr), nil)
			}
			if before != after {
				run.Violation("dry-run-write:authority", fmt.Sprintf("%s changed the key directory or the authority's files (a file was rewritten, created or removed)", name), map[string]any{"before": before, "after": after})
			}
		}
		a.Close()
	}
	// part B: the object-store authority with a signing-key prefix configured: measurement only asks the
	// authority's storage for nothing
	{
		a, err := NewAuthority(Combo{"memkm", "gcsca"})
		if err != nil {
			run.Infra(err)
			return
		}
		defer a.Close()
		a.SigningKeyPrefix = "primarySigningKey"
		if err := a.Exec(&Tap{}, "bootstrap", "--timestamp", ts(T0)); err != nil {
			run.Infra(fmt.Errorf("bootstrap: %v", err))
			return
		}
		for _, mode := range [][]string{{"--measurement_only"}, {"--measurement_only", "--dry_run"}} {
			t := &Tap{}
			outRoot := filepath.Join(work, fmt.Sprintf("outb-%d", len(mode)))
			os.MkdirAll(outRoot, 0o755)
			xerr := a.Exec(t, append([]string{"endorse", "--uefi", fw, "--add_snp", "--snp_launch_vmsas", "1", "--clspec", "5", "--out_root", outRoot, "--out_dir", "o"}, mode...)...)
			var touched []string
			for _, c := range t.Calls {
				if strings.HasPrefix(c, "Storage.") || strings.HasPrefix(c, "CA.") || strings.HasPrefix(c, "Signer.") {
					touched = append(touched, c)
				}
			}
			name := fmt.Sprintf("endorse %s with the object-store authority (signing-key prefix configured)", strings.Join(mode, " "))
			run.Case("authority-alone|"+name, true)
			if xerr != nil {
				run.Violation("command-mode-fails:authority", fmt.Sprintf("%s fails: %v", name, xerr), nil)
			}
			if len(touched) > 0 {
				run.Violation("measurement-only-touches-authority", fmt.Sprintf("%s made %d calls to the signer / certificate authority / its storage: %v", name, len(touched), touched), nil)
			}
		}
	}
}

func marshalPKCS1(k any) []byte {
	if rk, ok := k.(*rsaPrivateKey); ok {
		return x509.MarshalPKCS1PrivateKey(rk)
	}
	return nil
}

type rsaPrivateKey = rsa.PrivateKey
