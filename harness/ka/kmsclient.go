package ka

// The Cloud KMS key manager (keys/gcpkms) as a third key manager of an Authority: the real
// gcpkms.Manager / gcpkms.Signer over the repository's own in-process KMS fake
// (testing/testkms.FakeKmsServer), reached through a client adapter instead of a gRPC connection.

import (
	"context"

	iampb "cloud.google.com/go/iam/apiv1/iampb"
	kmspb "cloud.google.com/go/kms/apiv1/kmspb"
	"github.com/google/gce-tcb-verifier/testing/testkms"
	"google.golang.org/grpc"
)

// kmsClient forwards the calls gcpkms makes to the fake server (the embedded nil interface panics
// on any other call: recovered by Exec and reported as a PANIC result).
type kmsClient struct {
	kmspb.KeyManagementServiceClient
	s *testkms.FakeKmsServer
}

func (c kmsClient) ListCryptoKeys(ctx context.Context, r *kmspb.ListCryptoKeysRequest, _ ...grpc.CallOption) (*kmspb.ListCryptoKeysResponse, error) {
	return c.s.ListCryptoKeys(ctx, r)
}
func (c kmsClient) ListCryptoKeyVersions(ctx context.Context, r *kmspb.ListCryptoKeyVersionsRequest, _ ...grpc.CallOption) (*kmspb.ListCryptoKeyVersionsResponse, error) {
	return c.s.ListCryptoKeyVersions(ctx, r)
}
func (c kmsClient) GetKeyRing(ctx context.Context, r *kmspb.GetKeyRingRequest, _ ...grpc.CallOption) (*kmspb.KeyRing, error) {
	return c.s.GetKeyRing(ctx, r)
}
func (c kmsClient) GetCryptoKey(ctx context.Context, r *kmspb.GetCryptoKeyRequest, _ ...grpc.CallOption) (*kmspb.CryptoKey, error) {
	return c.s.GetCryptoKey(ctx, r)
}
func (c kmsClient) GetCryptoKeyVersion(ctx context.Context, r *kmspb.GetCryptoKeyVersionRequest, _ ...grpc.CallOption) (*kmspb.CryptoKeyVersion, error) {
	return c.s.GetCryptoKeyVersion(ctx, r)
}
func (c kmsClient) GetPublicKey(ctx context.Context, r *kmspb.GetPublicKeyRequest, _ ...grpc.CallOption) (*kmspb.PublicKey, error) {
	return c.s.GetPublicKey(ctx, r)
}
func (c kmsClient) CreateKeyRing(ctx context.Context, r *kmspb.CreateKeyRingRequest, _ ...grpc.CallOption) (*kmspb.KeyRing, error) {
	return c.s.CreateKeyRing(ctx, r)
}
func (c kmsClient) CreateCryptoKey(ctx context.Context, r *kmspb.CreateCryptoKeyRequest, _ ...grpc.CallOption) (*kmspb.CryptoKey, error) {
	return c.s.CreateCryptoKey(ctx, r)
}
func (c kmsClient) CreateCryptoKeyVersion(ctx context.Context, r *kmspb.CreateCryptoKeyVersionRequest, _ ...grpc.CallOption) (*kmspb.CryptoKeyVersion, error) {
	return c.s.CreateCryptoKeyVersion(ctx, r)
}
func (c kmsClient) AsymmetricSign(ctx context.Context, r *kmspb.AsymmetricSignRequest, _ ...grpc.CallOption) (*kmspb.AsymmetricSignResponse, error) {
	return c.s.AsymmetricSign(ctx, r)
}
func (c kmsClient) DestroyCryptoKeyVersion(ctx context.Context, r *kmspb.DestroyCryptoKeyVersionRequest, _ ...grpc.CallOption) (*kmspb.CryptoKeyVersion, error) {
	return c.s.DestroyCryptoKeyVersion(ctx, r)
}

// iamClient accepts every policy.
type iamClient struct{ iampb.IAMPolicyClient }

func (iamClient) SetIamPolicy(_ context.Context, r *iampb.SetIamPolicyRequest, _ ...grpc.CallOption) (*iampb.Policy, error) {
	return r.GetPolicy(), nil
}
func (iamClient) GetIamPolicy(context.Context, *iampb.GetIamPolicyRequest, ...grpc.CallOption) (*iampb.Policy, error) {
	return &iampb.Policy{}, nil
}
