// EndorseFlags.tla conformance: every row of the endorse command's flag/initialisation decision
// table is executed on the real `endorse` sub-command of cmd.MakeApp; a component in the extra slot
// snapshots the endorse.Context that the command's own component has prepared and then stops the
// command before the run function. Not anchored in a listed property: DRIFT lines only.
package ka

import (
	"context"
	"crypto/rand"
	"encoding/hex"
	"encoding/json"
	"fmt"
	"io"
	"os"
	"path/filepath"
	"strings"
	"sync"
	"time"

	"github.com/google/gce-tcb-verifier/cmd"
	"github.com/google/gce-tcb-verifier/endorse"
	edk2pb "github.com/google/gce-tcb-verifier/proto/scrtmversion"
	"github.com/google/gce-tcb-verifier/storage/local"
	"github.com/spf13/cobra"
	"google.golang.org/protobuf/proto"

	"verifharness/vk"
)

type efRow struct {
	Uefi   string `json:"uefi"`
	Scrtm  string `json:"scrtm"`
	AddSnp bool   `json:"addSnp"`
	AddTdx bool   `json:"addTdx"`
	Family string `json:"family"`
	Image  string `json:"image"`
	Commit int    `json:"commit"`
	Exists bool   `json:"exists"`
	Svsm   string `json:"svsm"`
	Shapes string `json:"shapes"`
}
type efOut struct {
	Stage     string `json:"stage"`
	Res       string `json:"res"`
	Snp       bool   `json:"snp"`
	Tdx       bool   `json:"tdx"`
	Svn       int    `json:"svn"`
	Svsm      bool   `json:"svsm"`
	ImageRead bool   `json:"imageRead"`
	NShapes   int    `json:"nshapes"`
}

var errStopBeforeRun = fmt.Errorf("stop before the run function (harness)")

// snapComp sits in the extra slot: its validation marks that all flag validation passed, its
// initialisation snapshots the endorse context and stops the command.
type snapComp struct {
	validated bool
	got       *efOut
}

func (s *snapComp) AddFlags(*cobra.Command) {}
func (s *snapComp) PersistentPreRunE(*cobra.Command, []string) error {
	s.validated = true
	return nil
}
func (s *snapComp) InitContext(ctx context.Context) (context.Context, error) {
	ec, err := endorse.FromContext(ctx)
	if err != nil {
		return nil, err
	}
	o := &efOut{Stage: "run", Res: "ok", Snp: ec.SevSnp != nil, Tdx: ec.Tdx != nil, Svsm: len(ec.SvsmSnpMeasurement) == 48, ImageRead: ec.Image != nil}
	if ec.SevSnp != nil {
		o.Svn = int(ec.SevSnp.Svn)
	}
	if ec.Tdx != nil {
		o.NShapes = len(ec.Tdx.MachineShapes)
	}
	if ec.Tdx != nil && ec.Tdx.Svn != 0 {
		o.Svn = int(ec.Tdx.Svn)
	}
	if ec.SevSnp != nil && ec.Tdx != nil && ec.SevSnp.Svn != ec.Tdx.Svn {
		o.Svn = -1 // the two technologies disagree
	}
	s.got = o
	return nil, errStopBeforeRun
}

func runEfRow(r efRow) (efOut, string, error) {
	dir, err := os.MkdirTemp("", "vk-ef-")
	if err != nil {
		return efOut{}, "", err
	}
	defer os.RemoveAll(dir)
	args := []string{"endorse", "--quiet"}
	fw := filepath.Join(dir, "fw.fd")
	switch r.Uefi {
	case "noext":
		args = append(args, "--uefi", filepath.Join(dir, "fw.bin"))
	case "fd":
		args = append(args, "--uefi", fw)
	}
	if r.Exists {
		if err := os.WriteFile(fw, []byte("firmware bytes (never measured: the command is stopped before the run function)"), 0o600); err != nil {
			return efOut{}, "", err
		}
	}
	ver := func(v uint32) []byte {
		b, _ := proto.Marshal(&edk2pb.SCRTMVersion{Version: edk2pb.FirmwareVersion_Version(v)})
		return b
	}
	sibling, suffix := filepath.Join(dir, "fw_scrtm_ver.pb"), fw+".scrtm.pb"
	switch r.Scrtm {
	case "sibling":
		os.WriteFile(sibling, ver(7), 0o600)
	case "suffix":
		os.WriteFile(suffix, ver(9), 0o600)
	case "both":
		os.WriteFile(sibling, ver(7), 0o600)
		os.WriteFile(suffix, ver(9), 0o600)
	case "garbage":
		os.WriteFile(sibling, []byte{0xff, 0xff, 0xff, 0xff, 0xff, 0xff, 0xff, 0xff, 0xff, 0xff, 0x7f}, 0o600)
	case "emptyfile":
		os.WriteFile(sibling, nil, 0o600)
	}
	if r.AddSnp {
		args = append(args, "--add_snp")
	}
	if r.AddTdx {
		args = append(args, "--add_tdx")
	}
	switch r.Shapes {
	case "one":
		args = append(args, "--tdx_machine_shapes", "c3-standard-4")
	case "comma":
		args = append(args, "--tdx_machine_shapes=c3-standard-4,c3-standard-8")
	case "repeated":
		args = append(args, "--tdx_machine_shapes", "c3-standard-4", "--tdx_machine_shapes", "c3-standard-8")
	case "mixed":
		args = append(args, "--tdx_machine_shapes", "c3-standard-4,c3-standard-8", "--tdx_machine_shapes=c3-standard-88")
	}
	id := func(flag, cls string) {
		switch cls {
		case "uuid":
			args = append(args, flag, "01234567-89ab-cdef-0123-456789abcdef")
		case "bad":
			args = append(args, flag, "not-a-uuid")
		}
	}
	id("--snp_family_id", r.Family)
	id("--snp_image_id", r.Image)
	if r.Commit > 0 {
		args = append(args, "--commit", strings.Repeat("ab", r.Commit))
	}
	meas := filepath.Join(dir, "svsm.txt")
	h := hex.EncodeToString(make([]byte, 48))
	switch r.Svsm {
	case "hex48":
		os.WriteFile(meas, []byte(h), 0o600)
	case "hex48_ws":
		os.WriteFile(meas, []byte("  "+h+"\n"), 0o600)
	case "hex47":
		os.WriteFile(meas, []byte(h[:94]), 0o600)
	case "nothex":
		os.WriteFile(meas, []byte("zz"+h[2:]), 0o600)
	}
	if r.Svsm != "none" {
		args = append(args, "--svsm_snp_measurement_path", meas)
	}
	snap := &snapComp{}
	app := &cmd.AppComponents{Endorse: snap, SignatureRandom: rand.Reader, Storage: &local.StorageClient{}}
	root := cmd.MakeApp(context.Background(), app)
	root.SetOut(io.Discard)
	root.SetErr(io.Discard)
	root.SilenceErrors = true
	root.SilenceUsage = true
	root.SetArgs(args)
	var xerr error
	func() {
		defer func() {
			if p := recover(); p != nil {
				xerr = fmt.Errorf("PANIC: %v", p)
			}
		}()
		xerr = root.Execute()
	}()
	switch {
	case snap.got != nil && xerr == errStopBeforeRun:
		return *snap.got, "", nil
	case xerr == nil:
		return efOut{}, "", fmt.Errorf("the command ran although the harness component should have stopped it")
	case !snap.validated:
		return efOut{Stage: "validate"}, xerr.Error(), nil
	default:
		return efOut{Stage: "init"}, xerr.Error(), nil
	}
}

// errClass maps the real error text to the spec's result names.
func efErrClass(stage, text string) string {
	t := strings.ToLower(text)
	switch {
	case strings.Contains(t, "expected --uefi"):
		return "err:no-uefi"
	case strings.Contains(t, "must end with .fd"):
		return "err:suffix"
	case strings.Contains(t, "family_id"):
		return "err:family"
	case strings.Contains(t, "image_id"):
		return "err:image"
	case strings.Contains(t, "--commit must be"):
		return "err:commit"
	case strings.Contains(t, "could not read uefi file"):
		return "err:image-unreadable"
	case strings.Contains(t, "could not read svsm snp measurement file"):
		return "err:svsm-file"
	case strings.Contains(t, "could not parse svsm snp measurement"):
		return "err:svsm-hex"
	case strings.Contains(t, "svsm igvm measurement"):
		return "err:svsm-size"
	case stage == "validate" && (strings.Contains(t, "proto") || strings.Contains(t, "unmarshal") || strings.Contains(t, "cannot parse")):
		return "err:scrtm"
	}
	return "err:?" + text
}

// RunEndorseFlags executes the EndorseFlags.tla conformance ("./check X-EFLAGS <tier>").
func RunEndorseFlags(run *vk.Run) {
	em, err := vk.RunTLC(vk.TLCOpts{Module: "EndorseFlags", Config: "Emit_EndorseFlags.cfg", Workers: 1, Timeout: 10 * time.Minute})
	if err != nil {
		run.Infra(err)
		return
	}
	run.AddTLC(em)
	cobra.EnableTraverseRunHooks = false
	var mu sync.Mutex
	cases := em.Cases
	parallel(len(cases), func(i int) {
		var c struct {
			Row efRow `json:"row"`
			Out efOut `json:"out"`
		}
		if err := json.Unmarshal(cases[i], &c); err != nil {
			run.Infra(err)
			return
		}
		got, errText, err := runEfRow(c.Row)
		if err != nil {
			run.Infra(fmt.Errorf("row %+v: %v", c.Row, err))
			return
		}
		if got.Stage != "run" {
			got.Res = efErrClass(got.Stage, errText)
		}
		want := c.Out
		if want.Stage != "run" { // the request's contents are only compared when the command gets to the run function
			want.Snp, want.Tdx, want.Svn, want.Svsm, want.ImageRead, want.NShapes = false, false, 0, false, false, 0
		}
		mu.Lock()
		defer mu.Unlock()
		if got != want {
			run.AddDrift(1)
			if run.Drift <= 12 {
				fmt.Fprintf(vk.Stdout, "DRIFT engine=EndorseFlags row %+v: real %+v (%s), EndorseFlags.tla %+v\n", c.Row, got, errText, want)
			}
		}
		j, _ := json.Marshal(c.Row)
		run.Case(string(j), true)
		if i%997 == 0 {
			run.Sample(map[string]any{"row": c.Row, "real": got, "spec": want})
		}
	})
	run.Exhaustive = true
	run.Rule = "every row of EndorseFlags.tla (image path class x SCRTM version files x technologies x SNP ids x commit length x image presence x SVSM measurement file) executed on the real endorse sub-command; stage reached, error class and the prepared request (technologies, SVN, SVSM measurement, image read) compared; no listed property depends on this engine"
}

// EndorseRequestPredicates evaluates, for C06, the statements EndorseFlags.tla makes about the request
// the endorse command prepares (OnlyRequested, SvnFromFile, ShapesAllNamed, the SVSM measurement) on
// the real command, for every row of the table: what the document will describe is what the command
// line asked for. Disagreements with the table that these statements do not cover stay DRIFT of the
// X-EFLAGS engine.
func EndorseRequestPredicates(run *vk.Run) {
	em, err := vk.RunTLC(vk.TLCOpts{Module: "EndorseFlags", Config: "Emit_EndorseFlags.cfg", Workers: 1, Timeout: 10 * time.Minute})
	if err != nil {
		run.Infra(err)
		return
	}
	run.AddTLC(em)
	cobra.EnableTraverseRunHooks = false
	shapeCount := map[string]int{"none": 0, "one": 1, "comma": 2, "repeated": 2, "mixed": 3}
	parallel(len(em.Cases), func(i int) {
		var c struct {
			Row efRow `json:"row"`
		}
		if err := json.Unmarshal(em.Cases[i], &c); err != nil {
			run.Infra(err)
			return
		}
		got, errText, err := runEfRow(c.Row)
		if err != nil {
			run.Infra(fmt.Errorf("row %+v: %v", c.Row, err))
			return
		}
		j, _ := json.Marshal(c.Row)
		run.Case("request:"+string(j), true)
		_ = errText
		if got.Stage != "run" {
			return
		}
		r := c.Row
		if got.Snp != r.AddSnp || got.Tdx != r.AddTdx {
			run.Violation("request:technologies", fmt.Sprintf("the endorse command prepares a request for sev_snp=%v tdx=%v, the command line asked for sev_snp=%v tdx=%v: %+v", got.Snp, got.Tdx, r.AddSnp, r.AddTdx, r), map[string]any{"row": r})
		}
		if r.AddSnp || r.AddTdx {
			want := -2
			switch r.Scrtm {
			case "sibling":
				want = 7
			case "suffix":
				want = 9
			case "none", "emptyfile":
				want = 0
			}
			if want != -2 && got.Svn != want {
				run.Violation("request:svn", fmt.Sprintf("the endorse command prepares a request with security version %d; the version file next to the image (%s) says %d: %+v", got.Svn, r.Scrtm, want, r), map[string]any{"row": r})
			}
			if r.Scrtm == "both" && got.Svn != 7 && got.Svn != 9 {
				run.Violation("request:svn", fmt.Sprintf("the endorse command prepares a request with security version %d; the two version files next to the image say 7 and 9: %+v", got.Svn, r), map[string]any{"row": r})
			}
		}
		if r.AddTdx && got.NShapes != shapeCount[r.Shapes] {
			run.Violation("request:shapes", fmt.Sprintf("the endorse command prepares a request with %d machine shapes, the command line (spelling %q) names %d: %+v", got.NShapes, r.Shapes, shapeCount[r.Shapes], r), map[string]any{"row": r})
		}
		if (r.Svsm == "hex48" || r.Svsm == "hex48_ws") && !got.Svsm {
			run.Violation("request:svsm", fmt.Sprintf("the endorse command was given a 48-byte SVSM measurement file and prepares a request without it: %+v", r), map[string]any{"row": r})
		}
	})
}
