package ka

import (
	"context"
	"crypto/x509"
	"fmt"
	"math/big"
	"time"
	_ "time/tzdata" // the zone pass must not depend on a system zoneinfo database

	"github.com/google/gce-tcb-verifier/keys"
	"github.com/google/gce-tcb-verifier/rotate"
	"github.com/google/gce-tcb-verifier/sign/memca"
	"github.com/google/gce-tcb-verifier/sign/nonprod"
	styp "github.com/google/gce-tcb-verifier/sign/types"
	"github.com/google/gce-tcb-verifier/testing/nonprod/memkm"
	"github.com/google/gce-tcb-verifier/testing/testsign"
	"verifharness/vk"
)

// c12ZonePass runs the history bootstrap; rotate of KeyAuthority.tla through the library entry
// points with creation times that carry a *location* (what time.Now() yields when --timestamp is
// not given): the commands of the main pass hand over RFC 3339 text, which loses the zone's rules.
// The documented lifetimes are days of 24 hours from the creation instant, whatever the zone does
// between the two ends (seeded change C12-mut17).
func c12ZonePass(run *vk.Run) {
	day := 24 * time.Hour
	zones := []string{"Europe/Berlin", "America/New_York", "Australia/Sydney", "Asia/Kolkata", "UTC"}
	dates := [][3]int{{2024, 3, 30}, {2024, 10, 26}, {2025, 1, 10}, {2025, 7, 1}, {2026, 11, 1}, {2027, 3, 14}}
	for _, zn := range zones {
		loc, err := time.LoadLocation(zn)
		if err != nil {
			run.Infra(err)
			return
		}
		for _, d := range dates {
			now := time.Date(d[0], time.Month(d[1]), d[2], 12, 0, 0, 0, loc)
			where := fmt.Sprintf("%s in %s", now.Format("2006-01-02T15:04"), zn)
			viol := func(key, f string, args ...any) {
				run.Violation(key, fmt.Sprintf(f, args...)+" [library bootstrap; rotate on memkm+memca, creation time "+where+"]", map[string]any{"zone": zn, "now": now.Format(time.RFC3339)})
			}
			s := &nonprod.Signer{Rand: testsign.RootRand()}
			ca := memca.Create()
			kctx := keys.NewContext(context.Background(), &keys.Context{Signer: s, CA: ca, Manager: &memkm.T{Signer: s}, Random: testsign.RootRand()})
			if err := rotate.Bootstrap(rotate.NewBootstrapContext(kctx, &rotate.BootstrapContext{RootKeyCommonName: "rootCn", SigningKeyCommonName: "signerCn",
				RootKeySerial: big.NewInt(1), SigningKeySerial: big.NewInt(2), Now: now})); err != nil {
				viol("zone-bootstrap", "bootstrap fails: %v", err)
				continue
			}
			certOf := func(get func() ([]byte, error)) *x509.Certificate {
				b, err := get()
				if err != nil {
					return nil
				}
				return parseCertAny(b)
			}
			checkSign := func(step string, at time.Time) {
				name, err := ca.PrimarySigningKeyVersion(kctx)
				if err != nil {
					viol("zone-primary", "%s: no primary signing key: %v", step, err)
					return
				}
				c := certOf(func() ([]byte, error) { return ca.Certificate(kctx, name) })
				if c == nil {
					viol("zone-primary", "%s: the primary's certificate cannot be read", step)
					return
				}
				if dd := c.NotAfter.Sub(c.NotBefore); dd != time.Duration(styp.SignValidDays)*day {
					viol("sign-lifetime:zone", "%s: signing certificate lifetime is %v, want %d days of 24 h (%v)", step, dd, styp.SignValidDays, time.Duration(styp.SignValidDays)*day)
				}
				if !c.NotBefore.Equal(at.Truncate(time.Second)) {
					viol("sign-notbefore:zone", "%s: signing certificate starts at %v, created at %v", step, c.NotBefore, at)
				}
			}
			if root := certOf(func() ([]byte, error) { return ca.CABundle(kctx, "root") }); root != nil {
				if dd := root.NotAfter.Sub(root.NotBefore); dd != time.Duration(styp.RootValidDays)*day {
					viol("root-lifetime:zone", "root certificate lifetime is %v, want %d days of 24 h", dd, styp.RootValidDays)
				}
			}
			checkSign("bootstrap", now)
			// the rotation lands on the other side of the zone's next switch
			later := now.AddDate(0, 0, 3).Add(90 * time.Minute)
			if _, err := rotate.Key(rotate.NewSigningKeyContext(kctx, &rotate.SigningKeyContext{SigningKeyCommonName: "signerCn", SigningKeySerial: big.NewInt(3), Now: later})); err != nil {
				viol("zone-rotate", "rotate fails: %v", err)
				continue
			}
			checkSign("rotate", later)
			run.Case("zone|"+where, true)
		}
	}
	run.Extra["zone_pass_histories"] = len(zones) * len(dates)
}
