package ka

import (
	"fmt"
	"os"
	"path/filepath"
	"sort"
	"strings"
	"sync"
	"time"

	"verifharness/vk"
)

// RunC11 is the C11 check: every prefix of the storage writes of a first bootstrap and of later
// rotations is read back through a fresh authority instance.
func RunC11(run *vk.Run) {
	tier := "quick"
	if !run.IsQuick() {
		tier = "thorough"
	}
	run.Assumptions = append(run.Assumptions, "storage writes are atomic per object (object granularity, as the statement says)",
		"Go's map iteration order over pending certificates cannot be forced; orders are explored by repetition and the set seen is reported")
	res, err := vk.RunTLC(vk.TLCOpts{Module: "KeyAuthority", Config: "MC_KeyAuthority_faults_" + tier + ".cfg", Timeout: 20 * time.Minute})
	if err != nil {
		run.Infra(err)
		return
	}
	run.AddTLC(res)
	reps, nrot := 8, 2
	if !run.IsQuick() {
		reps, nrot = 48, 4
	}
	type hist struct {
		combo  Combo
		writes []Write
		marks  []int // index in writes where each command starts
		events []Event
	}
	var mu sync.Mutex
	var hs []hist
	orders := map[string]int{}
	combos := []Combo{{"localkm", "gcsca"}, {"memkm", "gcsca"}}
	parallel(reps*len(combos), func(i int) {
		combo := combos[i%len(combos)]
		a, err := NewAuthority(combo)
		if err != nil {
			run.Infra(err)
			return
		}
		defer a.Close()
		h := hist{combo: combo}
		t := &Tap{}
		if err := a.Exec(t, "bootstrap", "--timestamp", ts(T0)); err != nil {
			run.Infra(fmt.Errorf("fault-free bootstrap failed: %v", err))
			return
		}
		h.writes = append(h.writes, t.Writes...)
		h.marks = append(h.marks, 0)
		h.events = append(h.events, cmdEvents("bootstrap", false, t, nil, false)...)
		var ord []string
		for _, w := range t.Writes {
			ord = append(ord, strings.TrimPrefix(w.Object, certDir+"/"))
		}
		for r := 1; r <= nrot; r++ {
			t := &Tap{}
			args := []string{"rotate", "--timestamp", ts(Tn(r))}
			if r == nrot {
				args = append(args, "--rotated_key_serial_override", "9")
			}
			if err := a.Exec(t, args...); err != nil {
				if r > 2 { // serial 9 + 1 is still fine; any failure here is unexpected
					run.Infra(fmt.Errorf("fault-free rotation %d failed: %v", r, err))
				} else {
					run.Infra(fmt.Errorf("fault-free rotation %d failed: %v", r, err))
				}
				return
			}
			h.marks = append(h.marks, len(h.writes))
			h.writes = append(h.writes, t.Writes...)
			sov := 0
			if r == nrot {
				sov = 9
			}
			h.events = append(h.events, cmdEventsSov("rotate", false, sov, t, nil, false)...)
		}
		mu.Lock()
		orders[strings.Join(ord, " < ")]++
		hs = append(hs, h)
		mu.Unlock()
	})
	if run.Failed() {
		return
	}
	// every prefix of every recorded write sequence
	seen := map[string]bool{}
	for hi, h := range hs {
		objs := map[string][]byte{}
		for k := 0; k <= len(h.writes); k++ {
			if k > 0 {
				w := h.writes[k-1]
				objs[bucket+"/"+w.Object] = w.Data
			}
			var names []string
			for _, w := range h.writes[:k] {
				names = append(names, w.Object)
			}
			key := strings.Join(names, ",")
			at := Tn(nrot)
			if err := StoreConsistent(objs, at); err != nil {
				last := "(empty store)"
				if k > 0 {
					last = h.writes[k-1].Object
				}
				cls := "prefix-inconsistent:" + classOf(last)
				run.Violation(cls, fmt.Sprintf("after the first %d object writes (last: %s) of %v the store is inconsistent: %v", k, last, h.combo, err),
					map[string]any{"combo": h.combo.String(), "writes": names, "prefix": k})
			}
			run.Case(key, k > 0)
			if !seen[key] {
				seen[key] = true
			}
			if hi == 0 && k == len(h.writes)/2 {
				run.Sample(map[string]any{"combo": h.combo.String(), "prefix_len": k, "writes_so_far": names})
			}
		}
		// manifest-last: no manifest write may reference an object that is not stored yet
		have := map[string]bool{}
		for _, w := range h.writes {
			if op, _ := classifyObject(w.Object, w.Data); op == "WriteMan" {
				for _, obj := range manifestObjects(w.Data) {
					if !have[obj] {
						run.Violation("manifest-ahead", fmt.Sprintf("manifest written while it references %q, which is not stored yet", obj), map[string]any{"combo": h.combo.String()})
					}
				}
			}
			have[w.Object] = true
		}
	}
	// histories with a storage fault: a rotation in which the k-th interface call fails (every call
	// position, including the Close that commits an object), followed by healthy rotations, with a
	// fresh authority object per command and with one long-lived authority object; every prefix of the
	// writes that were actually committed must again be consistent
	faultHists, faultPrefixes := 0, 0
	{
		type job struct {
			combo Combo
			long  bool
			k     int
			sov   int    // serial override of the faulty rotation (0 = none): its object name then differs from the retries'
			kg    bool   // the faulty rotation runs with --keep_going
			name  string // persistent fault: every call of this name fails during the faulty rotation (k = 0)
			retry string // extra flag of the rotations that follow ("" | "--keep_going")
		}
		var jobs []job
		for _, combo := range combos {
			a, err := NewAuthority(combo)
			if err != nil {
				run.Infra(err)
				return
			}
			if err := a.Exec(&Tap{}, "bootstrap", "--timestamp", ts(T0)); err != nil {
				run.Infra(err)
				return
			}
			snap := a
			for _, sov := range []int{0, 7} {
				// the call sequence of a fault-free rotation with this serial flag (on a copy)
				c, err := snap.Clone()
				if err != nil {
					run.Infra(err)
					return
				}
				t := &Tap{}
				pargs := []string{"rotate", "--timestamp", ts(Tn(1))}
				if sov != 0 {
					pargs = append(pargs, "--rotated_key_serial_override", fmt.Sprint(sov))
				}
				if err := c.Exec(t, pargs...); err != nil {
					run.Infra(fmt.Errorf("fault-free rotation failed: %v", err))
					return
				}
				c.Close()
				for k := 1; k <= len(t.Calls); k++ {
					if run.IsQuick() && !strings.HasPrefix(t.Calls[k-1], "Storage.") && !strings.HasPrefix(t.Calls[k-1], "CA.Finalize") && k%3 != int(run.Seed)%3 {
						continue // quick: every storage call, a third of the others
					}
					if sov == 0 {
						jobs = append(jobs, job{combo, false, k, 0, false, "", ""}, job{combo, true, k, 0, false, "", ""})
						if strings.HasPrefix(t.Calls[k-1], "Storage.") {
							// a storage call refused while the command was told to keep going
							jobs = append(jobs, job{combo, false, k, 0, true, "", ""})
							// ... and the rotations after the failed one told to keep going (their default serial
							// names the object the failed attempt may have left)
							jobs = append(jobs, job{combo, false, k, 0, false, "", "--keep_going"})
						}
					} else {
						jobs = append(jobs, job{combo, true, k, sov, false, "", ""})
						if !run.IsQuick() {
							jobs = append(jobs, job{combo, false, k, sov, false, "", ""})
						}
					}
				}
				// a fault that persists: every call of one name (one storage operation on one object) fails for
				// the whole of the faulty rotation, however often the code tries again
				if sov == 0 {
					seenName := map[string]bool{}
					for _, name := range t.Calls {
						if strings.HasPrefix(name, "Storage.") && !seenName[name] {
							seenName[name] = true
							jobs = append(jobs, job{combo, false, 0, 0, false, name, ""}, job{combo, false, 0, 0, true, name, ""})
						}
					}
				}
			}
			a.Close()
		}
		parallel(len(jobs), func(i int) {
			j := jobs[i]
			a, err := NewAuthority(j.combo)
			if err != nil {
				run.Infra(err)
				return
			}
			defer a.Close()
			a.LongLived = j.long
			var writes []Write
			var cmds []string
			exec := func(t *Tap, args ...string) error {
				err := a.Exec(t, args...)
				writes = append(writes, t.Writes...)
				cmds = append(cmds, fmt.Sprintf("%s -> %v", strings.Join(args[:1], " "), err))
				return err
			}
			if err := exec(&Tap{}, "bootstrap", "--timestamp", ts(T0)); err != nil {
				run.Infra(err)
				return
			}
			ft := &Tap{FailAt: j.k, FailName: j.name}
			fargs := []string{"rotate", "--timestamp", ts(Tn(1))}
			if j.sov != 0 {
				fargs = append(fargs, "--rotated_key_serial_override", fmt.Sprint(j.sov))
			}
			if j.kg {
				fargs = append(fargs, "--keep_going")
			}
			exec(ft, fargs...)
			failed := "?"
			if j.k >= 1 && j.k <= len(ft.Calls) {
				failed = ft.Calls[j.k-1]
			}
			if j.name != "" {
				failed = "every " + j.name
			}
			for r := 2; r <= 3; r++ {
				hargs := []string{"rotate", "--timestamp", ts(Tn(r))}
				if j.retry != "" {
					hargs = append(hargs, j.retry)
				}
				if j.sov != 0 {
					// explicit serials: the command then does not need the current primary's certificate to
					// compute the next serial, so the retry goes ahead on a long-lived authority object too
					hargs = append(hargs, "--rotated_key_serial_override", fmt.Sprint(j.sov+r-1))
				}
				exec(&Tap{}, hargs...)
			}
			objs := map[string][]byte{}
			have := map[string]bool{}
			mu.Lock()
			faultHists++
			mu.Unlock()
			for k, w := range writes {
				if op, _ := classifyObject(w.Object, w.Data); op == "WriteMan" {
					for _, obj := range manifestObjects(w.Data) {
						if !have[obj] {
							run.Violation("manifest-ahead:fault", fmt.Sprintf("manifest written while it references %q, which is not stored (rotation with call %d [%s] failing, serial override %d, keep_going %v, then healthy rotations; long-lived authority object: %v; %v)", obj, j.k, failed, j.sov, j.kg, j.long, j.combo),
								map[string]any{"combo": j.combo.String(), "fail_at": j.k, "failed_call": failed, "long_lived": j.long, "commands": cmds})
						}
					}
				}
				have[w.Object] = true
				objs[bucket+"/"+w.Object] = w.Data
				if err := StoreConsistent(objs, Tn(3)); err != nil {
					run.Violation("prefix-inconsistent:fault:"+classOf(w.Object), fmt.Sprintf("after the first %d committed object writes (last: %s) of a history whose first rotation had call %d [%s] failing (keep_going %v; later rotations with %q; long-lived authority object: %v; %v) the store is inconsistent: %v", k+1, w.Object, j.k, failed, j.kg, j.retry, j.long, j.combo, err),
						map[string]any{"combo": j.combo.String(), "fail_at": j.k, "failed_call": failed, "long_lived": j.long, "commands": cmds, "prefix": k + 1})
				}
				mu.Lock()
				faultPrefixes++
				mu.Unlock()
			}
			run.Case(fmt.Sprintf("fault:%v:%v:%d:%d:%v:%s:%s", j.combo, j.long, j.k, j.sov, j.kg, j.name, j.retry), true)
		})
	}
	// the operator may spell --root_path / --cert_dir in any way the shell accepts ("./certs", "certs//",
	// "x/../certs"): object names are what the manifest says they are, at every prefix of the writes
	for _, layout := range [][2]string{{"./root.crt", "./certs"}, {"root.crt", "certs//signing"}, {"r/../root.crt", "certs/./k"}} {
		a, err := NewAuthority(Combo{"memkm", "gcsca"})
		if err != nil {
			run.Infra(err)
			return
		}
		a.RootPathFlag, a.CertDirFlag = layout[0], layout[1]
		var writes []Write
		ok := true
		for r, args := range [][]string{{"bootstrap", "--timestamp", ts(T0)}, {"rotate", "--timestamp", ts(Tn(1))}, {"rotate", "--timestamp", ts(Tn(2))}} {
			t := &Tap{}
			if err := a.Exec(t, args...); err != nil {
				run.Violation("layout-command-fails", fmt.Sprintf("command %d (%s) fails on a store laid out with --root_path=%q --cert_dir=%q: %v", r+1, args[0], layout[0], layout[1], err), map[string]any{"layout": layout})
				ok = false
				break
			}
			writes = append(writes, t.Writes...)
		}
		if ok {
			objs := map[string][]byte{}
			for k, w := range writes {
				objs[bucket+"/"+w.Object] = w.Data
				if err := StoreConsistentLayout(objs, Tn(2), layout[0], layout[1]); err != nil {
					run.Violation("prefix-inconsistent:layout", fmt.Sprintf("after the first %d object writes (last: %s) of bootstrap + 2 rotations with --root_path=%q --cert_dir=%q the store is inconsistent: %v", k+1, w.Object, layout[0], layout[1], err), map[string]any{"layout": layout, "prefix": k + 1})
					break
				}
			}
		}
		a.Close()
		run.Case(fmt.Sprintf("layout:%v", layout), true)
	}
	// a first bootstrap of an empty store in which the k-th interface call fails (every call position):
	// every prefix of the writes it actually committed is consistent (a later bootstrap --overwrite over a
	// populated store is outside the statement: it replaces root and certificates object by object)
	{
		type bjob struct {
			combo Combo
			k     int
			name  string // persistent fault: every call of this name fails (k = 0)
		}
		var bjobs []bjob
		for _, combo := range combos {
			a, err := NewAuthority(combo)
			if err != nil {
				run.Infra(err)
				return
			}
			t := &Tap{}
			if err := a.Exec(t, "bootstrap", "--timestamp", ts(T0)); err != nil {
				run.Infra(err)
				return
			}
			a.Close()
			for k := 1; k <= len(t.Calls); k++ {
				bjobs = append(bjobs, bjob{combo, k, ""})
			}
			seenName := map[string]bool{}
			for _, name := range t.Calls {
				if strings.HasPrefix(name, "Storage.") && !seenName[name] {
					seenName[name] = true
					bjobs = append(bjobs, bjob{combo, 0, name})
				}
			}
		}
		parallel(len(bjobs), func(i int) {
			j := bjobs[i]
			a, err := NewAuthority(j.combo)
			if err != nil {
				run.Infra(err)
				return
			}
			defer a.Close()
			ft := &Tap{FailAt: j.k, FailName: j.name}
			ferr := a.Exec(ft, "bootstrap", "--timestamp", ts(T0))
			failed := "?"
			if j.k >= 1 && j.k <= len(ft.Calls) {
				failed = ft.Calls[j.k-1]
			}
			if j.name != "" {
				failed = "every " + j.name
			}
			objs := map[string][]byte{}
			for k, w := range ft.Writes {
				objs[bucket+"/"+w.Object] = w.Data
				if err := StoreConsistent(objs, Tn(1)); err != nil {
					run.Violation("prefix-inconsistent:bootstrap-fault:"+classOf(w.Object), fmt.Sprintf("after the first %d committed object writes (last: %s) of a first bootstrap whose call %d [%s] failed (result: %v) the store is inconsistent: %v (%v)", k+1, w.Object, j.k, failed, ferr, err, j.combo),
						map[string]any{"combo": j.combo.String(), "fail_at": j.k, "failed_call": failed, "prefix": k + 1})
					break
				}
			}
			run.Case(fmt.Sprintf("bootstrap-fault:%v:%d:%s", j.combo, j.k, j.name), true)
		})
	}
	// a storage whose writers take part of what they are given and say so only in the byte count: a first
	// bootstrap, and a rotation after a normal history, either fail or store whole objects; every prefix
	// of what was committed is consistent
	for _, phase := range []string{"bootstrap", "rotate"} {
		for _, per := range []int{1024, 100} {
			a, err := NewAuthority(Combo{"memkm", "gcsca"})
			if err != nil {
				run.Infra(err)
				return
			}
			var writes []Write
			cmd := func(short bool, args ...string) error {
				t := &Tap{}
				a.Storage.mu.Lock()
				if short {
					a.Storage.ShortWrites = per
				} else {
					a.Storage.ShortWrites = 0
				}
				a.Storage.mu.Unlock()
				err := a.Exec(t, args...)
				writes = append(writes, t.Writes...)
				return err
			}
			var ferr error
			if phase == "bootstrap" {
				ferr = cmd(true, "bootstrap", "--timestamp", ts(T0))
			} else {
				if err := cmd(false, "bootstrap", "--timestamp", ts(T0)); err != nil {
					run.Infra(err)
					return
				}
				ferr = cmd(true, "rotate", "--timestamp", ts(Tn(1)))
			}
			objs := map[string][]byte{}
			for k, w := range writes {
				objs[bucket+"/"+w.Object] = w.Data
				if err := StoreConsistent(objs, Tn(1)); err != nil {
					run.Violation("prefix-inconsistent:short-writes:"+classOf(w.Object), fmt.Sprintf("storage writers that take at most %d bytes per call and report the short count: after the first %d committed object writes (last: %s) of a %s (result: %v) the store is inconsistent: %v", per, k+1, w.Object, phase, ferr, err), nil)
					break
				}
			}
			run.Case(fmt.Sprintf("short-writes:%s:%d", phase, per), true)
			a.Close()
		}
	}
	// the object-store authority on real files (storage/local) with object names the file system cannot answer for: a
	// certificate directory whose name is taken by a regular file, a common name longer than a file name may
	// be; with and without --keep_going the store on disk stays consistent (every listed key resolves to a
	// stored certificate)
	for _, blocker := range []string{"notdir", "plain"} {
		for _, kg := range []bool{false, true} {
			a, err := NewAuthority(Combo{"localkm", "gcsdisk"})
			if err != nil {
				run.Infra(err)
				return
			}
			if err := a.Exec(&Tap{}, "bootstrap", "--timestamp", ts(T0)); err != nil {
				run.Infra(fmt.Errorf("bootstrap: %v", err))
				a.Close()
				return
			}
			layoutCerts := certDir
			if blocker == "notdir" {
				// the rotation is told a certificate directory whose first component is a regular file
				os.WriteFile(filepath.Join(a.Dir, "bucketroot", bucket, "occupied"), []byte("a file, not a directory"), 0o644)
				a.CertDirFlag = "occupied/certs"
				layoutCerts = "occupied/certs"
			}
			args := []string{"rotate", "--timestamp", ts(Tn(1))}
			if kg {
				args = append(args, "--keep_going")
			}
			xerr := a.Exec(&Tap{}, args...)
			objs := map[string][]byte{}
			rootDir := filepath.Join(a.Dir, "bucketroot")
			filepath.Walk(rootDir, func(p string, info os.FileInfo, err error) error {
				if err == nil && !info.IsDir() {
					b, _ := os.ReadFile(p)
					rel, _ := filepath.Rel(rootDir, p)
					objs[filepath.ToSlash(rel)] = b
				}
				return nil
			})
			run.Case(fmt.Sprintf("disk-names:%s:%v", blocker, kg), true)
			if err := StoreConsistentLayout(objs, Tn(1), rootPath, layoutCerts); err != nil {
				// the entries of the bootstrap keep their objects under the first layout
				if err2 := StoreConsistentLayout(objs, Tn(1), rootPath, certDir); err2 != nil || blocker == "notdir" {
					run.Violation("store-inconsistent:disk-names", fmt.Sprintf("on-disk authority, rotation with a certificate directory %q (%s; --keep_going %v; result: %v): the store on disk is inconsistent afterwards: %v", a.certDirFlag(), blocker, kg, xerr, err), nil)
				}
			}
			a.Close()
		}
	}
	// a long history: the manifest grows by one entry per rotation; after every command the live
	// store must still load through a fresh authority instance
	{
		n := 60
		if !run.IsQuick() {
			n = 120
		}
		a, err := NewAuthority(Combo{"memkm", "gcsca"})
		if err != nil {
			run.Infra(err)
			return
		}
		if err := a.Exec(&Tap{}, "bootstrap", "--timestamp", ts(T0)); err != nil {
			run.Infra(err)
			return
		}
		longest := 0
		for r := 1; r <= n; r++ {
			if err := a.Exec(&Tap{}, "rotate", "--timestamp", ts(T0.Add(time.Duration(r)*time.Hour))); err != nil {
				run.Violation("long-history-rotation-fails", fmt.Sprintf("fault-free rotation %d of a long history fails: %v", r, err), map[string]any{"rotation": r})
				break
			}
			objs := a.Storage.Snapshot()
			if m := len(objs[bucket+"/keyManifest.textproto"]); m > longest {
				longest = m
			}
			if err := StoreConsistent(objs, T0.Add(time.Duration(r)*time.Hour)); err != nil {
				run.Violation("store-unloadable:long-history", fmt.Sprintf("after %d fault-free rotations (manifest of %d bytes) the store no longer loads consistently through a fresh authority: %v", r, len(objs[bucket+"/keyManifest.textproto"]), err), map[string]any{"rotation": r})
				break
			}
			run.Case(fmt.Sprintf("long:%d", r), true)
		}
		a.Close()
		run.Extra["long_history_rotations"] = n
		run.Extra["long_history_manifest_bytes"] = longest
	}
	run.Extra["fault_histories"] = faultHists
	run.Extra["fault_history_prefixes_checked"] = faultPrefixes
	var os []string
	for k, v := range orders {
		os = append(os, fmt.Sprintf("%s (x%d)", k, v))
	}
	sort.Strings(os)
	run.Extra["bootstrap_write_orders_seen"] = os
	run.Extra["bootstrap_upload_orders_possible"] = 2
	// trace validation of the recorded fault-free histories (manifest-last is an action property
	// of the spec; the trace spec rejects a manifest written ahead of an upload)
	var traces [][]string
	for _, h := range hs {
		traces = append(traces, traceOf(h.events))
	}
	rej, at, err := vk.ValidateTraces(run, "Trace_KeyAuthority", "Trace_KeyAuthority_faults.cfg", traces, true)
	if err != nil {
		run.Infra(err)
		return
	}
	for n, k := range rej {
		if n < 3 {
			fmt.Fprintf(vk.Stdout, "DRIFT property=C11 trace rejected by Trace_KeyAuthority at event %d: %s\n", at[k], evString(hs[k].events))
		}
	}
	run.AddDrift(int64(len(rej)))
	run.Extra["real_traces_accepted_by_spec"] = len(traces) - len(rej)
	run.Exhaustive = true
	run.Rule = "write sequences of real first bootstraps and following rotations (one with a serial override) are recorded by the storage double for both key managers over gcsca, repeated to vary the upload order; every prefix of every sequence is materialised and read back through a fresh gcsca instance; distinct = distinct prefix (sequence of object names)"
}

func classOf(obj string) string {
	op, _ := classifyObject(obj, nil)
	return op
}
