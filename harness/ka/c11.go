package ka

import (
	"fmt"
	"sort"
	"strings"
	"sync"
	"time"

	"verifharness/vk"
)

// RunC11 is the C11 check: every prefix of the storage writes of a first bootstrap and of later
// rotations is read back through a fresh authority instance.
func RunC11(run *vk.Run) {
	tier := "quick"
	if !run.IsQuick() {
		tier = "thorough"
	}
	run.Assumptions = append(run.Assumptions, "storage writes are atomic per object (object granularity, as the statement says)",
		"Go's map iteration order over pending certificates cannot be forced; orders are explored by repetition and the set seen is reported")
	res, err := vk.RunTLC(vk.TLCOpts{Module: "KeyAuthority", Config: "MC_KeyAuthority_faults_" + tier + ".cfg", Timeout: 20 * time.Minute})
	if err != nil {
		run.Infra(err)
		return
	}
	run.AddTLC(res)
	reps, nrot := 8, 2
	if !run.IsQuick() {
		reps, nrot = 48, 4
	}
	type hist struct {
		combo  Combo
		writes []Write
		marks  []int // index in writes where each command starts
		events []Event
	}
	var mu sync.Mutex
	var hs []hist
	orders := map[string]int{}
	combos := []Combo{{"localkm", "gcsca"}, {"memkm", "gcsca"}}
	parallel(reps*len(combos), func(i int) {
		combo := combos[i%len(combos)]
		a, err := NewAuthority(combo)
		if err != nil {
			run.Infra(err)
			return
		}
		defer a.Close()
		h := hist{combo: combo}
		t := &Tap{}
		if err := a.Exec(t, "bootstrap", "--timestamp", ts(T0)); err != nil {
			run.Infra(fmt.Errorf("fault-free bootstrap failed: %v", err))
			return
		}
		h.writes = append(h.writes, t.Writes...)
		h.marks = append(h.marks, 0)
		h.events = append(h.events, cmdEvents("bootstrap", false, t, nil, false)...)
		var ord []string
		for _, w := range t.Writes {
			ord = append(ord, strings.TrimPrefix(w.Object, certDir+"/"))
		}
		for r := 1; r <= nrot; r++ {
			t := &Tap{}
			args := []string{"rotate", "--timestamp", ts(Tn(r))}
			if r == nrot {
				args = append(args, "--rotated_key_serial_override", "9")
			}
			if err := a.Exec(t, args...); err != nil {
				if r > 2 { // serial 9 + 1 is still fine; any failure here is unexpected
					run.Infra(fmt.Errorf("fault-free rotation %d failed: %v", r, err))
				} else {
					run.Infra(fmt.Errorf("fault-free rotation %d failed: %v", r, err))
				}
				return
			}
			h.marks = append(h.marks, len(h.writes))
			h.writes = append(h.writes, t.Writes...)
			sov := 0
			if r == nrot {
				sov = 9
			}
			h.events = append(h.events, cmdEventsSov("rotate", false, sov, t, nil, false)...)
		}
		mu.Lock()
		orders[strings.Join(ord, " < ")]++
		hs = append(hs, h)
		mu.Unlock()
	})
	if run.Failed() {
		return
	}
	// every prefix of every recorded write sequence
	seen := map[string]bool{}
	for hi, h := range hs {
		objs := map[string][]byte{}
		for k := 0; k <= len(h.writes); k++ {
			if k > 0 {
				w := h.writes[k-1]
				objs[bucket+"/"+w.Object] = w.Data
			}
			var names []string
			for _, w := range h.writes[:k] {
				names = append(names, w.Object)
			}
			key := strings.Join(names, ",")
			at := Tn(nrot)
			if err := StoreConsistent(objs, at); err != nil {
				last := "(empty store)"
				if k > 0 {
					last = h.writes[k-1].Object
				}
				cls := "prefix-inconsistent:" + classOf(last)
				run.Violation(cls, fmt.Sprintf("after the first %d object writes (last: %s) of %v the store is inconsistent: %v", k, last, h.combo, err),
					map[string]any{"combo": h.combo.String(), "writes": names, "prefix": k})
			}
			run.Case(key, k > 0)
			if !seen[key] {
				seen[key] = true
			}
			if hi == 0 && k == len(h.writes)/2 {
				run.Sample(map[string]any{"combo": h.combo.String(), "prefix_len": k, "writes_so_far": names})
			}
		}
		// manifest-last: no manifest write may reference an object that is not stored yet
		have := map[string]bool{}
		for _, w := range h.writes {
			if op, _ := classifyObject(w.Object, w.Data); op == "WriteMan" {
				for _, obj := range manifestObjects(w.Data) {
					if !have[obj] {
						run.Violation("manifest-ahead", fmt.Sprintf("manifest written while it references %q, which is not stored yet", obj), map[string]any{"combo": h.combo.String()})
					}
				}
			}
			have[w.Object] = true
		}
	}
	var os []string
	for k, v := range orders {
		os = append(os, fmt.Sprintf("%s (x%d)", k, v))
	}
	sort.Strings(os)
	run.Extra["bootstrap_write_orders_seen"] = os
	run.Extra["bootstrap_upload_orders_possible"] = 2
	// trace validation of the recorded fault-free histories (manifest-last is an action property
	// of the spec; the trace spec rejects a manifest written ahead of an upload)
	var traces [][]string
	for _, h := range hs {
		traces = append(traces, traceOf(h.events))
	}
	rej, at, err := vk.ValidateTraces(run, "Trace_KeyAuthority", "Trace_KeyAuthority_faults.cfg", traces, true)
	if err != nil {
		run.Infra(err)
		return
	}
	for n, k := range rej {
		if n < 3 {
			fmt.Printf("DRIFT property=C11 trace rejected by Trace_KeyAuthority at event %d: %s\n", at[k], evString(hs[k].events))
		}
	}
	run.AddDrift(int64(len(rej)))
	run.Extra["real_traces_accepted_by_spec"] = len(traces) - len(rej)
	run.Exhaustive = true
	run.Rule = "write sequences of real first bootstraps and following rotations (one with a serial override) are recorded by the storage double for both key managers over gcsca, repeated to vary the upload order; every prefix of every sequence is materialised and read back through a fresh gcsca instance; distinct = distinct prefix (sequence of object names)"
}

func classOf(obj string) string {
	op, _ := classifyObject(obj, nil)
	return op
}
