package ka

// Conformance of System.tla (the whole pipeline: authority commands, the endorse run, an untrusted
// bucket, the relying party's SEV-SNP validation) -- "./check X-SYSTEM <tier>".  TLC emits one witness
// history per distinct (state, validation); each is replayed on the real commands, the real
// endorse.VirtualFirmware and gcetcbendorsement.SevValidate downloading from a bucket double that the
// history's adversary steps rewrite.  Not anchored in one listed property: disagreements are DRIFT.

import (
	"crypto/x509"
	"encoding/json"
	"fmt"
	"os"
	"path/filepath"
	"strings"
	"sync"
	"time"

	"github.com/google/gce-tcb-verifier/endorse"
	"github.com/google/gce-tcb-verifier/extract/extractsev"
	gtb "github.com/google/gce-tcb-verifier/gcetcbendorsement"
	epb "github.com/google/gce-tcb-verifier/proto/endorsement"
	"github.com/google/gce-tcb-verifier/sev"
	styp "github.com/google/gce-tcb-verifier/sign/types"
	"github.com/google/gce-tcb-verifier/testing/nonprod/localnonvcs"
	"github.com/google/gce-tcb-verifier/verify"
	"github.com/google/go-sev-guest/proto/sevsnp"
	"google.golang.org/protobuf/proto"

	"verifharness/fx"
	"verifharness/rp"
	"verifharness/vk"
)

type sysEv struct {
	Op    string `json:"op"`
	T     int    `json:"t"`
	Img   string `json:"img"`
	To    string `json:"to"`
	From  string `json:"from"`
	At    string `json:"at"`
	M     string `json:"m"`
	Req   uint32 `json:"req"`
	Roots string `json:"roots"`
	Res   string `json:"res"`
}

var sysTick = time.Duration(styp.SignValidDays) * 24 * time.Hour // one logical tick = one signing-certificate lifetime

func sysTime(t int) time.Time { return T0.Add(time.Duration(t-1) * sysTick) }

// sysAuth is the state of the signing side after a sequence of authority commands.
type sysAuth struct {
	a    *Authority
	root *x509.Certificate
	docs []sysDoc // genuinely issued endorsements, in order
	err  error
}
type sysDoc struct {
	img   string
	bytes []byte
	nb    time.Time // validity of the certificate that signed it
	na    time.Time
}

type sysWorld struct {
	mu      sync.Mutex
	cache   map[string]*sysAuth
	images  map[string][]byte
	meas    map[string][]byte // "i1/2" -> launch digest
	evil    *Authority
	evilOf  map[string][]byte // image -> endorsement issued by the adversary's own authority
	foreign *x509.CertPool
	vcek    []byte
}

func sysEndorse(a *Authority, img []byte, at time.Time) ([]byte, error) {
	kc, err := a.Loaded()
	if err != nil {
		return nil, err
	}
	dir, err := os.MkdirTemp("", "vk-sys-")
	if err != nil {
		return nil, err
	}
	defer os.RemoveAll(dir)
	ectx := &endorse.Context{Image: img, Timestamp: at, ClSpec: 4242, VCS: &localnonvcs.T{Root: dir}, OutDir: "out",
		SevSnp: &sev.SnpEndorsementRequest{Product: sevsnp.SevProduct_SEV_PRODUCT_MILAN, LaunchVmsas: 0, Svn: 1}}
	if err := endorse.VirtualFirmware(endorse.NewContext(fx.Ctx(kc, true, false), ectx)); err != nil {
		return nil, err
	}
	return os.ReadFile(filepath.Join(dir, "out", "endorsement.binarypb"))
}

func certOfDoc(b []byte) (*x509.Certificate, error) {
	e := &epb.VMLaunchEndorsement{}
	if err := proto.Unmarshal(b, e); err != nil {
		return nil, err
	}
	g := &epb.VMGoldenMeasurement{}
	if err := proto.Unmarshal(e.SerializedUefiGolden, g); err != nil {
		return nil, err
	}
	return x509.ParseCertificate(g.Cert)
}

// authAfter returns the signing side after the authority commands of ops (cached by prefix).
func (w *sysWorld) authAfter(ops []sysEv) *sysAuth {
	key := ""
	for _, o := range ops {
		key += fmt.Sprintf("%s:%s:%d|", o.Op, o.Img, o.T)
	}
	w.mu.Lock()
	if s, ok := w.cache[key]; ok {
		w.mu.Unlock()
		return s
	}
	w.mu.Unlock()
	var s *sysAuth
	if len(ops) == 0 {
		a, err := NewAuthority(Combos[0])
		s = &sysAuth{a: a, err: err}
	} else {
		prev := w.authAfter(ops[:len(ops)-1])
		s = &sysAuth{root: prev.root, docs: prev.docs, err: prev.err}
		if prev.err == nil {
			o := ops[len(ops)-1]
			a, err := prev.a.Clone()
			s.a, s.err = a, err
			if err == nil {
				at := sysTime(o.T)
				switch o.Op {
				case "bootstrap":
					s.err = a.Exec(&Tap{}, "bootstrap", "--timestamp", ts(at))
					if s.err == nil {
						if kc, lerr := a.Loaded(); lerr == nil {
							s.root, s.err = rootOfCA(kc)
						} else {
							s.err = lerr
						}
					}
				case "rotate":
					s.err = a.Exec(&Tap{}, "rotate", "--timestamp", ts(at))
				case "endorse":
					b, eerr := sysEndorse(a, w.images[o.Img], at)
					s.err = eerr
					if eerr == nil {
						c, cerr := certOfDoc(b)
						if cerr != nil {
							s.err = cerr
						} else {
							s.docs = append(append([]sysDoc{}, prev.docs...), sysDoc{img: o.Img, bytes: b, nb: c.NotBefore, na: c.NotAfter})
						}
					}
				}
				if s.err != nil {
					s.err = fmt.Errorf("%s at tick %d: %v", o.Op, o.T, s.err)
				}
			}
		}
	}
	w.mu.Lock()
	if old, ok := w.cache[key]; ok {
		w.mu.Unlock()
		if s.a != nil {
			s.a.Close()
		}
		return old
	}
	w.cache[key] = s
	w.mu.Unlock()
	return s
}

func (w *sysWorld) url(m string) string {
	return verify.GCETcbURL(extractsev.GCETcbObjectName(sev.GCEUefiFamilyID, w.meas[m]))
}

// RunSystem executes the System.tla conformance ("./check X-SYSTEM <tier>").
func RunSystem(run *vk.Run) {
	tier := "quick"
	if !run.IsQuick() {
		tier = "thorough"
	}
	mc, err := vk.RunTLC(vk.TLCOpts{Module: "System", Config: "MC_System_" + tier + ".cfg", Timeout: 20 * time.Minute})
	if err != nil {
		run.Infra(err)
		return
	}
	run.AddTLC(mc)
	// the model checker explores 5-6 commands; the proof covers histories of any length
	if _, err := vk.RunTLAPS(run, "SystemProof", 15*time.Minute); err != nil {
		run.Infra(err)
		return
	}
	for _, neg := range []string{"Neg_System_listing.cfg", "Neg_System_time.cfg"} {
		if _, err := vk.RunTLC(vk.TLCOpts{Module: "System", Config: neg, Timeout: 5 * time.Minute, ExpectViolation: true}); err != nil {
			run.Infra(err)
			return
		}
	}
	em, err := vk.RunTLC(vk.TLCOpts{Module: "System", Config: "Emit_System_" + tier + ".cfg", Workers: 1, Timeout: 20 * time.Minute})
	if err != nil {
		run.Infra(err)
		return
	}
	run.AddTLC(em)
	m, err := rp.GetMaterial()
	if err != nil {
		run.Infra(err)
		return
	}
	w := &sysWorld{cache: map[string]*sysAuth{}, images: map[string][]byte{"i1": fx.Image(0x1000, 901), "i2": fx.Image(0x1000, 902)},
		meas: map[string][]byte{}, evilOf: map[string][]byte{}, vcek: m.Vcek.Raw}
	defer func() {
		for _, s := range w.cache {
			if s.a != nil {
				s.a.Close()
			}
		}
		if w.evil != nil {
			w.evil.Close()
		}
	}()
	for name, img := range w.images {
		for _, c := range []int{1, 2} {
			o := sev.LaunchOptionsDefault()
			o.Vcpus, o.Product = c, sevsnp.SevProduct_SEV_PRODUCT_MILAN
			d, err := sev.LaunchDigest(o, img)
			if err != nil {
				run.Infra(err)
				return
			}
			w.meas[fmt.Sprintf("%s/%d", name, c)] = d
		}
	}
	// the adversary's own authority and what it signs
	if w.evil, err = NewAuthority(Combos[0]); err != nil {
		run.Infra(err)
		return
	}
	if err := w.evil.Exec(&Tap{}, "bootstrap", "--timestamp", ts(sysTime(1))); err != nil {
		run.Infra(err)
		return
	}
	for name, img := range w.images {
		if w.evilOf[name], err = sysEndorse(w.evil, img, sysTime(1)); err != nil {
			run.Infra(err)
			return
		}
	}
	w.foreign = x509.NewCertPool()
	w.foreign.AddCert(m.ForeignCert)
	stride := 1
	if run.IsQuick() {
		stride = 4
	}
	var mu sync.Mutex
	drift, accepts, validations := int64(0), 0, 0
	note := func(f string, a ...any) {
		mu.Lock()
		drift++
		if drift <= 8 {
			fmt.Fprintf(vk.Stdout, "DRIFT engine=System "+f+"\n", a...)
		}
		mu.Unlock()
	}
	ctx := fx.Ctx(nil, false, false)
	parallel(len(em.Cases), func(i int) {
		if !vk.Pick(i, run.Seed, stride) {
			return
		}
		var c struct {
			Hist []sysEv `json:"hist"`
		}
		if err := json.Unmarshal(em.Cases[i], &c); err != nil {
			run.Infra(err)
			return
		}
		now := 1
		var authOps []sysEv
		bucket := map[string][]byte{} // measurement name -> served bytes
		var hs []string
		for _, e := range c.Hist {
			hs = append(hs, strings.TrimSpace(fmt.Sprintf("%s %s%s%s%s", e.Op, e.Img, e.At, e.M, map[bool]string{true: " <- " + e.From, false: ""}[e.Op == "swap"])))
			switch e.Op {
			case "tick":
				now++
			case "bootstrap", "rotate", "endorse":
				e.T = now
				authOps = append(authOps, e)
				st := w.authAfter(authOps)
				if st.err != nil {
					note("history %v: the specification lets the command succeed, the real one fails: %v", hs, st.err)
					return
				}
				if e.Op == "endorse" {
					d := st.docs[len(st.docs)-1]
					for _, cfg := range []int{1, 2} {
						bucket[fmt.Sprintf("%s/%d", e.Img, cfg)] = d.bytes
					}
				}
			case "swap":
				bucket[e.To] = bucket[e.From]
			case "drop":
				delete(bucket, e.At)
			case "forge":
				bucket[e.At] = w.evilOf[strings.Split(e.At, "/")[0]]
			case "corrupt":
				// the document of the other image under the stored (genuine) signature
				en := &epb.VMLaunchEndorsement{}
				if err := proto.Unmarshal(bucket[e.At], en); err != nil {
					run.Infra(fmt.Errorf("corrupt: stored object unreadable: %v", err))
					return
				}
				g := &epb.VMGoldenMeasurement{}
				proto.Unmarshal(en.SerializedUefiGolden, g)
				other := "i1"
				if string(g.Digest) == string(fx.Sha384(w.images["i1"])) {
					other = "i2"
				}
				oe := &epb.VMLaunchEndorsement{}
				proto.Unmarshal(w.evilOf[other], oe)
				og := &epb.VMGoldenMeasurement{}
				proto.Unmarshal(oe.SerializedUefiGolden, og)
				og.Cert, og.CaBundle = g.Cert, g.CaBundle // the genuine certificate stays in place
				payload, _ := proto.MarshalOptions{Deterministic: true}.Marshal(og)
				bucket[e.At], _ = proto.Marshal(&epb.VMLaunchEndorsement{SerializedUefiGolden: payload, Signature: en.Signature})
			case "validate":
				st := w.authAfter(authOps)
				roots := x509.NewCertPool()
				switch {
				case e.Roots == "foreign":
					roots = w.foreign
				case st.root != nil:
					roots.AddCert(st.root)
				}
				body := map[string][]byte{}
				for name, b := range bucket {
					body[w.url(name)] = b
				}
				att := &sevsnp.Attestation{Report: rp.Report(w.meas[e.M]), CertificateChain: &sevsnp.CertificateChain{VcekCert: w.vcek}}
				at := sysTime(now)
				var verr error
				func() {
					defer func() {
						if p := recover(); p != nil {
							verr = fmt.Errorf("PANIC: %v", p)
						}
					}()
					verr = gtb.SevValidate(ctx, att, &gtb.SevValidateOptions{RootsOfTrust: roots, Now: at, Getter: &rp.MapGetter{Body: body}, ExpectedLaunchVmsas: e.Req})
				}()
				acc := verr == nil
				mu.Lock()
				validations++
				if acc {
					accepts++
				}
				mu.Unlock()
				if acc != (e.Res == "accept") {
					note("history %v: validation of %s (count %d, %s roots, tick %d) real accept=%v (%v), System.tla says %s", hs, e.M, e.Req, e.Roots, now, acc, verr, e.Res)
				}
				if acc {
					// the end-to-end statement on the real objects: the accepted measurement is listed, for the
					// named count, by a document the trusted authority issued, under a certificate valid now
					ok := false
					for _, d := range st.docs {
						if e.Roots == "genuine" && strings.HasPrefix(e.M, d.img+"/") && !at.Before(d.nb) && !at.After(d.na) && (e.Req == 0 || strings.HasSuffix(e.M, fmt.Sprintf("/%d", e.Req))) {
							ok = true
						}
					}
					if !ok {
						note("END-TO-END history %v: a report with measurement %s was accepted (count %d, %s roots, tick %d) although the trusted authority issued no endorsement listing it that is valid at that time", hs, e.M, e.Req, e.Roots, now)
					}
				}
			}
		}
		run.Case(string(em.Cases[i]), true)
		if i%2503 == 0 {
			run.Sample(map[string]any{"history": hs})
		}
	})
	run.AddDrift(drift)
	run.Extra["validations_replayed"] = validations
	run.Extra["validations_accepted"] = accepts
	run.Extra["authority_prefixes_executed"] = len(w.cache)
	run.Exhaustive = !run.IsQuick()
	run.Rule = "SystemProof.tla: TLAPS proof of the end-to-end statement for histories of any length (any images, counts, ticks, lifetime); System.tla is model-checked (end-to-end statement, completeness, rotation keeps earlier endorsements; two negative controls), then one witness history per distinct (state, validation) of the bounded model (2 images x 2 VMSA counts, 4 ticks of one certificate lifetime each, 5 commands; thorough 6) is replayed: real bootstrap / rotate commands, real endorse.VirtualFirmware, a bucket double rewritten by the history's swap / forge / corrupt / drop steps, real SevValidate downloading from it; each validation's result is compared with the specification's and the end-to-end statement is evaluated on the real objects; quick replays a seeded quarter"
}
