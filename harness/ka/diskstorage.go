package ka

// DiskStorage: the repository's local-disk storage client (storage/local) behind the recording /
// fault-injecting tap, for the object-store certificate authority on real files (CA kind "gcsdisk").
// A call that fails or comes after the crash point does not reach the disk; a writer whose Close
// fails or is never reached stays open, as the writer of a process that died does.

import (
	"context"
	"io"
	"sync"

	"github.com/google/gce-tcb-verifier/storage/local"
)

type DiskStorage struct {
	mu    sync.Mutex
	Inner *local.StorageClient
	T     *Tap
}

func (s *DiskStorage) tap() *Tap {
	s.mu.Lock()
	defer s.mu.Unlock()
	if s.T == nil {
		s.T = &Tap{}
	}
	return s.T
}

func (s *DiskStorage) Reader(ctx context.Context, bucket, object string) (io.ReadCloser, error) {
	if err := s.tap().call("Storage.Reader " + object); err != nil {
		return nil, err
	}
	return s.Inner.Reader(ctx, bucket, object)
}

func (s *DiskStorage) Exists(ctx context.Context, bucket, object string) (bool, error) {
	if err := s.tap().call("Storage.Exists " + object); err != nil {
		return false, err
	}
	return s.Inner.Exists(ctx, bucket, object)
}

type diskWriter struct {
	s   *DiskStorage
	obj string
	w   io.WriteCloser
}

func (w *diskWriter) Write(p []byte) (int, error) { return w.w.Write(p) }
func (w *diskWriter) Close() error {
	if err := w.s.tap().call("Storage.Close " + w.obj); err != nil {
		return err
	}
	return w.w.Close()
}

func (s *DiskStorage) Writer(ctx context.Context, bucket, object string) (io.WriteCloser, error) {
	if err := s.tap().call("Storage.Writer " + object); err != nil {
		return nil, err
	}
	w, err := s.Inner.Writer(ctx, bucket, object)
	if err != nil {
		return nil, err
	}
	return &diskWriter{s: s, obj: object, w: w}, nil
}

func (s *DiskStorage) IsNotExists(err error) bool { return s.Inner.IsNotExists(err) }
func (s *DiskStorage) EnsureBucketExists(ctx context.Context, bucket string) error {
	if err := s.tap().call("Storage.EnsureBucketExists " + bucket); err != nil {
		return err
	}
	return s.Inner.EnsureBucketExists(ctx, bucket)
}
func (s *DiskStorage) Wipeout(ctx context.Context, bucket string) error {
	if err := s.tap().call("Storage.Wipeout " + bucket); err != nil {
		return err
	}
	return s.Inner.Wipeout(ctx, bucket)
}
