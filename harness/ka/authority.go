package ka

import (
	"bytes"
	"context"
	"crypto/rand"
	"crypto/rsa"
	"fmt"
	"github.com/google/gce-tcb-verifier/sign/transform"
	"io"
	"os"
	"path/filepath"
	"sort"
	"strings"
	"time"

	"github.com/google/gce-tcb-verifier/cmd"
	"github.com/google/gce-tcb-verifier/keys"
	"github.com/google/gce-tcb-verifier/keys/gcpkms"
	"github.com/google/gce-tcb-verifier/sign/gcsca"
	"github.com/google/gce-tcb-verifier/sign/memca"
	"github.com/google/gce-tcb-verifier/sign/nonprod"
	styp "github.com/google/gce-tcb-verifier/sign/types"
	"github.com/google/gce-tcb-verifier/storage/local"
	"github.com/google/gce-tcb-verifier/testing/nonprod/localca"
	"github.com/google/gce-tcb-verifier/testing/nonprod/localkm"
	"github.com/google/gce-tcb-verifier/testing/nonprod/localnonvcs"
	"github.com/google/gce-tcb-verifier/testing/nonprod/memkm"
	"github.com/google/gce-tcb-verifier/testing/testkms"
	"github.com/spf13/cobra"
)

const (
	bucket   = "b"
	rootPath = "root.crt"
	certDir  = "certs"
)

// Combo names a key manager / certificate authority pair shipped in the repository.
type Combo struct{ KM, CA string }

func (c Combo) String() string { return c.KM + "+" + c.CA }

// Combos: the in-memory pair, the persistent pair over the in-memory storage double (object-level
// fault injection), and the persistent pair over real files.
var Combos = []Combo{{"memkm", "memca"}, {"localkm", "gcsca"}, {"localkm", "localca"}, {"memkm", "gcsca"}}

// Authority is one authority instance (its persistent state and, for the in-memory components, the
// component objects themselves).
type Authority struct {
	// SigningKeyPrefix, when set, is given to the object-store certificate authority (no flag sets it)
	SigningKeyPrefix string
	Combo
	Dir     string // scratch directory: keys/ and bucketroot/
	Storage *MemStorage
	signer  *nonprod.Signer             // memkm: the key store
	memCA   *memca.CertificateAuthority // memca: the certificate store
	// LongLived: the storage-backed CA object is kept across commands and probes (a long-running
	// signer process) instead of being re-created per command.
	// Layout: how the operator spelled --root_path / --cert_dir (default: the canonical spellings)
	RootPathFlag, CertDirFlag string
	LongLived                 bool
	longCA                    *gcsca.CertificateAuthority
	signerWrap                *Signer
	kmsSrv                    *testkms.FakeKmsServer // gcpkms: the in-process Cloud KMS fake
}

// NewAuthority creates an empty authority.
func NewAuthority(c Combo) (*Authority, error) {
	dir, err := os.MkdirTemp("", "vk-ka-")
	if err != nil {
		return nil, err
	}
	a := &Authority{Combo: c, Dir: dir}
	os.MkdirAll(filepath.Join(dir, "keys"), 0o755)
	os.MkdirAll(filepath.Join(dir, "bucketroot"), 0o755)
	if c.CA == "gcsca" {
		a.Storage = NewMemStorage()
	}
	if c.KM == "memkm" {
		a.signer = &nonprod.Signer{Rand: rand.Reader}
	}
	if c.KM == "gcpkms" {
		a.kmsSrv = &testkms.FakeKmsServer{Signer: &nonprod.Signer{Rand: rand.Reader}}
	}
	if c.CA == "memca" {
		a.memCA = memca.Create()
	}
	return a, nil
}

// Close removes the scratch directory.
func (a *Authority) Close() { os.RemoveAll(a.Dir) }

func copyDir(src, dst string) error {
	return filepath.Walk(src, func(p string, info os.FileInfo, err error) error {
		if err != nil {
			return err
		}
		rel, _ := filepath.Rel(src, p)
		if info.IsDir() {
			return os.MkdirAll(filepath.Join(dst, rel), 0o755)
		}
		b, err := os.ReadFile(p)
		if err != nil {
			return err
		}
		return os.WriteFile(filepath.Join(dst, rel), b, 0o644)
	})
}

// Clone copies the authority's whole state (keys, certificates, storage).
func (a *Authority) Clone() (*Authority, error) {
	b, err := NewAuthority(a.Combo)
	if err != nil {
		return nil, err
	}
	if err := copyDir(a.Dir, b.Dir); err != nil {
		return nil, err
	}
	if a.Storage != nil {
		b.Storage = FromSnapshot(a.Storage.Snapshot())
	}
	// a long-lived CA object cannot be cloned (its cached state is private): clones start a new process
	b.LongLived = a.LongLived
	if a.signer != nil {
		for k, v := range a.signer.Keys {
			b.signer.LoadKey(k, v)
		}
	}
	if a.kmsSrv != nil {
		// the fake derives keys, versions and their numbering from the key material it holds
		for k, v := range a.kmsSrv.Signer.Keys {
			b.kmsSrv.Signer.LoadKey(k, v)
		}
	}
	if a.memCA != nil {
		for k, v := range a.memCA.Certs {
			b.memCA.Certs[k] = v
		}
		b.memCA.RootName, b.memCA.PrimarySigningKey = a.memCA.RootName, a.memCA.PrimarySigningKey
	}
	return b, nil
}

// injector wraps whatever the real components put into keys.Context with the recording doubles.
type injector struct {
	t *Tap
	a *Authority
}

func (i *injector) InitContext(ctx context.Context) (context.Context, error) {
	c, err := keys.FromContext(ctx)
	if err != nil {
		return nil, err
	}
	if c.Manager != nil {
		c.Manager = &Manager{ManagerInterface: c.Manager, T: i.t}
	}
	if c.Signer != nil {
		if i.a != nil && i.a.KM == "memkm" {
			// the in-memory key store lives in this process across commands, and so does the signer object the
			// commands see (one recording wrapper per authority; only its tap changes)
			if i.a.signerWrap == nil || i.a.signerWrap.Signer != c.Signer {
				i.a.signerWrap = &Signer{Signer: c.Signer}
			}
			i.a.signerWrap.T = i.t
			c.Signer = i.a.signerWrap
		} else {
			c.Signer = &Signer{Signer: c.Signer, T: i.t}
		}
	}
	if c.CA != nil {
		c.CA = &CA{CertificateAuthority: c.CA, T: i.t}
	}
	return ctx, nil
}
func (i *injector) AddFlags(*cobra.Command)                          {}
func (i *injector) PersistentPreRunE(*cobra.Command, []string) error { return nil }

// components builds fresh command components over the authority's state (like a new process).
func (a *Authority) components(t *Tap) (km cmd.CommandComponent, ca cmd.CommandComponent, flags []string) {
	switch a.KM {
	case "memkm":
		km = &memkm.T{Signer: a.signer}
	case "gcpkms":
		km = a.kmsManager()
		flags = append(flags, "--project", "p", "--location", "l", "--key_ring", "r")
	default:
		km = &localkm.T{T: memkm.T{Signer: &nonprod.Signer{Rand: rand.Reader}}}
		flags = append(flags, "--key_dir", filepath.Join(a.Dir, "keys"))
	}
	switch a.CA {
	case "memca":
		ca = a.memCA
	case "gcsca":
		a.Storage.mu.Lock()
		a.Storage.T = t
		a.Storage.mu.Unlock()
		if a.LongLived {
			if a.longCA == nil {
				a.longCA = &gcsca.CertificateAuthority{Storage: a.Storage}
			}
			ca = a.longCA
		} else {
			ca = &gcsca.CertificateAuthority{Storage: a.Storage, SigningKeyPrefix: a.SigningKeyPrefix}
		}
		flags = append(flags, "--bucket", bucket, "--root_path", a.rootPathFlag(), "--cert_dir", a.certDirFlag())
	case "gcsdisk":
		// the object-store authority on real files: storage/local behind the tap
		ca = &gcsca.CertificateAuthority{Storage: &DiskStorage{Inner: &local.StorageClient{Root: filepath.Join(a.Dir, "bucketroot")}, T: t}}
		flags = append(flags, "--bucket", bucket, "--root_path", a.rootPathFlag(), "--cert_dir", a.certDirFlag())
	default:
		ca = &localca.T{CA: &gcsca.CertificateAuthority{Storage: &local.StorageClient{}}}
		flags = append(flags, "--bucket_root", filepath.Join(a.Dir, "bucketroot"), "--bucket", bucket, "--root_path", a.rootPathFlag(), "--cert_dir", a.certDirFlag())
	}
	return
}

func (a *Authority) rootPathFlag() string {
	if a.RootPathFlag != "" {
		return a.RootPathFlag
	}
	return rootPath
}
func (a *Authority) certDirFlag() string {
	if a.CertDirFlag != "" {
		return a.CertDirFlag
	}
	return certDir
}

func (a *Authority) kmsManager() *gcpkms.Manager {
	return &gcpkms.Manager{Project: "p", Location: "l", KeyRingID: "r", KeyClient: kmsClient{s: a.kmsSrv}, IAMClient: iamClient{}}
}

// Exec runs one CLI command ("bootstrap", "rotate", "wipeout", ...) against the authority through
// cmd.MakeApp, with all interface calls going through tap.
func (a *Authority) Exec(t *Tap, args ...string) (err error) {
	km, ca, flags := a.components(t)
	app := &cmd.AppComponents{
		Endorse:         &localnonvcs.T{},
		Bootstrap:       &cmd.PartialComponent{},
		Global:          cmd.Compose(km, ca, &injector{t, a}),
		SignatureRandom: rand.Reader,
	}
	if a.KM == "gcpkms" {
		app.Bootstrap, app.Rotate = &gcpkms.BootstrapContext{}, &gcpkms.SigningKeyContext{}
		if len(args) > 0 && args[0] == "bootstrap" {
			flags = append(flags, "--signing_key_operators", "serviceAccount:signer@example.com")
		}
	}
	root := cmd.MakeApp(context.Background(), app)
	root.SetOut(io.Discard)
	root.SetErr(io.Discard)
	root.SilenceErrors = true
	root.SilenceUsage = true
	root.SetArgs(append(append([]string{}, args...), append(flags, "--quiet")...))
	defer func() {
		if r := recover(); r != nil {
			err = fmt.Errorf("PANIC: %v", r)
		}
	}()
	return root.Execute()
}

// Loaded is a freshly loaded view of the authority for probing (no doubles): its keys.Context.
func (a *Authority) Loaded() (*keys.Context, error) {
	kc := &keys.Context{Random: rand.Reader}
	switch a.KM {
	case "memkm":
		kc.Signer = a.signer
		kc.Manager = &memkm.T{Signer: a.signer}
	case "gcpkms":
		m := a.kmsManager()
		kc.Manager, kc.Signer = m, &gcpkms.Signer{Manager: m}
	default:
		k := &localkm.T{T: memkm.T{Signer: &nonprod.Signer{Rand: rand.Reader}}, KeyDir: filepath.Join(a.Dir, "keys")}
		if err := k.Init(context.Background()); err != nil {
			return nil, err
		}
		kc.Signer = k.Signer
		kc.Manager = k
	}
	switch a.CA {
	case "memca":
		kc.CA = a.memCA
	case "gcsca":
		if a.LongLived && a.longCA != nil {
			kc.CA = a.longCA
		} else {
			kc.CA = &gcsca.CertificateAuthority{Storage: FromSnapshot(a.Storage.Snapshot()), PrivateBucket: bucket, RootPath: rootPath, SigningCertDirInGCS: certDir}
		}
	default:
		kc.CA = &gcsca.CertificateAuthority{Storage: &local.StorageClient{Root: filepath.Join(a.Dir, "bucketroot")}, PrivateBucket: bucket, RootPath: rootPath, SigningCertDirInGCS: certDir}
	}
	return kc, nil
}

// GcscaOn builds a gcsca authority over a storage snapshot (for C11 prefix checks).
func GcscaOn(objs map[string][]byte) styp.CertificateAuthority {
	return GcscaOnLayout(objs, rootPath, certDir)
}

// GcscaOnLayout: the same with the operator's spelling of --root_path / --cert_dir.
func GcscaOnLayout(objs map[string][]byte, root, certs string) styp.CertificateAuthority {
	return &gcsca.CertificateAuthority{Storage: FromSnapshot(objs), PrivateBucket: bucket, RootPath: root, SigningCertDirInGCS: certs}
}

// KeyNames lists the names of the keys that currently exist in the key store.
func (a *Authority) KeyNames() ([]string, error) {
	var names []string
	if a.KM == "memkm" {
		for k := range a.signer.Keys {
			names = append(names, k)
		}
	} else if a.KM == "gcpkms" {
		for k := range a.kmsSrv.Signer.Keys {
			names = append(names, k)
		}
	} else {
		ents, err := os.ReadDir(filepath.Join(a.Dir, "keys"))
		if err != nil {
			return nil, err
		}
		for _, e := range ents {
			if strings.HasSuffix(e.Name(), ".pem") {
				names = append(names, strings.TrimSuffix(e.Name(), ".pem"))
			}
		}
	}
	sort.Strings(names)
	return names, nil
}

// PublicKeyOf returns the public key of a live key (nil if none).
func (a *Authority) PublicKeyOf(name string) *rsa.PublicKey {
	kc, err := a.Loaded()
	if err != nil {
		return nil
	}
	p, err := kc.Signer.PublicKey(context.Background(), name)
	if err != nil {
		return nil
	}
	// the nonprod signers use their own "RSA PUBLIC KEY" encoding: decode with the repository's decoder
	k, err := transform.DecodePEMRsaKey(p)
	if err != nil {
		return nil
	}
	return k
}

// T0 is the bootstrap time used by the drivers; Tn(i) the time of the i-th later command.
var T0 = time.Date(2025, time.January, 10, 8, 0, 0, 0, time.UTC)

func Tn(i int) time.Time { return T0.Add(time.Duration(i) * 36 * time.Hour) }

func ts(t time.Time) string { return t.Format(time.RFC3339) }

var _ = bytes.Equal
