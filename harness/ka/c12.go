package ka

import (
	"bytes"
	"context"
	"crypto"
	"crypto/rsa"
	"crypto/sha256"
	"crypto/x509"
	"encoding/json"
	"encoding/pem"
	"fmt"
	"hash/fnv"
	"math/big"
	"os"
	"path/filepath"
	"sort"
	"strings"
	"sync"
	"sync/atomic"
	"time"

	styp "github.com/google/gce-tcb-verifier/sign/types"

	"verifharness/vk"
)

// CmdSpec is one abstract command of a history.
type CmdSpec struct {
	Kind   string // bootstrap | rotate | wipe
	Ow     bool
	Kg     bool   // --keep_going
	Serial int    // bootstrap: initial signing serial; rotate: override (0 = default)
	What   string // wipe: ca | keys | all
	T      int
	Raw    string // the specification's parameter string of the Cmd event
	Spell  string // how the serial is spelled on the command line (printf verb; "" = %d)
	Fail   string // every interface call of this name fails during the command ("" = none)
}

func (c CmdSpec) String() string {
	switch c.Kind {
	case "wipe":
		w := "wipeout " + c.What
		if c.Kg {
			w += " --keep_going"
		}
		if c.Fail != "" {
			w += " [every " + c.Fail + " call fails]"
		}
		return w
	case "bootstrap":
		if c.Spell != "" {
			return fmt.Sprintf("bootstrap(serial typed %q,overwrite=%v)", c.serialArg(), c.Ow)
		}
		if c.Kg {
			return fmt.Sprintf("bootstrap(serial=%d,overwrite=%v,keep_going)", c.Serial, c.Ow)
		}
		return fmt.Sprintf("bootstrap(serial=%d,overwrite=%v)", c.Serial, c.Ow)
	}
	if c.Spell != "" {
		return fmt.Sprintf("rotate(override typed %q,overwrite=%v)", c.serialArg(), c.Ow)
	}
	if c.Kg {
		return fmt.Sprintf("rotate(override=%d,overwrite=%v,keep_going)", c.Serial, c.Ow)
	}
	return fmt.Sprintf("rotate(override=%d,overwrite=%v)", c.Serial, c.Ow)
}

func parseCmd(e Event) (CmdSpec, error) {
	if e.Op == "Wipe" {
		return CmdSpec{Kind: "wipe", What: e.Arg}, nil
	}
	c := CmdSpec{Kind: e.Arg, Raw: e.Out}
	p := strings.Split(e.Out, ",")
	if len(p) != 3 {
		return c, fmt.Errorf("bad command params %q", e.Out)
	}
	c.Ow = p[0] == "ow" || p[0] == "owkg"
	c.Kg = p[0] == "kg" || p[0] == "owkg"
	fmt.Sscanf(p[1], "%d", &c.Serial)
	fmt.Sscanf(p[2], "%d", &c.T)
	return c, nil
}

// serialArg: serial flags take decimal numbers, however many leading zeros the operator types
func (c CmdSpec) serialArg() string {
	if c.Spell != "" {
		return fmt.Sprintf(c.Spell, c.Serial)
	}
	return fmt.Sprint(c.Serial)
}

func (c CmdSpec) args(at time.Time) []string {
	switch c.Kind {
	case "wipe":
		a := []string{"wipeout"}
		if c.What != "all" {
			a = append(a, c.What)
		}
		if c.Kg {
			a = append(a, "--keep_going")
		}
		return a
	case "bootstrap":
		a := []string{"bootstrap", "--timestamp", ts(at), "--initial_signing_key_serial", c.serialArg()}
		if c.Ow {
			a = append(a, "--overwrite")
		}
		if c.Kg {
			a = append(a, "--keep_going")
		}
		return a
	}
	a := []string{"rotate", "--timestamp", ts(at)}
	if c.Serial != 0 {
		a = append(a, "--rotated_key_serial_override", c.serialArg())
	}
	if c.Ow {
		a = append(a, "--overwrite")
	}
	if c.Kg {
		a = append(a, "--keep_going")
	}
	return a
}

// CertObjects returns the stored certificate objects (name -> bytes).
func (a *Authority) CertObjects() map[string][]byte {
	r := map[string][]byte{}
	switch a.CA {
	case "memca":
		for k, c := range a.memCA.Certs {
			r[k] = c.Raw
		}
	case "gcsca":
		for k, v := range a.Storage.Snapshot() {
			if strings.HasSuffix(k, ".crt") {
				r[k] = v
			}
		}
	default:
		rootDir := filepath.Join(a.Dir, "bucketroot")
		filepath.Walk(rootDir, func(p string, info os.FileInfo, err error) error {
			if err == nil && !info.IsDir() && strings.HasSuffix(p, ".crt") {
				b, _ := os.ReadFile(p)
				rel, _ := filepath.Rel(rootDir, p)
				r[rel] = b
			}
			return nil
		})
	}
	return r
}

func parseCertAny(b []byte) *x509.Certificate {
	if blk, _ := pem.Decode(b); blk != nil {
		b = blk.Bytes
	}
	c, err := x509.ParseCertificate(b)
	if err != nil {
		return nil
	}
	return c
}

// nodeState is the driver-side bookkeeping carried along a history.
type nodeState struct {
	epochRot  map[string]bool // names created by rotations since the last key wipeout
	everNames map[string]bool // all key names seen in this epoch
	everPrim  map[string]bool // key names that were the recorded primary at some point of this epoch
	disturbed bool            // a command failed / was refused / partial wipeout since the last full wipeout
	boots     int
	// a bootstrap ran over an authority that had already rotated (since the last key wipeout): the
	// rotated key versions stay live although the primary is the first version again (known finding);
	// later consequences of that state are keyed ":after-rebootstrap"
	rebootOverRotated bool
	// a --keep_going command left certificates in place that do not certify the keys now in use
	// (known finding): the rest of such a history is only checked for no-clobber and wipeout
	staleByKeepGoing bool
	// the date of the history's first command: certificate lifetimes are documented in days, so
	// histories start at dates with different numbers of leap days ahead
	base time.Time
	// the events of the history so far, as the trace specification reads them (storage-backed
	// combinations over the in-memory storage double only); nil once a step could not be logged
	trace   []Event
	noTrace bool
}

func (n nodeState) clone() nodeState {
	c := nodeState{epochRot: map[string]bool{}, everNames: map[string]bool{}, everPrim: map[string]bool{}, disturbed: n.disturbed, boots: n.boots, rebootOverRotated: n.rebootOverRotated, staleByKeepGoing: n.staleByKeepGoing, base: n.base, trace: append([]Event{}, n.trace...), noTrace: n.noTrace}
	for k := range n.epochRot {
		c.epochRot[k] = true
	}
	for k := range n.everNames {
		c.everNames[k] = true
	}
	for k := range n.everPrim {
		c.everPrim[k] = true
	}
	return c
}

func canSign(a *Authority, name string) bool {
	kc, err := a.Loaded()
	if err != nil {
		return false
	}
	d := sha256.Sum256([]byte("probe"))
	_, err = kc.Signer.Sign(context.Background(), name, styp.Digest{SHA256: d[:]}, &rsa.PSSOptions{SaltLength: rsa.PSSSaltLengthEqualsHash, Hash: crypto.SHA256})
	return err == nil
}

const day = 24 * time.Hour

// recordedChainBroken says what is wrong with the chain of trust of the state on record (the recorded
// primary has a certificate issued by the stored root that certifies the key of that name, and that
// key can sign), or "" when it is intact.
func recordedChainBroken(a *Authority) string {
	kc, err := a.Loaded()
	if err != nil {
		return "the authority does not load: " + err.Error()
	}
	prim, perr := kc.CA.PrimarySigningKeyVersion(fxCtx())
	if perr != nil || prim == "" {
		return fmt.Sprintf("no primary signing key is on record (%v)", perr)
	}
	root, rerr := rootOfCA(kc)
	var pc *x509.Certificate
	if b, cerr := kc.CA.Certificate(fxCtx(), prim); cerr == nil {
		pc = parseCertAny(b)
	}
	switch {
	case rerr != nil || root == nil:
		return fmt.Sprintf("the root certificate cannot be read back (%v)", rerr)
	case pc == nil:
		return fmt.Sprintf("the recorded primary %q has no certificate on record", prim)
	case pc.CheckSignatureFrom(root) != nil:
		return fmt.Sprintf("the certificate of the recorded primary %q is not issued by the stored root", prim)
	case !canSign(a, prim):
		return fmt.Sprintf("the recorded primary %q cannot sign", prim)
	}
	pub := a.PublicKeyOf(prim)
	cp, isRSA := pc.PublicKey.(*rsa.PublicKey)
	if pub == nil || !isRSA || pub.N.Cmp(cp.N) != 0 {
		return fmt.Sprintf("the certificate on record for the primary %q certifies another key", prim)
	}
	return ""
}

var unmodelled atomic.Int64

// checkCommand runs one command on a and evaluates the C12 statement on the result.
func checkCommand(run *vk.Run, a *Authority, st *nodeState, c CmdSpec, at time.Time, hist []CmdSpec) (ok bool) {
	viol := func(key, f string, args ...any) {
		var hs []string
		for _, h := range hist {
			hs = append(hs, h.String())
		}
		run.Violation(key, fmt.Sprintf(f, args...)+fmt.Sprintf(" [%v after %v]", a.Combo, hs), map[string]any{"combo": a.Combo.String(), "history": hs})
	}
	before := a.CertObjects()
	namesBefore, _ := a.KeyNames()
	var prevPrimCert *x509.Certificate
	var prevPrim string
	if kc, err := a.Loaded(); err == nil {
		if p, err := kc.CA.PrimarySigningKeyVersion(fxCtx()); err == nil && p != "" {
			prevPrim = p
			if b, err := kc.CA.Certificate(fxCtx(), p); err == nil {
				prevPrimCert = parseCertAny(b)
			}
		}
	}
	rebootstrap := c.Kind == "bootstrap" && (len(before) > 0 || len(namesBefore) > 0)
	brokenBefore := recordedChainBroken(a)
	t := &Tap{FailName: c.Fail}
	err := a.Exec(t, c.args(at)...)
	if err != nil && strings.HasPrefix(err.Error(), "PANIC") {
		viol("panic:"+c.Kind, "command %s panics: %v", c, err)
	}
	ok = err == nil
	// the trace of this command
	switch {
	case c.Kind == "wipe" && ok:
		st.trace = append(st.trace, Event{"Wipe", c.What, "ok"})
	case c.Kind == "wipe":
		st.noTrace = true // a refused wipeout has no counterpart in the specification
	default:
		out := "ok"
		if err != nil {
			out = "err"
		}
		st.trace = append(st.trace, Event{"Cmd", c.Kind, c.Raw})
		for _, e := range t.Events {
			if strings.HasPrefix(e.Arg, "?") {
				// a key or object outside the model's name space: `rotate --rotated_key_serial_override` on an
				// authority without a primary creates a key version named "_1" before it fails (observation,
				// DESIGN.md 10.6); such histories are not validated against the trace specification
				st.noTrace = true
				unmodelled.Add(1)
			}
		}
		st.trace = append(st.trace, t.Events...)
		st.trace = append(st.trace, Event{"Return", c.Kind, out})
	}
	after := a.CertObjects()
	namesAfter, _ := a.KeyNames()
	// no-clobber: no existing certificate object changes without overwrite permission
	if c.Kind != "wipe" && !c.Ow && a.CA != "memca" { // memca keeps no stored objects
		for k, b := range before {
			if nb, there := after[k]; there && !bytes.Equal(nb, b) {
				viol("clobber:"+c.Kind, "certificate object %q changed although the command had no overwrite permission", k)
			}
		}
	}
	if c.Kind != "wipe" {
		for k := range before {
			if _, there := after[k]; !there {
				viol("cert-removed:"+c.Kind, "certificate object %q disappeared", k)
			}
		}
	}
	for _, n := range namesAfter {
		st.everNames[n] = true
	}
	switch c.Kind {
	case "wipe":
		if !ok { // a refused wipeout changes nothing the statement speaks about
			st.disturbed = true
			return
		}
		if c.What == "all" || c.What == "keys" {
			for n := range st.everNames {
				if canSign(a, n) {
					viol("wipeout-key-survives", "after wipeout %s key %q can still sign", c.What, n)
				}
			}
			st.epochRot = map[string]bool{}
			st.everNames = map[string]bool{}
			st.everPrim = map[string]bool{}
			st.rebootOverRotated = false
		}
		if c.What == "all" || c.What == "ca" {
			if len(after) != 0 {
				viol("wipeout-cert-survives", "after wipeout %s certificate objects remain: %d", c.What, len(after))
			}
		}
		if c.What == "all" {
			st.staleByKeepGoing = false
			if _, perr := ProbeEndorse(a, at); perr == nil {
				viol("wipeout-still-usable", "after wipeout all the authority still endorses")
			}
			st.disturbed = false
		} else {
			st.disturbed = true
		}
		st.boots = 0
		return
	}
	if !ok {
		st.disturbed = true
		// a refused command may leave a key behind that never became primary (C10's leftovers); but a key
		// that WAS the recorded primary and has a recorded successor must not be able to sign, whatever
		// the command reported (no faults are injected here)
		if kc, lerr := a.Loaded(); lerr == nil && !st.rebootOverRotated && !st.staleByKeepGoing && !c.Kg {
			if prim, perr := kc.CA.PrimarySigningKeyVersion(fxCtx()); perr == nil && prim != "" {
				for n := range st.everPrim {
					if n != prim && canSign(a, n) {
						viol("superseded-key-signs:after-refused-"+c.Kind, "%s was refused (%v), the recorded primary is %q, and the superseded primary %q can still sign", c, err, prim, n)
					}
				}
				st.everPrim[prim] = true
				// ... and a refused command does not break the chain of trust of what is on record: if the
				// recorded primary was certified by the stored root and could sign before, it still is and can
				if brokenBefore == "" {
					if broken := recordedChainBroken(a); broken != "" {
						viol("refused-command-breaks-chain:"+c.Kind, "%s was refused (%v) and afterwards %s (before it the recorded primary %q was certified and could sign)", c, err, broken, prevPrim)
					}
				}
			}
		}
		return
	}
	// successful bootstrap / rotate: inspect what it issued and what is now recorded
	kc, lerr := a.Loaded()
	if lerr != nil {
		viol("reload-fails", "cannot reload the authority after %s: %v", c, lerr)
		return
	}
	root, rerr := rootOfCA(kc)
	prim, _ := kc.CA.PrimarySigningKeyVersion(fxCtx())
	var primCert *x509.Certificate
	if b, cerr := kc.CA.Certificate(fxCtx(), prim); cerr == nil {
		primCert = parseCertAny(b)
	}
	st.everPrim[prim] = true
	if rerr != nil || root == nil || primCert == nil {
		viol("missing-cert:"+c.Kind, "after successful %s the root or primary certificate cannot be read back (%v)", c, rerr)
		return
	}
	if st.staleByKeepGoing {
		return // see nodeState.staleByKeepGoing
	}
	if c.Kg {
		// --keep_going leaves existing objects and manifest entries alone, so the certificates on record
		// need not have been issued by this command: what must still hold is the chain of trust between
		// the keys now in use and the certificates now on record
		certifies := func(cert *x509.Certificate, key string) bool {
			pub := a.PublicKeyOf(key)
			cp, isRSA := cert.PublicKey.(*rsa.PublicKey)
			return pub != nil && isRSA && pub.N.Cmp(cp.N) == 0 && pub.E == cp.E
		}
		rootName, _ := kc.CA.PrimaryRootKeyVersion(fxCtx())
		broken := ""
		switch {
		case !certifies(root, rootName):
			broken = fmt.Sprintf("the stored root certificate does not certify the root key %q now in use", rootName)
		case !certifies(primCert, prim):
			broken = fmt.Sprintf("the certificate on record for the primary signing key %q certifies another key", prim)
		case primCert.CheckSignatureFrom(root) != nil:
			broken = fmt.Sprintf("the certificate on record for the primary signing key %q is not issued by the stored root", prim)
		}
		if broken != "" {
			shape := c.Kind
			rootKeyBefore := false
			for _, n := range namesBefore {
				rootKeyBefore = rootKeyBefore || n == rootName
			}
			switch {
			case c.Kind == "bootstrap" && c.Ow:
				shape = "bootstrap-overwrite"
			case c.Kind == "bootstrap" && !rootKeyBefore:
				// (the root key was wiped; a refused rotation in between may have left a stray signing key)
				shape = "bootstrap-after-key-wipeout"
			case c.Kind == "bootstrap":
				shape = "bootstrap-over-live-keys"
			case c.Kind == "rotate" && c.Serial != 0:
				shape = "rotate-serial-override"
			}
			if st.rebootOverRotated && shape == "rotate" {
				// (a re-bootstrap over a rotated authority left the rotated key's name and manifest entry behind:
				// the listed re-bootstrap findings; with --keep_going the stale entry then survives the rotation)
				shape += ":after-rebootstrap"
			}
			viol("keep-going-stale-certificate:"+shape, "%s succeeded with --keep_going but %s", c, broken)
			st.staleByKeepGoing = true
		}
		// (a re-bootstrap over a rotated authority is what it is with and without --keep_going)
		if rebootstrap && len(st.epochRot) > 0 {
			st.rebootOverRotated = true
		}
		if c.Kind == "bootstrap" {
			st.boots++
		}
		if c.Kind == "rotate" {
			st.epochRot[prim] = true
		}
		return
	}
	rb := ""
	if rebootstrap {
		rb = ":rebootstrap"
	}
	if rebootstrap && len(st.epochRot) > 0 {
		st.rebootOverRotated = true
	}
	after2 := ""
	if st.rebootOverRotated && !rebootstrap {
		after2 = ":after-rebootstrap"
	}
	if c.Kind == "bootstrap" {
		st.boots++
		if !root.IsCA || root.KeyUsage&x509.KeyUsageCertSign == 0 {
			viol("root-shape"+rb, "root certificate is not a CA certificate with certificate-signing usage")
		}
		if root.CheckSignatureFrom(root) != nil {
			viol("root-shape"+rb, "root certificate is not self-signed")
		}
		if d := root.NotAfter.Sub(root.NotBefore); d != time.Duration(styp.RootValidDays)*day {
			viol("root-lifetime"+rb, "root certificate lifetime is %v days, want %d", d.Hours()/24, styp.RootValidDays)
		}
		if !root.NotBefore.Equal(at) {
			viol("root-notbefore"+rb, "root certificate NotBefore %v differs from the command's timestamp %v", root.NotBefore, at)
		}
	}
	// the primary's certificate was issued by this command
	if primCert.IsCA || primCert.KeyUsage&x509.KeyUsageDigitalSignature == 0 {
		viol("sign-shape"+rb, "signing certificate of %q is a CA certificate or lacks digital-signature usage", prim)
	}
	if primCert.SignatureAlgorithm != x509.SHA256WithRSAPSS {
		viol("sign-shape"+rb, "signing certificate of %q is signed with %v, want SHA256-RSAPSS", prim, primCert.SignatureAlgorithm)
	}
	if primCert.CheckSignatureFrom(root) != nil {
		viol("sign-issuer"+rb, "signing certificate of %q is not issued by the stored root", prim)
	}
	if d := primCert.NotAfter.Sub(primCert.NotBefore); d != time.Duration(styp.SignValidDays)*day {
		viol("sign-lifetime"+rb, "signing certificate lifetime is %v days, want %d", d.Hours()/24, styp.SignValidDays)
	}
	if !primCert.NotBefore.Equal(at) {
		viol("sign-notbefore"+rb, "signing certificate NotBefore %v differs from the command's timestamp %v", primCert.NotBefore, at)
	}
	subj, okS := new(big.Int).SetString(primCert.Subject.SerialNumber, 10)
	if !okS || primCert.SerialNumber.Cmp(subj) != 0 {
		viol("cert-serial-differs-from-subject-serial"+rb, "certificate of %q has certificate serial %v but subject serial %q", prim, primCert.SerialNumber, primCert.Subject.SerialNumber)
	}
	switch c.Kind {
	case "bootstrap":
		if okS && subj.Cmp(big.NewInt(int64(c.Serial))) != 0 {
			viol("serial-flag"+rb, "bootstrap with initial serial %d issued subject serial %v", c.Serial, subj)
		}
	case "rotate":
		if prevPrimCert != nil && okS {
			prev, _ := new(big.Int).SetString(prevPrimCert.Subject.SerialNumber, 10)
			want := new(big.Int).Add(prev, big.NewInt(1))
			if c.Serial != 0 {
				want = big.NewInt(int64(c.Serial))
			}
			if subj.Cmp(want) != 0 {
				viol("serial-succession", "rotation issued subject serial %v, want %v (predecessor %v, override %d)", subj, want, prev, c.Serial)
			}
		}
		if prim == prevPrim {
			viol("rotate-no-new-key", "rotation succeeded but the primary is still %q", prim)
		}
		if st.epochRot[prim] && !st.disturbed {
			viol("name-reuse"+after2, "rotation reused key-version name %q", prim)
		}
		if st.epochRot[prim] && st.disturbed {
			// reuse after a failed attempt is the documented leftover case; not a violation
		}
		st.epochRot[prim] = true
	}
	// only the current primary signing key can sign (histories without failed / refused commands
	// or partial wipeouts since the last full wipeout; leftovers of failed attempts are C10's topic)
	for n := range st.everNames {
		if st.disturbed {
			break
		}
		if n == "root" || n == prim {
			continue
		}
		if canSign(a, n) {
			viol("non-primary-signs"+rb+after2, "key %q is not the primary (%q) but can still sign", n, prim)
		}
	}
	if !canSign(a, prim) {
		viol("primary-cannot-sign"+rb, "primary key %q cannot sign after successful %s", prim, c)
	}
	return
}

// RunC12 is the C12 check.
func RunC12(run *vk.Run) {
	tier := "quick"
	if !run.IsQuick() {
		tier = "thorough"
	}
	run.Assumptions = append(run.Assumptions,
		"serial overrides that name another key version's certificate object are outside the model (with overwrite the operator asks for that certificate to be replaced)",
		"'every signing certificate' is read as: the certificate a command issues, checked when it is issued, and the recorded primary's certificate",
		"timestamps are distinct per command and inside the root's validity")
	res, err := vk.RunTLC(vk.TLCOpts{Module: "KeyAuthority", Config: "MC_KeyAuthority_cmds_" + tier + ".cfg", Timeout: 20 * time.Minute})
	if err != nil {
		run.Infra(err)
		return
	}
	run.AddTLC(res)
	for _, neg := range []string{"Neg_KeyAuthority_template.cfg", "Find_KeyAuthority_reboot.cfg"} {
		if _, err := vk.RunTLC(vk.TLCOpts{Module: "KeyAuthority", Config: neg, Timeout: 5 * time.Minute, ExpectViolation: true}); err != nil {
			run.Infra(err)
			return
		}
	}
	em, err := vk.RunTLC(vk.TLCOpts{Module: "KeyAuthority", Config: "Emit_KeyAuthority_cmds_" + tier + ".cfg", Workers: 1, Timeout: 20 * time.Minute})
	if err != nil {
		run.Infra(err)
		return
	}
	// build the trie of command histories
	type node struct {
		cmd  CmdSpec
		kids map[string]*node
	}
	combos := Combos[:3]
	roots := map[Combo]*node{}
	for _, cb := range combos {
		roots[cb] = &node{kids: map[string]*node{}}
	}
	nh := 0
	seenH := map[string]bool{}
	for _, raw := range em.Cases {
		var c struct {
			Cmds []Event `json:"cmds"`
		}
		if err := json.Unmarshal(raw, &c); err != nil {
			run.Infra(err)
			return
		}
		key := string(raw)
		if seenH[key] {
			continue
		}
		seenH[key] = true
		nh++
		for ci, cb := range combos {
			// quick tier: the in-memory combination runs every history, the disk/storage-backed
			// ones a seeded quarter of them
			if run.IsQuick() && ci > 0 && !vk.Pick(nh*8+ci, run.Seed, 4) {
				continue
			}
			// quick tier: histories with a --keep_going command are four times as many as without;
			// a seeded fifth of them is run (a third in the thorough tier)
			if run.IsQuick() && strings.Contains(key, "kg,") && !vk.Pick(nh*8+ci, run.Seed+5, 5) {
				continue
			}
			if !run.IsQuick() && strings.Contains(key, "kg,") && !vk.Pick(nh*8+ci, run.Seed+6, 3) {
				continue // thorough: a seeded third of the --keep_going histories (they are 4-8 times as many)
			}
			cur := roots[cb]
			for _, e := range c.Cmds {
				cs, err := parseCmd(e)
				if err != nil {
					run.Infra(err)
					return
				}
				k := cs.String()
				if cur.kids[k] == nil {
					cur.kids[k] = &node{cmd: cs, kids: map[string]*node{}}
				}
				cur = cur.kids[k]
			}
		}
	}
	run.Extra["command_histories_from_TLC"] = nh
	var wg sync.WaitGroup
	sem := make(chan struct{}, 16)
	var trMu sync.Mutex
	var traces [][]string
	var traceHist []string
	var walk func(a *Authority, st nodeState, n *node, depth int, hist []CmdSpec)
	walk = func(a *Authority, st nodeState, n *node, depth int, hist []CmdSpec) {
		defer a.Close()
		var keys []string
		for k := range n.kids {
			keys = append(keys, k)
		}
		sort.Strings(keys)
		for _, k := range keys {
			kid := n.kids[k]
			b, err := a.Clone()
			if err != nil {
				run.Infra(err)
				return
			}
			st2 := st.clone()
			h2 := append(append([]CmdSpec{}, hist...), kid.cmd)
			if depth == 0 {
				// 25 years from 2025-01 contain 6 leap days, from 2027-06 seven
				// (also: a history entirely after the day the check runs, and one more than a signing
				// certificate's lifetime before it -- the commands' --timestamp is the only clock)
				bases := []time.Time{T0, time.Date(2027, time.June, 1, 8, 0, 0, 0, time.UTC), time.Date(2024, time.February, 29, 8, 0, 0, 0, time.UTC),
					time.Now().UTC().AddDate(3, 0, 0).Truncate(time.Hour), time.Now().UTC().AddDate(-9, 0, 0).Truncate(time.Hour)}
				hb := fnv.New32a()
				fmt.Fprintf(hb, "%v|%s|%d", a.Combo, k, run.Seed)
				st2.base = bases[int(hb.Sum32()>>7)%len(bases)]
			}
			at := st2.base.Add(time.Duration(depth+1) * 36 * time.Hour)
			if kid.cmd.Kind == "rotate" && (len(k)+depth)%3 == 0 {
				at = st2.base.AddDate(24, 0, depth) // late in the root's 25-year validity
			}
			checkCommand(run, b, &st2, kid.cmd, at, h2)
			run.Case(fmt.Sprintf("%v|%v", a.Combo, h2), true)
			if depth == 1 && k == keys[len(keys)/2] {
				run.Sample(map[string]any{"combo": a.Combo.String(), "history": fmt.Sprint(h2)})
			}
			if len(kid.kids) == 0 {
				if b.CA == "gcsca" && !st2.noTrace && len(st2.trace) > 0 {
					trMu.Lock()
					traces = append(traces, traceOf(st2.trace))
					traceHist = append(traceHist, fmt.Sprintf("%v %v", b.Combo, h2))
					trMu.Unlock()
				}
				b.Close()
				continue
			}
			select {
			case sem <- struct{}{}:
				wg.Add(1)
				go func() {
					defer wg.Done()
					defer func() { <-sem }()
					walk(b, st2, kid, depth+1, h2)
				}()
			default:
				walk(b, st2, kid, depth+1, h2)
			}
		}
	}
	for _, combo := range combos {
		a, err := NewAuthority(combo)
		if err != nil {
			run.Infra(err)
			return
		}
		walk(a, nodeState{epochRot: map[string]bool{}, everNames: map[string]bool{}, everPrim: map[string]bool{}}, roots[combo], 0, nil)
	}
	wg.Wait()
	// serial numbers as an operator may type them: decimal with leading zeros (the flags' help says decimal);
	// the predicates are the ones of every other history, the expected serials the decimal values
	for _, combo := range combos {
		a, err := NewAuthority(combo)
		if err != nil {
			run.Infra(err)
			return
		}
		st := nodeState{epochRot: map[string]bool{}, everNames: map[string]bool{}, everPrim: map[string]bool{}, base: T0, noTrace: true}
		hist := []CmdSpec{{Kind: "bootstrap", Serial: 100, Spell: "%06d"}, {Kind: "rotate", Serial: 120, Spell: "%06d"}, {Kind: "rotate"}, {Kind: "rotate", Serial: 77, Spell: "0%d"}, {Kind: "rotate"}}
		for k := range hist {
			checkCommand(run, a, &st, hist[k], T0.Add(time.Duration(k+1)*36*time.Hour), hist[:k+1])
			run.Case(fmt.Sprintf("spelled-serials|%v|%d", combo, k), true)
		}
		a.Close()
	}
	// a wipeout one of whose two steps (certificate store, key store) cannot be carried out, with and without
	// --keep_going: a wipeout that reports success has left no key or certificate usable
	for _, combo := range combos {
		for _, failing := range []string{"Manager.Wipeout", "CA.Wipeout"} {
			for _, kg := range []bool{true, false} {
				a, err := NewAuthority(combo)
				if err != nil {
					run.Infra(err)
					return
				}
				st := nodeState{epochRot: map[string]bool{}, everNames: map[string]bool{}, everPrim: map[string]bool{}, base: T0, noTrace: true}
				hist := []CmdSpec{{Kind: "bootstrap", Serial: 2}, {Kind: "rotate"}, {Kind: "wipe", What: "all", Kg: kg, Fail: failing}}
				for k := range hist {
					checkCommand(run, a, &st, hist[k], T0.Add(time.Duration(k+1)*36*time.Hour), hist[:k+1])
				}
				run.Case(fmt.Sprintf("failing-wipeout|%v|%s|%v", combo, failing, kg), true)
				a.Close()
			}
		}
	}
	// the Cloud KMS key manager (keys/gcpkms over the repository's KMS fake): a rotation whose final
	// destruction of the old key version is refused by the service, then another rotation -- the key version
	// that becomes primary is a new one (names are not reused), and the certificates on record for the
	// earlier key versions are the ones issued for them
	for _, caKind := range []string{"memca", "gcsca"} {
		a, err := NewAuthority(Combo{"gcpkms", caKind})
		if err != nil {
			run.Infra(err)
			return
		}
		primary := func() string {
			kc, err := a.Loaded()
			if err != nil {
				return ""
			}
			p, _ := kc.CA.PrimarySigningKeyVersion(fxCtx())
			return p
		}
		certOf := func(name string) []byte {
			kc, err := a.Loaded()
			if err != nil {
				return nil
			}
			b, _ := kc.CA.Certificate(fxCtx(), name)
			return b
		}
		if err := a.Exec(&Tap{}, "bootstrap", "--timestamp", ts(T0)); err != nil {
			run.Infra(fmt.Errorf("gcpkms bootstrap: %v", err))
			a.Close()
			return
		}
		p0 := primary()
		r1 := a.Exec(&Tap{FailName: "Manager.DestroyKeyVersion"}, "rotate", "--timestamp", ts(Tn(1)))
		p1 := primary()
		names1, _ := a.KeyNames()
		certs1 := map[string][]byte{}
		for _, n := range []string{p0, p1} {
			certs1[n] = certOf(n)
		}
		r2 := a.Exec(&Tap{}, "rotate", "--timestamp", ts(Tn(2)))
		p2 := primary()
		run.Case("gcpkms-destroy-refused|"+caKind, true)
		if r2 == nil && p2 != p1 {
			for _, n := range names1 {
				if n == p2 {
					run.Violation("name-reuse:gcpkms:after-refused-destroy", fmt.Sprintf("Cloud KMS key manager with %s: after a rotation whose destruction of the old key version was refused (result: %v; primary %q -> %q), the next rotation makes %q primary, a key version that existed before it: key-version names are reused", caKind, r1, p0, p1, p2), nil)
				}
			}
		}
		for n, c := range certs1 {
			if c != nil && n != "" {
				if now := certOf(n); now != nil && !bytes.Equal(now, c) {
					run.Violation("clobber:gcpkms:after-refused-destroy", fmt.Sprintf("Cloud KMS key manager with %s: the certificate on record for key version %q changed during a later rotation that had no overwrite permission", caKind, n), nil)
				}
			}
		}
		a.Close()
	}
	// code -> spec: the recorded executions of the complete histories (storage-backed combination over
	// the in-memory storage double) must be behaviours of KeyAuthority.tla
	if len(traces) > 0 {
		rej, at, err := vk.ValidateTraces(run, "Trace_KeyAuthority", "Trace_KeyAuthority_cmds.cfg", traces, true)
		if err != nil {
			run.Infra(err)
			return
		}
		for n, k := range rej {
			if n < 4 {
				fmt.Fprintf(vk.Stdout, "DRIFT property=C12 recorded execution rejected by Trace_KeyAuthority at event %d: %s :: %s\n", at[k], traceHist[k], strings.Join(traces[k][1:], " "))
			}
		}
		run.AddDrift(int64(len(rej)))
		run.Extra["real_traces_validated"] = len(traces)
		run.Extra["histories_outside_the_models_name_space"] = unmodelled.Load()
		run.Extra["real_traces_accepted_by_spec"] = len(traces) - len(rej)
	}
	c12ZonePass(run)
	run.Exhaustive = true
	run.Rule = "every command history of the tier's length over {bootstrap(serial, overwrite), rotate(serial override, overwrite), wipeout ca|keys|all} emitted by TLC (including re-bootstrap over a populated authority) is executed through the cobra commands for memkm+memca, localkm+gcsca and localkm+localca, sharing prefixes by cloning the authority; after every command the certificates are read back and the C12 predicates evaluated; bootstrap; rotate also through the library entry points with creation times in five time zones on both sides of their daylight-saving switches (lifetimes are days of 24 h from the creation instant); distinct = (combination, history prefix)"
}
