package ka

import (
	"bytes"
	"context"
	"crypto"
	"crypto/rsa"
	"crypto/sha256"
	"crypto/x509"
	"encoding/base64"
	"encoding/hex"
	"encoding/json"
	"encoding/pem"
	"fmt"
	"github.com/google/gce-tcb-verifier/keys"
	tdxpb "github.com/google/go-tdx-guest/proto/tdx"
	tpmpb "github.com/google/go-tpm-tools/proto/attest"
	"hash/fnv"
	"io"
	"math/rand"
	"os"
	"path/filepath"
	"sort"
	"strings"
	"sync"
	"time"

	"github.com/google/gce-tcb-verifier/endorse"
	gtb "github.com/google/gce-tcb-verifier/gcetcbendorsement"
	gcmd "github.com/google/gce-tcb-verifier/gcetcbendorsement/cmd"
	epb "github.com/google/gce-tcb-verifier/proto/endorsement"
	"github.com/google/gce-tcb-verifier/sev"
	"github.com/google/gce-tcb-verifier/tdx"
	"github.com/google/gce-tcb-verifier/testing/nonprod/localnonvcs"
	"github.com/google/gce-tcb-verifier/verify"
	"github.com/google/go-sev-guest/proto/sevsnp"
	"google.golang.org/protobuf/proto"
	fmpb "google.golang.org/protobuf/types/known/fieldmaskpb"

	"verifharness/fx"
	"verifharness/rp"
	"verifharness/vk"
)

var (
	img4k = fx.Image(0x1000, 301)
	img2m = fx.Image(2*1024*1024, 302)
)

// issuedDoc is one endorsement written by the real endorse pipeline plus what was asked for.
type issuedDoc struct {
	bytes []byte
	req   string
	img   []byte
	at    time.Time
}

// endorseReal runs endorse.VirtualFirmware with a seeded request through localnonvcs and returns
// the written endorsement file.
func endorseReal(a *Authority, r *rand.Rand, at time.Time) (*issuedDoc, error) {
	return endorseRealWith(a, r, at, nil)
}

// endorseRealWith: wrap (if set) may replace the loaded CA / signer with doubles.
func endorseRealWith(a *Authority, r *rand.Rand, at time.Time, wrap func(*keys.Context)) (*issuedDoc, error) {
	kc, err := a.Loaded()
	if err != nil {
		return nil, err
	}
	if wrap != nil {
		wrap(kc)
	}
	dir, err := os.MkdirTemp("", "vk-c03-")
	if err != nil {
		return nil, err
	}
	defer os.RemoveAll(dir)
	ectx := &endorse.Context{Timestamp: at, VCS: &localnonvcs.T{Root: dir}, OutDir: "out"}
	useTdx := r.Intn(3) == 0
	useSnp := !useTdx || r.Intn(2) == 0
	ectx.Image = img4k
	if useTdx {
		ectx.Image = img2m
		shapes := [][]string{nil, {"c3-standard-4"}, {"c3-standard-4", "c3-standard-8"}}[r.Intn(3)]
		ectx.Tdx = &tdx.EndorsementRequest{MachineShapes: shapes, IncludeEarlyAccept: r.Intn(2) == 0, Svn: uint32(r.Intn(3))}
	}
	if useSnp {
		prod := sevsnp.SevProduct_SEV_PRODUCT_MILAN
		if r.Intn(2) == 0 {
			prod = sevsnp.SevProduct_SEV_PRODUCT_GENOA
		}
		ectx.SevSnp = &sev.SnpEndorsementRequest{Product: prod, LaunchVmsas: []uint32{0, 1, 2, 4, 240, 6, 12}[r.Intn(7)], Svn: uint32(r.Intn(4))}
		if r.Intn(2) == 0 {
			m := fx.Sha384([]byte(fmt.Sprintf("svsm %d", r.Int())))
			ectx.SvsmSnpMeasurement = m
		}
	}
	if r.Intn(2) == 0 {
		ectx.ClSpec = uint64(1 + r.Intn(1000))
	} else {
		// a commit is any non-empty byte string at the library level (SHA-1 or SHA-256 object names)
		ectx.Commit = []byte{1, 2, 3, 4, 5, 6, 7, 8, 9, 10, 11, 12, 13, 14, 15, 16, 17, 18, 19, 20}
		if r.Intn(2) == 0 {
			ectx.Commit = fx.Sha384([]byte("commit"))[:32]
		}
	}
	if r.Intn(4) == 0 { // a document dated before the provenance requirement
		ectx.Timestamp = time.Date(2024, time.June, 1, 0, 0, 0, 0, time.UTC)
	}
	if r.Intn(3) == 0 {
		ectx.CandidateName = fmt.Sprintf("rc%d", r.Intn(3))
	}
	req := fmt.Sprintf("snp=%+v tdx=%+v clspec=%d commit=%x ts=%v", ectx.SevSnp, ectx.Tdx, ectx.ClSpec, ectx.Commit, ectx.Timestamp.Format(time.RFC3339))
	ctx := endorse.NewContext(fx.Ctx(kc, true, false), ectx)
	if err := endorse.VirtualFirmware(ctx); err != nil {
		return nil, fmt.Errorf("endorse.VirtualFirmware(%s): %v", req, err)
	}
	name := "endorsement"
	if ectx.CandidateName != "" {
		name = ectx.CandidateName
	}
	b, err := os.ReadFile(filepath.Join(dir, "out", name+".binarypb"))
	if err != nil {
		return nil, err
	}
	return &issuedDoc{bytes: b, req: req, img: ectx.Image, at: at}, nil
}

type bufWriter struct{ bytes.Buffer }

func (*bufWriter) IsTerminal() bool { return false }

// verifyDoc evaluates the C03 statement for one endorsement under the authority's root.
func verifyDoc(d *issuedDoc, root *x509.Certificate) []string {
	var bad []string
	e := &epb.VMLaunchEndorsement{}
	if err := proto.Unmarshal(d.bytes, e); err != nil {
		return []string{"written endorsement does not parse: " + err.Error()}
	}
	g := &epb.VMGoldenMeasurement{}
	if err := proto.Unmarshal(e.SerializedUefiGolden, g); err != nil {
		return []string{"golden measurement does not parse: " + err.Error()}
	}
	cert, err := x509.ParseCertificate(g.Cert)
	if err != nil {
		return []string{"embedded certificate does not parse: " + err.Error()}
	}
	lo, hi := cert.NotBefore, cert.NotAfter
	if root.NotBefore.After(lo) {
		lo = root.NotBefore
	}
	if root.NotAfter.Before(hi) {
		hi = root.NotAfter
	}
	roots := poolOf(root)
	for _, t := range []time.Time{lo, hi, lo.Add(hi.Sub(lo) / 2), lo.Add(time.Second)} {
		if err := verify.Endorsement(d.bytes, &verify.Options{RootsOfTrust: roots, Now: t}); err != nil {
			bad = append(bad, fmt.Sprintf("verify.Endorsement rejects at %v (validity %v..%v): %v", t.Format(time.RFC3339), lo.Format(time.RFC3339), hi.Format(time.RFC3339), err))
		}
	}
	mid := lo.Add(hi.Sub(lo) / 2)
	dg := sha512sum(d.img)
	if err := verify.Endorsement(d.bytes, &verify.Options{RootsOfTrust: roots, Now: mid, ExpectedUefiSha384: dg}); err != nil {
		bad = append(bad, "verify.Endorsement rejects the image's own digest: "+err.Error())
	}
	// every listed measurement is accepted for its configuration
	if g.SevSnp != nil {
		for n, m := range g.SevSnp.Measurements {
			if err := verify.Endorsement(d.bytes, &verify.Options{RootsOfTrust: roots, Now: mid, SNP: &verify.SNPOptions{Measurement: m, ExpectedLaunchVMSAs: n}}); err != nil {
				bad = append(bad, fmt.Sprintf("SNP measurement listed for %d VMSAs is rejected for that count: %v", n, err))
			}
			if err := verify.Endorsement(d.bytes, &verify.Options{RootsOfTrust: roots, Now: mid, SNP: &verify.SNPOptions{Measurement: m}}); err != nil {
				bad = append(bad, fmt.Sprintf("SNP measurement listed for %d VMSAs is rejected without a named count: %v", n, err))
			}
		}
	}
	// ... and the relying party's policy derivation names it for that count (any count the signer
	// endorsed, also those outside the table of predefined machine shapes)
	if g.SevSnp != nil {
		for n, m := range g.SevSnp.Measurements {
			pol, perr := gtb.SevPolicy(context.Background(), e, &gtb.SevPolicyOptions{LaunchVmsas: n})
			if perr != nil || !bytes.Equal(pol.GetMeasurement(), m) {
				bad = append(bad, fmt.Sprintf("SevPolicy for %d launch VMSAs does not yield the measurement listed for that count (err=%v)", n, perr))
			}
		}
	}
	// the same through the SNP validator closure a relying party registers with go-sev-guest: the
	// caller's verification time and count apply there as well
	if g.SevSnp != nil {
		for n, m := range g.SevSnp.Measurements {
			att := &sevsnp.Attestation{Report: &sevsnp.Report{Measurement: m}}
			for _, t := range []time.Time{lo, hi} {
				if err := verify.SNPValidateFunc(&verify.Options{RootsOfTrust: roots, Now: t, SNP: &verify.SNPOptions{ExpectedLaunchVMSAs: n}})(att, d.bytes); err != nil {
					bad = append(bad, fmt.Sprintf("the SNP validator rejects the measurement listed for %d VMSAs at %v (validity %v..%v): %v", n, t.Format(time.RFC3339), lo.Format(time.RFC3339), hi.Format(time.RFC3339), err))
				}
			}
			break
		}
	}
	if g.SevSnp != nil && len(g.SevSnp.SvsmMeasurement) > 0 {
		if err := verify.Endorsement(d.bytes, &verify.Options{RootsOfTrust: roots, Now: mid, SNP: &verify.SNPOptions{Measurement: g.SevSnp.SvsmMeasurement, ExpectedLaunchVMSAs: 1}}); err != nil {
			bad = append(bad, fmt.Sprintf("the listed SVSM measurement is rejected for one launch VMSA: %v", err))
		}
	}
	if g.Tdx != nil {
		for _, m := range g.Tdx.Measurements {
			pol, err := gtb.TdxPolicy(context.Background(), e, &gtb.TdxPolicyOptions{RAMGiB: int(m.RamGib)})
			found := false
			if err == nil {
				for _, x := range pol.GetTdQuoteBodyPolicy().GetAnyMrTd() {
					if bytes.Equal(x, m.Mrtd) {
						found = true
					}
				}
			}
			if !found {
				bad = append(bad, fmt.Sprintf("TDX measurement listed for RAM %d GiB is not in the policy derived for that RAM size (err=%v)", m.RamGib, err))
			}
			// ... and a quote that carries the listed MRTD validates against the endorsement for that RAM size
			if mat, merr := rp.GetMaterial(); merr == nil && len(m.Mrtd) == 48 {
				q := proto.Clone(mat.Quote).(*tdxpb.QuoteV4)
				q.TdQuoteBody.MrTd = m.Mrtd
				qb, _ := proto.Marshal(&tpmpb.Attestation{TeeAttestation: &tpmpb.Attestation_TdxAttestation{TdxAttestation: q}})
				var verr error
				func() {
					defer func() {
						if p := recover(); p != nil {
							verr = fmt.Errorf("PANIC: %v", p)
						}
					}()
					verr = gtb.TdxValidate(context.Background(), qb, &gtb.TdxValidateOptions{Endorsement: e, RootsOfTrust: roots, Now: mid, ExpectedRAMGiB: int(m.RamGib)})
				}()
				if verr != nil {
					bad = append(bad, fmt.Sprintf("a quote with the MRTD listed for RAM %d GiB is rejected by TdxValidate for that RAM size: %v", m.RamGib, verr))
				}
			}
		}
	}
	// the documented openssl flow, re-done in Go on the inspect outputs
	out := func(f func(ctx context.Context) error) []byte {
		w := &bufWriter{}
		ctx := gtb.WithInspect(context.Background(), &gtb.Inspect{Writer: w, Form: gtb.BytesRaw})
		if err := f(ctx); err != nil {
			bad = append(bad, "inspect fails: "+err.Error())
		}
		return w.Bytes()
	}
	payload := out(func(ctx context.Context) error { return gtb.InspectPayload(ctx, e) })
	// the text forms re-emit the same bytes (what a shell pipeline decodes with base64 -d / xxd -r -p)
	for _, tf := range []struct {
		name string
		form gtb.BytesForm
		dec  func(string) ([]byte, error)
	}{{"base64", gtb.BytesBase64, base64.StdEncoding.DecodeString}, {"hex", gtb.BytesHex, hex.DecodeString}} {
		w := &bufWriter{}
		if err := gtb.InspectPayload(gtb.WithInspect(context.Background(), &gtb.Inspect{Writer: w, Form: tf.form}), e); err != nil {
			bad = append(bad, "inspect payload in form "+tf.name+" fails: "+err.Error())
		} else if b, derr := tf.dec(strings.TrimSpace(string(w.Bytes()))); derr != nil || !bytes.Equal(b, payload) {
			bad = append(bad, fmt.Sprintf("inspect payload in form %s does not decode to the payload bytes (%v)", tf.name, derr))
		}
	}
	sig := out(func(ctx context.Context) error { return gtb.InspectSignature(ctx, e) })
	certDER := out(func(ctx context.Context) error {
		return gtb.InspectMask(ctx, e, &fmpb.FieldMask{Paths: []string{"cert"}})
	})
	if ic, err := x509.ParseCertificate(certDER); err != nil {
		bad = append(bad, "inspect mask --path=cert does not print a DER certificate: "+err.Error())
	} else {
		pub, ok := ic.PublicKey.(*rsa.PublicKey)
		h := sha256.Sum256(payload)
		if !ok || rsa.VerifyPSS(pub, crypto.SHA256, h[:], sig, &rsa.PSSOptions{SaltLength: 32, Hash: crypto.SHA256}) != nil {
			bad = append(bad, "independent RSA-PSS check over inspect payload/signature/cert fails")
		}
		if _, err := ic.Verify(x509.VerifyOptions{Roots: roots, CurrentTime: mid}); err != nil {
			bad = append(bad, "inspected certificate does not chain to the root: "+err.Error())
		}
	}
	if !bytes.Equal(payload, e.SerializedUefiGolden) || !bytes.Equal(sig, e.Signature) {
		bad = append(bad, "inspect output is not the stored bytes")
	}
	return bad
}

func sha512sum(b []byte) []byte { return fx.Sha384(b) }

func keysOf(m map[uint32][]byte) []uint32 {
	var r []uint32
	for k := range m {
		r = append(r, k)
	}
	sort.Slice(r, func(i, j int) bool { return r[i] < r[j] })
	return r
}

// RunC03 is the C03 check.
func RunC03(run *vk.Run) {
	tier := "quick"
	if !run.IsQuick() {
		tier = "thorough"
	}
	run.Assumptions = append(run.Assumptions, "requests always carry provenance (changelist or commit), as the statement's quantifier says",
		"crypto/rsa, crypto/x509 and protobuf are trusted", "Cloud KMS is not part of this check (C20 covers its client)")
	res, err := vk.RunTLC(vk.TLCOpts{Module: "KeyAuthority", Config: "MC_KeyAuthority_issue_" + tier + ".cfg", Timeout: 20 * time.Minute})
	if err != nil {
		run.Infra(err)
		return
	}
	run.AddTLC(res)
	em, err := vk.RunTLC(vk.TLCOpts{Module: "KeyAuthority", Config: "Emit_KeyAuthority_issue_" + tier + ".cfg", Workers: 1, Timeout: 20 * time.Minute})
	if err != nil {
		run.Infra(err)
		return
	}
	type node struct {
		ev   Event
		kids map[string]*node
	}
	combos := append(append([]Combo{}, Combos[:3]...), Combo{"memkm", "gcsca"}) // the last one runs long-lived
	roots := map[Combo]*node{}
	for _, cb := range combos {
		roots[cb] = &node{kids: map[string]*node{}}
	}
	seen := map[string]bool{}
	nh := 0
	for _, raw := range em.Cases {
		if seen[string(raw)] {
			continue
		}
		seen[string(raw)] = true
		nh++
		var c struct {
			Cmds []Event `json:"cmds"`
		}
		if err := json.Unmarshal(raw, &c); err != nil {
			run.Infra(err)
			return
		}
		// fold each command's Return into the command step: "Cmd:<expected result>"
		var steps []Event
		for _, e := range c.Cmds {
			if e.Op == "Return" {
				if len(steps) > 0 && steps[len(steps)-1].Op == "Cmd" {
					steps[len(steps)-1].Op = "Cmd:" + e.Out
				}
				continue
			}
			steps = append(steps, e)
		}
		for ci, cb := range combos {
			if cb.KM == "memkm" && cb.CA == "gcsca" {
				// handled below (own sampling rule)
			} else if run.IsQuick() && !vk.Pick(nh*8+ci, run.Seed, 6) {
				continue
			}
			if !run.IsQuick() && ci > 0 && !vk.Pick(nh*8+ci, run.Seed+1, 4) {
				continue
			}
			cur := roots[cb]
			if cb.KM == "memkm" && cb.CA == "gcsca" {
				// long-lived components cannot be cloned: a seeded sample of whole histories, each
				// run linearly from an empty authority (its own subtree, no prefix sharing)
				// histories in which a rotation re-uses the serial (and so the certificate object) of
				// the current primary are always taken: that is where cached CA state goes stale
				collide := 0
				for _, e := range steps {
					if strings.HasPrefix(e.Op, "Cmd") && e.Arg == "rotate" && strings.HasPrefix(e.Out, "ow,9") {
						collide++
					}
				}
				if collide < 2 && !vk.Pick(nh, run.Seed+2, 6*7) {
					continue
				}
				if collide >= 2 && run.IsQuick() && !vk.Pick(nh, run.Seed+3, 3) {
					continue
				}
				lin := &node{kids: map[string]*node{}}
				cur.kids[fmt.Sprintf("history-%d", nh)] = lin
				lin.ev = Event{Op: "Start"}
				cur = lin
			}
			for _, e := range steps {
				k := e.Op + e.Arg + e.Out
				if cur.kids[k] == nil {
					cur.kids[k] = &node{ev: e, kids: map[string]*node{}}
				}
				cur = cur.kids[k]
			}
		}
	}
	run.Extra["histories_from_TLC"] = nh
	var wg sync.WaitGroup
	sem := make(chan struct{}, 16)
	var walk func(a *Authority, root *x509.Certificate, docs []*issuedDoc, n *node, depth int, hist []string)
	walk = func(a *Authority, root *x509.Certificate, docs []*issuedDoc, n *node, depth int, hist []string) {
		defer a.Close()
		var keys []string
		for k := range n.kids {
			keys = append(keys, k)
		}
		sort.Strings(keys)
		for _, k := range keys {
			kid := n.kids[k]
			var b *Authority
			if a.LongLived && kid.ev.Op != "Start" {
				b = a // the same long-running process continues (linear history)
			} else {
				var err error
				if b, err = a.Clone(); err != nil {
					run.Infra(err)
					return
				}
			}
			h2 := append(append([]string{}, hist...), kid.ev.Op+"("+kid.ev.Arg+","+kid.ev.Out+")")
			docs2 := docs
			root2 := root
			at := Tn(depth + 1)
			// "any time flags": some commands deep in a history are dated late in the root's 25-year
			// validity, so that the new signing certificate outlives the root
			if lateSum := len(k) + depth + int(run.Seed); depth >= 2 && lateSum%3 == 0 && strings.HasPrefix(kid.ev.Op, "Cmd") && kid.ev.Arg == "rotate" {
				at = T0.AddDate(21, 0, depth)
			}
			viol := func(key, what string, extra map[string]any) {
				if extra == nil {
					extra = map[string]any{}
				}
				extra["combo"], extra["history"] = b.Combo.String(), h2
				run.Violation(key, what+fmt.Sprintf(" [%v after %v]", b.Combo, h2), extra)
			}
			if kid.ev.Op == "Start" {
				// a fresh long-lived authority for this history
				b.Close()
				nb, nerr := NewAuthority(a.Combo)
				if nerr != nil {
					run.Infra(nerr)
					return
				}
				nb.LongLived = true
				b = nb
			} else if strings.HasPrefix(kid.ev.Op, "Cmd") {
				want := strings.TrimPrefix(kid.ev.Op, "Cmd:")
				ev := kid.ev
				ev.Op = "Cmd"
				cs, _ := parseCmd(ev)
				err := b.Exec(&Tap{}, cs.args(at)...)
				if (err == nil) != (want == "ok") && !(b.CA == "memca" && err == nil) { // memca keeps no objects: nothing to collide with
					run.AddDrift(1)
					fmt.Fprintf(vk.Stdout, "DRIFT property=C03 command %v on %v after %v: real result %v, KeyAuthority.tla says %s\n", cs, b.Combo, hist, err, want)
				}
				if err != nil && b.LongLived {
					// a failed command ends the long-running process (C10 speaks about the reloaded
					// state; gcsca's cached manifest is not rolled back when Finalize fails)
					b.longCA = nil
				}
				if err == nil && cs.Kind == "bootstrap" {
					r, err := RootOf(b)
					if err != nil {
						viol("root-unreadable", "root certificate cannot be read back after bootstrap: "+err.Error(), nil)
						b.Close()
						continue
					}
					root2 = r
				}
			} else { // Endorse
				// one request per (history, authority combination): seeded by the history's text
				hh := fnv.New64a()
				hh.Write([]byte(strings.Join(h2, "|") + "#" + b.Combo.String()))
				r := rand.New(rand.NewSource(run.Seed*131 + int64(hh.Sum64()>>1)))
				d, err := endorseReal(b, r, at)
				if kid.ev.Out == "ok" {
					if err != nil {
						viol("endorse-fails", "the endorse pipeline fails on a healthy authority: "+err.Error(), nil)
					} else {
						docs2 = append(append([]*issuedDoc{}, docs...), d)
					}
				}
			}
			// everything issued so far must verify now (also after later rotations)
			if root2 != nil {
				for i, d := range docs2 {
					for _, m := range verifyDoc(d, root2) {
						viol("issued-does-not-verify", fmt.Sprintf("endorsement #%d (%s): %s", i+1, d.req, m), map[string]any{"request": d.req})
					}
				}
			}
			run.Case(fmt.Sprintf("%v|%v", b.Combo, h2), len(docs2) > 0)
			if depth == 2 && k == keys[0] {
				run.Sample(map[string]any{"combo": b.Combo.String(), "history": h2, "endorsements_verified": len(docs2)})
			}
			if len(kid.kids) == 0 {
				b.Close()
				continue
			}
			select {
			case sem <- struct{}{}:
				wg.Add(1)
				go func() {
					defer wg.Done()
					defer func() { <-sem }()
					walk(b, root2, docs2, kid, depth+1, h2)
				}()
			default:
				walk(b, root2, docs2, kid, depth+1, h2)
			}
		}
	}
	for _, combo := range combos {
		a, err := NewAuthority(combo)
		if err != nil {
			run.Infra(err)
			return
		}
		a.LongLived = combo == Combo{"memkm", "gcsca"}
		walk(a, nil, nil, roots[combo], 0, nil)
	}
	wg.Wait()
	// the same candidate endorsed again into the same output directory (overwrite allowed): with another
	// request, after a rotation, and by a second authority: what lies in the file after each run that
	// reported success is that run's document
	{
		viol := func(key, what string, extra map[string]any) {
			run.Violation(key, what+" [memkm+memca, one output directory]", extra)
		}
		dir, derr := os.MkdirTemp("", "vk-c03-rerun-")
		if derr != nil {
			run.Infra(derr)
			return
		}
		defer os.RemoveAll(dir)
		a1, err1 := NewAuthority(Combo{"memkm", "memca"})
		a2, err2 := NewAuthority(Combo{"memkm", "memca"})
		if err1 != nil || err2 != nil {
			run.Infra(fmt.Errorf("%v %v", err1, err2))
			return
		}
		defer a1.Close()
		defer a2.Close()
		for _, a := range []*Authority{a1, a2} {
			if err := a.Exec(&Tap{}, "bootstrap", "--timestamp", ts(T0)); err != nil {
				run.Infra(err)
				return
			}
		}
		type rerun struct {
			what   string
			a      *Authority
			rotate bool
			vmsas  uint32
			clspec uint64
			at     time.Time
		}
		steps := []rerun{{"first run, every VMSA count", a1, false, 0, 100, Tn(1)}, {"another VMSA count and changelist", a1, false, 8, 200, Tn(2)}, {"after a rotation", a1, true, 8, 200, Tn(4)},
			{"by a second authority", a2, false, 8, 200, Tn(5)}, {"by the first authority again", a1, false, 2, 300, Tn(6)}}
		for _, st := range steps {
			if st.rotate {
				if err := st.a.Exec(&Tap{}, "rotate", "--timestamp", ts(Tn(3))); err != nil {
					run.Infra(err)
					return
				}
			}
			kc, lerr := st.a.Loaded()
			root, rerr := RootOf(st.a)
			if lerr != nil || rerr != nil {
				run.Infra(fmt.Errorf("%v %v", lerr, rerr))
				return
			}
			ectx := &endorse.Context{Image: img4k, Timestamp: st.at, ClSpec: st.clspec, VCS: &localnonvcs.T{Root: dir}, OutDir: "out", CandidateName: "rc",
				SevSnp: &sev.SnpEndorsementRequest{Product: sevsnp.SevProduct_SEV_PRODUCT_MILAN, LaunchVmsas: st.vmsas, Svn: 1}}
			eerr := endorse.VirtualFirmware(endorse.NewContext(fx.Ctx(kc, true, false), ectx))
			run.Case("rerun:"+st.what, true)
			if eerr != nil {
				viol("endorse-fails:rerun", fmt.Sprintf("endorsing the same candidate again (%s) with overwrite allowed fails: %v", st.what, eerr), nil)
				continue
			}
			b, ferr := os.ReadFile(filepath.Join(dir, "out", "rc.binarypb"))
			if ferr != nil {
				viol("endorse-fails:rerun", "no endorsement file after a successful run: "+ferr.Error(), nil)
				continue
			}
			d := &issuedDoc{bytes: b, req: fmt.Sprintf("rerun (%s): vmsas=%d clspec=%d ts=%s", st.what, st.vmsas, st.clspec, ts(st.at)), img: img4k, at: st.at}
			for _, m := range verifyDoc(d, root) {
				viol("issued-does-not-verify:rerun", fmt.Sprintf("%s: %s", d.req, m), nil)
			}
			// the documented re-verification with external tools, through the command line and into the
			// same three files as for the previous release: payload, signature, certificate
			{
				parts := filepath.Join(dir, "parts")
				os.MkdirAll(parts, 0o755)
				in := filepath.Join(dir, "out", "rc.binarypb")
				ok := true
				for _, sub := range [][]string{{"payload", "payload.bin"}, {"signature", "signature.bin"}, {"mask", "cert.der", "--path", "cert"}} {
					rootCmd := gcmd.MakeRoot(gcmd.ContextWithBackend(context.Background(), &gcmd.Backend{IO: gcmd.OSIO{}}))
					rootCmd.SetArgs(append([]string{"inspect", sub[0], in, "--out", filepath.Join(parts, sub[1]), "--bytesform", "bin"}, sub[2:]...))
					rootCmd.SetOut(io.Discard)
					rootCmd.SetErr(io.Discard)
					rootCmd.SilenceErrors, rootCmd.SilenceUsage = true, true
					if xerr := rootCmd.Execute(); xerr != nil {
						viol("inspect-fails:rerun", fmt.Sprintf("%s: `inspect %s --out` fails: %v", d.req, sub[0], xerr), nil)
						ok = false
					}
				}
				if ok {
					payload, _ := os.ReadFile(filepath.Join(parts, "payload.bin"))
					sig, _ := os.ReadFile(filepath.Join(parts, "signature.bin"))
					cder, _ := os.ReadFile(filepath.Join(parts, "cert.der"))
					ic, perr := x509.ParseCertificate(cder)
					good := false
					if perr == nil {
						if pub, isRSA := ic.PublicKey.(*rsa.PublicKey); isRSA {
							h := sha256.Sum256(payload)
							good = rsa.VerifyPSS(pub, crypto.SHA256, h[:], sig, &rsa.PSSOptions{SaltLength: 32, Hash: crypto.SHA256}) == nil
						}
					}
					if !good {
						viol("emitted-parts-do-not-verify:rerun", fmt.Sprintf("%s: payload (%d bytes), signature (%d) and certificate (%d, parse error %v) written by `inspect ... --out` into the files used for the previous release do not pass the independent RSA-PSS check", d.req, len(payload), len(sig), len(cder), perr), nil)
					}
				}
			}
			en, g := &epb.VMLaunchEndorsement{}, &epb.VMGoldenMeasurement{}
			if proto.Unmarshal(b, en) == nil && proto.Unmarshal(en.SerializedUefiGolden, g) == nil {
				_, listed := g.GetSevSnp().GetMeasurements()[st.vmsas]
				wantN := 1
				if st.vmsas == 0 {
					listed, wantN = true, len(sev.AllSupportedVmsaCounts)
				}
				if !g.GetTimestamp().AsTime().Equal(st.at) || g.GetClSpec() != st.clspec || !listed || len(g.GetSevSnp().GetMeasurements()) != wantN {
					viol("written-file-is-not-this-runs-document", fmt.Sprintf("%s: the run reported success, but the file holds a document dated %s with changelist %d listing counts %v", d.req,
						ts(g.GetTimestamp().AsTime()), g.GetClSpec(), keysOf(g.GetSevSnp().GetMeasurements())), nil)
				}
			}
		}
	}
	// the relying party's command line takes the authority's root certificate as a file, DER (as the
	// production root is published) or PEM; a certificate is bytes: one whose last signature byte happens
	// to be a white-space character (about one root in 32) is as good as any other
	{
		var lucky *Authority
		var luckyRoot *x509.Certificate
		var lmu sync.Mutex
		for batch := 0; batch < 12 && lucky == nil; batch++ {
			parallel(32, func(int) {
				a, err := NewAuthority(Combo{"memkm", "memca"})
				if err != nil {
					return
				}
				if err := a.Exec(&Tap{}, "bootstrap", "--timestamp", ts(T0)); err != nil {
					a.Close()
					return
				}
				r, err := RootOf(a)
				lmu.Lock()
				defer lmu.Unlock()
				if err == nil && lucky == nil && strings.ContainsRune("\t\n\v\f\r \x85\xa0", rune(r.Raw[len(r.Raw)-1])) {
					lucky, luckyRoot = a, r
					return
				}
				a.Close()
			})
		}
		if lucky != nil {
			defer lucky.Close()
			d, err := endorseReal(lucky, rand.New(rand.NewSource(run.Seed)), Tn(1))
			if err != nil {
				run.Violation("endorse-fails", "the endorse pipeline fails on a healthy authority: "+err.Error(), nil)
			} else {
				pemRoot := pem.EncodeToMemory(&pem.Block{Type: "CERTIFICATE", Bytes: luckyRoot.Raw})
				for form, rootFile := range map[string][]byte{"DER": luckyRoot.Raw, "PEM": pemRoot} {
					_, cerr := rp.RunCLI(map[string][]byte{"endo.bin": d.bytes, "root.crt": rootFile}, Tn(2), nil, "verify", "endo.bin", "--root_cert", "root.crt")
					if cerr != nil {
						run.Violation("issued-does-not-verify:command-line-root-file", fmt.Sprintf("`verify ENDORSEMENT --root_cert FILE` rejects what the pipeline wrote, with the authority's own root given as %s (a root whose encoding ends in byte %#x): %v", form, luckyRoot.Raw[len(luckyRoot.Raw)-1], cerr), nil)
					}
					run.Case("cli-root-file:"+form, true)
				}
			}
		} else {
			run.Extra["root_ending_in_whitespace"] = "none among 384 bootstraps"
		}
	}
	// a rotation that lands while an endorsement is being produced (in-memory authority, whose
	// objects the two share): at every interface call of the endorse pipeline in turn a complete
	// rotation is run; whatever the pipeline then writes must verify (it may also fail)
	{
		a, err := NewAuthority(Combo{"memkm", "memca"})
		if err != nil {
			run.Infra(err)
			return
		}
		defer a.Close()
		if err := a.Exec(&Tap{}, "bootstrap", "--timestamp", ts(T0)); err != nil {
			run.Infra(err)
			return
		}
		root, err := RootOf(a)
		if err != nil {
			run.Infra(err)
			return
		}
		probe := &Tap{}
		wrapWith := func(t *Tap) func(*keys.Context) {
			return func(kc *keys.Context) {
				kc.CA = &CA{CertificateAuthority: kc.CA, T: t}
				kc.Signer = &Signer{Signer: kc.Signer, T: t}
			}
		}
		if _, err := endorseRealWith(a, rand.New(rand.NewSource(run.Seed)), Tn(1), wrapWith(probe)); err != nil {
			run.Infra(fmt.Errorf("probe endorsement fails: %v", err))
			return
		}
		for k := 1; k <= len(probe.Calls); k++ {
			b, err := a.Clone()
			if err != nil {
				run.Infra(err)
				return
			}
			fired := false
			var rerr error
			t := &Tap{}
			t.OnCall = func(n int, name string) {
				if n == k && !fired {
					fired = true
					rerr = b.Exec(&Tap{}, "rotate", "--timestamp", ts(Tn(2)))
				}
			}
			d, eerr := endorseRealWith(b, rand.New(rand.NewSource(run.Seed)), Tn(1), wrapWith(t))
			if eerr == nil && d != nil {
				for _, m := range verifyDoc(d, root) {
					run.Violation("issued-does-not-verify:concurrent-rotation", fmt.Sprintf("an endorsement produced while a rotation completed at interface call %d (%s) of the pipeline (rotation result: %v): %s", k, probe.Calls[k-1], rerr, m), map[string]any{"call": k, "call_name": probe.Calls[k-1]})
					break
				}
			}
			run.Case(fmt.Sprintf("concurrent-rotation:%d", k), true)
			b.Close()
		}
		run.Extra["concurrent_rotation_positions"] = len(probe.Calls)
	}
	run.Exhaustive = !run.IsQuick()
	run.Rule = "every history bootstrap . (rotate(serial override, overwrite) | endorse)* of the tier's length emitted by TLC from KeyAuthority.tla (quick: a seeded sixth per combination) is executed on the real commands and endorse.VirtualFirmware with seeded requests (technologies, VMSA counts, products, shapes, provenance, timestamps, candidate names); after every step every endorsement issued so far is re-verified with verify.Endorsement at both ends and inside the validity, every listed measurement is checked for its configuration, and the openssl flow is redone over the inspect outputs; non-trivial = at least one endorsement verified"
}
