package ka

import (
	"context"
	"crypto/x509"
	"encoding/pem"
	"fmt"
	"regexp"
	"strings"
	"time"

	"github.com/google/gce-tcb-verifier/endorse"
	"github.com/google/gce-tcb-verifier/keys"
	cpb "github.com/google/gce-tcb-verifier/proto/certificates"
	epb "github.com/google/gce-tcb-verifier/proto/endorsement"
	"github.com/google/gce-tcb-verifier/sev"
	"github.com/google/gce-tcb-verifier/sign/gcsca"
	sops "github.com/google/gce-tcb-verifier/sign/ops"
	"github.com/google/gce-tcb-verifier/verify"
	"github.com/google/go-sev-guest/proto/sevsnp"
	"google.golang.org/protobuf/encoding/prototext"

	"verifharness/fx"
)

var serialRe = regexp.MustCompile(`-(\d+)\.crt$`)

// classifyObject maps a storage object write to the spec's event.
func classifyObject(obj string, data []byte) (op, arg string) {
	switch {
	case obj == gcsca.ManifestObjectName:
		m := &cpb.GCECertificateManifest{}
		if err := prototext.Unmarshal(data, m); err != nil {
			return "WriteMan", "?unparseable"
		}
		return "WriteMan", KeyAbstract(m.GetPrimarySigningKeyVersionName())
	case obj == rootPath:
		return "WritePem", "root"
	case strings.HasPrefix(obj, certDir+"/"):
		if c, err := x509.ParseCertificate(data); err == nil && c.IsCA {
			return "WriteObj", "0"
		}
		if m := serialRe.FindStringSubmatch(obj); m != nil {
			return "WriteObj", m[1]
		}
	}
	return "WriteObj", "?" + obj
}

var probeImg = fx.Image(0x1000, 77)

// ProbeEndorse makes the authority sign a small golden measurement with its recorded primary key
// (fresh instances loaded from the surviving state) and returns the endorsement.
func ProbeEndorse(a *Authority, at time.Time) (*epb.VMLaunchEndorsement, error) {
	kc, err := a.Loaded()
	if err != nil {
		return nil, fmt.Errorf("reload: %v", err)
	}
	return probeEndorseWith(kc, at)
}

func probeEndorseWith(kc *keys.Context, at time.Time) (e *epb.VMLaunchEndorsement, err error) {
	defer func() {
		if r := recover(); r != nil {
			err = fmt.Errorf("PANIC: %v", r)
		}
	}()
	ectx := &endorse.Context{SevSnp: &sev.SnpEndorsementRequest{Product: sevsnp.SevProduct_SEV_PRODUCT_MILAN, LaunchVmsas: 1},
		Image: probeImg, ClSpec: 1, Timestamp: at}
	ctx := endorse.NewContext(fx.Ctx(kc, false, false), ectx)
	g, err := endorse.GoldenMeasurement(ctx)
	if err != nil {
		return nil, err
	}
	return endorse.SignDoc(ctx, g)
}

// Usable: the recorded primary signing key is a live key whose certificate chains to the root —
// i.e. endorsing works and the result verifies under `roots` at time `at`.
func Usable(a *Authority, roots *x509.CertPool, at time.Time) error {
	e, err := ProbeEndorse(a, at)
	if err != nil {
		return fmt.Errorf("endorsing with the recorded primary key fails: %v", err)
	}
	if err := verify.EndorsementProto(e, &verify.Options{RootsOfTrust: roots, Now: at}); err != nil {
		return fmt.Errorf("endorsement by the recorded primary key does not verify under the root: %v", err)
	}
	return nil
}

// RootOf returns the authority's stored root certificate.
func RootOf(a *Authority) (*x509.Certificate, error) {
	kc, err := a.Loaded()
	if err != nil {
		return nil, err
	}
	return rootOfCA(kc)
}

func rootOfCA(kc *keys.Context) (*x509.Certificate, error) {
	ctx := context.Background()
	prim, err := kc.CA.PrimarySigningKeyVersion(ctx)
	if err != nil {
		return nil, err
	}
	b, err := kc.CA.CABundle(ctx, prim)
	if err != nil {
		return nil, err
	}
	blk, _ := pem.Decode(b)
	if blk == nil {
		return nil, fmt.Errorf("root bundle is not PEM")
	}
	return x509.ParseCertificate(blk.Bytes)
}

func poolOf(c *x509.Certificate) *x509.CertPool {
	p := x509.NewCertPool()
	p.AddCert(c)
	return p
}

// StoreConsistent is the C11 predicate on a storage snapshot read back through a fresh authority:
// every manifest entry resolves to a stored, parseable certificate and a recorded primary signing
// key has a certificate that verifies under the stored root certificate.
func StoreConsistent(objs map[string][]byte, at time.Time) error {
	return StoreConsistentLayout(objs, at, rootPath, certDir)
}

// StoreConsistentLayout: the same for an authority whose --root_path / --cert_dir were spelled otherwise.
func StoreConsistentLayout(objs map[string][]byte, at time.Time, root, certs string) error {
	ctx := fx.Ctx(nil, false, false)
	ca := GcscaOnLayout(objs, root, certs)
	mb, ok := objs[bucket+"/"+gcsca.ManifestObjectName]
	if !ok {
		return nil // no manifest: nothing is listed
	}
	m := &cpb.GCECertificateManifest{}
	if err := prototext.Unmarshal(mb, m); err != nil {
		return fmt.Errorf("stored manifest does not parse: %v", err)
	}
	for _, e := range m.Entries {
		if _, err := ca.Certificate(ctx, e.KeyVersionName); err != nil {
			return fmt.Errorf("manifest entry %q -> %q does not resolve to a parseable certificate: %v", e.KeyVersionName, e.ObjectPath, err)
		}
	}
	if p := m.GetPrimarySigningKeyVersionName(); p != "" {
		if err := sops.VerifyChain(ctx, ca, p, at); err != nil {
			return fmt.Errorf("primary signing key %q has no certificate that verifies under the stored root: %v", p, err)
		}
	}
	return nil
}

func fxCtx() context.Context { return fx.Ctx(nil, false, false) }

// manifestObjects lists the object paths a manifest references.
func manifestObjects(data []byte) []string {
	m := &cpb.GCECertificateManifest{}
	if err := prototext.Unmarshal(data, m); err != nil {
		return nil
	}
	var r []string
	for _, e := range m.Entries {
		r = append(r, e.ObjectPath)
	}
	return r
}
