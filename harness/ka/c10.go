package ka

import (
	"crypto/x509"
	"encoding/json"
	"fmt"
	"runtime"
	"sort"
	"strings"
	"sync"
	"time"

	"verifharness/vk"
)

func parallel(n int, f func(i int)) {
	var wg sync.WaitGroup
	ch := make(chan int)
	for w := 0; w < runtime.NumCPU(); w++ {
		wg.Add(1)
		go func() {
			defer wg.Done()
			for i := range ch {
				f(i)
			}
		}()
	}
	for i := 0; i < n; i++ {
		ch <- i
	}
	close(ch)
	wg.Wait()
}

// traceOf renders events as trace lines (with the Reset line first).
func traceOf(evs []Event) []string {
	lines := []string{`{"op":"Reset","arg":"","out":""}`}
	for _, e := range evs {
		j, _ := json.Marshal(e)
		lines = append(lines, string(j))
	}
	return lines
}

func evString(evs []Event) string {
	var p []string
	for _, e := range evs {
		s := e.Op + "(" + e.Arg + ")"
		if e.Out != "ok" {
			s += "=" + e.Out
		}
		p = append(p, s)
	}
	return strings.Join(p, " ")
}

// Base is a healthy bootstrapped authority plus the events of its bootstrap and its root.
type Base struct {
	A      *Authority
	Events []Event
	Root   *x509.Certificate
	NRot   int // number of good rotations already applied
}

func cmdEvents(name string, ow bool, t *Tap, err error, crashed bool) []Event {
	return cmdEventsSov(name, ow, 0, t, err, crashed)
}

// cmdEventsSov: sov is the rotate serial override (0 = none).
func cmdEventsSov(name string, ow bool, sov int, t *Tap, err error, crashed bool) []Event {
	o := "-"
	if ow {
		o = "ow"
	}
	// the spec's Params format "<ow|->,<serial flag>,<time class>": these drivers use the default
	// serials (bootstrap: signing serial 2, rotate: no override) and time class 1
	if name == "bootstrap" {
		o += ",2,1"
	} else {
		o += fmt.Sprintf(",%d,1", sov)
	}
	evs := []Event{{"Cmd", name, o}}
	evs = append(evs, t.Events...)
	// the successful command's own Return is logged here; failed commands return err / crash
	out := "ok"
	if crashed {
		out = "crash"
	} else if err != nil {
		out = "err"
	}
	return append(evs, Event{"Return", name, out})
}

// NewBase bootstraps an empty authority fault-free and applies nrot good rotations.
func NewBase(c Combo, nrot int) (*Base, error) {
	a, err := NewAuthority(c)
	if err != nil {
		return nil, err
	}
	t := &Tap{}
	if err := a.Exec(t, "bootstrap", "--timestamp", ts(T0)); err != nil {
		a.Close()
		return nil, fmt.Errorf("fault-free bootstrap of %v failed: %v", c, err)
	}
	b := &Base{A: a, Events: cmdEvents("bootstrap", false, t, nil, false)}
	for i := 0; i < nrot; i++ {
		t := &Tap{}
		if err := a.Exec(t, "rotate", "--timestamp", ts(Tn(i+1))); err != nil {
			a.Close()
			return nil, fmt.Errorf("fault-free rotation %d of %v failed: %v", i+1, c, err)
		}
		b.Events = append(b.Events, cmdEvents("rotate", false, t, nil, false)...)
	}
	b.NRot = nrot
	root, err := RootOf(a)
	if err != nil {
		a.Close()
		return nil, fmt.Errorf("cannot read back the root certificate after bootstrap: %v", err)
	}
	b.Root = root
	return b, nil
}

type faultCase struct {
	combo  Combo
	nrot   int
	mode   string // "fail" | "crash"
	at     []int  // call indices (one or two faults: second applies to the recovery-less second rotation)
	call   string
	events []Event
	preds  int
}

// RunC10 is the C10 check (and contributes traces for C11's trace validation).
func RunC10(run *vk.Run) {
	tier := "quick"
	if !run.IsQuick() {
		tier = "thorough"
	}
	run.Assumptions = append(run.Assumptions,
		"faults are injected at every call rotation makes to Manager, Signer, CertificateAuthority and (gcsca) storage; a crash makes every later call fail and all in-memory objects are dropped",
		"crashes are not applied to the volatile memkm key store",
		"storage writes are atomic per object")
	res, err := vk.RunTLC(vk.TLCOpts{Module: "KeyAuthority", Config: "MC_KeyAuthority_faults_" + tier + ".cfg", Timeout: 20 * time.Minute})
	if err != nil {
		run.Infra(err)
		return
	}
	run.AddTLC(res)
	for _, neg := range []string{"Neg_KeyAuthority_order.cfg", "Neg_KeyAuthority_order2.cfg"} {
		if _, err := vk.RunTLC(vk.TLCOpts{Module: "KeyAuthority", Config: neg, Timeout: 5 * time.Minute, ExpectViolation: true}); err != nil {
			run.Infra(err)
			return
		}
	}
	maxRot := 1
	if !run.IsQuick() {
		maxRot = 2
	}
	var mu sync.Mutex
	var traced []faultCase
	// the two nonprod key managers and the Cloud KMS key manager (keys/gcpkms over the repository's KMS fake)
	// ... and the object-store authority on real files (storage/local behind the tap): there only the calls on
	// the new certificate's object are made to fail / are crash points (storage/local writes an object in
	// place, so a crash inside the manifest's write is outside the object-atomicity assumption)
	combosC10 := append(append([]Combo{}, Combos...), Combo{"gcpkms", "memca"}, Combo{"gcpkms", "gcsca"}, Combo{"localkm", "gcsdisk"})
	for _, combo := range combosC10 {
		for nrot := 0; nrot <= maxRot; nrot++ {
			if run.IsQuick() && nrot == 1 && combo.CA == "localca" {
				continue
			}
			base, err := NewBase(combo, nrot)
			if err != nil {
				run.Infra(err)
				return
			}
			roots := poolOf(base.Root)
			at := Tn(nrot + 1)
			// the real call sequence of a fault-free rotation defines the fault positions
			ref, _ := base.A.Clone()
			rt := &Tap{}
			if err := ref.Exec(rt, "rotate", "--timestamp", ts(at)); err != nil {
				run.Infra(fmt.Errorf("fault-free reference rotation failed on %v: %v", combo, err))
				return
			}
			if err := Usable(ref, roots, at); err != nil {
				// real-code behaviour, not an infrastructure problem: after a rotation that reported success
				// the recorded primary cannot endorse
				run.Violation("successful-rotation-unusable", fmt.Sprintf("after a fault-free rotation (%d earlier rotations) that reported success on %v the recorded primary is not usable: %v", nrot, combo, err),
					map[string]any{"combo": combo.String(), "prior_rotations": nrot})
				ref.Close()
				return
			}
			ref.Close()
			calls := rt.Calls
			modes := []string{"fail"}
			if combo.KM != "memkm" {
				modes = append(modes, "crash")
			}
			type job struct {
				i    int
				mode string
			}
			var jobs []job
			stride := 1
			if run.IsQuick() && !(nrot == 0 && (combo == Combos[0] || combo == Combos[1])) {
				stride = 4 // quick tier: the two main combinations in full, the others sampled
			}
			for i := 1 + (int(run.Seed)+nrot)%stride; i <= len(calls); i += stride {
				if combo.CA == "gcsdisk" {
					break
				}
				for _, m := range modes {
					jobs = append(jobs, job{i, m})
				}
			}
			if combo.CA == "gcsdisk" {
				for i, c := range calls {
					if (strings.HasPrefix(c, "Storage.Writer ") || strings.HasPrefix(c, "Storage.Close ") || strings.HasPrefix(c, "Storage.Exists ")) && strings.HasSuffix(c, ".crt") {
						for _, m := range modes {
							jobs = append(jobs, job{i + 1, m})
						}
					}
				}
			}
			parallel(len(jobs), func(j int) {
				jb := jobs[j]
				a, err := base.A.Clone()
				if err != nil {
					run.Infra(err)
					return
				}
				defer a.Close()
				t := &Tap{}
				if jb.mode == "fail" {
					t.FailAt = jb.i
				} else {
					t.CrashAt = jb.i
				}
				var fs []string
				keyOf := func(kind string) string {
					c := strings.Fields(calls[jb.i-1])[0]
					return fmt.Sprintf("%s:%s@%s", kind, jb.mode, c)
				}
				// destroy-after-durable: evaluated at the moment the old key is about to be destroyed
				t.OnDestroy = func(name string) {
					kc, err := a.Loaded()
					if err != nil {
						fs = append(fs, "destroy-before-durable")
						return
					}
					prim, perr := kc.CA.PrimarySigningKeyVersion(fxCtx())
					if perr != nil || prim == name {
						fs = append(fs, "destroy-before-durable")
						run.Violation(keyOf("destroy-before-durable"), fmt.Sprintf("key %q is destroyed while the stored manifest still names it primary (%v) [%v, %s at call %d %s]", name, perr, combo, jb.mode, jb.i, calls[jb.i-1]),
							map[string]any{"combo": combo.String(), "prior_rotations": nrot, "mode": jb.mode, "call_index": jb.i, "call": calls[jb.i-1], "calls": calls})
						return
					}
					if _, cerr := kc.CA.Certificate(fxCtx(), prim); cerr != nil {
						fs = append(fs, "destroy-before-durable")
						run.Violation(keyOf("destroy-before-durable"), fmt.Sprintf("key %q is destroyed before the new primary %q has a stored certificate: %v [%v]", name, prim, cerr, combo),
							map[string]any{"combo": combo.String(), "prior_rotations": nrot, "mode": jb.mode, "call_index": jb.i, "call": calls[jb.i-1]})
					}
				}
				err = a.Exec(t, "rotate", "--timestamp", ts(at))
				crashed := t.Crashed()
				evs := append(append([]Event{}, base.Events...), cmdEvents("rotate", false, t, err, crashed)...)
				if err != nil && strings.HasPrefix(err.Error(), "PANIC") {
					run.Violation(keyOf("panic"), fmt.Sprintf("rotation panics when call %d (%s) fails: %v", jb.i, calls[jb.i-1], err), map[string]any{"combo": combo.String(), "call": calls[jb.i-1]})
					fs = append(fs, "panic")
				}
				// the post-fault state must be usable
				if uerr := Usable(a, roots, at); uerr != nil {
					fs = append(fs, "unusable")
					run.Violation(keyOf("primary-unusable"), fmt.Sprintf("after rotation with %s at call %d (%s) on %v: %v", jb.mode, jb.i, calls[jb.i-1], combo, uerr),
						map[string]any{"combo": combo.String(), "prior_rotations": nrot, "mode": jb.mode, "call_index": jb.i, "call": calls[jb.i-1], "calls": calls, "rotation_error": fmt.Sprint(err), "events": evs})
				} else {
					evs = append(evs, Event{"Endorse", "", "ok"})
				}
				// the operator's first reaction: the same rotation again, without permission to overwrite. It
				// may be refused because of the leftovers, but refused or not the recorded primary stays
				// usable and nothing is destroyed before its successor is durably recorded (run on a copy of
				// the state: the history below continues from the failed attempt)
				if b, cerr := a.Clone(); cerr == nil {
					tb := &Tap{}
					tb.OnDestroy = func(name string) {
						kc, err := b.Loaded()
						if err != nil {
							return
						}
						prim, perr := kc.CA.PrimarySigningKeyVersion(fxCtx())
						if perr != nil || prim == name {
							fs = append(fs, "destroy-before-durable")
							run.Violation(keyOf("destroy-before-durable:rerun"), fmt.Sprintf("re-running the rotation (no --overwrite) after %s at call %d (%s) on %v: key %q is destroyed while the stored manifest still names it primary (%v)", jb.mode, jb.i, calls[jb.i-1], combo, name, perr),
								map[string]any{"combo": combo.String(), "prior_rotations": nrot, "mode": jb.mode, "call_index": jb.i, "call": calls[jb.i-1]})
						}
					}
					berr := b.Exec(tb, "rotate", "--timestamp", ts(at))
					if uerr := Usable(b, roots, at); uerr != nil {
						fs = append(fs, "unusable")
						run.Violation(keyOf("primary-unusable:rerun"), fmt.Sprintf("after re-running the rotation without --overwrite (result: %v) following %s at call %d (%s) on %v: %v", berr, jb.mode, jb.i, calls[jb.i-1], combo, uerr),
							map[string]any{"combo": combo.String(), "prior_rotations": nrot, "mode": jb.mode, "call_index": jb.i, "call": calls[jb.i-1], "rerun_error": fmt.Sprint(berr)})
					}
					b.Close()
				} else {
					run.Infra(cerr)
				}
				// allowed to overwrite AND told to keep going: the permission to overwrite still holds
				if b, cerr := a.Clone(); cerr == nil {
					berr := b.Exec(&Tap{}, "rotate", "--timestamp", ts(at.Add(time.Hour)), "--overwrite", "--keep_going")
					if berr != nil {
						fs = append(fs, "recovery")
						run.Violation(keyOf("recovery-fails:overwrite+keep_going"), fmt.Sprintf("fault-free rotation with --overwrite --keep_going after a rotation with %s at call %d (%s) on %v fails: %v", jb.mode, jb.i, calls[jb.i-1], combo, berr),
							map[string]any{"combo": combo.String(), "prior_rotations": nrot, "mode": jb.mode, "call_index": jb.i, "call": calls[jb.i-1]})
					} else if uerr := Usable(b, roots, at.Add(time.Hour)); uerr != nil {
						fs = append(fs, "recovery")
						run.Violation(keyOf("recovery-unusable:overwrite+keep_going"), fmt.Sprintf("after the recovery rotation with --overwrite --keep_going following %s at call %d (%s) on %v: %v", jb.mode, jb.i, calls[jb.i-1], combo, uerr),
							map[string]any{"combo": combo.String(), "call": calls[jb.i-1]})
					}
					b.Close()
				}
				// a later fault-free rotation that may overwrite leftovers must succeed
				t2 := &Tap{}
				rerr := a.Exec(t2, "rotate", "--timestamp", ts(at.Add(time.Hour)), "--overwrite")
				evs = append(evs, cmdEvents("rotate", true, t2, rerr, false)...)
				if rerr != nil {
					fs = append(fs, "recovery")
					run.Violation(keyOf("recovery-fails"), fmt.Sprintf("fault-free rotation with --overwrite after a rotation with %s at call %d (%s) on %v fails: %v", jb.mode, jb.i, calls[jb.i-1], combo, rerr),
						map[string]any{"combo": combo.String(), "prior_rotations": nrot, "mode": jb.mode, "call_index": jb.i, "call": calls[jb.i-1], "events": evs})
				} else if uerr := Usable(a, roots, at.Add(time.Hour)); uerr != nil {
					fs = append(fs, "recovery")
					run.Violation(keyOf("recovery-unusable"), fmt.Sprintf("after the recovery rotation following %s at call %d (%s) on %v: %v", jb.mode, jb.i, calls[jb.i-1], combo, uerr),
						map[string]any{"combo": combo.String(), "call": calls[jb.i-1], "events": evs})
				} else {
					evs = append(evs, Event{"Endorse", "", "ok"})
				}
				run.Case(fmt.Sprintf("%v|%d|%s|%d", combo, nrot, jb.mode, jb.i), true)
				if jb.i == len(calls)/2 && jb.mode == "fail" {
					run.Sample(map[string]any{"combo": combo.String(), "prior_rotations": nrot, "fault": jb.mode, "at_call": calls[jb.i-1], "of_calls": len(calls), "rotation_error": fmt.Sprint(err), "events": evString(evs[len(base.Events):])})
				}
				mu.Lock()
				traced = append(traced, faultCase{combo: combo, nrot: nrot, mode: jb.mode, at: []int{jb.i}, call: calls[jb.i-1], events: evs, preds: len(fs)})
				mu.Unlock()
			})
			base.A.Close()
			run.Extra[fmt.Sprintf("fault_positions_%v_rot%d", combo, nrot)] = len(calls)
		}
	}
	// trace validation for the storage-backed combos (their logs contain the object writes)
	sort.Slice(traced, func(i, j int) bool { return evString(traced[i].events) < evString(traced[j].events) })
	var traces [][]string
	var tidx []int
	for i, fc := range traced {
		if fc.combo.CA == "gcsca" && fc.combo.KM != "gcpkms" { // KeyAuthority.tla models the nonprod managers' key naming
			traces = append(traces, traceOf(fixEndorse(fc.events)))
			tidx = append(tidx, i)
		}
	}
	rej, at, err := vk.ValidateTraces(run, "Trace_KeyAuthority", "Trace_KeyAuthority_faults.cfg", traces, true)
	if err != nil {
		run.Infra(err)
		return
	}
	drift := 0
	for _, k := range rej {
		fc := traced[tidx[k]]
		if fc.preds == 0 {
			drift++
			if drift <= 3 {
				fmt.Fprintf(vk.Stdout, "DRIFT property=C10 trace rejected by Trace_KeyAuthority at event %d although the predicates hold: %v %s@%d %s: %s\n", at[k], fc.combo, fc.mode, fc.at[0], fc.call, evString(fc.events))
			}
		}
	}
	run.AddDrift(int64(drift))
	run.Extra["traces_rejected_by_spec"] = len(rej)
	run.Extra["real_traces_accepted_by_spec"] = len(traces) - len(rej)
	run.Exhaustive = true
	run.Rule = "for every combination of key manager (in-memory, on disk, Cloud KMS over the repository's KMS fake) and certificate authority and 0..N prior rotations: every call of the real call sequence of a rotation is made to fail, and (persistent key stores) the process is crashed after it; after each, fresh instances are loaded, the recorded primary must sign a document that verifies under the root, key destruction must not precede the durable record, the same holds after re-running the rotation without --overwrite (refused or not), and a fault-free --overwrite rotation must succeed; the recorded event logs are validated against Trace_KeyAuthority; distinct = (combo, prior rotations, mode, call index)"
}

// fixEndorse gives Endorse events the primary-key argument the spec expects (the key named by the
// last manifest write before them).
func fixEndorse(evs []Event) []Event {
	out := make([]Event, len(evs))
	prim := ""
	for i, e := range evs {
		if e.Op == "WriteMan" {
			prim = e.Arg
		}
		if e.Op == "Endorse" {
			e.Arg = prim
		}
		out[i] = e
	}
	return out
}
