// Cli.tla conformance: every terminal behaviour of the command life-cycle model is executed on the
// real cobra application (cmd.MakeApp) with recording components in the Global / extra slots and the
// real command components in the middle slot, over the memkm+memca authority doubles. This engine
// is not anchored in a listed property: disagreements are reported as OBSERVATION / DRIFT lines and
// never as violations.
package ka

import (
	"context"
	"crypto/rand"
	"encoding/json"
	"fmt"
	"io"
	"os"
	"path/filepath"
	"strings"
	"sync"
	"time"

	"github.com/google/gce-tcb-verifier/cmd"
	"github.com/google/gce-tcb-verifier/testing/fakeovmf"
	"github.com/spf13/cobra"

	"verifharness/fx"
	"verifharness/vk"
)

type cliInput struct {
	Cmd          string `json:"cmd"`
	NilGlobal    bool   `json:"nilGlobal"`
	NilExtra     bool   `json:"nilExtra"`
	FailPhase    string `json:"failPhase"`
	FailPos      int    `json:"failPos"`
	Warg         string `json:"warg"`
	QuietVerbose bool   `json:"quietVerbose"`
	TsTwice      bool   `json:"tsTwice"`
}
type cliEv struct {
	Ev   string `json:"ev"`
	Slot int    `json:"slot"`
}
type cliCase struct {
	Inp   cliInput `json:"inp"`
	Log   []cliEv  `json:"log"`
	Res   string   `json:"res"`
	Wiped []string `json:"wiped"`
}

// recComp records its hooks and fails where told.
type recComp struct {
	mu   *sync.Mutex
	log  *[]cliEv
	slot int
	fail string // "validate" | "init" | ""
}

func (r *recComp) ev(what string) {
	r.mu.Lock()
	*r.log = append(*r.log, cliEv{what, r.slot})
	r.mu.Unlock()
}
func (r *recComp) AddFlags(*cobra.Command) {}
func (r *recComp) PersistentPreRunE(*cobra.Command, []string) error {
	r.ev("validate")
	if r.fail == "validate" {
		return fmt.Errorf("injected validation failure in slot %d", r.slot)
	}
	return nil
}
func (r *recComp) InitContext(ctx context.Context) (context.Context, error) {
	r.ev("init")
	if r.fail == "init" {
		return nil, fmt.Errorf("injected initialisation failure in slot %d", r.slot)
	}
	return ctx, nil
}

func runCliCase(c cliCase, traverse bool) (obs cliCase, runSeen string, errText string, err error) {
	a, err := NewAuthority(Combo{"memkm", "memca"})
	if err != nil {
		return obs, "", "", err
	}
	defer a.Close()
	in := c.Inp
	needsAuthority := in.Cmd == "wipeout" || (in.Cmd == "rotate" && !(in.FailPhase == "init" && in.FailPos == 2)) || (in.Cmd == "bootstrap" && in.FailPhase == "run")
	if needsAuthority {
		if err := a.Exec(&Tap{}, "bootstrap", "--timestamp", ts(T0)); err != nil {
			return obs, "", "", fmt.Errorf("preparing the authority: %v", err)
		}
	}
	tap := &Tap{}
	switch {
	case in.FailPhase == "run" && in.Cmd == "rotate":
		tap.FailName = "Manager.CreateNewSigningKeyVersion"
	case in.FailPhase == "run" && in.Cmd == "wipeout" && in.Warg == "ca":
		tap.FailName = "CA.Wipeout"
	case in.FailPhase == "run" && in.Cmd == "wipeout":
		tap.FailName = "Manager.Wipeout"
	}
	km, ca, flags := a.components(tap)
	keysComp := cmd.Compose(km, ca, &injector{t: tap})
	var mu sync.Mutex
	var log []cliEv
	rec := func(slot int) *recComp {
		r := &recComp{mu: &mu, log: &log, slot: slot}
		if in.FailPos == slot && (in.FailPhase == "validate" || in.FailPhase == "init") {
			r.fail = in.FailPhase
		}
		return r
	}
	var global, extra cmd.CommandComponent
	if !in.NilGlobal {
		global = cmd.Compose(rec(1), keysComp)
	}
	if !in.NilExtra {
		if in.NilGlobal {
			extra = cmd.Compose(rec(3), keysComp)
		} else {
			extra = rec(3)
		}
	}
	app := &cmd.AppComponents{Global: global, SignatureRandom: rand.Reader}
	switch in.Cmd {
	case "endorse":
		app.Endorse = extra
	case "bootstrap":
		app.Bootstrap = extra
	case "rotate":
		app.Rotate = extra
	case "wipeout":
		app.Wipeout = extra
	}
	args := []string{in.Cmd}
	switch in.Cmd {
	case "endorse":
		fw := filepath.Join(a.Dir, "fw.fd")
		img := fakeovmf.CleanExample(&fx.TB{}, 2*1024*1024)
		if in.FailPhase == "run" {
			img = []byte("this is not a firmware image")
		}
		if !(in.FailPhase == "init" && in.FailPos == 2) {
			if err := os.WriteFile(fw, img, 0o600); err != nil {
				return obs, "", "", err
			}
		}
		if !(in.FailPhase == "validate" && in.FailPos == 2) {
			args = append(args, "--uefi", fw)
		}
		args = append(args, "--add_snp", "--measurement_only", "--snp_launch_vmsas", "1")
	case "wipeout":
		switch in.Warg {
		case "ca", "keys":
			args = append(args, in.Warg)
		case "other":
			args = append(args, "cas")
		}
	}
	if in.TsTwice {
		args = append(args, "--timestamp", ts(T0), "--timestamp", ts(T0.Add(time.Hour)))
	} else if in.Cmd != "wipeout" {
		args = append(args, "--timestamp", ts(T0.Add(24*time.Hour)))
	}
	if in.QuietVerbose {
		args = append(args, "--quiet", "--verbose")
	} else {
		args = append(args, "--quiet")
	}
	args = append(args, flags...)
	root := cmd.MakeApp(context.Background(), app)
	var out strings.Builder
	root.SetOut(&out)
	root.SetErr(io.Discard)
	root.SilenceErrors = true
	root.SilenceUsage = true
	root.SetArgs(args)
	var xerr error
	// cobra's hook traversal is a library-global: false in the signer binary, switched on by
	// gcetcbendorsement's MakeRoot (which this process links too); set it for this execution
	cobra.EnableTraverseRunHooks = traverse
	func() {
		defer func() {
			if r := recover(); r != nil {
				xerr = fmt.Errorf("PANIC: %v", r)
			}
		}()
		xerr = root.Execute()
	}()
	obs.Inp = in
	obs.Log = log
	switch {
	case xerr == nil:
		obs.Res = "ok"
	case strings.Contains(xerr.Error(), "invalid argument") || strings.Contains(xerr.Error(), "unknown flag"):
		obs.Res = "flagerr"
		errText = xerr.Error()
	default:
		obs.Res = "err"
		errText = xerr.Error()
	}
	// what the run function did, as far as the doubles can see
	tap.mu.Lock()
	calls := append([]string{}, tap.Calls...)
	tap.mu.Unlock()
	has := func(name string) bool {
		for _, c := range calls {
			if c == name {
				return true
			}
		}
		return false
	}
	if xerr == nil && in.Cmd == "wipeout" {
		if has("CA.Wipeout") {
			obs.Wiped = append(obs.Wiped, "ca")
		}
		if has("Manager.Wipeout") {
			obs.Wiped = append(obs.Wiped, "keys")
		}
	}
	switch in.Cmd {
	case "bootstrap":
		runSeen = fmt.Sprint(has("Manager.CreateNewRootKey") || has("CA.PrimaryRootKeyVersion") || has("CA.PrepareResources"))
	case "rotate":
		runSeen = fmt.Sprint(has("Manager.CreateNewSigningKeyVersion"))
	case "wipeout":
		runSeen = fmt.Sprint(has("CA.Wipeout") || has("Manager.Wipeout"))
		if in.Warg == "other" {
			runSeen = "unobservable"
		}
	default:
		runSeen = "unobservable"
	}
	return obs, runSeen, errText, nil
}

// RunCLI executes the Cli.tla conformance ("./check X-CLI <tier>").
func RunCLI(run *vk.Run) {
	for _, cfg := range []string{"Neg_Cli_initfirst.cfg", "Find_Cli_output.cfg", "Find_Cli_wipeout.cfg"} {
		if _, err := vk.RunTLC(vk.TLCOpts{Module: "Cli", Config: cfg, Timeout: 5 * time.Minute, ExpectViolation: true}); err != nil {
			run.Infra(err)
			return
		}
	}
	mc, err := vk.RunTLC(vk.TLCOpts{Module: "Cli", Config: "MC_Cli.cfg", Timeout: 5 * time.Minute})
	if err != nil {
		run.Infra(err)
		return
	}
	run.AddTLC(mc)
	defer func(v bool) { cobra.EnableTraverseRunHooks = v }(cobra.EnableTraverseRunHooks)
	// the commands print to os.Stdout (measurement-only output): silence it while the engine runs
	realStdout := os.Stdout
	if null, err := os.OpenFile(os.DevNull, os.O_WRONLY, 0); err == nil {
		os.Stdout = null
		defer func() { os.Stdout = realStdout; null.Close() }()
	}
	say := func(f string, a ...any) { fmt.Fprintf(realStdout, f, a...) }
	obsOutput, obsWipe := 0, 0
	for _, mode := range []struct {
		traverse bool
		cfg, mc  string
	}{{false, "Emit_Cli.cfg", ""}, {true, "Emit_Cli_traverse.cfg", "MC_Cli_traverse.cfg"}} {
		if mode.mc != "" {
			mcr, err := vk.RunTLC(vk.TLCOpts{Module: "Cli", Config: mode.mc, Timeout: 5 * time.Minute})
			if err != nil {
				run.Infra(err)
				return
			}
			run.AddTLC(mcr)
		}
		em, err := vk.RunTLC(vk.TLCOpts{Module: "Cli", Config: mode.cfg, Workers: 1, Timeout: 5 * time.Minute})
		if err != nil {
			run.Infra(err)
			return
		}
		run.AddTLC(em)
		cases := em.Cases
		var pmu sync.Mutex
		parallel(len(cases), func(ci int) {
			var c cliCase
			if err := json.Unmarshal(cases[ci], &c); err != nil {
				run.Infra(err)
				return
			}
			obs, runSeen, errText, err := runCliCase(c, mode.traverse)
			if err != nil {
				run.Infra(err)
				return
			}
			// the spec's log projected on what is observable: hooks of slots 1 and 3
			var want []cliEv
			specRun := false
			for _, e := range c.Log {
				if e.Ev == "run" {
					specRun = true
				} else if e.Slot != 2 {
					want = append(want, e)
				}
			}
			diff := ""
			if fmt.Sprint(want) != fmt.Sprint(obs.Log) {
				diff += fmt.Sprintf(" hooks: real %v, Cli.tla %v;", obs.Log, want)
			}
			if c.Res != obs.Res {
				diff += fmt.Sprintf(" result: real %s (%s), Cli.tla %s;", obs.Res, errText, c.Res)
			}
			if runSeen != "unobservable" && runSeen != fmt.Sprint(specRun) {
				diff += fmt.Sprintf(" run function reached: real %s, Cli.tla %v;", runSeen, specRun)
			}
			if c.Res == "ok" && c.Inp.Cmd == "wipeout" && fmt.Sprint(sortedStrings(c.Wiped)) != fmt.Sprint(sortedStrings(obs.Wiped)) {
				diff += fmt.Sprintf(" wiped: real %v, Cli.tla %v;", obs.Wiped, c.Wiped)
			}
			pmu.Lock()
			defer pmu.Unlock()
			if diff != "" {
				run.AddDrift(1)
				say("DRIFT engine=Cli traverse=%v input %+v:%s\n", mode.traverse, c.Inp, diff)
			}
			// the two documented deviations, reproduced on the real commands
			if !mode.traverse && c.Inp.QuietVerbose && obs.Res == "ok" {
				obsOutput++
			}
			if c.Inp.Cmd == "wipeout" && c.Inp.Warg == "other" && obs.Res == "ok" && len(obs.Wiped) == 0 {
				obsWipe++
			}
			j, _ := json.Marshal(c.Inp)
			run.Case(fmt.Sprintf("%v %s", mode.traverse, j), true)
			if len(run.Samples) < 5 && c.Inp.FailPhase != "none" {
				run.Sample(map[string]any{"traverse": mode.traverse, "input": c.Inp, "real_hooks": obs.Log, "real_result": obs.Res, "error": errText})
			}
		})
	}
	if obsOutput > 0 {
		say("OBSERVATION engine=Cli --quiet together with --verbose is accepted by every sub-command (%d cases): the root command's PersistentPreRunE, which refuses it, is shadowed by the sub-command's hook (Find_Cli_output.cfg)\n", obsOutput)
	}
	if obsWipe > 0 {
		say("OBSERVATION engine=Cli `wipeout <anything but ca|keys>` succeeds without wiping anything (%d cases) (Find_Cli_wipeout.cfg)\n", obsWipe)
	}
	run.Extra["observation_conflicting_output_options_accepted"] = obsOutput
	run.Extra["observation_wipeout_noop_success"] = obsWipe
	run.Exhaustive = true
	run.Rule = "every terminal behaviour of Cli.tla (all commands x nil slots x failing hook x wipeout argument x output options x repeated timestamp) executed on cmd.MakeApp with recording components; hook order of slots 1 and 3, result class, whether the run function was reached and what wipeout wiped are compared with the model; no listed property depends on this engine"
}

func sortedStrings(s []string) []string {
	out := append([]string{}, s...)
	for i := range out {
		for j := i + 1; j < len(out); j++ {
			if out[j] < out[i] {
				out[i], out[j] = out[j], out[i]
			}
		}
	}
	return out
}
