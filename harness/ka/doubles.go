// Package ka binds spec/KeyAuthority.tla to the real authority code: rotate.Bootstrap / rotate.Key /
// rotate.Wipeout through the cobra commands, over the nonprod key managers and memca / gcsca, with
// recording and fault-injecting doubles around Manager, Signer, CertificateAuthority and storage.
package ka

import (
	"bytes"
	"context"
	"crypto"
	"crypto/x509"
	"errors"
	"fmt"
	"io"
	"os"
	"sort"
	"strings"
	"sync"

	"github.com/google/gce-tcb-verifier/keys"
	styp "github.com/google/gce-tcb-verifier/sign/types"
)

// Event mirrors the spec's ev record.
type Event struct {
	Op  string `json:"op"`
	Arg string `json:"arg"`
	Out string `json:"out"`
}

var (
	errInjected = errors.New("injected fault")
	errCrashed  = errors.New("process crashed (injected)")
)

// Tap is the shared recorder / fault injector of one command execution.
type Tap struct {
	mu           sync.Mutex
	Calls        []string // every interface call, in order ("Manager.CreateNewRootKey", "Storage.Writer certs/x", ...)
	Events       []Event  // spec-level events (state changes)
	FailAt       int      // 1-based index of the call that fails (0 = none)
	FailName     string   // every call with this name fails ("" = none)
	CrashAt      int      // 1-based index of the call after which everything fails (0 = none)
	crashed      bool
	pubSinceSign []string // PublicKey requests since the last Sign: the first one names the subject
	Writes       []Write
	// OnDestroy, if set, is evaluated just before a key version is destroyed.
	OnDestroy func(name string)
	// OnCall, if set, is evaluated (outside the lock) after the n-th interface call was registered.
	OnCall func(n int, name string)
}

// Write is one storage object write (object granularity).
type Write struct {
	Object string
	Data   []byte
}

// call registers an interface call and decides whether it fails.
func (t *Tap) call(name string) error {
	t.mu.Lock()
	defer t.mu.Unlock()
	if t.crashed {
		return errCrashed
	}
	t.Calls = append(t.Calls, name)
	n := len(t.Calls)
	if t.OnCall != nil {
		hook := t.OnCall
		t.mu.Unlock()
		hook(n, name)
		t.mu.Lock()
	}
	if t.FailAt == n || (t.FailName != "" && t.FailName == name) {
		return fmt.Errorf("%s: %w", name, errInjected)
	}
	if t.CrashAt != 0 && n > t.CrashAt {
		t.crashed = true
		return errCrashed
	}
	return nil
}

func (t *Tap) event(op, arg, out string) {
	t.mu.Lock()
	t.Events = append(t.Events, Event{op, arg, out})
	t.mu.Unlock()
}

// Crashed reports whether the crash point was reached.
func (t *Tap) Crashed() bool { t.mu.Lock(); defer t.mu.Unlock(); return t.crashed }

// KeyAbstract maps a real key-version name to the spec's name (root, k0, k1, ...).
func KeyAbstract(name string) string {
	switch {
	case name == "root":
		return "root"
	case name == "primarySigningKey":
		return "k0"
	case strings.HasPrefix(name, "primarySigningKey_"):
		return "k" + strings.TrimPrefix(name, "primarySigningKey_")
	}
	return "?" + name
}

// --- Manager ---

type Manager struct {
	keys.ManagerInterface
	T *Tap
}

func (m *Manager) CreateFirstSigningKey(ctx context.Context) (string, error) {
	if err := m.T.call("Manager.CreateFirstSigningKey"); err != nil {
		return "", err
	}
	n, err := m.ManagerInterface.CreateFirstSigningKey(ctx)
	if err == nil {
		m.T.event("CreateKey", KeyAbstract(n), "ok")
	}
	return n, err
}
func (m *Manager) CreateNewSigningKeyVersion(ctx context.Context) (string, error) {
	if err := m.T.call("Manager.CreateNewSigningKeyVersion"); err != nil {
		return "", err
	}
	n, err := m.ManagerInterface.CreateNewSigningKeyVersion(ctx)
	if err == nil {
		m.T.event("CreateKey", KeyAbstract(n), "ok")
	}
	return n, err
}
func (m *Manager) CreateNewRootKey(ctx context.Context) (string, error) {
	if err := m.T.call("Manager.CreateNewRootKey"); err != nil {
		return "", err
	}
	n, err := m.ManagerInterface.CreateNewRootKey(ctx)
	if err == nil {
		m.T.event("CreateKey", KeyAbstract(n), "ok")
	}
	return n, err
}
func (m *Manager) CertificateTemplate(ctx context.Context, issuer *x509.Certificate, pub any) (*x509.Certificate, error) {
	if err := m.T.call("Manager.CertificateTemplate"); err != nil {
		return nil, err
	}
	return m.ManagerInterface.CertificateTemplate(ctx, issuer, pub)
}
func (m *Manager) DestroyKeyVersion(ctx context.Context, name string) error {
	if err := m.T.call("Manager.DestroyKeyVersion"); err != nil {
		return err
	}
	if m.T.OnDestroy != nil {
		m.T.OnDestroy(name)
	}
	err := m.ManagerInterface.DestroyKeyVersion(ctx, name)
	if err == nil {
		m.T.event("DestroyKey", KeyAbstract(name), "ok")
	}
	return err
}
func (m *Manager) Wipeout(ctx context.Context) error {
	if err := m.T.call("Manager.Wipeout"); err != nil {
		return err
	}
	return m.ManagerInterface.Wipeout(ctx)
}

// --- Signer ---

type Signer struct {
	styp.Signer
	T *Tap
}

func (s *Signer) Sign(ctx context.Context, name string, d styp.Digest, o crypto.SignerOpts) ([]byte, error) {
	if err := s.T.call("Signer.Sign " + name); err != nil {
		return nil, err
	}
	sig, err := s.Signer.Sign(ctx, name, d, o)
	if err == nil {
		s.T.mu.Lock()
		subj := name
		for _, p := range s.T.pubSinceSign {
			if p != name { // the subject's key is the one requested that is not the issuer's
				subj = p
				break
			}
		}
		s.T.pubSinceSign = nil
		s.T.mu.Unlock()
		s.T.event("Sign", KeyAbstract(subj), "ok")
	}
	return sig, err
}
func (s *Signer) PublicKey(ctx context.Context, name string) ([]byte, error) {
	if err := s.T.call("Signer.PublicKey " + name); err != nil {
		return nil, err
	}
	s.T.mu.Lock()
	s.T.pubSinceSign = append(s.T.pubSinceSign, name)
	s.T.mu.Unlock()
	return s.Signer.PublicKey(ctx, name)
}

// --- CertificateAuthority (fault positions at the CA interface; used around memca and gcsca) ---

type CA struct {
	styp.CertificateAuthority
	T *Tap
}

func (c *CA) Certificate(ctx context.Context, k string) ([]byte, error) {
	if err := c.T.call("CA.Certificate"); err != nil {
		return nil, err
	}
	return c.CertificateAuthority.Certificate(ctx, k)
}
func (c *CA) CABundle(ctx context.Context, k string) ([]byte, error) {
	if err := c.T.call("CA.CABundle"); err != nil {
		return nil, err
	}
	return c.CertificateAuthority.CABundle(ctx, k)
}
func (c *CA) PrimaryRootKeyVersion(ctx context.Context) (string, error) {
	if err := c.T.call("CA.PrimaryRootKeyVersion"); err != nil {
		return "", err
	}
	return c.CertificateAuthority.PrimaryRootKeyVersion(ctx)
}
func (c *CA) PrimarySigningKeyVersion(ctx context.Context) (string, error) {
	if err := c.T.call("CA.PrimarySigningKeyVersion"); err != nil {
		return "", err
	}
	return c.CertificateAuthority.PrimarySigningKeyVersion(ctx)
}
func (c *CA) Finalize(ctx context.Context, m styp.CertificateAuthorityMutation) error {
	if err := c.T.call("CA.Finalize"); err != nil {
		return err
	}
	return c.CertificateAuthority.Finalize(ctx, m)
}
func (c *CA) PrepareResources(ctx context.Context) error {
	if err := c.T.call("CA.PrepareResources"); err != nil {
		return err
	}
	return c.CertificateAuthority.PrepareResources(ctx)
}
func (c *CA) Wipeout(ctx context.Context) error {
	if err := c.T.call("CA.Wipeout"); err != nil {
		return err
	}
	return c.CertificateAuthority.Wipeout(ctx)
}

// --- storage ---

// MemStorage implements storagei.Client in memory at object granularity.
type MemStorage struct {
	mu      sync.Mutex
	Objects map[string][]byte // "bucket/object" -> contents
	Buckets map[string]bool
	T       *Tap // may be swapped per command
	// ShortWrites > 0: a writer takes at most that many bytes per Write call and reports the short count
	// without an error (what an io.Writer must not do, and what a caller has to check for all the same)
	ShortWrites int
}

func NewMemStorage() *MemStorage {
	return &MemStorage{Objects: map[string][]byte{}, Buckets: map[string]bool{}}
}

func (s *MemStorage) tap() *Tap {
	s.mu.Lock()
	defer s.mu.Unlock()
	if s.T == nil {
		s.T = &Tap{}
	}
	return s.T
}

// Snapshot copies the objects.
func (s *MemStorage) Snapshot() map[string][]byte {
	s.mu.Lock()
	defer s.mu.Unlock()
	r := map[string][]byte{}
	for k, v := range s.Objects {
		r[k] = append([]byte(nil), v...)
	}
	return r
}

// FromSnapshot builds a storage with the given objects.
func FromSnapshot(objs map[string][]byte) *MemStorage {
	s := NewMemStorage()
	for k, v := range objs {
		s.Objects[k] = append([]byte(nil), v...)
		s.Buckets[strings.SplitN(k, "/", 2)[0]] = true
	}
	return s
}

type notExist struct{ name string }

func (e *notExist) Error() string { return "object does not exist: " + e.name }

func (s *MemStorage) Reader(_ context.Context, bucket, object string) (io.ReadCloser, error) {
	if err := s.tap().call("Storage.Reader " + object); err != nil {
		return nil, err
	}
	s.mu.Lock()
	defer s.mu.Unlock()
	b, ok := s.Objects[bucket+"/"+object]
	if !ok {
		return nil, &notExist{bucket + "/" + object}
	}
	return io.NopCloser(bytes.NewReader(append([]byte(nil), b...))), nil
}

type memWriter struct {
	s    *MemStorage
	name string
	obj  string
	buf  bytes.Buffer
}

func (w *memWriter) Write(p []byte) (int, error) {
	if n := w.s.ShortWrites; n > 0 && len(p) > n {
		return w.buf.Write(p[:n])
	}
	return w.buf.Write(p)
}
func (w *memWriter) Close() error {
	t := w.s.tap()
	if err := t.call("Storage.Close " + w.obj); err != nil {
		return err
	}
	w.s.mu.Lock()
	w.s.Objects[w.name] = append([]byte(nil), w.buf.Bytes()...)
	w.s.mu.Unlock()
	t.mu.Lock()
	t.Writes = append(t.Writes, Write{w.obj, append([]byte(nil), w.buf.Bytes()...)})
	t.mu.Unlock()
	op, arg := classifyObject(w.obj, w.buf.Bytes())
	t.event(op, arg, "ok")
	return nil
}

func (s *MemStorage) Writer(_ context.Context, bucket, object string) (io.WriteCloser, error) {
	if err := s.tap().call("Storage.Writer " + object); err != nil {
		return nil, err
	}
	return &memWriter{s: s, name: bucket + "/" + object, obj: object}, nil
}

func (s *MemStorage) Exists(_ context.Context, bucket, object string) (bool, error) {
	if err := s.tap().call("Storage.Exists " + object); err != nil {
		return false, err
	}
	s.mu.Lock()
	defer s.mu.Unlock()
	_, ok := s.Objects[bucket+"/"+object]
	return ok, nil
}

func (s *MemStorage) IsNotExists(err error) bool {
	var ne *notExist
	return errors.As(err, &ne) || errors.Is(err, os.ErrNotExist)
}

func (s *MemStorage) EnsureBucketExists(_ context.Context, bucket string) error {
	if err := s.tap().call("Storage.EnsureBucketExists"); err != nil {
		return err
	}
	s.mu.Lock()
	s.Buckets[bucket] = true
	s.mu.Unlock()
	return nil
}

func (s *MemStorage) Wipeout(_ context.Context, bucket string) error {
	if err := s.tap().call("Storage.Wipeout"); err != nil {
		return err
	}
	s.mu.Lock()
	defer s.mu.Unlock()
	for k := range s.Objects {
		if strings.HasPrefix(k, bucket+"/") {
			delete(s.Objects, k)
		}
	}
	delete(s.Buckets, bucket)
	return nil
}

// ObjectNames lists stored object names (sorted).
func (s *MemStorage) ObjectNames() []string {
	s.mu.Lock()
	defer s.mu.Unlock()
	var r []string
	for k := range s.Objects {
		r = append(r, k)
	}
	sort.Strings(r)
	return r
}
