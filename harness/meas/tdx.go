package meas

import (
	"bytes"
	"crypto/sha512"
	"encoding/hex"
	"encoding/json"
	"fmt"
	epb "github.com/google/gce-tcb-verifier/proto/endorsement"
	"math/rand"
	"sort"
	"strings"
	"time"

	"github.com/google/gce-tcb-verifier/ovmf"
	oabi "github.com/google/gce-tcb-verifier/ovmf/abi"
	"github.com/google/gce-tcb-verifier/tdx"
	"github.com/google/gce-tcb-verifier/testing/fakeovmf"
	"github.com/google/gce-tcb-verifier/verify/verifytest"

	"verifharness/abiref"
	"verifharness/fx"
	"verifharness/rp"
	"verifharness/vk"
)

type ivl struct {
	S int `json:"s"`
	E int `json:"e"`
}
type ivRow struct {
	Part       string `json:"part"`
	Banks      []ivl  `json:"banks"`
	Secs       []ivl  `json:"secs"`
	Unaccepted []ivl  `json:"unaccepted"`
	Four       int    `json:"four"`
}
type laySec struct {
	Ty    uint32 `json:"ty"`
	Ext   bool   `json:"ext"`
	Empty bool   `json:"empty"`
}
type layRow struct {
	Part      string   `json:"part"`
	Secs      []laySec `json:"secs"`
	Mode      string   `json:"mode"`
	Flaw      string   `json:"flaw"`
	Malformed bool     `json:"malformed"`
	Stream    []struct {
		Sec    int    `json:"sec"`
		Extend bool   `json:"extend"`
		Source string `json:"source"`
	} `json:"stream"`
}

const gib = uint64(1) << 30

type region struct{ start, length uint64 }

// unacceptedRef is the declarative definition in Go: per bank ascending, maximal runs not covered.
func unacceptedRef(banks, secs []region) []region {
	bs := append([]region{}, banks...)
	sort.Slice(bs, func(i, j int) bool { return bs[i].start < bs[j].start })
	ss := append([]region{}, secs...)
	sort.Slice(ss, func(i, j int) bool { return ss[i].start < ss[j].start })
	var out []region
	for _, b := range bs {
		cur, end := b.start, b.start+b.length
		for _, s := range ss {
			se := s.start + s.length
			if s.length == 0 || se <= cur || s.start >= end {
				continue
			}
			if s.start > cur {
				out = append(out, region{cur, s.start - cur})
			}
			if se > cur {
				cur = se
			}
			if cur >= end {
				break
			}
		}
		if cur < end {
			out = append(out, region{cur, end - cur})
		}
	}
	return out
}

// hobRef builds the hand-off block through the Abi tables.
func hobRef(e *abiref.Exported, base, size uint64, priv, unacc []region, earlyAll bool) ([]byte, error) {
	n := len(priv) + len(unacc)
	hdr := func(t, l uint64) abiref.Values { return abiref.Values{"hob_type": t, "hob_length": l} }
	b := e.Encode("HobHandoff", abiref.Values{"header": hdr(1, 56), "version": uint64(9), "boot_mode": uint64(0), "end_of_hob_list": base + 56 + 48*uint64(n)})
	for _, p := range priv {
		b = append(b, e.Encode("HobResource", abiref.Values{"header": hdr(3, 48), "resource_type": uint64(0), "resource_attribute": uint64(7), "physical_start": p.start, "resource_length": p.length})...)
	}
	for _, u := range unacc {
		attr := uint64(7)
		if u.start+u.length <= 4*gib || earlyAll {
			attr |= 0x10000000
		}
		b = append(b, e.Encode("HobResource", abiref.Values{"header": hdr(3, 48), "resource_type": uint64(7), "resource_attribute": attr, "physical_start": u.start, "resource_length": u.length})...)
	}
	b = append(b, e.Encode("HobHeader", hdr(0xffff, 8))...)
	if uint64(len(b)) > size {
		return nil, fmt.Errorf("hand-off block of %d bytes does not fit the %d-byte section", len(b), size)
	}
	return append(b, make([]byte, size-uint64(len(b)))...), nil
}

// mrtdRef hashes the record stream through the TdxPageAdd / TdxMrExtend tables.
func mrtdRef(e *abiref.Exported, secs []*oabi.TDXMetadataSection, extend []bool, data [][]byte) []byte {
	h := sha512.New384()
	for i, s := range secs {
		for off := uint64(0); off < s.MemorySize; off += 4096 {
			h.Write(e.Encode("TdxPageAdd", abiref.Values{"name": []byte("MEM.PAGE.ADD"), "gpa": uint64(s.MemoryBase) + off}))
			if extend[i] {
				for c := uint64(0); c < 4096; c += 256 {
					h.Write(e.Encode("TdxMrExtend", abiref.Values{"name": []byte("MR.EXTEND"), "gpa": uint64(s.MemoryBase) + off + c}))
					h.Write(data[i][off+c : off+c+256])
				}
			}
		}
	}
	return h.Sum(nil)
}

var layBanks = []ovmf.GuestPhysicalRegion{{Start: 0, Length: 0x1000000}, {Start: 0xff000000, Length: 0x1000000}, {Start: oabi.EFIPhysicalAddress(4 * gib), Length: gib}}

func buildTdxImage(r layRow, seed int64) ([]byte, []*oabi.TDXMetadataSection, error) {
	const size = 0x10000
	img := make([]byte, size)
	rand.New(rand.NewSource(seed)).Read(img[0x400:0xf000])
	var fvs []int
	for i, s := range r.Secs {
		if s.Ty == 0 || s.Ty == 1 {
			fvs = append(fvs, i)
		}
	}
	var secs []*oabi.TDXMetadataSection
	pagesLeft, off := 16, uint32(0)
	memFV, nTemp := uint64(0xffc00000), uint64(0)
	for i, s := range r.Secs {
		ms := &oabi.TDXMetadataSection{SectionType: s.Ty}
		// the extend flag is bit 0 of the attributes; the other bits do not matter to the measurement, so
		// flagged and unflagged sections also carry other bits (seeded)
		other := []uint32{0, 0, 2, 0x80000000}[uint64(seed+int64(i)*7)%4]
		ms.Attributes = other
		if s.Ext {
			ms.Attributes |= oabi.TDXMetadataAttributeExtendMR
		}
		switch s.Ty {
		case 0, 1:
			k := len(fvs)
			idx := 0
			for j, f := range fvs {
				if f == i {
					idx = j
				}
			}
			pages := pagesLeft / (k - idx)
			pagesLeft -= pages
			ms.DataOffset, ms.DataSize = off, uint32(pages)*4096
			ms.MemoryBase, ms.MemorySize = oabi.EFIPhysicalAddress(memFV), uint64(pages)*4096
			off += ms.DataSize
			memFV += ms.MemorySize
		case 2:
			ms.MemoryBase, ms.MemorySize = oabi.EFIPhysicalAddress(0x809000+0x100000*nTemp), 0x2000
			nTemp++
		default:
			ms.MemoryBase, ms.MemorySize = oabi.EFIPhysicalAddress(0x810000+0x100000*nTemp), 0x3000
			if s.Empty {
				ms.MemorySize = 0
			}
			nTemp++
		}
		secs = append(secs, ms)
	}
	switch r.Flaw {
	case "overlap":
		// the last section that occupies memory is moved onto the first one (an empty section overlaps nothing)
		j := len(secs) - 1
		for j >= 1 && secs[j].MemorySize == 0 {
			j--
		}
		if j >= 1 && secs[0].MemorySize > 0 {
			secs[j].MemoryBase = secs[0].MemoryBase
		} else {
			return nil, nil, nil // not expressible
		}
	case "fvsize":
		if len(fvs) == 0 {
			return nil, nil, nil
		}
		secs[fvs[0]].DataSize -= 4096
		secs[fvs[0]].MemorySize -= 4096
	case "memsize":
		if len(fvs) == 0 {
			return nil, nil, nil
		}
		secs[fvs[0]].MemorySize += 4096
	}
	md := &oabi.TDXMetadata{Header: &oabi.TDXMetadataDescriptor{Signature: oabi.TDXMetadataDescriptorMagic, Length: uint32(16 + 32*len(secs)), Version: oabi.TDXMetadataVersion, SectionCount: uint32(len(secs))}, Sections: secs}
	fns := fakeovmf.InitializeTdxGUIDTableFns(img, 0x100, md)
	if err := fakeovmf.InitializeGUIDTable(img, oabi.FwGUIDTableEndOffset, []uint16{oabi.SizeofMetadataOffset}, fns); err != nil {
		return nil, nil, err
	}
	return img, secs, nil
}

func launchOpts(mode string, banks []ovmf.GuestPhysicalRegion) *tdx.LaunchOptions {
	switch mode {
	case "default":
		return tdx.LaunchOptionsDefault("")
	case "measure_all":
		return &tdx.LaunchOptions{GuestRAMBanks: banks, MeasureAllRegions: true}
	}
	return &tdx.LaunchOptions{GuestRAMBanks: banks, MeasureAllRegions: true, DisableUnacceptedMemory: true}
}

// expectedMrtd computes the reference MRTD for an image / section list / mode / banks.
func expectedMrtd(e *abiref.Exported, img []byte, secs []*oabi.TDXMetadataSection, mode string, banks []ovmf.GuestPhysicalRegion) ([]byte, []byte, error) {
	var priv []region
	for _, s := range secs {
		priv = append(priv, region{uint64(s.MemoryBase), s.MemorySize})
	}
	var unacc []region
	if mode != "default" {
		var bs []region
		for _, b := range banks {
			bs = append(bs, region{uint64(b.Start), b.Length})
		}
		unacc = unacceptedRef(bs, priv)
	}
	extend := make([]bool, len(secs))
	data := make([][]byte, len(secs))
	var hob []byte
	for i, s := range secs {
		extend[i] = mode != "default" || s.Attributes&1 != 0
		switch s.SectionType {
		case 0, 1:
			data[i] = img[s.DataOffset : uint64(s.DataOffset)+s.MemorySize]
		case 2:
			h, err := hobRef(e, uint64(s.MemoryBase), s.MemorySize, priv, unacc, mode == "measure_all_ea")
			if err != nil {
				return nil, nil, err
			}
			data[i], hob = h, h
		default:
			data[i] = make([]byte, s.MemorySize)
		}
	}
	return mrtdRef(e, secs, extend, data), hob, nil
}

// RunC05 is the C05 check.
func RunC05(run *vk.Run) {
	e, ares, err := abiref.Load()
	if err != nil {
		run.Infra(err)
		return
	}
	run.AddTLC(ares)
	run.Assumptions = append(run.Assumptions, "TLC decides the interval subtraction (declaratively, on a short line), the extend rule, section order and the rejection rule; byte-level agreement is differential through the Abi.tla tables",
		"hand-off and temporary-memory sections flagged for extension in default mode are not enumerated (the TDVF format does not flag them)",
		"the oracle is calibrated against the MRTD pinned in the repository's tests")
	tier := "quick"
	if !run.IsQuick() {
		tier = "thorough"
	}
	// calibration
	{
		img := fakeovmf.CleanExample(&fx.TB{}, 2*1024*1024)
		regs, err := ovmf.ExtractMaterialGuestPhysicalRegions(img)
		if err != nil {
			run.Infra(err)
			return
		}
		var secs []*oabi.TDXMetadataSection
		off := uint32(0)
		_ = off
		for _, r := range regs {
			secs = append(secs, &oabi.TDXMetadataSection{MemoryBase: r.GPR.Start, MemorySize: r.GPR.Length, Attributes: r.TDVFAttributes})
		}
		// types and data offsets of the default example layout
		types := []uint32{0, 1, 3, 3, 2, 3}
		offs := []uint32{0x20000, 0, 0, 0, 0, 0}
		for i := range secs {
			secs[i].SectionType, secs[i].DataOffset = types[i], offs[i]
		}
		got, _, err := expectedMrtd(e, img, secs, "default", nil)
		if err != nil || hex.EncodeToString(got) != verifytest.CleanTdxExampleMeasurement {
			run.Infra(fmt.Errorf("oracle calibration failed: spec-derived MRTD of CleanExample is %x (err %v), the repository pins %s", got, err, verifytest.CleanTdxExampleMeasurement))
			return
		}
	}
	// part 1: intervals
	iv, err := vk.RunTLC(vk.TLCOpts{Module: "MeasureTdx", Config: "Emit_MeasureTdx_iv_" + tier + ".cfg", Workers: 1, Timeout: 20 * time.Minute})
	if err != nil {
		run.Infra(err)
		return
	}
	run.AddTLC(iv)
	rp.Parallel(len(iv.Cases), func(i int) {
		var r ivRow
		if err := json.Unmarshal(iv.Cases[i], &r); err != nil {
			run.Infra(err)
			return
		}
		for _, unit := range []uint64{4096, gib} {
			conv := func(xs []ivl) []ovmf.GuestPhysicalRegion {
				var out []ovmf.GuestPhysicalRegion
				for _, x := range xs {
					out = append(out, ovmf.GuestPhysicalRegion{Start: oabi.EFIPhysicalAddress(uint64(x.S) * unit), Length: uint64(x.E-x.S) * unit})
				}
				return out
			}
			banks, secs := conv(r.Banks), conv(r.Secs)
			rr := rand.New(rand.NewSource(run.Seed + int64(i)))
			rr.Shuffle(len(banks), func(a, b int) { banks[a], banks[b] = banks[b], banks[a] })
			rr.Shuffle(len(secs), func(a, b int) { secs[a], secs[b] = secs[b], secs[a] })
			if i%7 == 0 {
				secs = append(secs, ovmf.GuestPhysicalRegion{Start: oabi.EFIPhysicalAddress(unit), Length: 0}) // an empty section changes nothing
			}
			if i%3 == 0 {
				// empty RAM banks change nothing either, wherever they lie: strictly inside a section, at a
				// section's first byte, below everything
				for _, sc := range secs {
					if sc.Length != 0 {
						banks = append(banks, ovmf.GuestPhysicalRegion{Start: sc.Start + oabi.EFIPhysicalAddress(unit/2), Length: 0})
						if i%2 == 0 {
							banks = append(banks, ovmf.GuestPhysicalRegion{Start: sc.Start, Length: 0})
						}
					}
				}
				if i%9 == 0 {
					banks = append(banks, ovmf.GuestPhysicalRegion{Start: 0, Length: 0})
				}
				rr.Shuffle(len(banks), func(a, b int) { banks[a], banks[b] = banks[b], banks[a] })
			}
			secsBefore := append([]ovmf.GuestPhysicalRegion{}, secs...)
			var got []ovmf.GuestPhysicalRegion
			var perr error
			func() {
				defer func() {
					if p := recover(); p != nil {
						perr = fmt.Errorf("PANIC: %v", p)
					}
				}()
				got = ovmf.UnacceptedMemRangesForVerif(secs, banks)
			}()
			want := conv(r.Unaccepted)
			ok := perr == nil && len(got) == len(want)
			for k := 0; ok && k < len(got); k++ {
				ok = got[k].Start == want[k].Start && got[k].Length == want[k].Length
			}
			if !ok {
				run.Violation("unaccepted-ranges-wrong", fmt.Sprintf("RAM minus declared sections: banks %v sections %v (unit %#x): got %v, want %v (%v)", r.Banks, r.Secs, unit, got, want, perr),
					map[string]any{"banks": r.Banks, "sections": r.Secs, "unit": unit})
			}
			for k := range secs {
				if secs[k] != secsBefore[k] {
					run.Violation("declared-order-disturbed", "computing the unaccepted ranges reordered the caller's section list (declared order matters for the hand-off block)", nil)
				}
			}
		}
		run.Case(string(iv.Cases[i]), len(r.Banks) > 0 && len(r.Secs) > 0)
		if i%9001 == 0 {
			run.Sample(r)
		}
	})
	// part 2: layouts
	lay, err := vk.RunTLC(vk.TLCOpts{Module: "MeasureTdx", Config: "Emit_MeasureTdx_layout.cfg", Workers: 1, Timeout: 20 * time.Minute})
	if err != nil {
		run.Infra(err)
		return
	}
	run.AddTLC(lay)
	stride := 1
	if run.IsQuick() {
		stride = 6
	}
	rp.Parallel(len(lay.Cases), func(i int) {
		if !vk.Pick(i, run.Seed, stride) {
			return
		}
		var r layRow
		if err := json.Unmarshal(lay.Cases[i], &r); err != nil {
			run.Infra(err)
			return
		}
		if r.Mode == "default" {
			for _, s := range r.Secs {
				if s.Ext && (s.Ty == 2 || s.Ty == 3) {
					return // outside the enumeration (see assumptions)
				}
			}
		}
		img, secs, err := buildTdxImage(r, run.Seed+int64(i))
		if err != nil {
			run.Infra(err)
			return
		}
		if img == nil {
			return
		}
		before := append([]byte{}, img...)
		var got [48]byte
		var rerr error
		func() {
			defer func() {
				if p := recover(); p != nil {
					rerr = fmt.Errorf("PANIC: %v", p)
				}
			}()
			got, rerr = tdx.MRTD(launchOpts(r.Mode, layBanks), img)
		}()
		rep := map[string]any{"layout": r.Secs, "mode": r.Mode, "flaw": r.Flaw, "error": fmt.Sprint(rerr)}
		if !bytes.Equal(before, img) {
			run.Violation("image-mutated", "computing the MRTD changed the image bytes", rep)
		}
		if r.Malformed {
			if rerr == nil {
				run.Violation("malformed-accepted", fmt.Sprintf("TDVF metadata that is malformed (%s, sections %+v) is measured instead of rejected", r.Flaw, r.Secs), rep)
			}
		} else {
			want, hob, werr := expectedMrtd(e, img, secs, r.Mode, layBanks)
			if werr != nil {
				run.Infra(werr)
				return
			}
			switch {
			case rerr != nil:
				run.Violation("wellformed-rejected", fmt.Sprintf("valid TDVF metadata rejected (%v): sections %+v mode %s", rerr, r.Secs, r.Mode), rep)
			case !bytes.Equal(got[:], want):
				run.Violation("mrtd-differs", fmt.Sprintf("MRTD differs from the MEM.PAGE.ADD / MR.EXTEND stream of the definition: sections %+v mode %s", r.Secs, r.Mode), rep)
			}
			// the hand-off block itself, descriptor by descriptor
			if rerr == nil && hob != nil {
				var regs []*ovmf.MaterialGuestPhysicalRegion
				switch r.Mode {
				case "default":
					regs, _ = ovmf.ExtractMaterialGuestPhysicalRegions(img)
				case "measure_all":
					regs, _ = ovmf.ExtractMaterialGuestPhysicalRegionsTDHOBBug(img, layBanks)
				default:
					regs, _ = ovmf.ExtractMaterialGuestPhysicalRegionsNoUnacceptedMemory(img, layBanks)
				}
				for k, s := range secs {
					if s.SectionType == 2 && k < len(regs) && !bytes.Equal(regs[k].HostBuffer, hob) {
						off := 0
						for off < len(hob) && off < len(regs[k].HostBuffer) && hob[off] == regs[k].HostBuffer[off] {
							off++
						}
						run.Violation("hob-differs", fmt.Sprintf("hand-off block differs from the definition at offset %#x (descriptor %d): sections %+v mode %s", off, (off-56)/48, r.Secs, r.Mode), rep)
					}
				}
			}
		}
		run.Case(string(lay.Cases[i]), len(r.Secs) > 1)
		if i%30011 == 0 {
			run.Sample(map[string]any{"sections": r.Secs, "mode": r.Mode, "flaw": r.Flaw, "malformed": r.Malformed})
		}
	})
	// part 3: every GCE machine shape: bank layout and the legacy-mode MRTDs of the 2 MiB example
	var shapes struct {
		Shapes map[string][]struct {
			S uint64 `json:"s"`
			L uint64 `json:"l"`
		} `json:"shapes"`
	}
	if len(lay.Edges) == 0 || json.Unmarshal(lay.Edges[0], &shapes) != nil {
		run.Infra(fmt.Errorf("MeasureTdx.tla did not emit the shape table"))
		return
	}
	img := fakeovmf.CleanExample(&fx.TB{}, 2*1024*1024)
	regs, _ := ovmf.ExtractMaterialGuestPhysicalRegions(img)
	types := []uint32{0, 1, 3, 3, 2, 3}
	var exSecs []*oabi.TDXMetadataSection
	for i, r := range regs {
		s := &oabi.TDXMetadataSection{MemoryBase: r.GPR.Start, MemorySize: r.GPR.Length, Attributes: r.TDVFAttributes, SectionType: types[i]}
		if i == 0 {
			s.DataOffset = 0x20000
		}
		exSecs = append(exSecs, s)
	}
	for name, bs := range shapes.Shapes {
		shape := strings.ReplaceAll(name, "_", "-")
		o := tdx.LaunchOptionsDefaultTDHOBBug(shape)
		ok := len(o.GuestRAMBanks) == len(bs)
		for k := 0; ok && k < len(bs); k++ {
			ok = uint64(o.GuestRAMBanks[k].Start) == bs[k].S<<20 && o.GuestRAMBanks[k].Length == bs[k].L<<20
		}
		if !ok {
			run.Violation("shape-banks-wrong", fmt.Sprintf("RAM banks of %s are %v, the shape table says %v (MiB)", shape, o.GuestRAMBanks, bs), nil)
			continue
		}
		for _, mode := range []string{"measure_all", "measure_all_ea"} {
			want, _, werr := expectedMrtd(e, img, exSecs, mode, o.GuestRAMBanks)
			got, gerr := tdx.MRTD(launchOpts(mode, o.GuestRAMBanks), img)
			if werr != nil || gerr != nil || !bytes.Equal(got[:], want) {
				run.Violation("mrtd-differs", fmt.Sprintf("2 MiB example on %s in mode %s: MRTD differs from the definition (%v / %v)", shape, mode, werr, gerr), nil)
			}
			run.Case("shape:"+shape+":"+mode, true)
		}
	}
	// part 4: the endorsement path (tdx.UnsignedTDX): one request over several machine shapes, with
	// and without the early-accept entries; every entry must be the MRTD of its own shape and mode
	var shapeNames []string
	for name := range shapes.Shapes {
		shapeNames = append(shapeNames, strings.ReplaceAll(name, "_", "-"))
	}
	sort.Strings(shapeNames)
	if len(shapeNames) >= 3 {
		lists := [][]string{shapeNames[:3], {shapeNames[len(shapeNames)-1], shapeNames[0], shapeNames[len(shapeNames)/2]}}
		if !run.IsQuick() {
			lists = append(lists, shapeNames)
		}
		for _, list := range lists {
			for _, ea := range []bool{false, true} {
				var vm *epb.VMTdx
				var uerr error
				func() {
					defer func() {
						if p := recover(); p != nil {
							uerr = fmt.Errorf("PANIC: %v", p)
						}
					}()
					vm, uerr = tdx.UnsignedTDX(img, &tdx.EndorsementRequest{MachineShapes: list, IncludeEarlyAccept: ea})
				}()
				if uerr != nil {
					run.Violation("endorsement-fails", fmt.Sprintf("tdx.UnsignedTDX(shapes %v, early accept %v) fails: %v", list, ea, uerr), nil)
					continue
				}
				type want struct {
					what string
					ea   bool
					mrtd []byte
				}
				var wants []want
				for _, shape := range list {
					banks := tdx.LaunchOptionsDefaultTDHOBBug(shape).GuestRAMBanks
					m, _, werr := expectedMrtd(e, img, exSecs, "measure_all", banks)
					if werr != nil {
						run.Infra(werr)
						return
					}
					wants = append(wants, want{shape + " legacy", false, m})
					if ea {
						m2, _, werr := expectedMrtd(e, img, exSecs, "measure_all_ea", banks)
						if werr != nil {
							run.Infra(werr)
							return
						}
						wants = append(wants, want{shape + " legacy early-accept", true, m2})
					}
				}
				md, _, werr := expectedMrtd(e, img, exSecs, "default", nil)
				if werr != nil {
					run.Infra(werr)
					return
				}
				wants = append(wants, want{"default", false, md})
				if len(vm.GetMeasurements()) != len(wants) {
					run.Violation("endorsement-entries", fmt.Sprintf("tdx.UnsignedTDX(shapes %v, early accept %v) lists %d measurements, the request implies %d", list, ea, len(vm.GetMeasurements()), len(wants)), nil)
					continue
				}
				for k, w := range wants {
					g := vm.GetMeasurements()[k]
					if g.GetEarlyAccept() != w.ea || !bytes.Equal(g.GetMrtd(), w.mrtd) {
						run.Violation("mrtd-differs:endorsement", fmt.Sprintf("tdx.UnsignedTDX(shapes %v, early accept %v): entry %d (%s) is not the MRTD of the definition for that shape and mode", list, ea, k, w.what), map[string]any{"shapes": list, "early_accept": ea, "entry": k})
						break
					}
					run.Case(fmt.Sprintf("unsignedtdx:%v:%v:%d", list, ea, k), true)
				}
			}
		}
	}
	run.Exhaustive = !run.IsQuick()
	run.Rule = "part 1: every pair (<=2 disjoint RAM banks, <=2 (thorough 3) disjoint sections) on an 8-unit line emitted by TLC is run through the real interval sweep at two unit sizes (4 KiB and 1 GiB, so that the 4 GiB mark is crossed) with shuffled input order; part 2: every TDVF section list up to 4 over 5 types x extend flag x 3 launch modes x 4 flaws (quick: a seeded sixth) is built as a real image and the MRTD and hand-off block compared with the reference stream / descriptor sequence; part 3: bank layout and legacy-mode MRTDs for every GCE machine shape"
}

// ShapeBanks returns the RAM banks of every GCE machine shape as MeasureTdx.tla defines them (3 GiB
// below the hole, the firmware's 2 MiB, the rest above 4 GiB per NUMA node), for checks that must not
// take them from the code under test.
func ShapeBanks(run *vk.Run) (map[string][]ovmf.GuestPhysicalRegion, error) {
	em, err := vk.RunTLC(vk.TLCOpts{Module: "MeasureTdx", Config: "Emit_MeasureTdx_const.cfg", Workers: 1, Timeout: 5 * time.Minute})
	if err != nil {
		return nil, err
	}
	run.AddTLC(em)
	var shapes struct {
		Shapes map[string][]struct {
			S uint64 `json:"s"`
			L uint64 `json:"l"`
		} `json:"shapes"`
	}
	if len(em.Edges) == 0 || json.Unmarshal(em.Edges[0], &shapes) != nil {
		return nil, fmt.Errorf("MeasureTdx.tla did not emit the shape table")
	}
	out := map[string][]ovmf.GuestPhysicalRegion{}
	for name, bs := range shapes.Shapes {
		var banks []ovmf.GuestPhysicalRegion
		for _, b := range bs {
			banks = append(banks, ovmf.GuestPhysicalRegion{Start: oabi.EFIPhysicalAddress(b.S << 20), Length: b.L << 20})
		}
		out[strings.ReplaceAll(name, "_", "-")] = banks
	}
	return out, nil
}

// ExampleLayoutMRTD returns the MRTD of the definition (the MEM.PAGE.ADD / MR.EXTEND stream and the
// hand-off block computed from the ABI tables, the reference RunC05 compares tdx.MRTD with) for an image
// that has the default example layout (fakeovmf.CleanExample: section types BFV, CFV, TempMem, TempMem,
// TD_HOB, TempMem), in a launch mode ("default", "measure_all", "measure_all_ea") over RAM banks. Checks
// of signed documents use it so that their expectation does not come from tdx.MRTD itself.
func ExampleLayoutMRTD(img []byte, mode string, banks []ovmf.GuestPhysicalRegion) ([]byte, error) {
	e, _, err := abiref.Load()
	if err != nil {
		return nil, err
	}
	regs, err := ovmf.ExtractMaterialGuestPhysicalRegions(img)
	if err != nil {
		return nil, err
	}
	types := []uint32{0, 1, 3, 3, 2, 3}
	if len(regs) != len(types) {
		return nil, fmt.Errorf("image does not have the example layout (%d regions)", len(regs))
	}
	var secs []*oabi.TDXMetadataSection
	for i, r := range regs {
		s := &oabi.TDXMetadataSection{MemoryBase: r.GPR.Start, MemorySize: r.GPR.Length, Attributes: r.TDVFAttributes, SectionType: types[i]}
		if i == 0 {
			s.DataOffset = 0x20000
		}
		secs = append(secs, s)
	}
	m, _, err := expectedMrtd(e, img, secs, mode, banks)
	return m, err
}
