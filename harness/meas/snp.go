// Package meas binds spec/MeasureSnp.tla (C04) and spec/MeasureTdx.tla (C05) to sev.LaunchDigest
// and tdx.MRTD: firmware descriptions emitted by TLC are built as real images, the expected
// digest is computed by interpreting the emitted operation sequence with the layout tables of
// Abi.tla, and compared with the real result.
package meas

import (
	"bytes"
	"crypto/sha512"
	"encoding/hex"
	"encoding/json"
	"fmt"
	"math/rand"
	"strconv"
	"sync"
	"time"

	oabi "github.com/google/gce-tcb-verifier/ovmf/abi"
	"github.com/google/gce-tcb-verifier/sev"
	"github.com/google/gce-tcb-verifier/testing/fakeovmf"
	"github.com/google/gce-tcb-verifier/verify/verifytest"
	"github.com/google/go-sev-guest/proto/sevsnp"

	"verifharness/abiref"
	"verifharness/fx"
	"verifharness/rp"
	"verifharness/vk"
)

type snpSec struct {
	Kind uint32 `json:"kind"`
	Addr int    `json:"addr"`
	Len  int    `json:"len"`
}
type snpFw struct {
	Rom     int      `json:"rom"`
	Secs    []snpSec `json:"secs"`
	Vcpus   int      `json:"vcpus"`
	Product string   `json:"product"`
}
type snpOp struct {
	T     string `json:"t"`
	Where string `json:"where"`
	Page  int    `json:"page"`
}
type snpConst struct {
	Template map[string]json.RawMessage `json:"template"`
	Types    map[string]uint64          `json:"types"`
	Bits     map[string]uint            `json:"bits"`
}

const secBase = 0xff000000

func concAddr(a int) uint32 {
	if a >= 90 {
		return secBase + 0x7000 + 0x800 // not page aligned
	}
	return secBase + uint32(a)*0x1000
}
func concLen(l int) uint32 {
	if l >= 90 {
		return 0x1800
	}
	return uint32(l) * 0x1000
}

func hexv(raw json.RawMessage) uint64 {
	var s string
	json.Unmarshal(raw, &s)
	v, _ := strconv.ParseUint(s, 0, 64)
	return v
}

// vmsaPage builds the 4 KiB VMSA page from the template via the Vmsa layout table.
func vmsaPage(e *abiref.Exported, c *snpConst, ap bool, resetAddr uint32) []byte {
	v := abiref.Values{}
	for name, raw := range c.Template {
		if len(raw) > 0 && raw[0] == '{' {
			var seg map[string]json.RawMessage
			json.Unmarshal(raw, &seg)
			sv := abiref.Values{}
			for k, x := range seg {
				sv[k] = hexv(x)
			}
			v[name] = sv
		} else {
			v[name] = hexv(raw)
		}
	}
	if ap {
		cs, _ := v["cs"].(abiref.Values)
		cs["base"] = uint64(resetAddr) & 0xffff0000
		v["rip"] = uint64(resetAddr) & 0xffff
	}
	page := make([]byte, 4096)
	copy(page, e.Encode("Vmsa", v))
	return page
}

// refDigest interprets the operation sequence with the PAGE_INFO table.
func refDigest(e *abiref.Exported, c *snpConst, img []byte, f snpFw, ops []snpOp, resetAddr uint32) []byte {
	d := make([]byte, 48)
	step := func(contents []byte, ptype string, gpa uint64) {
		pi := e.Encode("PageInfo", abiref.Values{"digest_cur": d, "contents": contents, "length": uint64(e.Tables["PageInfo"].Size), "page_type": c.Types[ptype], "gpa": gpa})
		h := sha512.Sum384(pi)
		d = h[:]
	}
	top := ((uint64(1) << c.Bits[f.Product]) - 1) &^ 0xfff
	for _, op := range ops {
		switch op.Where {
		case "rom":
			pg := img[op.Page*4096 : (op.Page+1)*4096]
			h := sha512.Sum384(pg)
			step(h[:], op.T, (uint64(1)<<32)-uint64(len(img))+uint64(op.Page)*4096)
		case "sec":
			step(make([]byte, 48), op.T, uint64(concAddr(op.Page)))
		default:
			h := sha512.Sum384(vmsaPage(e, c, op.Where == "ap", resetAddr))
			step(h[:], op.T, top)
		}
	}
	return d
}

func buildSnpImage(f snpFw, seed int64, resetAddr uint32) ([]byte, error) {
	img := make([]byte, f.Rom*4096)
	r := rand.New(rand.NewSource(seed))
	r.Read(img[0x200:0xe00])
	var secs []oabi.SevMetadataSection
	for _, s := range f.Secs {
		secs = append(secs, oabi.SevMetadataSection{Address: concAddr(s.Addr), Length: concLen(s.Len), Kind: s.Kind})
	}
	if err := fakeovmf.InitializeSevGUIDTable(img, oabi.FwGUIDTableEndOffset, resetAddr, secs); err != nil {
		return nil, err
	}
	return img, nil
}

func productOf(p string) sevsnp.SevProduct_SevProductName {
	if p == "Genoa" {
		return sevsnp.SevProduct_SEV_PRODUCT_GENOA
	}
	return sevsnp.SevProduct_SEV_PRODUCT_MILAN
}

// RunC04 is the C04 check.
func RunC04(run *vk.Run) {
	e, ares, err := abiref.Load()
	if err != nil {
		run.Infra(err)
		return
	}
	run.AddTLC(ares)
	run.Assumptions = append(run.Assumptions, "TLC decides the order of operations, page types, addresses in page units and the rejection rules; byte-level agreement is decided by executing the spec-derived operation sequence through the PAGE_INFO / VMSA layout tables and comparing digests",
		"page contents are pseudo-random, section addresses come from a small pool below 4 GiB; sections crossing 4 GiB are not enumerated",
		"the oracle is calibrated against the measurement pinned in the repository's tests (verifytest.CleanExampleMeasurement)")
	cfgs := []string{"quick", "bad"}
	if !run.IsQuick() {
		cfgs = []string{"quick", "bad", "four"}
	}
	var consts *snpConst
	type emitted struct {
		Fw        snpFw   `json:"fw"`
		Malformed bool    `json:"malformed"`
		Ops       []snpOp `json:"ops"`
	}
	var all []json.RawMessage
	for _, c := range cfgs {
		em, err := vk.RunTLC(vk.TLCOpts{Module: "MeasureSnp", Config: "Emit_MeasureSnp_" + c + ".cfg", Workers: 1, Timeout: 20 * time.Minute})
		if err != nil {
			run.Infra(err)
			return
		}
		run.AddTLC(em)
		if consts == nil && len(em.Edges) > 0 {
			consts = &snpConst{}
			if err := json.Unmarshal(em.Edges[0], consts); err != nil {
				run.Infra(err)
				return
			}
		}
		all = append(all, em.Cases...)
	}
	if consts == nil {
		run.Infra(fmt.Errorf("MeasureSnp.tla did not emit its constants"))
		return
	}
	// calibration: the spec-derived digest of the repository's example equals the pinned value
	{
		img := fakeovmf.CleanExample(&fx.TB{}, 2*1024*1024)
		f := snpFw{Rom: 512, Vcpus: 1, Product: "Milan"}
		var ops []snpOp
		for p := 0; p < 512; p++ {
			ops = append(ops, snpOp{"NORMAL", "rom", p})
		}
		for _, s := range fakeovmf.DefaultSnpSections() {
			t := map[uint32]string{1: "UNMEASURED", 2: "SECRETS", 3: "CPUID", 4: "ZERO"}[s.Kind]
			for a := s.Address; a < s.Address+s.Length; a += 0x1000 {
				ops = append(ops, snpOp{t, "sec", int((a - secBase) / 0x1000)})
			}
		}
		ops = append(ops, snpOp{"VMSA", "bsp", 0})
		got := hex.EncodeToString(refDigest(e, consts, img, f, ops, fakeovmf.SevEsAddrVal))
		if got != verifytest.CleanExampleMeasurement {
			run.Infra(fmt.Errorf("oracle calibration failed: spec-derived digest of CleanExample is %s, the repository pins %s", got, verifytest.CleanExampleMeasurement))
			return
		}
	}
	stride := 1
	if run.IsQuick() {
		stride = 5
	}
	var drift int64
	var mu sync.Mutex
	rp.Parallel(len(all), func(i int) {
		if (i+int(run.Seed))%stride != 0 {
			return
		}
		var c emitted
		if err := json.Unmarshal(all[i], &c); err != nil {
			run.Infra(err)
			return
		}
		// AP reset vectors: the fixture's address and addresses with every nibble of the low half set
		// (rip = low 16 bits, cs.base = high 16 bits); chosen independently of the sampling stride
		resetPool := []uint32{0xff0000ff, 0x8123f0a0, 0xfffff05c, 0x00019000, 0xabcd1234}
		resetAddr := resetPool[(uint32(i)*2654435761>>11)%uint32(len(resetPool))]
		img, err := buildSnpImage(c.Fw, run.Seed*7+int64(i), resetAddr)
		if err != nil {
			run.Infra(err)
			return
		}
		before := append([]byte{}, img...)
		opts := &sev.LaunchOptions{Vcpus: c.Fw.Vcpus, Product: productOf(c.Fw.Product)}
		var got, got2 []byte
		var rerr error
		func() {
			defer func() {
				if p := recover(); p != nil {
					rerr = fmt.Errorf("PANIC: %v", p)
				}
			}()
			got, rerr = sev.LaunchDigest(opts, img)
			got2, _ = sev.LaunchDigest(opts, img)
		}()
		rep := map[string]any{"firmware": c.Fw, "reset_addr": fmt.Sprintf("%#x", resetAddr), "error": fmt.Sprint(rerr)}
		if !bytes.Equal(before, img) {
			run.Violation("image-mutated", fmt.Sprintf("computing the measurement changed the image bytes: %+v", c.Fw), rep)
		}
		if c.Malformed {
			if rerr == nil {
				run.Violation("malformed-accepted", fmt.Sprintf("an image with malformed SNP metadata is measured instead of rejected: %+v", c.Fw), rep)
			}
		} else {
			want := refDigest(e, consts, img, c.Fw, c.Ops, resetAddr)
			switch {
			case rerr != nil:
				run.Violation("wellformed-rejected", fmt.Sprintf("a well-formed image is rejected (%v): %+v", rerr, c.Fw), rep)
			case !bytes.Equal(got, want):
				run.Violation("digest-differs", fmt.Sprintf("launch digest differs from the SNP_LAUNCH_UPDATE chain of the ABI definition: %+v", c.Fw), rep)
			case !bytes.Equal(got, got2):
				run.Violation("nondeterministic", fmt.Sprintf("two computations give different digests: %+v", c.Fw), rep)
			}
		}
		if rerr != nil && len(rerr.Error()) > 5 && rerr.Error()[:5] == "PANIC" {
			mu.Lock()
			drift++
			mu.Unlock()
		}
		run.Case(string(all[i]), len(c.Fw.Secs) > 0)
		if i%20011 == 0 {
			run.Sample(map[string]any{"firmware": c.Fw, "malformed": c.Malformed, "ops": len(c.Ops)})
		}
	})
	// vCPU counts: every GCE count on the 2 MiB example; 0 and -1 refused
	img := fakeovmf.CleanExample(&fx.TB{}, 2*1024*1024)
	counts := []int{1, 2, 240}
	if !run.IsQuick() {
		counts = nil
		for _, c := range sev.AllSupportedVmsaCounts {
			counts = append(counts, int(c))
		}
	}
	secs := fakeovmf.DefaultSnpSections()
	for _, prod := range []string{"Milan", "Genoa"} {
		for _, n := range counts {
			f := snpFw{Rom: 512, Vcpus: n, Product: prod}
			var ops []snpOp
			for p := 0; p < 512; p++ {
				ops = append(ops, snpOp{"NORMAL", "rom", p})
			}
			for _, s := range secs {
				t := map[uint32]string{1: "UNMEASURED", 2: "SECRETS", 3: "CPUID", 4: "ZERO"}[s.Kind]
				for a := s.Address; a < s.Address+s.Length; a += 0x1000 {
					ops = append(ops, snpOp{t, "sec", int((a - secBase) / 0x1000)})
				}
			}
			for v := 0; v < n; v++ {
				w := "ap"
				if v == 0 {
					w = "bsp"
				}
				ops = append(ops, snpOp{"VMSA", w, 0})
			}
			want := refDigest(e, consts, img, f, ops, fakeovmf.SevEsAddrVal)
			got, err := sev.LaunchDigest(&sev.LaunchOptions{Vcpus: n, Product: productOf(prod)}, img)
			if err != nil || !bytes.Equal(got, want) {
				run.Violation("digest-differs", fmt.Sprintf("2 MiB example, %d vCPUs on %s: digest differs from the definition (err=%v)", n, prod, err), nil)
			}
			run.Case(fmt.Sprintf("vcpus:%s:%d", prod, n), true)
		}
	}
	for _, n := range []int{0, -1} {
		if _, err := sev.LaunchDigest(&sev.LaunchOptions{Vcpus: n, Product: productOf("Milan")}, img); err == nil {
			run.Violation("bad-vcpus-accepted", fmt.Sprintf("launch vCPU count %d accepted", n), nil)
		}
	}
	run.AddDrift(0)
	_ = drift
	run.Exhaustive = !run.IsQuick()
	run.Rule = "every firmware description emitted by TLC from MeasureSnp.tla (all section lists up to 3 over 5 kinds x 3 addresses x 2 lengths x 2 vCPU counts x 2 products; all lists up to 3 over aligned/unaligned addresses and zero/unaligned lengths; thorough: all lists of 4 over 4 kinds x 4 addresses with 3 vCPUs) is built as a real image with pseudo-random contents; accepted descriptions must give the digest computed from the emitted operation sequence through the PAGE_INFO/VMSA tables, malformed ones must be rejected; quick replays a seeded fifth"
}
