// Package meas binds spec/MeasureSnp.tla (C04) and spec/MeasureTdx.tla (C05) to sev.LaunchDigest
// and tdx.MRTD: firmware descriptions emitted by TLC are built as real images, the expected
// digest is computed by interpreting the emitted operation sequence with the layout tables of
// Abi.tla, and compared with the real result.
package meas

import (
	"bytes"
	"crypto/sha512"
	"encoding/binary"
	"encoding/hex"
	"encoding/json"
	"fmt"
	epb "github.com/google/gce-tcb-verifier/proto/endorsement"
	"github.com/google/uuid"
	"math/rand"
	"strconv"
	"sync"
	"time"

	oabi "github.com/google/gce-tcb-verifier/ovmf/abi"
	"github.com/google/gce-tcb-verifier/sev"
	"github.com/google/gce-tcb-verifier/testing/fakeovmf"
	"github.com/google/gce-tcb-verifier/verify/verifytest"
	"github.com/google/go-sev-guest/proto/sevsnp"

	"verifharness/abiref"
	"verifharness/fx"
	"verifharness/rp"
	"verifharness/vk"
)

type snpSec struct {
	Kind uint32 `json:"kind"`
	Addr int    `json:"addr"`
	Len  int    `json:"len"`
}
type snpFw struct {
	Rom     int      `json:"rom"`
	Secs    []snpSec `json:"secs"`
	Vcpus   int      `json:"vcpus"`
	Product string   `json:"product"`
	Base    string   `json:"base"`
	Meta    int      `json:"meta"`
}
type snpOp struct {
	T     string `json:"t"`
	Where string `json:"where"`
	Page  int    `json:"page"`
}
type snpConst struct {
	Template map[string]json.RawMessage `json:"template"`
	Types    map[string]uint64          `json:"types"`
	Bits     map[string]uint            `json:"bits"`
}

const secBase = 0xff000000

func concAddr(a int) uint32 { return concAddrAt(a, "high") }

// concAddrAt: base "zero" puts address unit 0 at guest-physical address 0
func concAddrAt(a int, base string) uint32 {
	b := uint32(secBase)
	if base == "zero" {
		b = 0
	}
	if a >= 90 {
		return b + 0x7000 + 0x800 // not page aligned
	}
	return b + uint32(a)*0x1000
}
func concLen(l int) uint32 {
	if l >= 90 {
		return 0x1800
	}
	return uint32(l) * 0x1000
}

func hexv(raw json.RawMessage) uint64 {
	var s string
	json.Unmarshal(raw, &s)
	v, _ := strconv.ParseUint(s, 0, 64)
	return v
}

// vmsaPage builds the 4 KiB VMSA page from the template via the Vmsa layout table.
func vmsaPage(e *abiref.Exported, c *snpConst, ap bool, resetAddr uint32) []byte {
	v := abiref.Values{}
	for name, raw := range c.Template {
		if len(raw) > 0 && raw[0] == '{' {
			var seg map[string]json.RawMessage
			json.Unmarshal(raw, &seg)
			sv := abiref.Values{}
			for k, x := range seg {
				sv[k] = hexv(x)
			}
			v[name] = sv
		} else {
			v[name] = hexv(raw)
		}
	}
	if ap {
		cs, _ := v["cs"].(abiref.Values)
		cs["base"] = uint64(resetAddr) & 0xffff0000
		v["rip"] = uint64(resetAddr) & 0xffff
	}
	page := make([]byte, 4096)
	copy(page, e.Encode("Vmsa", v))
	return page
}

// refDigest interprets the operation sequence with the PAGE_INFO table.
func refDigest(e *abiref.Exported, c *snpConst, img []byte, f snpFw, ops []snpOp, resetAddr uint32) []byte {
	d := make([]byte, 48)
	step := func(contents []byte, ptype string, gpa uint64) {
		pi := e.Encode("PageInfo", abiref.Values{"digest_cur": d, "contents": contents, "length": uint64(e.Tables["PageInfo"].Size), "page_type": c.Types[ptype], "gpa": gpa})
		h := sha512.Sum384(pi)
		d = h[:]
	}
	top := ((uint64(1) << c.Bits[f.Product]) - 1) &^ 0xfff
	for _, op := range ops {
		switch op.Where {
		case "rom":
			pg := img[op.Page*4096 : (op.Page+1)*4096]
			h := sha512.Sum384(pg)
			step(h[:], op.T, (uint64(1)<<32)-uint64(len(img))+uint64(op.Page)*4096)
		case "sec":
			step(make([]byte, 48), op.T, uint64(concAddrAt(op.Page, f.Base)))
		default:
			h := sha512.Sum384(vmsaPage(e, c, op.Where == "ap", resetAddr))
			step(h[:], op.T, top)
		}
	}
	return d
}

// concKind: the model's kind 9 stands for any kind value the ABI does not define
func concKind(k uint32, seed int64) uint32 {
	if k != 9 {
		return k
	}
	pool := []uint32{9, 5, 0x10, 0x420, 0xffffffff, 0x80000001, 0x104, 0}
	return pool[int(uint64(seed)*2654435761>>7)%len(pool)]
}

func buildSnpImage(f snpFw, seed int64, resetAddr uint32) ([]byte, error) {
	img := make([]byte, f.Rom*4096)
	r := rand.New(rand.NewSource(seed))
	// every page but the last gets its own contents; the last one holds the GUID table at its end
	r.Read(img[:len(img)-4096])
	r.Read(img[len(img)-4096+0x200 : len(img)-4096+0xe00])
	var secs []oabi.SevMetadataSection
	for _, s := range f.Secs {
		secs = append(secs, oabi.SevMetadataSection{Address: concAddrAt(s.Addr, f.Base), Length: concLen(s.Len), Kind: concKind(s.Kind, seed)})
	}
	if err := fakeovmf.InitializeSevGUIDTable(img, oabi.FwGUIDTableEndOffset, resetAddr, secs); err != nil {
		return nil, err
	}
	if f.Meta != 0 {
		// the builder puts the metadata at byte 0; move it, and point the GUID table's offset block at the
		// new place (the offset is counted from the end of the image)
		n := oabi.SizeofSevMetadata + len(secs)*oabi.SizeofSevMetadataSection
		at := 0x340
		if f.Meta == 2 {
			at = len(img) - 4096 + 0x180
		}
		meta := append([]byte{}, img[:n]...)
		r.Read(img[:n])
		copy(img[at:], meta)
		var g [16]byte
		oabi.PutUUID(g[:], uuid.MustParse(oabi.SevMetadataOffsetGUID))
		p := bytes.LastIndex(img, g[:])
		if p < 6 {
			return nil, fmt.Errorf("metadata offset block not found")
		}
		binary.LittleEndian.PutUint32(img[p-6:], uint32(len(img)-at))
	}
	return img, nil
}

func productOf(p string) sevsnp.SevProduct_SevProductName {
	if p == "Genoa" {
		return sevsnp.SevProduct_SEV_PRODUCT_GENOA
	}
	return sevsnp.SevProduct_SEV_PRODUCT_MILAN
}

// RunC04 is the C04 check.
func RunC04(run *vk.Run) {
	e, ares, err := abiref.Load()
	if err != nil {
		run.Infra(err)
		return
	}
	run.AddTLC(ares)
	run.Assumptions = append(run.Assumptions, "TLC decides the order of operations, page types, addresses in page units and the rejection rules; byte-level agreement is decided by executing the spec-derived operation sequence through the PAGE_INFO / VMSA layout tables and comparing digests",
		"page contents are pseudo-random, section addresses come from a small pool below 4 GiB; sections crossing 4 GiB are not enumerated",
		"the oracle is calibrated against the measurement pinned in the repository's tests (verifytest.CleanExampleMeasurement)")
	// "unknown": all lists up to 4 over the three mandatory kinds and two kinds the ABI does not define, so
	// that descriptions whose only defect is a range of unknown kind exist (with 3 sections an unknown kind
	// always comes with a missing mandatory one)
	cfgs := []string{"quick", "bad", "rom", "unknown"}
	if !run.IsQuick() {
		cfgs = []string{"quick", "bad", "four", "rom_thorough", "unknown"}
	}
	var consts *snpConst
	type emitted struct {
		Fw        snpFw   `json:"fw"`
		Malformed bool    `json:"malformed"`
		Ops       []snpOp `json:"ops"`
	}
	var all []json.RawMessage
	for _, c := range cfgs {
		em, err := vk.RunTLC(vk.TLCOpts{Module: "MeasureSnp", Config: "Emit_MeasureSnp_" + c + ".cfg", Workers: 1, Timeout: 20 * time.Minute})
		if err != nil {
			run.Infra(err)
			return
		}
		run.AddTLC(em)
		if consts == nil && len(em.Edges) > 0 {
			consts = &snpConst{}
			if err := json.Unmarshal(em.Edges[0], consts); err != nil {
				run.Infra(err)
				return
			}
		}
		all = append(all, em.Cases...)
	}
	if consts == nil {
		run.Infra(fmt.Errorf("MeasureSnp.tla did not emit its constants"))
		return
	}
	// calibration: the spec-derived digest of the repository's example equals the pinned value
	{
		img := fakeovmf.CleanExample(&fx.TB{}, 2*1024*1024)
		f := snpFw{Rom: 512, Vcpus: 1, Product: "Milan"}
		var ops []snpOp
		for p := 0; p < 512; p++ {
			ops = append(ops, snpOp{"NORMAL", "rom", p})
		}
		for _, s := range fakeovmf.DefaultSnpSections() {
			t := map[uint32]string{1: "UNMEASURED", 2: "SECRETS", 3: "CPUID", 4: "ZERO"}[s.Kind]
			for a := s.Address; a < s.Address+s.Length; a += 0x1000 {
				ops = append(ops, snpOp{t, "sec", int((a - secBase) / 0x1000)})
			}
		}
		ops = append(ops, snpOp{"VMSA", "bsp", 0})
		got := hex.EncodeToString(refDigest(e, consts, img, f, ops, fakeovmf.SevEsAddrVal))
		if got != verifytest.CleanExampleMeasurement {
			run.Infra(fmt.Errorf("oracle calibration failed: spec-derived digest of CleanExample is %s, the repository pins %s", got, verifytest.CleanExampleMeasurement))
			return
		}
	}
	stride := 1
	if run.IsQuick() {
		stride = 5
	}
	var drift int64
	var mu sync.Mutex
	rp.Parallel(len(all), func(i int) {
		if !vk.Pick(i, run.Seed, stride) {
			return
		}
		var c emitted
		if err := json.Unmarshal(all[i], &c); err != nil {
			run.Infra(err)
			return
		}
		// AP reset vectors: the fixture's address and addresses with every nibble of the low half set
		// (rip = low 16 bits, cs.base = high 16 bits); chosen independently of the sampling stride
		resetPool := []uint32{0xff0000ff, 0x8123f0a0, 0xfffff05c, 0x00019000, 0xabcd1234,
			0x00800000, 0xffff0000, 0x0000b004} // 64 KiB aligned (rip 0), below 64 KiB (cs.base 0)
		resetAddr := resetPool[(uint32(i)*2654435761>>11)%uint32(len(resetPool))]
		img, err := buildSnpImage(c.Fw, run.Seed*7+int64(i), resetAddr)
		if err != nil {
			run.Infra(err)
			return
		}
		before := append([]byte{}, img...)
		opts := &sev.LaunchOptions{Vcpus: c.Fw.Vcpus, Product: productOf(c.Fw.Product)}
		var got, got2 []byte
		var rerr error
		func() {
			defer func() {
				if p := recover(); p != nil {
					rerr = fmt.Errorf("PANIC: %v", p)
				}
			}()
			got, rerr = sev.LaunchDigest(opts, img)
			got2, _ = sev.LaunchDigest(opts, img)
		}()
		rep := map[string]any{"firmware": c.Fw, "reset_addr": fmt.Sprintf("%#x", resetAddr), "error": fmt.Sprint(rerr)}
		if !bytes.Equal(before, img) {
			run.Violation("image-mutated", fmt.Sprintf("computing the measurement changed the image bytes: %+v", c.Fw), rep)
		}
		if c.Malformed {
			if rerr == nil {
				run.Violation("malformed-accepted", fmt.Sprintf("an image with malformed SNP metadata is measured instead of rejected: %+v", c.Fw), rep)
			}
		} else {
			want := refDigest(e, consts, img, c.Fw, c.Ops, resetAddr)
			switch {
			case rerr != nil:
				run.Violation("wellformed-rejected", fmt.Sprintf("a well-formed image is rejected (%v): %+v", rerr, c.Fw), rep)
			case !bytes.Equal(got, want):
				run.Violation("digest-differs", fmt.Sprintf("launch digest differs from the SNP_LAUNCH_UPDATE chain of the ABI definition: %+v", c.Fw), rep)
			case !bytes.Equal(got, got2):
				run.Violation("nondeterministic", fmt.Sprintf("two computations give different digests: %+v", c.Fw), rep)
			}
		}
		if rerr != nil && len(rerr.Error()) > 5 && rerr.Error()[:5] == "PANIC" {
			mu.Lock()
			drift++
			mu.Unlock()
		}
		run.Case(string(all[i]), len(c.Fw.Secs) > 0)
		if i%20011 == 0 {
			run.Sample(map[string]any{"firmware": c.Fw, "malformed": c.Malformed, "ops": len(c.Ops)})
		}
	})
	// vCPU counts: every GCE count on the 2 MiB example; 0 and -1 refused
	img := fakeovmf.CleanExample(&fx.TB{}, 2*1024*1024)
	counts := []int{1, 2, 240}
	if !run.IsQuick() {
		counts = nil
		for _, c := range sev.AllSupportedVmsaCounts {
			counts = append(counts, int(c))
		}
	}
	secs := fakeovmf.DefaultSnpSections()
	for _, prod := range []string{"Milan", "Genoa"} {
		for _, n := range counts {
			f := snpFw{Rom: 512, Vcpus: n, Product: prod}
			var ops []snpOp
			for p := 0; p < 512; p++ {
				ops = append(ops, snpOp{"NORMAL", "rom", p})
			}
			for _, s := range secs {
				t := map[uint32]string{1: "UNMEASURED", 2: "SECRETS", 3: "CPUID", 4: "ZERO"}[s.Kind]
				for a := s.Address; a < s.Address+s.Length; a += 0x1000 {
					ops = append(ops, snpOp{t, "sec", int((a - secBase) / 0x1000)})
				}
			}
			for v := 0; v < n; v++ {
				w := "ap"
				if v == 0 {
					w = "bsp"
				}
				ops = append(ops, snpOp{"VMSA", w, 0})
			}
			want := refDigest(e, consts, img, f, ops, fakeovmf.SevEsAddrVal)
			got, err := sev.LaunchDigest(&sev.LaunchOptions{Vcpus: n, Product: productOf(prod)}, img)
			if err != nil || !bytes.Equal(got, want) {
				run.Violation("digest-differs", fmt.Sprintf("2 MiB example, %d vCPUs on %s: digest differs from the definition (err=%v)", n, prod, err), nil)
			}
			run.Case(fmt.Sprintf("vcpus:%s:%d", prod, n), true)
		}
	}
	// the "all supported counts" request (LaunchVmsas = 0) of the endorsement path: every entry must be
	// the digest of its own count, on the 2 MiB example and on a generated image with declared sections
	type allCase struct {
		name string
		img  []byte
		ops  func(n int) []snpOp
		f    snpFw
		rst  uint32
	}
	romSecOps := func(rom int, so []snpOp) func(n int) []snpOp {
		return func(n int) []snpOp {
			var ops []snpOp
			for p := 0; p < rom; p++ {
				ops = append(ops, snpOp{"NORMAL", "rom", p})
			}
			ops = append(ops, so...)
			for v := 0; v < n; v++ {
				w := "ap"
				if v == 0 {
					w = "bsp"
				}
				ops = append(ops, snpOp{"VMSA", w, 0})
			}
			return ops
		}
	}
	var exSecOps []snpOp
	for _, s := range secs {
		t := map[uint32]string{1: "UNMEASURED", 2: "SECRETS", 3: "CPUID", 4: "ZERO"}[s.Kind]
		for a := s.Address; a < s.Address+s.Length; a += 0x1000 {
			exSecOps = append(exSecOps, snpOp{t, "sec", int((a - secBase) / 0x1000)})
		}
	}
	allCases := []allCase{{name: "2 MiB example", img: img, ops: romSecOps(512, exSecOps), f: snpFw{Rom: 512}, rst: fakeovmf.SevEsAddrVal}}
	// (with a two-page kind-4 range: zero pages are measured without contents)
	gen := snpFw{Rom: 2, Secs: []snpSec{{Kind: 1, Addr: 1, Len: 1}, {Kind: 3, Addr: 3, Len: 1}, {Kind: 4, Addr: 5, Len: 2}, {Kind: 2, Addr: 2, Len: 1}}}
	if gimg, gerr := buildSnpImage(gen, run.Seed*31+5, 0x8123f0a0); gerr == nil {
		genOps := []snpOp{{"UNMEASURED", "sec", 1}, {"CPUID", "sec", 3}, {"ZERO", "sec", 5}, {"ZERO", "sec", 6}, {"SECRETS", "sec", 2}}
		allCases = append(allCases, allCase{name: "generated image with sections declared out of address order", img: gimg, ops: romSecOps(2, genOps), f: gen, rst: 0x8123f0a0})
	} else {
		run.Infra(gerr)
		return
	}
	for _, ac := range allCases {
		for _, prod := range []string{"Milan", "Genoa"} {
			var snp *epb.VMSevSnp
			var uerr error
			func() {
				defer func() {
					if p := recover(); p != nil {
						uerr = fmt.Errorf("PANIC: %v", p)
					}
				}()
				snp, uerr = sev.UnsignedSnp(ac.img, &sev.SnpEndorsementRequest{Product: productOf(prod), LaunchVmsas: 0})
			}()
			if uerr != nil {
				run.Violation("all-counts-fails", fmt.Sprintf("%s: the all-counts SNP endorsement fails on %s: %v", ac.name, prod, uerr), nil)
				continue
			}
			if len(snp.GetMeasurements()) != len(sev.AllSupportedVmsaCounts) {
				run.Violation("all-counts-entries", fmt.Sprintf("%s on %s: %d entries for %d supported counts", ac.name, prod, len(snp.GetMeasurements()), len(sev.AllSupportedVmsaCounts)), nil)
			}
			for n, got := range snp.GetMeasurements() {
				f := ac.f
				f.Vcpus, f.Product = int(n), prod
				want := refDigest(e, consts, ac.img, f, ac.ops(int(n)), ac.rst)
				if !bytes.Equal(got, want) {
					run.Violation("digest-differs:all-counts", fmt.Sprintf("%s on %s: the all-counts endorsement's entry for %d vCPUs is not the launch digest of the definition for that count", ac.name, prod, n), map[string]any{"product": prod, "count": n})
					break
				}
				run.Case(fmt.Sprintf("allcounts:%s:%s:%d", ac.name, prod, n), true)
			}
		}
	}
	// the measurement is a function of the image bytes, not of the buffer that holds them or of what was
	// measured before: one buffer is measured, changed in place (ROM byte, AP reset vector, another image
	// of the same size loaded into it) and measured again, with nothing else measured in between; the
	// expectations come from the definition, never from another LaunchDigest call
	for _, prod := range []string{"Milan", "Genoa"} {
		for _, vc := range []int{1, 2, 8} {
			hf := snpFw{Rom: 3, Vcpus: vc, Product: prod, Secs: []snpSec{{Kind: 1, Addr: 1, Len: 1}, {Kind: 2, Addr: 2, Len: 1}, {Kind: 3, Addr: 3, Len: 1}}}
			hops := func() []snpOp {
				ops := []snpOp{{"NORMAL", "rom", 0}, {"NORMAL", "rom", 1}, {"NORMAL", "rom", 2}, {"UNMEASURED", "sec", 1}, {"SECRETS", "sec", 2}, {"CPUID", "sec", 3}, {"VMSA", "bsp", 0}}
				for i := 1; i < vc; i++ {
					ops = append(ops, snpOp{"VMSA", "ap", 0})
				}
				return ops
			}()
			buf, berr := buildSnpImage(hf, run.Seed*131+int64(vc), 0x8123f0a0)
			other, oerr := buildSnpImage(hf, run.Seed*131+977, 0xabcd1234)
			if berr != nil || oerr != nil {
				run.Infra(fmt.Errorf("history images: %v %v", berr, oerr))
				return
			}
			rst := uint32(0x8123f0a0)
			steps := []struct {
				name string
				do   func()
			}{
				{"as built", func() {}},
				{"one ROM byte changed in place", func() { buf[1000] ^= 0x40 }},
				{"a byte of the second ROM page changed in place", func() { buf[4096+2000] ^= 1 }},
				{"another image of the same size loaded into the buffer", func() { copy(buf, other); rst = 0xabcd1234 }},
				{"the first image's first page copied back", func() { b2, _ := buildSnpImage(hf, run.Seed*131+int64(vc), 0x8123f0a0); copy(buf[:4096], b2[:4096]) }},
			}
			for _, st := range steps {
				st.do()
				var got []byte
				var gerr error
				func() {
					defer func() {
						if p := recover(); p != nil {
							gerr = fmt.Errorf("PANIC: %v", p)
						}
					}()
					got, gerr = sev.LaunchDigest(&sev.LaunchOptions{Vcpus: vc, Product: productOf(prod)}, buf)
				}()
				want := refDigest(e, consts, buf, hf, hops, rst)
				if gerr != nil {
					run.Violation("wellformed-rejected:history", fmt.Sprintf("one buffer measured repeatedly (%s, %d vCPUs, %s): rejected: %v", st.name, vc, prod, gerr), nil)
					break
				}
				if !bytes.Equal(got, want) {
					run.Violation("digest-differs:history", fmt.Sprintf("one buffer measured repeatedly: after step %q the digest for %d vCPUs on %s is not the launch digest of the bytes now in the buffer", st.name, vc, prod), nil)
					break
				}
				run.Case(fmt.Sprintf("history:%s:%d:%s", prod, vc, st.name), true)
			}
		}
	}
	for _, n := range []int{0, -1} {
		if _, err := sev.LaunchDigest(&sev.LaunchOptions{Vcpus: n, Product: productOf("Milan")}, img); err == nil {
			run.Violation("bad-vcpus-accepted", fmt.Sprintf("launch vCPU count %d accepted", n), nil)
		}
	}
	run.AddDrift(0)
	_ = drift
	run.Exhaustive = !run.IsQuick()
	run.Rule = "every firmware description emitted by TLC from MeasureSnp.tla (all section lists up to 3 over 5 kinds x 3 addresses x 2 lengths x 2 vCPU counts x 2 products; all lists up to 3 over 3 kinds x addresses from guest-physical 0 with ROMs of 2, 5 and 7 pages and the metadata at three places of the image (thorough: lists up to 4 over 4 kinds, 7 ROM sizes); all lists up to 3 over aligned/unaligned addresses and zero/unaligned lengths; thorough: all lists of 4 over 4 kinds x 4 addresses with 3 vCPUs) is built as a real image with pseudo-random contents; accepted descriptions must give the digest computed from the emitted operation sequence through the PAGE_INFO/VMSA tables, malformed ones must be rejected; all lists of 4 over the three mandatory kinds and an unknown kind at 4 addresses (the unknown kind being the only defect); quick replays a seeded fifth; plus one buffer measured repeatedly with in-place changes between measurements (expectations from the definition only)"
}

// OutOfOrderImage builds a 2-page image whose SNP metadata lists its sections out of address order and
// returns, next to it, the launch digest of the ABI definition for a vCPU count and product (the same
// oracle RunC04 uses: MeasureSnp.tla's constants interpreted through the PAGE_INFO / VMSA tables).
// C06 uses it to compare signed entries with a value that does not come from sev.LaunchDigest.
func OutOfOrderImage(run *vk.Run, seed int64) ([]byte, func(vcpus int, product string) []byte, error) {
	e, _, err := abiref.Load()
	if err != nil {
		return nil, nil, err
	}
	em, err := vk.RunTLC(vk.TLCOpts{Module: "MeasureSnp", Config: "Emit_MeasureSnp_const.cfg", Workers: 1, Timeout: 5 * time.Minute})
	if err != nil {
		return nil, nil, err
	}
	run.AddTLC(em)
	if len(em.Edges) == 0 {
		return nil, nil, fmt.Errorf("MeasureSnp.tla did not emit its constants")
	}
	consts := &snpConst{}
	if err := json.Unmarshal(em.Edges[0], consts); err != nil {
		return nil, nil, err
	}
	const rst = 0x8123f0a0
	// (six ROM pages: more than four, not a multiple of four)
	gen := snpFw{Rom: 6, Base: "high", Secs: []snpSec{{Kind: 1, Addr: 2, Len: 1}, {Kind: 3, Addr: 3, Len: 1}, {Kind: 2, Addr: 1, Len: 1}, {Kind: 4, Addr: 0, Len: 1}}}
	img, err := buildSnpImage(gen, seed, rst)
	if err != nil {
		return nil, nil, err
	}
	ref := func(vcpus int, product string) []byte {
		ops := []snpOp{{"NORMAL", "rom", 0}, {"NORMAL", "rom", 1}, {"NORMAL", "rom", 2}, {"NORMAL", "rom", 3}, {"NORMAL", "rom", 4}, {"NORMAL", "rom", 5}, {"UNMEASURED", "sec", 2}, {"CPUID", "sec", 3}, {"SECRETS", "sec", 1}, {"ZERO", "sec", 0}}
		for v := 0; v < vcpus; v++ {
			w := "ap"
			if v == 0 {
				w = "bsp"
			}
			ops = append(ops, snpOp{"VMSA", w, 0})
		}
		f := gen
		f.Vcpus, f.Product = vcpus, product
		return refDigest(e, consts, img, f, ops, rst)
	}
	return img, ref, nil
}
