// Package gold binds spec/Golden.tla (C06) to endorse.GoldenMeasurement / endorse.SignDoc.
package gold

import (
	"bytes"
	"context"
	"crypto/rand"
	"encoding/json"
	"fmt"
	"github.com/google/gce-tcb-verifier/cmd"
	edk2pb "github.com/google/gce-tcb-verifier/proto/scrtmversion"
	"github.com/spf13/cobra"
	"io"
	"os"
	"path/filepath"
	"sort"
	"sync"
	"time"

	"github.com/google/gce-tcb-verifier/endorse"
	"github.com/google/gce-tcb-verifier/keys"
	"github.com/google/gce-tcb-verifier/ovmf"
	epb "github.com/google/gce-tcb-verifier/proto/endorsement"
	"github.com/google/gce-tcb-verifier/sev"
	"github.com/google/gce-tcb-verifier/tdx"
	"github.com/google/gce-tcb-verifier/timeproto"
	"github.com/google/go-sev-guest/proto/sevsnp"
	"github.com/google/uuid"
	"google.golang.org/protobuf/proto"

	"verifharness/fx"
	"verifharness/ka"
	"verifharness/meas"
	"verifharness/rp"
	"verifharness/vk"
)

type reqRow struct {
	Snp     bool     `json:"snp"`
	Tdx     bool     `json:"tdx"`
	Vmsas   uint32   `json:"vmsas"`
	Product string   `json:"product"`
	Shapes  []string `json:"shapes"`
	Ea      bool     `json:"ea"`
	Svsm    bool     `json:"svsm"`
	Prov    string   `json:"prov"`
}

var (
	img2m = fx.Image(2*1024*1024, 601)
	img4k = fx.Image(0x1000, 602)
	ldMu  sync.Mutex
	ldMem = map[string][]byte{}
)

func product(p string) sevsnp.SevProduct_SevProductName {
	if p == "Genoa" {
		return sevsnp.SevProduct_SEV_PRODUCT_GENOA
	}
	return sevsnp.SevProduct_SEV_PRODUCT_MILAN
}

// single-configuration library calls (memoised)
func ld(img []byte, tag string, count uint32, prod string) ([]byte, error) {
	k := fmt.Sprintf("ld|%s|%d|%s", tag, count, prod)
	ldMu.Lock()
	if v, ok := ldMem[k]; ok {
		ldMu.Unlock()
		return v, nil
	}
	ldMu.Unlock()
	o := sev.LaunchOptionsDefault()
	o.Vcpus, o.Product = int(count), product(prod)
	v, err := sev.LaunchDigest(o, img)
	if err != nil {
		return nil, err
	}
	ldMu.Lock()
	ldMem[k] = v
	ldMu.Unlock()
	return v, nil
}
func mrtd(img []byte, tag, shape, mode string) ([]byte, error) {
	k := fmt.Sprintf("mrtd|%s|%s|%s", tag, shape, mode)
	ldMu.Lock()
	if v, ok := ldMem[k]; ok {
		ldMu.Unlock()
		return v, nil
	}
	ldMu.Unlock()
	// the shape's RAM banks come from MeasureTdx.tla's shape table, not from the code that is being
	// compared with (shapeBanks is filled by RunC06 before any row runs)
	var o *tdx.LaunchOptions
	switch mode {
	case "default":
		o = tdx.LaunchOptionsDefault("")
	case "measure_all":
		o = &tdx.LaunchOptions{GuestRAMBanks: shapeBanks[shape], MeasureAllRegions: true}
	default:
		o = &tdx.LaunchOptions{GuestRAMBanks: shapeBanks[shape], MeasureAllRegions: true, DisableUnacceptedMemory: true}
	}
	if mode != "default" && shapeBanks[shape] == nil {
		return nil, fmt.Errorf("no RAM banks for shape %q in the specification's shape table", shape)
	}
	v, err := tdx.MRTD(o, img)
	if err != nil {
		return nil, err
	}
	// ... and, for images of the example layout, the MRTD of the definition (the reference of C05): a
	// signed entry is compared with the library call, and the library call with the definition
	refMode := map[string]string{"default": "default", "measure_all": "measure_all"}[mode]
	if refMode == "" {
		refMode = "measure_all_ea"
	}
	if def, derr := meas.ExampleLayoutMRTD(img, refMode, o.GuestRAMBanks); derr == nil && !bytes.Equal(def, v[:]) && notOfDefinition != nil {
		notOfDefinition(fmt.Sprintf("the TDX measurement that documents carry for machine shape %q in mode %s is not the MRTD of the launch definition for that configuration", shape, mode))
	}
	ldMu.Lock()
	ldMem[k] = v[:]
	ldMu.Unlock()
	return v[:], nil
}

var shapeBanks map[string][]ovmf.GuestPhysicalRegion

// notOfDefinition reports a library MRTD that differs from the definition's (set by RunC06)
var notOfDefinition func(what string)

var ramOf = map[string]uint32{"c3-standard-4": 16, "c3-standard-8": 32, "c3-standard-88": 352}

const imageID = "0a1b2c3d-4e5f-6071-8293-a4b5c6d7e8f9"

func checkRow(run *vk.Run, r reqRow, raw string) {
	ts := time.Date(2025, 3, 4, 5, 6, 7, 123456789, time.UTC) // a timestamp is a time to the nanosecond
	ec := &endorse.Context{Image: img2m, Timestamp: ts}
	svn := uint32(7)
	if r.Snp {
		ec.SevSnp = &sev.SnpEndorsementRequest{Svn: svn, LaunchVmsas: r.Vmsas, Product: product(r.Product), ImageID: imageID}
		if r.Svsm {
			ec.SvsmSnpMeasurement = rp.Meas("svsm-input")
		}
	}
	if r.Tdx {
		ec.Tdx = &tdx.EndorsementRequest{Svn: svn, MachineShapes: r.Shapes, IncludeEarlyAccept: r.Ea}
	}
	if r.Prov == "clspec" {
		ec.ClSpec = 424242
	} else {
		ec.Commit = bytes.Repeat([]byte{0xab}, 20)
	}
	ca, signer, err := fx.DevAuthority()
	if err != nil {
		run.Infra(err)
		return
	}
	ctx := endorse.NewContext(fx.Ctx(&keys.Context{CA: ca, Signer: signer}, false, false), ec)
	rep := map[string]any{"request": r}
	viol := func(key, f string, a ...any) {
		run.Violation(key, fmt.Sprintf(f, a...)+fmt.Sprintf(" [request %s]", raw), rep)
	}
	var g *epb.VMGoldenMeasurement
	func() {
		defer func() {
			if p := recover(); p != nil {
				err = fmt.Errorf("PANIC: %v", p)
			}
		}()
		g, err = endorse.GoldenMeasurement(ctx)
	}()
	if err != nil {
		viol("golden-fails", "GoldenMeasurement fails on a well-formed image and request: %v", err)
		return
	}
	check := func(doc *epb.VMGoldenMeasurement, where string) {
		if !bytes.Equal(doc.Digest, fx.Sha384(img2m)) {
			viol("digest-wrong", "%s: digest is not the SHA-384 of the supplied image", where)
		}
		if (r.Prov == "clspec" && doc.ClSpec != 424242) || (r.Prov == "commit" && !bytes.Equal(doc.Commit, ec.Commit)) {
			viol("provenance-wrong", "%s: provenance fields differ from the request", where)
		}
		if r.Snp != (doc.SevSnp != nil) || r.Tdx != (doc.Tdx != nil) {
			viol("technology-set-wrong", "%s: technology sections present snp=%v tdx=%v, requested snp=%v tdx=%v", where, doc.SevSnp != nil, doc.Tdx != nil, r.Snp, r.Tdx)
			return
		}
		if r.Snp {
			want := []uint32{r.Vmsas}
			if r.Vmsas == 0 {
				want = sev.AllSupportedVmsaCounts
			}
			var got []uint32
			for c := range doc.SevSnp.Measurements {
				got = append(got, c)
			}
			sort.Slice(got, func(i, j int) bool { return got[i] < got[j] })
			if fmt.Sprint(got) != fmt.Sprint(want) {
				viol("snp-counts-wrong", "%s: SNP measurements for VMSA counts %v, want %v", where, got, want)
			}
			for c, m := range doc.SevSnp.Measurements {
				ref, lerr := ld(img2m, "2m", c, r.Product)
				if lerr != nil {
					run.Infra(lerr)
					return
				}
				if !bytes.Equal(m, ref) {
					viol("snp-value-wrong", "%s: the entry for %d VMSAs is not the launch digest of this image for %d vCPUs on %s", where, c, c, r.Product)
				}
				if bytes.Equal(m, make([]byte, 48)) || len(m) != 48 {
					viol("placeholder", "%s: the entry for %d VMSAs is a placeholder", where, c)
				}
			}
			fam := uuid.MustParse(sev.GCEUefiFamilyID)
			iid := uuid.MustParse(imageID)
			if doc.SevSnp.Svn != svn || !bytes.Equal(doc.SevSnp.FamilyId, fam[:]) || !bytes.Equal(doc.SevSnp.ImageId, iid[:]) {
				viol("snp-ids-wrong", "%s: SVN / family id / image id differ from the request", where)
			}
			if r.Svsm != (len(doc.SevSnp.SvsmMeasurement) != 0) || (r.Svsm && !bytes.Equal(doc.SevSnp.SvsmMeasurement, rp.Meas("svsm-input"))) {
				viol("svsm-wrong", "%s: SVSM measurement differs from the request", where)
			}
		}
		if r.Tdx {
			type row struct {
				ram   uint32
				ea    bool
				shape string
				mode  string
			}
			var want []row
			for _, s := range r.Shapes {
				want = append(want, row{ramOf[s], false, s, "measure_all"})
				if r.Ea {
					want = append(want, row{ramOf[s], true, s, "measure_all_ea"})
				}
			}
			want = append(want, row{0, false, "", "default"})
			if len(doc.Tdx.Measurements) != len(want) {
				viol("tdx-rows-wrong", "%s: %d TDX rows, want %d", where, len(doc.Tdx.Measurements), len(want))
				return
			}
			for i, w := range want {
				m := doc.Tdx.Measurements[i]
				ref, merr := mrtd(img2m, "2m", w.shape, w.mode)
				if merr != nil {
					run.Infra(merr)
					return
				}
				if m.RamGib != w.ram || m.EarlyAccept != w.ea {
					viol("tdx-rows-wrong", "%s: TDX row %d is (ram %d, early accept %v), want (%d, %v)", where, i, m.RamGib, m.EarlyAccept, w.ram, w.ea)
				}
				if !bytes.Equal(m.Mrtd, ref) {
					viol("tdx-value-wrong", "%s: TDX row %d (shape %q, %s) is not the MRTD of this image for that configuration", where, i, w.shape, w.mode)
				}
				if bytes.Equal(m.Mrtd, make([]byte, 48)) {
					viol("placeholder", "%s: TDX row %d is all zero", where, i)
				}
			}
			if doc.Tdx.Svn != svn {
				viol("tdx-svn-wrong", "%s: TDX SVN differs from the request", where)
			}
		}
	}
	check(g, "GoldenMeasurement")
	e, err := endorse.SignDoc(ctx, g)
	if err != nil {
		viol("signdoc-fails", "SignDoc fails: %v", err)
		return
	}
	signed := &epb.VMGoldenMeasurement{}
	if err := proto.Unmarshal(e.SerializedUefiGolden, signed); err != nil {
		viol("signdoc-fails", "signed payload does not parse: %v", err)
		return
	}
	check(signed, "signed payload")
	if !signed.Timestamp.AsTime().Equal(ts) {
		viol("timestamp-wrong", "signed payload's timestamp differs from the request")
	}
	if len(signed.Cert) == 0 || len(signed.CaBundle) == 0 {
		viol("cert-missing", "signed payload lacks certificate or CA bundle")
	}
}

// RunC06 is the C06 check.
func RunC06(run *vk.Run) {
	run.Assumptions = append(run.Assumptions, "LD and MRTD are uninterpreted in Golden.tla and bound to sev.LaunchDigest / tdx.MRTD of the same image in the harness (their own correctness is C04/C05)",
		"machine shapes outside the supported table are outside the statement's quantifier")
	if _, err := vk.RunTLC(vk.TLCOpts{Module: "Golden", Config: "Neg_Golden.cfg", Timeout: 5 * time.Minute, ExpectViolation: true}); err != nil {
		run.Infra(err)
		return
	}
	em, err := vk.RunTLC(vk.TLCOpts{Module: "Golden", Config: "Emit_Golden.cfg", Workers: 1, Timeout: 10 * time.Minute})
	if err != nil {
		run.Infra(err)
		return
	}
	if shapeBanks, err = meas.ShapeBanks(run); err != nil {
		run.Infra(err)
		return
	}
	notOfDefinition = func(what string) { run.Violation("tdx-entry-not-of-definition", what, nil) }
	run.AddTLC(em)
	stride := 1
	if run.IsQuick() {
		stride = 3
	}
	rp.Parallel(len(em.Cases), func(i int) {
		if !vk.Pick(i, run.Seed, stride) {
			return
		}
		var c struct {
			Req reqRow `json:"req"`
		}
		if err := json.Unmarshal(em.Cases[i], &c); err != nil {
			run.Infra(err)
			return
		}
		b, _ := json.Marshal(c.Req)
		checkRow(run, c.Req, string(b))
		run.Case(string(b), true)
		if i%211 == 0 {
			run.Sample(c.Req)
		}
	})
	checkCommandLine(run)
	// the whole decision table of the endorse command's flags (EndorseFlags.tla): the request the command
	// prepares names what the command line asked for
	ka.EndorseRequestPredicates(run)
	checkRequestReuse(run)
	checkOutOfOrderSections(run)
	// failure injection: a measurement that cannot be computed must yield no document
	ca, signer, _ := fx.DevAuthority()
	kc := &keys.Context{CA: ca, Signer: signer}
	broken := append([]byte{}, img2m...)
	copy(broken[0:4], []byte{0xde, 0xad, 0xbe, 0xef}) // SEV metadata signature
	cases := []struct {
		name string
		ec   *endorse.Context
		ok   bool
	}{
		{"4KiB image valid for SNP only, SNP+TDX requested", &endorse.Context{Image: img4k, SevSnp: &sev.SnpEndorsementRequest{LaunchVmsas: 1, Product: product("Milan")}, Tdx: &tdx.EndorsementRequest{}}, false},
		{"4KiB image valid for SNP only, SNP requested", &endorse.Context{Image: img4k, SevSnp: &sev.SnpEndorsementRequest{LaunchVmsas: 1, Product: product("Milan")}}, true},
		{"SEV metadata broken, SNP+TDX requested", &endorse.Context{Image: broken, SevSnp: &sev.SnpEndorsementRequest{LaunchVmsas: 1, Product: product("Milan")}, Tdx: &tdx.EndorsementRequest{}}, false},
		{"SEV metadata broken, TDX requested", &endorse.Context{Image: broken, Tdx: &tdx.EndorsementRequest{MachineShapes: []string{"c3-standard-4"}, IncludeEarlyAccept: true}}, true},
		{"vCPU count 0 requested explicitly via huge count", &endorse.Context{Image: img4k, SevSnp: &sev.SnpEndorsementRequest{LaunchVmsas: 1, Product: product("Milan"), ImageID: "not-a-uuid"}}, false},
		{"no technology", &endorse.Context{Image: img4k}, false},
	}
	for _, c := range cases {
		c.ec.ClSpec, c.ec.Timestamp = 1, time.Now()
		g, err := endorse.GoldenMeasurement(endorse.NewContext(fx.Ctx(kc, false, false), c.ec))
		if (err == nil) != c.ok {
			run.Violation("failure-handling", fmt.Sprintf("%s: GoldenMeasurement error=%v, expected success=%v", c.name, err, c.ok), nil)
		}
		if err != nil && g != nil {
			run.Violation("failure-handling", fmt.Sprintf("%s: a document was returned together with an error", c.name), nil)
		}
		run.Case("fail:"+c.name, true)
	}
	run.Exhaustive = !run.IsQuick()
	run.Rule = "every request row of Golden.tla (technology subsets x VMSA counts {all,1,2,240} x product x 5 shape lists x early accept x SVSM x provenance = 960; quick a seeded third) is run through the real GoldenMeasurement and SignDoc on a 2 MiB image; every entry is compared with a separate single-configuration call of sev.LaunchDigest / tdx.MRTD, the digest with SHA-384, the remaining fields with the request; plus failure injection with images valid for one technology only; plus every row of EndorseFlags.tla (image path x version files x technologies x ids x commit length x SVSM file x shape spellings) on the real endorse command: the request it prepares names the technologies, the security version of the version file next to the image, the machine shapes and the SVSM measurement the command line asked for"
}

// checkRequestReuse: one request object (endorse.Context) used for a series of images, as a caller that
// endorses several builds in one process does -- reassigned, and edited in place; every signed document
// carries the SHA-384 and the SEV-SNP measurement of the image that run was given.
func checkRequestReuse(run *vk.Run) {
	ca, signer, err := fx.DevAuthority()
	if err != nil {
		run.Infra(err)
		return
	}
	kc := &keys.Context{CA: ca, Signer: signer}
	a, b := fx.Image(0x1000, 901), fx.Image(0x1000, 902)
	inplace := append([]byte{}, a...)
	ec := &endorse.Context{ClSpec: 3, Timestamp: time.Date(2025, 3, 4, 5, 6, 7, 0, time.UTC), SevSnp: &sev.SnpEndorsementRequest{LaunchVmsas: 1, Product: product("Milan")}}
	steps := []struct {
		name string
		set  func()
	}{
		{"first image", func() { ec.Image = a }},
		{"another image assigned to the same request", func() { ec.Image = b }},
		{"the first image again", func() { ec.Image = a }},
		{"a private copy of the first image", func() { ec.Image = inplace }},
		{"that copy edited in place (one byte of the free area)", func() { inplace[0x500] ^= 0x5a }},
	}
	for _, st := range steps {
		st.set()
		ctx := endorse.NewContext(fx.Ctx(kc, false, false), ec)
		var doc *epb.VMGoldenMeasurement
		var gerr error
		func() {
			defer func() {
				if p := recover(); p != nil {
					gerr = fmt.Errorf("PANIC: %v", p)
				}
			}()
			doc, gerr = endorse.GoldenMeasurement(ctx)
			if gerr == nil {
				var e *epb.VMLaunchEndorsement
				if e, gerr = endorse.SignDoc(ctx, doc); gerr == nil {
					doc = &epb.VMGoldenMeasurement{}
					gerr = proto.Unmarshal(e.SerializedUefiGolden, doc)
				}
			}
		}()
		run.Case("request-reuse:"+st.name, true)
		if gerr != nil {
			run.Violation("request-reuse-fails", fmt.Sprintf("one request object used for a series of images, step %q: %v", st.name, gerr), nil)
			continue
		}
		if !bytes.Equal(doc.Digest, fx.Sha384(ec.Image)) {
			run.Violation("digest-wrong:request-reuse", fmt.Sprintf("one request object used for a series of images, step %q: the signed document's digest is not the SHA-384 of the image this run was given", st.name), nil)
		}
		want, lerr := sev.LaunchDigest(&sev.LaunchOptions{Vcpus: 1, Product: product("Milan")}, append([]byte{}, ec.Image...))
		if lerr != nil || !bytes.Equal(doc.GetSevSnp().GetMeasurements()[1], want) {
			run.Violation("snp-value-wrong:request-reuse", fmt.Sprintf("one request object used for a series of images, step %q: the signed entry for 1 VMSA is not the launch measurement of the image this run was given (%v)", st.name, lerr), nil)
		}
	}
}

// checkOutOfOrderSections: an image whose SNP metadata lists its sections out of address order; every
// signed SNP entry is compared with the launch digest of the definition (the C04 oracle), not with a
// second call of the library.
func checkOutOfOrderSections(run *vk.Run) {
	img, ref, err := meas.OutOfOrderImage(run, run.Seed*17+3)
	if err != nil {
		run.Infra(err)
		return
	}
	ca, signer, _ := fx.DevAuthority()
	kc := &keys.Context{CA: ca, Signer: signer}
	for _, prod := range []string{"Milan", "Genoa"} {
		for _, vmsas := range []uint32{0, 2} {
			ec := &endorse.Context{Image: img, ClSpec: 7, Timestamp: time.Date(2025, 3, 4, 5, 6, 7, 0, time.UTC),
				SevSnp: &sev.SnpEndorsementRequest{Svn: 1, LaunchVmsas: vmsas, Product: product(prod), ImageID: imageID}}
			g, gerr := endorse.GoldenMeasurement(endorse.NewContext(fx.Ctx(kc, false, false), ec))
			run.Case(fmt.Sprintf("out-of-order:%s:%d", prod, vmsas), true)
			if gerr != nil {
				run.Violation("golden-fails", fmt.Sprintf("GoldenMeasurement fails on an image whose SNP sections are declared out of address order (%s, vmsas %d): %v", prod, vmsas, gerr), nil)
				continue
			}
			for c, m := range g.GetSevSnp().GetMeasurements() {
				if !bytes.Equal(m, ref(int(c), prod)) {
					run.Violation("snp-value-wrong:declared-order", fmt.Sprintf("image with SNP sections declared out of address order, %s: the entry for %d VMSAs is not the launch measurement of that image (the definition measures sections in declared order)", prod, c), map[string]any{"product": prod, "count": c})
					break
				}
			}
		}
	}
}

// ---- the request as the endorse command builds it ----

var errStopAfterDoc = fmt.Errorf("stop after the document (harness)")

// docComp sits in the extra slot of the endorse sub-command: it builds the golden document from the
// request the command's own flag handling has prepared and stops the command before anything is signed.
type docComp struct {
	doc *epb.VMGoldenMeasurement
	ts  time.Time // the timestamp the command's flag handling put into the request
}

func (d *docComp) AddFlags(*cobra.Command)                          {}
func (d *docComp) PersistentPreRunE(*cobra.Command, []string) error { return nil }
func (d *docComp) InitContext(ctx context.Context) (context.Context, error) {
	doc, err := endorse.GoldenMeasurement(ctx)
	if err != nil {
		return nil, err
	}
	d.doc = doc
	if ec, eerr := endorse.FromContext(ctx); eerr == nil {
		d.ts = ec.Timestamp
	}
	return nil, errStopAfterDoc
}

// checkCommandLine: the security version number a document carries is the one of the SCRTM version
// file next to the image, for every requested technology (and only requested technologies appear).
func checkCommandLine(run *vk.Run) {
	for _, tech := range []string{"snp", "tdx", "both"} {
		for _, side := range []string{"none", "sibling", "suffix"} {
			dir, err := os.MkdirTemp("", "vk-c06-")
			if err != nil {
				run.Infra(err)
				return
			}
			fw := filepath.Join(dir, "fw.fd")
			os.WriteFile(fw, img2m, 0o600)
			want := uint32(0)
			ver := func(v uint32) []byte {
				b, _ := proto.Marshal(&edk2pb.SCRTMVersion{Version: edk2pb.FirmwareVersion_Version(v)})
				return b
			}
			switch side {
			case "sibling":
				os.WriteFile(filepath.Join(dir, "fw_scrtm_ver.pb"), ver(7), 0o600)
				want = 7
			case "suffix":
				os.WriteFile(fw+".scrtm.pb", ver(9), 0o600)
				want = 9
			}
			args := []string{"endorse", "--quiet", "--uefi", fw, "--clspec", "5", "--snp_launch_vmsas", "1", "--timestamp", "2025-03-01T00:00:00Z"}
			if tech != "tdx" {
				args = append(args, "--add_snp")
			}
			if tech != "snp" {
				args = append(args, "--add_tdx")
			}
			dc := &docComp{}
			root := cmd.MakeApp(context.Background(), &cmd.AppComponents{Endorse: dc, SignatureRandom: rand.Reader})
			root.SetOut(io.Discard)
			root.SetErr(io.Discard)
			root.SilenceErrors, root.SilenceUsage = true, true
			root.SetArgs(args)
			var xerr error
			func() {
				defer func() {
					if p := recover(); p != nil {
						xerr = fmt.Errorf("PANIC: %v", p)
					}
				}()
				xerr = root.Execute()
			}()
			os.RemoveAll(dir)
			rep := map[string]any{"technologies": tech, "scrtm_version_file": side, "args": args}
			if dc.doc == nil || xerr != errStopAfterDoc {
				run.Violation("cli-request-fails", fmt.Sprintf("endorse command (%s, version file %s) does not get to the document: %v", tech, side, xerr), rep)
				continue
			}
			if (dc.doc.SevSnp != nil) != (tech != "tdx") || (dc.doc.Tdx != nil) != (tech != "snp") {
				run.Violation("cli-technologies", fmt.Sprintf("endorse command requested %s but the document has sev_snp=%v tdx=%v", tech, dc.doc.SevSnp != nil, dc.doc.Tdx != nil), rep)
			}
			if dc.doc.SevSnp != nil && dc.doc.SevSnp.Svn != want {
				run.Violation("cli-svn", fmt.Sprintf("endorse command (%s, version file %s): sev_snp.svn is %d, the version file says %d", tech, side, dc.doc.SevSnp.Svn, want), rep)
			}
			if dc.doc.Tdx != nil && dc.doc.Tdx.Svn != want {
				run.Violation("cli-svn", fmt.Sprintf("endorse command (%s, version file %s): tdx.svn is %d, the version file says %d", tech, side, dc.doc.Tdx.Svn, want), rep)
			}
			run.Case("cli:"+tech+":"+side, true)
		}
	}
	// the requested instant as the command line spells it: RFC 3339 with any UTC offset names one instant,
	// and that instant (to the nanosecond) is what the document will carry
	instant := time.Date(2025, 3, 4, 5, 6, 7, 123456789, time.UTC)
	for _, sp := range []string{"2025-03-04T05:06:07.123456789Z", "2025-03-04T07:06:07.123456789+02:00", "2025-03-03T21:06:07.123456789-08:00",
		"2025-03-04T10:51:07.123456789+05:45", "2025-03-04T05:06:07.123456789+00:00"} {
		dir, err := os.MkdirTemp("", "vk-c06-")
		if err != nil {
			run.Infra(err)
			return
		}
		fw := filepath.Join(dir, "fw.fd")
		os.WriteFile(fw, img2m, 0o600)
		args := []string{"endorse", "--quiet", "--uefi", fw, "--clspec", "5", "--snp_launch_vmsas", "1", "--add_snp", "--timestamp", sp}
		dc := &docComp{}
		root := cmd.MakeApp(context.Background(), &cmd.AppComponents{Endorse: dc, SignatureRandom: rand.Reader})
		root.SetOut(io.Discard)
		root.SetErr(io.Discard)
		root.SilenceErrors, root.SilenceUsage = true, true
		root.SetArgs(args)
		var xerr error
		func() {
			defer func() {
				if p := recover(); p != nil {
					xerr = fmt.Errorf("PANIC: %v", p)
				}
			}()
			xerr = root.Execute()
		}()
		os.RemoveAll(dir)
		run.Case("cli:timestamp:"+sp, true)
		if dc.doc == nil || xerr != errStopAfterDoc {
			run.Violation("cli-request-fails", fmt.Sprintf("endorse command with --timestamp %s does not get to the document: %v", sp, xerr), nil)
			continue
		}
		if got := timeproto.To(dc.ts); got == nil || !got.AsTime().Equal(instant) {
			run.Violation("cli-timestamp", fmt.Sprintf("endorse command with --timestamp %s: the request's timestamp is %s, the instant named is %s", sp, dc.ts.UTC().Format(time.RFC3339Nano), instant.Format(time.RFC3339Nano)), map[string]any{"args": args})
		}
	}
	// machine shapes as the command line spells them: a comma list and a repeated flag both name every
	// shape; the document carries, for each named shape and the default, the MRTD of this image
	spellings := []struct {
		name   string
		args   []string
		shapes []string
	}{
		{"one", []string{"--tdx_machine_shapes", "c3-standard-4"}, []string{"c3-standard-4"}},
		{"comma", []string{"--tdx_machine_shapes=c3-standard-4,c3-standard-8"}, []string{"c3-standard-4", "c3-standard-8"}},
		{"repeated", []string{"--tdx_machine_shapes", "c3-standard-8", "--tdx_machine_shapes", "c3-standard-88"}, []string{"c3-standard-8", "c3-standard-88"}},
		{"mixed", []string{"--tdx_machine_shapes", "c3-standard-4,c3-standard-88", "--tdx_machine_shapes=c3-standard-8"}, []string{"c3-standard-4", "c3-standard-88", "c3-standard-8"}},
	}
	for _, sp := range spellings {
		for _, ea := range []bool{false, true} {
			dir, err := os.MkdirTemp("", "vk-c06-")
			if err != nil {
				run.Infra(err)
				return
			}
			fw := filepath.Join(dir, "fw.fd")
			os.WriteFile(fw, img2m, 0o600)
			args := append([]string{"endorse", "--quiet", "--uefi", fw, "--clspec", "5", "--timestamp", "2025-03-01T00:00:00Z", "--add_tdx"}, sp.args...)
			if ea {
				args = append(args, "--tdx_include_early_accept")
			}
			dc := &docComp{}
			root := cmd.MakeApp(context.Background(), &cmd.AppComponents{Endorse: dc, SignatureRandom: rand.Reader})
			root.SetOut(io.Discard)
			root.SetErr(io.Discard)
			root.SilenceErrors, root.SilenceUsage = true, true
			root.SetArgs(args)
			var xerr error
			func() {
				defer func() {
					if p := recover(); p != nil {
						xerr = fmt.Errorf("PANIC: %v", p)
					}
				}()
				xerr = root.Execute()
			}()
			os.RemoveAll(dir)
			rep := map[string]any{"shapes_spelling": sp.name, "early_accept": ea, "args": args[4:]}
			run.Case(fmt.Sprintf("cli:shapes:%s:%v", sp.name, ea), true)
			if dc.doc == nil || xerr != errStopAfterDoc || dc.doc.Tdx == nil {
				run.Violation("cli-request-fails", fmt.Sprintf("endorse command (shapes spelled %s) does not get to a TDX document: %v", sp.name, xerr), rep)
				continue
			}
			type row struct {
				ram         uint32
				ea          bool
				shape, mode string
			}
			var want []row
			for _, s := range sp.shapes {
				want = append(want, row{ramOf[s], false, s, "measure_all"})
				if ea {
					want = append(want, row{ramOf[s], true, s, "measure_all_ea"})
				}
			}
			want = append(want, row{0, false, "", "default"})
			got := dc.doc.Tdx.Measurements
			if len(got) != len(want) {
				run.Violation("cli-shapes", fmt.Sprintf("endorse command with shapes spelled %s (%v), early accept %v: the document has %d TDX rows, want %d (each named shape, plus the default)", sp.name, sp.shapes, ea, len(got), len(want)), rep)
				continue
			}
			for i, w := range want {
				ref, merr := mrtd(img2m, "2m", w.shape, w.mode)
				if merr != nil {
					run.Infra(merr)
					return
				}
				if got[i].RamGib != w.ram || got[i].EarlyAccept != w.ea || !bytes.Equal(got[i].Mrtd, ref) {
					run.Violation("cli-shapes", fmt.Sprintf("endorse command with shapes spelled %s (%v), early accept %v: TDX row %d is (ram %d, early accept %v) and %s the MRTD of shape %q", sp.name, sp.shapes, ea, i, got[i].RamGib, got[i].EarlyAccept,
						map[bool]string{true: "is", false: "is not"}[bytes.Equal(got[i].Mrtd, ref)], w.shape), rep)
				}
			}
		}
	}
}
