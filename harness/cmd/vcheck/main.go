// vcheck runs one property check: vcheck <property id> <quick|thorough>
package main

import (
	"fmt"
	"os"

	"verifharness/abiref"
	"verifharness/disc"
	"verifharness/ec"
	"verifharness/gold"
	"verifharness/ka"
	"verifharness/kms"
	"verifharness/meas"
	"verifharness/pars"
	"verifharness/pl"
	"verifharness/rp"
	"verifharness/vk"
)

var checks = map[string]func(*vk.Run){
	"C14":      func(r *vk.Run) { ec.Run(r, "C14") },
	"C15":      func(r *vk.Run) { ec.Run(r, "C15") },
	"C13":      ec.RunC13,
	"C10":      ka.RunC10,
	"C11":      ka.RunC11,
	"C12":      ka.RunC12,
	"C03":      ka.RunC03,
	"C01":      rp.RunC01,
	"C02":      rp.RunC02,
	"C09":      rp.RunC09,
	"C17":      rp.RunC17,
	"C20":      kms.RunC20,
	"X-CLI":    ka.RunCLI,
	"X-EFLAGS": ka.RunEndorseFlags,
	"X-SYSTEM": ka.RunSystem,
	"C16":      disc.RunC16,
	"C19":      pl.RunC19,
	"C06":      gold.RunC06,
	"C18":      abiref.RunC18,
	"C04":      meas.RunC04,
	"C05":      meas.RunC05,
	"C07":      pars.RunC07,
	"C08":      pars.RunC08,
}

func main() {
	if len(os.Args) < 2 {
		fmt.Println("usage: vcheck <id> [quick|thorough]")
		os.Exit(2)
	}
	id := os.Args[1]
	if id == "child" && len(os.Args) > 2 {
		vk.ChildMain(os.Args[2])
		return
	}
	if id == "C17race" {
		rp.PolicyRace()
		return
	}
	if id == "C09race" {
		rp.RaceStress()
		return
	}
	tier := "quick"
	if len(os.Args) > 2 {
		tier = os.Args[2]
	}
	f, ok := checks[id]
	if !ok {
		fmt.Printf("ERROR unknown property %s\n", id)
		os.Exit(2)
	}
	run := vk.NewRun(id, tier)
	func() {
		defer func() {
			if r := recover(); r != nil {
				run.Infra(fmt.Errorf("checker panic: %v", r))
			}
		}()
		f(run)
	}()
	os.Exit(run.Finish())
}
