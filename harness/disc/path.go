package disc

import (
	"bytes"
	"fmt"
	"os"
	"path/filepath"
	"strings"

	exel "github.com/google/gce-tcb-verifier/extract/eventlog"
	"github.com/google/uuid"

	"verifharness/vk"
)

var sentinel = []byte("0000SENTINEL-OUTSIDE-THE-EFIVARFS-ROOT")

type tree struct{ base, root string }

var compName = map[string]string{"plain": "sub", "dotdot": "..", "slash": "", "link_out": "link_out", "link_in": "link_in", "missing": "nope"}

var guid = uuid.MustParse("6a7b6885-92bc-40cd-9fb5-300f9d1eb0ed")

// buildTree creates base/{root,outside}: root has sub/, link_in -> sub, link_out -> <abs outside>,
// link_up -> ..; every directory outside the root holds sentinel files for every possible last
// component, every directory inside holds "inside" files.
func buildTree() (*tree, func(), error) {
	base, err := os.MkdirTemp("", "vk-c16-tree-")
	if err != nil {
		return nil, nil, err
	}
	t := &tree{base: base, root: filepath.Join(base, "root")}
	out := filepath.Join(base, "outside")
	for _, d := range []string{t.root, filepath.Join(t.root, "sub"), out, filepath.Join(out, "sub")} {
		if err := os.MkdirAll(d, 0o755); err != nil {
			return nil, nil, err
		}
	}
	os.Symlink("sub", filepath.Join(t.root, "link_in"))
	os.Symlink(out, filepath.Join(t.root, "link_out"))
	os.Symlink("../outside", filepath.Join(t.root, "sub", "link_out"))
	// "root": a name that collapses to the root itself must not become the sibling <root>-<guid>
	lasts := []string{"sub", "..", "", "link_out", "link_in", "nope", "x", "root", "outside"}
	for _, l := range lasts {
		fn := l + "-" + guid.String()
		for _, d := range []string{base, out, filepath.Join(out, "sub"), "/tmp"} {
			if d == "/tmp" {
				continue
			}
			os.WriteFile(filepath.Join(d, fn), sentinel, 0o644)
		}
		for _, d := range []string{t.root, filepath.Join(t.root, "sub")} {
			os.WriteFile(filepath.Join(d, fn), []byte("0000inside"), 0o644)
		}
	}
	return t, func() { os.RemoveAll(base) }, nil
}

func checkPath(run *vk.Run, t *tree, comps []string) {
	var parts []string
	for _, c := range comps {
		parts = append(parts, compName[c])
	}
	for _, name := range []string{strings.Join(parts, "/"), "/" + strings.Join(parts, "/"), strings.Join(parts, "/") + "/../x", strings.Join(parts, "\\")} {
		rd := exel.MakeEfiVarFSReader(t.root)
		var got []byte
		var err error
		func() {
			defer func() {
				if p := recover(); p != nil {
					err = fmt.Errorf("PANIC: %v", p)
				}
			}()
			got, err = rd.ReadVariable(guid, ucs2(name))
		}()
		if err != nil && strings.HasPrefix(err.Error(), "PANIC") {
			run.Violation("variable-reader-panic", fmt.Sprintf("reading variable %q panics: %v", name, err), map[string]any{"name": name})
		}
		if err == nil && bytes.Contains(sentinel, got) && len(got) > 0 {
			run.Violation("efivarfs-escape", fmt.Sprintf("variable name %q made the reader return a file outside the efivarfs root", name), map[string]any{"name": name, "components": comps})
		}
	}
}
