// Package disc binds spec/Discovery.tla (C16) to extract.Endorsement, the object-name functions,
// the SP800-155 events the signer emits and the efivarfs variable reader.
package disc

import (
	"bytes"
	"context"
	"crypto/x509"
	"encoding/base64"
	"encoding/hex"
	"encoding/json"
	"fmt"
	epb "github.com/google/gce-tcb-verifier/proto/endorsement"
	"io"
	"net"
	"os"
	"path/filepath"
	"regexp"
	"strings"
	"sync"
	"sync/atomic"
	"time"

	"github.com/google/gce-tcb-verifier/endorse"
	"github.com/google/gce-tcb-verifier/eventlog"
	"github.com/google/gce-tcb-verifier/extract"
	exel "github.com/google/gce-tcb-verifier/extract/eventlog"
	"github.com/google/gce-tcb-verifier/extract/extractsev"
	"github.com/google/gce-tcb-verifier/extract/extracttdx"
	gtb "github.com/google/gce-tcb-verifier/gcetcbendorsement"
	gcmd "github.com/google/gce-tcb-verifier/gcetcbendorsement/cmd"
	oabi "github.com/google/gce-tcb-verifier/ovmf/abi"
	evpb "github.com/google/gce-tcb-verifier/proto/events"
	"github.com/google/gce-tcb-verifier/sev"
	"github.com/google/gce-tcb-verifier/verify"
	"github.com/google/go-sev-guest/abi"
	spb "github.com/google/go-sev-guest/proto/sevsnp"
	tpb "github.com/google/go-tdx-guest/proto/tdx"
	tpmpb "github.com/google/go-tpm-tools/proto/attest"
	"github.com/google/uuid"
	"google.golang.org/protobuf/proto"

	"verifharness/fx"
	"verifharness/rp"
	"verifharness/vk"
)

const googleVarGUID = "a2858e46-a37f-456a-8c79-0c1fe48b65ff"

var (
	rawBlob = []byte("endorsement bytes carried by the raw locator")
	// larger than any fixed-size read buffer: the variable's data is returned whole, byte for byte
	varBlob = bytes.Repeat([]byte("endorsement bytes stored in the UEFI variable; "), 2800)
	// (ends in a line feed, like one endorsement signature in 128 does: evidence is bytes, not text)
	quoteBlob = []byte("endorsement bytes in the quote's certificate table\n")
	provBlob  = []byte("endorsement bytes in the provider's certificate table")
	netBlob   = []byte("endorsement bytes fetched from the network")
	logURI    = verify.GCETcbURL("ovmf_x64_csm/" + hex.EncodeToString(rp.Meas("image-digest")) + ".fd.signed")
	objRe     = regexp.MustCompile(`^https://storage\.googleapis\.com/gce_tcb_integrity/ovmf_x64_csm/(sevsnp|tdx)/[0-9a-f]{96}\.binarypb$`)
)

func ucs2(s string) []byte {
	var b []byte
	for _, r := range s {
		b = append(b, byte(r), byte(r>>8))
	}
	return append(b, 0, 0)
}

func efiGUID(s string) []byte {
	var b [16]byte
	oabi.PutUUID(b[:], uuid.MustParse(s))
	return b[:]
}

func sp(loctype uint32, loc []byte, manufacturer string) *eventlog.TCGPCREvent2 {
	return &eventlog.TCGPCREvent2{EventType: eventlog.EvNoAction, EventData: eventlog.TCGEventData{Event: &eventlog.SP800155Event3{
		FirmwareManufacturerStr: eventlog.ByteSizedCStr{Data: manufacturer}, RIMLocatorType: loctype, RIMLocator: eventlog.Uint32SizedArray{Data: loc}}}}
}

type srcRow struct {
	Mode     string   `json:"mode"`
	Evlog    string   `json:"evlog"`
	Quote    string   `json:"quote"`
	Provider string   `json:"provider"`
	Getter   string   `json:"getter"`
	Force    bool     `json:"force"`
	Name     []string `json:"name"`
	Supplied string   `json:"supplied"`
	Meas     string   `json:"meas"`
}

type recGetter struct {
	mu   sync.Mutex
	urls []string
	fail bool
}

func (g *recGetter) Get(url string) ([]byte, error) {
	g.mu.Lock()
	defer g.mu.Unlock()
	g.urls = append(g.urls, url)
	if g.fail {
		return nil, fmt.Errorf("network down")
	}
	return netBlob, nil
}

type provider struct {
	quote []byte
	fail  bool
	calls int
}

func (p *provider) IsSupported() bool { return true }
func (p *provider) GetRawQuote([64]byte) ([]uint8, error) {
	p.calls++
	if p.fail {
		return nil, fmt.Errorf("no quote device")
	}
	return p.quote, nil
}

func snpAtt(meas []byte, extra []byte) []byte {
	a := &spb.Attestation{Report: rp.Report(meas), CertificateChain: &spb.CertificateChain{}}
	if extra != nil {
		a.CertificateChain.Extras = map[string][]byte{sev.GCEFwCertGUID: extra}
	}
	b, _ := proto.Marshal(&tpmpb.Attestation{TeeAttestation: &tpmpb.Attestation_SevSnpAttestation{SevSnpAttestation: a}})
	return b
}

var realNetHits atomic.Int64

var (
	quoteMeas = rp.Meas("quote-measurement")
	provMeas  = rp.Meas("provider-measurement")
)

func buildQuote(class string) ([]byte, error) {
	switch class {
	case "none":
		return nil, nil
	case "unparseable":
		return []byte{0xff, 0xff, 0xff, 0xff, 0xff, 0xff, 0xff, 0xff, 0xff, 0xff, 0xff, 0x7f, '!', '?'}, nil
	case "snp_extra":
		return snpAtt(quoteMeas, quoteBlob), nil
	case "snp_noextra":
		return snpAtt(quoteMeas, nil), nil
	case "snp_bare_extra", "snp_bare_extra_product", "snp_bare_noextra":
		// the go-sev-guest Attestation message itself (not wrapped in a go-tpm-tools Attestation), as
		// the extract command's help lists it; with and without the optional product field
		a := &spb.Attestation{Report: rp.Report(quoteMeas), CertificateChain: &spb.CertificateChain{VcekCert: []byte("vcek"), Extras: map[string][]byte{sev.GCEFwCertGUID: quoteBlob}}}
		if class == "snp_bare_noextra" {
			a.CertificateChain.Extras = nil
		}
		if class == "snp_bare_extra_product" {
			a.Product = &spb.SevProduct{Name: spb.SevProduct_SEV_PRODUCT_MILAN}
		}
		return proto.Marshal(a)
	case "report_only":
		a := &spb.Attestation{Report: rp.Report(quoteMeas)}
		return proto.Marshal(&tpmpb.Attestation{TeeAttestation: &tpmpb.Attestation_SevSnpAttestation{SevSnpAttestation: a}})
	case "tdx":
		m, err := rp.GetMaterial()
		if err != nil {
			return nil, err
		}
		return m.QuoteBytes, nil
	case "snp_short_meas":
		return snpAtt(quoteMeas[:20], nil), nil
	case "tdx_short_mrtd":
		m, err := rp.GetMaterial()
		if err != nil {
			return nil, err
		}
		q := proto.Clone(m.Quote).(*tpb.QuoteV4)
		q.TdQuoteBody.MrTd = q.TdQuoteBody.MrTd[:31]
		return proto.Marshal(&tpmpb.Attestation{TeeAttestation: &tpmpb.Attestation_TdxAttestation{TdxAttestation: q}})
	case "certtable_extra", "certtable_extra_hex", "certtable_extra_b64", "certtable_extra_b64nl", "certtable_extra_b64wrap", "certtable_extra_b64crlf", "certtable_extra_padded":
		// (a 300-byte entry so that the base64 text spans several lines)
		t := &abi.CertTable{Entries: []abi.CertTableEntry{{GUID: uuid.MustParse(sev.GCEFwCertGUID), RawCert: quoteBlob}, {GUID: uuid.MustParse(abi.VcekGUID), RawCert: bytes.Repeat([]byte("vcek bytes "), 28)}}}
		raw := t.Marshal()
		wrap := func(s string, n int, eol string) string {
			var b strings.Builder
			for len(s) > n {
				b.WriteString(s[:n] + eol)
				s = s[n:]
			}
			return b.String() + s + eol
		}
		switch strings.TrimPrefix(class, "certtable_extra") {
		case "_padded":
			return append(raw, make([]byte, 4096-len(raw)%4096)...), nil
		case "_hex":
			return []byte(hex.EncodeToString(raw)), nil
		case "_b64":
			return []byte(base64.StdEncoding.EncodeToString(raw)), nil
		case "_b64nl":
			return []byte(base64.StdEncoding.EncodeToString(raw) + "\n"), nil
		case "_b64wrap":
			return []byte(wrap(base64.StdEncoding.EncodeToString(raw), 76, "\n")), nil
		case "_b64crlf":
			return []byte(wrap(base64.StdEncoding.EncodeToString(raw), 64, "\r\n")), nil
		}
		return raw, nil
	case "certtable_noextra":
		t := &abi.CertTable{Entries: []abi.CertTableEntry{{GUID: uuid.MustParse(abi.VcekGUID), RawCert: []byte("some vcek bytes")}}}
		return t.Marshal(), nil
	}
	return nil, fmt.Errorf("unknown quote class %s", class)
}

// runSources executes extract.Endorsement for one row.
func runSources(r srcRow) (out []byte, errText string, urls []string, err error) {
	return runSourcesVia(r, false)
}

// runSourcesVia: the same sources given to the library (extract.Endorsement) or, viaCLI, to the
// `extract` command (attestation file, --eventlog, --efivarfs, --force_fetch; provider and getter in
// the command's backend).
func runSourcesVia(r srcRow, viaCLI bool) (out []byte, errText string, urls []string, err error) {
	dir, err := os.MkdirTemp("", "vk-c16-")
	if err != nil {
		return nil, "", nil, err
	}
	defer os.RemoveAll(dir)
	efidir := filepath.Join(dir, "efivars")
	os.MkdirAll(efidir, 0o755)
	opts := &extract.Options{FirmwareManufacturer: extract.GCEFirmwareManufacturer, UEFIVariableReader: exel.MakeEfiVarFSReader(efidir), ForceFetch: r.Force}
	varLoc := append(efiGUID(googleVarGUID), ucs2("FirmwareRIM")...)
	var evts []*eventlog.TCGPCREvent2
	g := extract.GCEFirmwareManufacturer
	switch r.Evlog {
	case "none":
	case "unreadable":
		opts.EventLogLocation = filepath.Join(dir, "does-not-exist")
	case "nomatch":
		evts = []*eventlog.TCGPCREvent2{sp(eventlog.RIMLocationRaw, rawBlob, "Other Corp.")}
	case "raw":
		evts = []*eventlog.TCGPCREvent2{sp(eventlog.RIMLocationRaw, rawBlob, g)}
	case "raw_uri":
		evts = []*eventlog.TCGPCREvent2{sp(eventlog.RIMLocationURI, []byte(logURI), g), sp(eventlog.RIMLocationRaw, rawBlob, g)}
	case "var_ok", "var_missing":
		evts = []*eventlog.TCGPCREvent2{sp(eventlog.RIMLocationVariable, varLoc, g)}
	case "var_ok_uri", "var_missing_uri":
		evts = []*eventlog.TCGPCREvent2{sp(eventlog.RIMLocationURI, []byte(logURI), g), sp(eventlog.RIMLocationVariable, varLoc, g)}
	case "var_ok_then_raw", "var_missing_then_raw":
		evts = []*eventlog.TCGPCREvent2{sp(eventlog.RIMLocationVariable, varLoc, g), sp(eventlog.RIMLocationLocal, []byte("/some/local/path"), g), sp(eventlog.RIMLocationRaw, rawBlob, g)}
	case "local_kind":
		evts = []*eventlog.TCGPCREvent2{sp(eventlog.RIMLocationLocal, []byte("/some/local/path"), g)}
	case "uri":
		evts = []*eventlog.TCGPCREvent2{sp(eventlog.RIMLocationURI, []byte(logURI), g)}
	}
	if strings.HasPrefix(r.Evlog, "var_ok") {
		os.WriteFile(filepath.Join(efidir, "FirmwareRIM-"+googleVarGUID), append([]byte{7, 0, 0, 0}, varBlob...), 0o644)
	}
	if evts != nil {
		p := filepath.Join(dir, "binary_bios_measurements")
		f, ferr := os.Create(p)
		if ferr != nil {
			return nil, "", nil, ferr
		}
		el := &eventlog.CryptoAgileLog{Header: eventlog.TCGPCClientPCREvent{}, Events: evts}
		if merr := el.Marshal(f); merr != nil {
			f.Close()
			return nil, "", nil, merr
		}
		f.Close()
		opts.EventLogLocation = p
	}
	q, err := buildQuote(r.Quote)
	if err != nil {
		return nil, "", nil, err
	}
	opts.Quote = q
	switch r.Provider {
	case "snp_extra":
		opts.Provider = &provider{quote: snpAtt(provMeas, provBlob)}
	case "snp_noextra":
		opts.Provider = &provider{quote: snpAtt(provMeas, nil)}
	case "failing":
		opts.Provider = &provider{fail: true}
	}
	var rg *recGetter
	if r.Getter != "none" {
		rg = &recGetter{fail: r.Getter == "failing"}
		opts.Getter = rg
	}
	var xerr error
	type result struct {
		o []byte
		e error
	}
	ch := make(chan result, 1)
	call := func(f func()) {
		if rg != nil {
			f()
			r := <-ch
			out, xerr = r.o, r.e
			return
		}
		// no getter configured: nothing can take long; a call that does not return (a default getter
		// retrying against the sentinel) is abandoned
		go f()
		// (generous while nothing has reached the sentinel: a loaded machine must not turn a slow call
		// into a verdict; short once the sentinel has been contacted, i.e. once the violation is certain)
		start := time.Now()
		for {
			select {
			case r := <-ch:
				out, xerr = r.o, r.e
				return
			case <-time.After(100 * time.Millisecond):
			}
			el := time.Since(start)
			if el > 30*time.Second || (realNetHits.Load() > 0 && el > 300*time.Millisecond) {
				out, xerr = nil, fmt.Errorf("TIMEOUT: no result within %v", el.Round(100*time.Millisecond))
				return
			}
		}
	}
	call(func() {
		var o []byte
		var e error
		defer func() {
			if p := recover(); p != nil {
				e = fmt.Errorf("PANIC: %v", p)
			}
			ch <- result{o, e}
		}()
		if !viaCLI {
			o, e = extract.Endorsement(opts)
			return
		}
		io_ := &cliIO{files: map[string][]byte{}, out: map[string]*cliW{}}
		args := []string{"extract", "--out", "out.bin", "--efivarfs", efidir}
		if opts.EventLogLocation != "" {
			args = append(args, "--eventlog", opts.EventLogLocation)
		} else {
			args = append(args, "--eventlog", filepath.Join(dir, "no-event-log-here"))
		}
		if r.Force {
			args = append(args, "--force_fetch")
		}
		if q != nil {
			io_.files["att.bin"] = q
			args = append(args, "att.bin")
		}
		b := &gcmd.Backend{IO: io_, MakeEfiVariableReader: func(p string) exel.VariableReader { return exel.MakeEfiVarFSReader(p) }}
		if rg != nil {
			b.Getter = rg
		}
		switch pv := opts.Provider.(type) {
		case *provider:
			b.Provider = &levelProvider{pv}
		default:
			b.Provider = &levelProvider{&provider{fail: true}} // (not reached: rows without a provider are not run through the command)
		}
		root := gcmd.MakeRoot(gcmd.ContextWithBackend(context.Background(), b))
		root.SetArgs(args)
		root.SetOut(io.Discard)
		root.SetErr(io.Discard)
		root.SilenceErrors, root.SilenceUsage = true, true
		e = root.Execute()
		if w := io_.out["out.bin"]; w != nil && e == nil {
			o = w.b
		}
	})
	if rg != nil {
		urls = rg.urls
	}
	if xerr != nil {
		return nil, xerr.Error(), urls, nil
	}
	return out, "", urls, nil
}

func localOf(r srcRow) []byte {
	switch {
	case r.Evlog == "raw" || r.Evlog == "raw_uri" || strings.HasSuffix(r.Evlog, "_then_raw"):
		return rawBlob
	case strings.HasPrefix(r.Evlog, "var_ok"):
		return varBlob
	case r.Quote == "snp_extra" || r.Quote == "snp_bare_extra" || strings.HasPrefix(r.Quote, "certtable_extra"):
		return quoteBlob
	}
	return nil
}

func blobName(b []byte) string {
	switch {
	case b == nil:
		return "err"
	case bytes.Equal(b, rawBlob):
		return "evlog_raw"
	case bytes.Equal(b, varBlob):
		return "evlog_var"
	case bytes.Equal(b, quoteBlob):
		return "quote_extra"
	case bytes.Equal(b, provBlob):
		return "provider_extra"
	case bytes.Equal(b, netBlob):
		return "net_body"
	}
	return "other"
}

var tdxMrtdHex string

func init() {
	if m, err := rp.GetMaterial(); err == nil {
		tdxMrtdHex = hex.EncodeToString(m.Mrtd)
	}
}

func urlKind(u string) string {
	switch {
	case u == logURI:
		return "uri_from_log"
	case objRe.MatchString(u):
		// whose measurement names the object: the supplied quote's (SNP measurement or TDX MRTD) or the
		// local provider's
		// (an SNP measurement names an object of the sevsnp/ tree, an MRTD one of the tdx/ tree)
		isSnp := strings.Contains(u, "/sevsnp/")
		if strings.Contains(u, hex.EncodeToString(provMeas)) {
			if !isSnp {
				return "obj_wrong_technology"
			}
			return "obj_full_provider"
		}
		if strings.Contains(u, hex.EncodeToString(quoteMeas)) {
			if !isSnp {
				return "obj_wrong_technology"
			}
			return "obj_full_quote"
		}
		if tdxMrtdHex != "" && strings.Contains(u, tdxMrtdHex) {
			if isSnp {
				return "obj_wrong_technology"
			}
			return "obj_full_quote"
		}
		return "obj_full_other"
	case u == verify.GCETcbURL(""):
		return "bucket_root"
	}
	return "obj_short"
}

type levelProvider struct{ p *provider }

func (l *levelProvider) IsSupported() bool { return true }
func (l *levelProvider) GetRawQuoteAtLevel(rd [64]byte, _ uint) ([]uint8, error) {
	return l.p.GetRawQuote(rd)
}

type cliIO struct {
	files map[string][]byte
	out   map[string]*cliW
}
type cliW struct{ b []byte }

func (w *cliW) Write(p []byte) (int, error) { w.b = append(w.b, p...); return len(p), nil }
func (*cliW) IsTerminal() bool              { return false }
func (m *cliIO) Create(path string) (gtb.TerminalWriter, func(), error) {
	w := &cliW{}
	m.out[path] = w
	return w, func() {}, nil
}
func (m *cliIO) ReadFile(path string) ([]byte, error) {
	b, ok := m.files[path]
	if !ok {
		return nil, fmt.Errorf("open %s: no such file", path)
	}
	return b, nil
}

// checkExtractCommand: the `extract` command given an attestation file that carries the endorsement:
// the file's bytes are the attestation (no text clean-up), its certificate-table entry is written out
// byte for byte, and neither the local quote provider nor the network is consulted.
func checkExtractCommand(run *vk.Run) {
	// PATH together with --eventlog: the event log's local locator comes first, as in the library
	if dir, derr := os.MkdirTemp("", "vk-c16-cli-"); derr == nil {
		defer os.RemoveAll(dir)
		logp := filepath.Join(dir, "log")
		if err := writeEventLog(logp, []*eventlog.TCGPCREvent2{sp(eventlog.RIMLocationRaw, rawBlob, extract.GCEFirmwareManufacturer)}); err != nil {
			run.Infra(err)
			return
		}
		for _, class := range []string{"snp_extra", "snp_noextra"} {
			q, _ := buildQuote(class)
			rg := &recGetter{}
			io_ := &cliIO{files: map[string][]byte{"att.bin": q}, out: map[string]*cliW{}}
			b := &gcmd.Backend{Getter: rg, IO: io_, Provider: &levelProvider{&provider{fail: true}}, MakeEfiVariableReader: func(string) exel.VariableReader { return exel.MakeEfiVarFSReader("/nonexistent-efivarfs") }}
			root := gcmd.MakeRoot(gcmd.ContextWithBackend(context.Background(), b))
			root.SetArgs([]string{"extract", "att.bin", "--out", "out.bin", "--eventlog", logp})
			root.SetOut(io.Discard)
			root.SetErr(io.Discard)
			root.SilenceErrors, root.SilenceUsage = true, true
			xerr := root.Execute()
			var out []byte
			if w := io_.out["out.bin"]; w != nil {
				out = w.b
			}
			run.Case("extract-command:eventlog+"+class, true)
			if xerr != nil || !bytes.Equal(out, rawBlob) || len(rg.urls) > 0 {
				run.Violation("local-evidence-not-returned:command:eventlog", fmt.Sprintf("`extract att.bin --eventlog LOG` (attestation %s, the log has a raw locator): wrote %s (error %v), requested %v; the event log's locator is local evidence and comes first", class, blobName(out), xerr, rg.urls), nil)
			}
		}
	}
	for _, class := range []string{"snp_extra", "certtable_extra", "snp_bare_extra_product", "snp_bare_extra", "certtable_extra_b64wrap", "certtable_extra_b64crlf", "certtable_extra_hex", "certtable_extra_padded"} {
		q, err := buildQuote(class)
		if err != nil {
			run.Infra(err)
			return
		}
		for _, withProvider := range []bool{false, true} {
			prov := &provider{quote: snpAtt(provMeas, provBlob)}
			rg := &recGetter{}
			io_ := &cliIO{files: map[string][]byte{"att.bin": q}, out: map[string]*cliW{}}
			b := &gcmd.Backend{Getter: rg, IO: io_, MakeEfiVariableReader: func(string) exel.VariableReader { return exel.MakeEfiVarFSReader("/nonexistent-efivarfs") }}
			if !withProvider {
				prov.fail = true // no TEE device on this machine
			}
			b.Provider = &levelProvider{prov}
			root := gcmd.MakeRoot(gcmd.ContextWithBackend(context.Background(), b))
			root.SetArgs([]string{"extract", "att.bin", "--out", "out.bin", "--eventlog", "/nonexistent-event-log"})
			root.SetOut(io.Discard)
			root.SetErr(io.Discard)
			root.SilenceErrors, root.SilenceUsage = true, true
			var xerr error
			func() {
				defer func() {
					if p := recover(); p != nil {
						xerr = fmt.Errorf("PANIC: %v", p)
					}
				}()
				xerr = root.Execute()
			}()
			var out []byte
			if w := io_.out["out.bin"]; w != nil {
				out = w.b
			}
			rep := map[string]any{"attestation_class": class, "local_provider": withProvider, "error": fmt.Sprint(xerr), "urls": rg.urls, "provider_calls": prov.calls}
			run.Case(fmt.Sprintf("extract-command:%s:%v", class, withProvider), true)
			if xerr != nil || !bytes.Equal(out, quoteBlob) {
				run.Violation("local-evidence-not-returned:command:"+class, fmt.Sprintf("`extract att.bin` with an attestation file (%s) whose certificate table carries the endorsement wrote %s instead of that entry byte for byte (error: %v)", class, blobName(out), xerr), rep)
			}
			if len(rg.urls) > 0 || prov.calls > 0 {
				run.Violation("network-despite-local:command:"+class, fmt.Sprintf("`extract att.bin` with local evidence in the file (%s) consulted the quote provider (%d calls) / the network (%v)", class, prov.calls, rg.urls), rep)
			}
		}
	}
}

// checkExtractOnRealFiles: the extract command with the production file layer (cmd.OSIO) on real files;
// the output file holds the evidence byte for byte whatever an earlier run (the default output name is
// a fixed one) left under that name: longer, shorter, or nothing.
func checkExtractOnRealFiles(run *vk.Run) {
	dir, err := os.MkdirTemp("", "vk-c16-out-")
	if err != nil {
		run.Infra(err)
		return
	}
	defer os.RemoveAll(dir)
	q, err := buildQuote("snp_extra")
	if err != nil {
		run.Infra(err)
		return
	}
	att := filepath.Join(dir, "att.bin")
	os.WriteFile(att, q, 0o600)
	for _, earlier := range []struct {
		name string
		data []byte
	}{{"none", nil}, {"longer", bytes.Repeat([]byte("stale "), 90)}, {"shorter", []byte("x")}, {"same-length", bytes.Repeat([]byte{'y'}, len(quoteBlob))}} {
		out := filepath.Join(dir, "out-"+earlier.name+".bin")
		if earlier.data != nil {
			os.WriteFile(out, earlier.data, 0o644)
		}
		prov := &provider{fail: true}
		rg := &recGetter{}
		b := &gcmd.Backend{Getter: rg, IO: gcmd.OSIO{}, Provider: &levelProvider{prov}, MakeEfiVariableReader: func(string) exel.VariableReader { return exel.MakeEfiVarFSReader("/nonexistent-efivarfs") }}
		root := gcmd.MakeRoot(gcmd.ContextWithBackend(context.Background(), b))
		root.SetArgs([]string{"extract", att, "--out", out, "--eventlog", "/nonexistent-event-log"})
		root.SetOut(io.Discard)
		root.SetErr(io.Discard)
		root.SilenceErrors, root.SilenceUsage = true, true
		var xerr error
		func() {
			defer func() {
				if p := recover(); p != nil {
					xerr = fmt.Errorf("PANIC: %v", p)
				}
			}()
			xerr = root.Execute()
		}()
		got, _ := os.ReadFile(out)
		run.Case("extract-real-files:"+earlier.name, true)
		if xerr != nil || !bytes.Equal(got, quoteBlob) {
			run.Violation("local-evidence-not-returned:command:output-file", fmt.Sprintf("`extract ATT --out FILE` on real files, FILE holding an earlier output (%s, %d bytes): FILE now holds %d bytes that are not the certificate-table entry byte for byte (error: %v)", earlier.name, len(earlier.data), len(got), xerr), map[string]any{"earlier": earlier.name})
		}
	}
}

// writeEventLog writes events as a crypto-agile log file.
func writeEventLog(path string, evts []*eventlog.TCGPCREvent2) error {
	f, err := os.Create(path)
	if err != nil {
		return err
	}
	defer f.Close()
	return (&eventlog.CryptoAgileLog{Header: eventlog.TCGPCClientPCREvent{}, Events: evts}).Marshal(f)
}

// checkLargeEventLogs: real event logs are tens of kilobytes long; the locator event may lie anywhere
// in them, and its fields straddle any buffer boundary a reader may have. For every position of the
// locator event around 4 KiB and 8 KiB (filler events with SHA-256 digests before it) the local
// evidence must come back byte for byte without network access.
func checkLargeEventLogs(run *vk.Run) {
	dir, err := os.MkdirTemp("", "vk-c16-big-")
	if err != nil {
		run.Infra(err)
		return
	}
	defer os.RemoveAll(dir)
	filler := func(n int) *eventlog.TCGPCREvent2 {
		return &eventlog.TCGPCREvent2{PCRIndex: 1, EventType: 0x80000001, Digests: eventlog.Uint32SizedArrayT[*eventlog.TaggedDigest]{Array: []*eventlog.TaggedDigest{{AlgID: 0xb, Digest: bytes.Repeat([]byte{0x5a}, 32)}}},
			EventData: eventlog.TCGEventData{Event: &eventlog.UnknownEvent{Data: bytes.Repeat([]byte{'f'}, n)}}}
	}
	step := 1
	if run.IsQuick() {
		step = 3
	}
	for _, around := range []int{4096, 8192} {
		for shift := 0; shift < 200; shift += step {
			// two filler events put the following events' digests and the locator event near the boundary
			evts := []*eventlog.TCGPCREvent2{filler(around - 300 + shift), filler(40), filler(40), sp(eventlog.RIMLocationRaw, rawBlob, extract.GCEFirmwareManufacturer), filler(40)}
			p := filepath.Join(dir, "log")
			if err := writeEventLog(p, evts); err != nil {
				run.Infra(err)
				return
			}
			rg := &recGetter{}
			var out []byte
			var xerr error
			func() {
				defer func() {
					if pn := recover(); pn != nil {
						xerr = fmt.Errorf("PANIC: %v", pn)
					}
				}()
				out, xerr = extract.Endorsement(&extract.Options{FirmwareManufacturer: extract.GCEFirmwareManufacturer, EventLogLocation: p, Getter: rg, Quote: snpAtt(quoteMeas, nil)})
			}()
			if xerr != nil || !bytes.Equal(out, rawBlob) || len(rg.urls) > 0 {
				run.Violation("local-evidence-not-returned:large-event-log", fmt.Sprintf("an event log of about %d bytes whose SP800-155 event with a raw locator follows %d bytes of earlier events: extraction returned %s (error %v) and requested %v instead of returning the locator's bytes without network access", around+200, around-300+shift+200, blobName(out), xerr, rg.urls), map[string]any{"filler_bytes": around - 300 + shift})
				return
			}
			run.Case(fmt.Sprintf("large-log:%d:%d", around, shift), true)
		}
	}
}

// RunC16 is the C16 check.
func RunC16(run *vk.Run) {
	run.Assumptions = append(run.Assumptions,
		"a URI locator found in the event log is network evidence: it may be fetched only when no local evidence exists; its URL is taken from the log, so the 'derived from a full-length measurement' clause is applied to the URLs the extractor derives itself",
		"path confinement is checked on a scratch directory tree with symbolic links out of and back into the root; races between check and open are not explored")
	for _, neg := range []string{"Neg_Discovery.cfg", "Neg_Discovery2.cfg"} {
		if _, err := vk.RunTLC(vk.TLCOpts{Module: "Discovery", Config: neg, Timeout: 5 * time.Minute, ExpectViolation: true}); err != nil {
			run.Infra(err)
			return
		}
	}
	em, err := vk.RunTLC(vk.TLCOpts{Module: "Discovery", Config: "Emit_Discovery.cfg", Workers: 1, Timeout: 10 * time.Minute})
	if err != nil {
		run.Infra(err)
		return
	}
	run.AddTLC(em)
	// a sentinel for the real network: every getter of this check is a recording double, so nothing may
	// ever reach the process's default HTTP transport; it is pointed at a local listener that notes who
	// was asked for and hangs up
	if ln, lerr := net.Listen("tcp", "127.0.0.1:0"); lerr == nil {
		defer ln.Close()
		for _, k := range []string{"HTTPS_PROXY", "https_proxy", "HTTP_PROXY", "http_proxy"} {
			os.Setenv(k, "http://"+ln.Addr().String())
		}
		os.Setenv("NO_PROXY", "")
		os.Setenv("no_proxy", "")
		go func() {
			for {
				c, aerr := ln.Accept()
				if aerr != nil {
					return
				}
				buf := make([]byte, 200)
				c.SetReadDeadline(time.Now().Add(time.Second))
				n, _ := c.Read(buf)
				line := strings.SplitN(string(buf[:n]), "\r\n", 2)[0]
				c.Close()
				if realNetHits.Add(1) == 1 {
					run.Violation("real-network-contacted", fmt.Sprintf("the process's own HTTP transport was used (%q) although every extraction of this check either has no getter at all or a recording one: without a configured getter there is no network access", line), nil)
				}
			}
		}()
	}
	var drift int64
	var mu sync.Mutex
	tree, cleanup, err := buildTree()
	if err != nil {
		run.Infra(err)
		return
	}
	defer cleanup()
	rp.Parallel(len(em.Cases), func(i int) {
		var c struct {
			Row  srcRow   `json:"row"`
			Out  string   `json:"out"`
			Reqs []string `json:"reqs"`
		}
		if err := json.Unmarshal(em.Cases[i], &c); err != nil {
			run.Infra(err)
			return
		}
		r := c.Row
		if r.Mode == "validator" {
			checkValidator(run, em.Cases[i])
			return
		}
		if r.Mode == "path" {
			checkPath(run, tree, r.Name)
			run.Case(string(em.Cases[i]), len(r.Name) > 1)
			return
		}
		out, et, urls, err := runSources(r)
		if err != nil {
			run.Infra(err)
			return
		}
		rep := map[string]any{"row": r, "returned": blobName(out), "error": et, "urls": urls}
		reps := 1
		if strings.HasSuffix(r.Evlog, "_then_raw") {
			reps = 6 // several kinds of local locator: any order dependence shows up as differing repetitions
		}
		for k := 0; k < reps; k++ {
			out2, et2, urls2, _ := runSources(r)
			if blobName(out) != blobName(out2) || (et == "") != (et2 == "") || strings.Join(urls, " ") != strings.Join(urls2, " ") {
				run.Violation("nondeterministic", fmt.Sprintf("two extractions from the same sources differ: %+v", r), rep)
				break
			}
		}
		if strings.HasPrefix(et, "PANIC") {
			run.Violation("panic", fmt.Sprintf("extraction panics: %s: %+v", et, r), rep)
		}
		// the extract command over the same sources (a provider of the library's "none" kind is a machine
		// without a TEE device): what it writes, and what it asks the network for, is what the library returns
		// (the command always has a provider object: the library's "no provider at all" has no command-line
		// counterpart, a machine without a TEE device is the row with the failing provider)
		if r.Provider != "none" {
			outC, etC, urlsC, cerr := runSourcesVia(r, true)
			if cerr != nil {
				run.Infra(cerr)
				return
			}
			if strings.HasPrefix(etC, "PANIC") {
				run.Violation("panic:command", fmt.Sprintf("the extract command panics: %s: %+v", etC, r), rep)
			} else if !bytes.Equal(out, outC) || (et == "") != (etC == "") || strings.Join(urls, " ") != strings.Join(urlsC, " ") {
				run.Violation("command-differs-from-library", fmt.Sprintf("the extract command over the same sources returns %s (error %q, requests %v); the library returns %s (error %q, requests %v): %+v", blobName(outC), etC, urlsC, blobName(out), et, urls, r), rep)
			}
		}
		if loc := localOf(r); loc != nil && !r.Force {
			if !bytes.Equal(out, loc) {
				run.Violation("local-evidence-not-returned:"+blobName(loc), fmt.Sprintf("local evidence (%s) is present and no fetch is forced, but extraction returned %s (%s): %+v", blobName(loc), blobName(out), et, r), rep)
			}
			if len(urls) > 0 {
				run.Violation("network-despite-local:"+blobName(loc), fmt.Sprintf("local evidence (%s) is present and no fetch is forced, but the network was accessed (%v): %+v", blobName(loc), urls, r), rep)
			}
		}
		for _, u := range urls {
			if urlKind(u) == "obj_wrong_technology" {
				run.Violation("fetch-from-other-technology", fmt.Sprintf("the object requested for the attestation's measurement lies in the other technology's tree (%s): object names are separated by technology: %+v", u, r), rep)
				continue
			}
			if k := urlKind(u); !strings.HasPrefix(k, "obj_full") && k != "uri_from_log" {
				run.Violation("fetch-without-measurement:"+k, fmt.Sprintf("a fetch was issued for %q, which is not derived from a full-length measurement: %+v", u, r), rep)
			}
		}
		if r.Quote == "snp_extra" || r.Quote == "snp_noextra" || r.Quote == "snp_bare_extra" || r.Quote == "snp_bare_noextra" || r.Quote == "report_only" || r.Quote == "tdx" {
			// the supplied attestation carries a full-length measurement: it decides the object and the evidence
			for _, u := range urls {
				if k := urlKind(u); k == "obj_full_provider" || k == "obj_full_other" {
					run.Violation("fetch-for-another-measurement", fmt.Sprintf("the supplied attestation names its own measurement, but the object of another measurement was requested (%s): %+v", u, r), rep)
				}
			}
			if bytes.Equal(out, provBlob) {
				run.Violation("supplied-attestation-ignored", fmt.Sprintf("the supplied attestation carries a measurement, but the local provider's certificate-table entry was returned: %+v", r), rep)
			}
		}
		if r.Force && out != nil && !bytes.Equal(out, netBlob) {
			run.Violation("forced-fetch-returns-local", fmt.Sprintf("a fetch was forced but local bytes were returned: %+v", r), rep)
		}
		var kinds []string
		for _, u := range urls {
			kinds = append(kinds, urlKind(u))
		}
		if blobName(out) != c.Out || strings.Join(kinds, ",") != strings.Join(c.Reqs, ",") {
			mu.Lock()
			drift++
			if drift <= 5 {
				fmt.Printf("DRIFT property=C16 row %+v: real %s %v (%s), Discovery.tla says %s %v\n", r, blobName(out), kinds, et, c.Out, c.Reqs)
			}
			mu.Unlock()
		}
		run.Case(string(em.Cases[i]), true)
		if i%601 == 0 {
			run.Sample(map[string]any{"row": r, "returned": blobName(out), "urls": kinds, "spec": c.Out})
		}
	})
	run.AddDrift(drift)
	checkNames(run)
	checkEvents(run)
	run.Exhaustive = true
	checkExtractCommand(run)
	checkExtractOnRealFiles(run)
	checkLargeEventLogs(run)
	run.Rule = "every row of Discovery.tla: 13 event-log shapes x 17 quote formats (incl. the bare certificate table as hex / base64 text in five layouts) x 4 providers x 3 getters x forced/unforced (real event-log files, efivarfs directory, quotes, recording provider/getter), and every variable name of up to 4 path components over {plain, .., /, link-out, link-in, missing} resolved by the real EfiVarFSReader on a directory tree with real symbolic links and sentinel files outside the root; plus injectivity / round trip of object names and the round trip of the events the signer emits"
}

// ---- object names ----
func checkNames(run *vk.Run) {
	seen := map[string]string{}
	var ms [][]byte
	base := rp.Meas("name-base")
	ms = append(ms, base, make([]byte, 48), bytes.Repeat([]byte{0xff}, 48))
	for bit := 0; bit < 48*8; bit += 7 {
		c := append([]byte{}, base...)
		c[bit/8] ^= 1 << (bit % 8)
		ms = append(ms, c)
	}
	for _, m := range ms {
		for _, tech := range []string{"sevsnp", "tdx"} {
			var name string
			if tech == "sevsnp" {
				name = extractsev.GCETcbObjectName(sev.GCEUefiFamilyID, m)
			} else {
				name = extracttdx.GCETcbObjectName(m)
			}
			id := tech + ":" + hex.EncodeToString(m)
			if prev, ok := seen[name]; ok && prev != id {
				run.Violation("object-name-collision", fmt.Sprintf("object name %q is shared by %s and %s", name, prev, id), nil)
			}
			seen[name] = id
			mm := regexp.MustCompile(`^ovmf_x64_csm/(sevsnp|tdx)/([0-9a-f]+)\.binarypb$`).FindStringSubmatch(name)
			if mm == nil || mm[1] != tech || mm[2] != hex.EncodeToString(m) {
				run.Violation("object-name-roundtrip", fmt.Sprintf("object name %q does not parse back to (%s, %x)", name, tech, m), nil)
			}
			if !objRe.MatchString(verify.GCETcbURL(name)) {
				run.Violation("object-name-roundtrip", fmt.Sprintf("URL %q of object %q is not of the bucket form", verify.GCETcbURL(name), name), nil)
			}
			run.Case("name:"+id, true)
		}
	}
}

// ---- emitted events ----
func checkEvents(run *vk.Run) {
	m, err := rp.GetMaterial()
	if err != nil {
		run.Infra(err)
		return
	}
	for k := 0; k < 8; k++ {
		digest := rp.Meas(fmt.Sprintf("image-%d", k))
		e := rp.Endorse(rp.GoldenSpec{Digest: digest, Timestamp: time.Now(), ClSpec: 1, Cert: m.SignCert.Raw, Snp: map[uint32][]byte{1: rp.Meas("x")}}.Proto(), m.S)
		b, err := endorse.MakeEventsForVerif(fx.NewLockedRand(int64(k+1)), e)
		if err != nil {
			run.Violation("events-not-emitted", "makeEvents fails: "+err.Error(), nil)
			continue
		}
		evs := &evpb.Sp800155Events{}
		if err := proto.Unmarshal(b, evs); err != nil || len(evs.Events) != 2 {
			run.Violation("events-roundtrip", fmt.Sprintf("emitted events do not parse as two events (%v, %d)", err, len(evs.GetEvents())), nil)
			continue
		}
		var parsed []*eventlog.SP800155Event3
		for _, raw := range evs.Events {
			ev := &eventlog.SP800155Event3{}
			if len(raw) < 16 || !bytes.Equal(raw[:16], eventlog.TcgSP800155Event3Signature[:]) {
				run.Violation("events-roundtrip", "emitted event lacks the SP800-155 Event3 signature", nil)
				continue
			}
			if err := ev.UnmarshalFromBytes(raw[16:]); err != nil {
				run.Violation("events-roundtrip", "emitted event does not parse back: "+err.Error(), nil)
				continue
			}
			re, _ := ev.MarshalToBytes()
			if !bytes.Equal(re, raw) {
				run.Violation("events-roundtrip", "emitted event does not re-encode to the emitted bytes", nil)
			}
			parsed = append(parsed, ev)
		}
		if len(parsed) != 2 {
			continue
		}
		v, u := parsed[0], parsed[1]
		wantVar := append(efiGUID(googleVarGUID), ucs2("FirmwareRIM")...)
		if v.RIMLocatorType != eventlog.RIMLocationVariable || !bytes.Equal(v.RIMLocator.Data, wantVar) {
			run.Violation("events-content", "first emitted event is not the FirmwareRIM UEFI-variable locator under the Google GUID", nil)
		}
		wantURI := verify.GCETcbURL("ovmf_x64_csm/" + hex.EncodeToString(digest) + ".fd.signed")
		if u.RIMLocatorType != eventlog.RIMLocationURI || string(u.RIMLocator.Data) != wantURI {
			run.Violation("events-content", fmt.Sprintf("second emitted event is not the URI locator of the image digest: %q", u.RIMLocator.Data), nil)
		}
		if v.ReferenceManifestGUID != u.ReferenceManifestGUID {
			run.Violation("events-content", "the two emitted events carry different manifest GUIDs", nil)
		}
		if v.FirmwareManufacturerStr.Data != extract.GCEFirmwareManufacturer || u.FirmwareManufacturerStr.Data != extract.GCEFirmwareManufacturer {
			run.Violation("events-content", "emitted events do not name the GCE firmware manufacturer", nil)
		}
		run.Case(fmt.Sprintf("events:%d", k), true)
	}
}

// ---- the validator's own fetch ----
var (
	valOnce sync.Once
	valEndo []byte
	valRoot *x509.CertPool
	valErr  error
)

// checkValidator runs one "validator" row: verify.SNPValidateFunc over an attestation whose
// certificate table carries no GCE entry, with the endorsement supplied through the options, as the
// blob argument, both, or not at all.
func checkValidator(run *vk.Run, raw json.RawMessage) {
	var c struct {
		Row  srcRow   `json:"row"`
		Out  string   `json:"out"`
		Reqs []string `json:"reqs"`
	}
	if err := json.Unmarshal(raw, &c); err != nil {
		run.Infra(err)
		return
	}
	valOnce.Do(func() {
		m, err := rp.GetMaterial()
		if err != nil {
			valErr = err
			return
		}
		doc := rp.GoldenSpec{Snp: map[uint32][]byte{1: quoteMeas}, Digest: rp.Meas("digest"), Timestamp: time.Date(2025, 6, 1, 0, 0, 0, 0, time.UTC), ClSpec: 1, Cert: m.SignCert.Raw, Svn: 1}.Proto()
		valEndo, _ = proto.Marshal(rp.Endorse(doc, m.S))
		valRoot = x509.NewCertPool()
		valRoot.AddCert(m.RootCert)
	})
	if valErr != nil {
		run.Infra(valErr)
		return
	}
	r := c.Row
	meas := quoteMeas
	if r.Meas == "short" {
		meas = quoteMeas[:20]
	}
	at := &spb.Attestation{Report: rp.Report(meas), CertificateChain: &spb.CertificateChain{}}
	opts := &verify.Options{RootsOfTrust: valRoot, Now: time.Date(2026, 1, 1, 0, 0, 0, 0, time.UTC)}
	var g *rp.MapGetter
	if r.Getter != "none" {
		g = &rp.MapGetter{}
		if r.Getter == "ok" {
			g.Any = valEndo
		}
		opts.Getter = g
	}
	var blob []byte
	if r.Supplied == "opts" || r.Supplied == "both" {
		e := &epb.VMLaunchEndorsement{}
		proto.Unmarshal(valEndo, e)
		opts.Endorsement = e
	}
	if r.Supplied == "blob" || r.Supplied == "both" {
		blob = valEndo
	}
	var verr error
	func() {
		defer func() {
			if p := recover(); p != nil {
				verr = fmt.Errorf("PANIC: %v", p)
			}
		}()
		verr = verify.SNPValidateFunc(opts)(at, blob)
	}()
	var urls, kinds []string
	if g != nil {
		urls = g.URLs
	}
	for _, u := range urls {
		kinds = append(kinds, urlKind(u))
	}
	rep := map[string]any{"row": r, "error": fmt.Sprint(verr), "urls": urls}
	if r.Supplied != "none" && len(urls) > 0 {
		run.Violation("validator-network-despite-endorsement", fmt.Sprintf("the validator was given the endorsement (%s) and still accessed the network (%v)", r.Supplied, urls), rep)
	}
	if r.Supplied != "none" && r.Meas == "full" && verr != nil {
		run.Violation("validator-needs-network", fmt.Sprintf("the validator was given a genuine endorsement (%s) for the report and fails with getter=%s: %v", r.Supplied, r.Getter, verr), rep)
	}
	for _, u := range urls {
		if k := urlKind(u); !strings.HasPrefix(k, "obj_full") {
			run.Violation("fetch-without-measurement:"+k, fmt.Sprintf("the validator fetched %q, which is not derived from a full-length measurement: %+v", u, r), rep)
		}
	}
	got := "ok"
	if verr != nil {
		got = "err"
	}
	if got != c.Out || strings.Join(kinds, ",") != strings.Join(c.Reqs, ",") {
		run.AddDrift(1)
		fmt.Printf("DRIFT property=C16 validator row %+v: real %s %v (%v), Discovery.tla says %s %v\n", r, got, kinds, verr, c.Out, c.Reqs)
	}
	run.Case(string(raw), true)
}
