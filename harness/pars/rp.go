// C07: relying-party decoders on untrusted bytes. Parsers.tla enumerates the size-prefixed /
// count-prefixed / locator / field-presence skeletons; every row becomes real bytes for the real
// entry points, which run in a guarded child process (panic recovery, watchdog, allocation meter,
// address-space limit). Genuine objects are additionally truncated at every length and mutated
// byte-wise and field-wise.
package pars

import (
	"bytes"
	"context"
	"crypto/x509"
	"encoding/base64"
	"encoding/binary"
	"encoding/hex"
	"encoding/json"
	"encoding/pem"
	"fmt"
	"io"
	"math/rand"
	"os"
	"path/filepath"
	"sort"
	"strings"
	"sync"
	"time"

	"github.com/google/gce-tcb-verifier/eventlog"
	"github.com/google/gce-tcb-verifier/extract"
	exel "github.com/google/gce-tcb-verifier/extract/eventlog"
	"github.com/google/gce-tcb-verifier/extract/extractsev"
	gtb "github.com/google/gce-tcb-verifier/gcetcbendorsement"
	oabi "github.com/google/gce-tcb-verifier/ovmf/abi"
	epb "github.com/google/gce-tcb-verifier/proto/endorsement"
	"github.com/google/gce-tcb-verifier/sev"
	"github.com/google/gce-tcb-verifier/verify"
	sabi "github.com/google/go-sev-guest/abi"
	cpb "github.com/google/go-sev-guest/proto/check"
	spb "github.com/google/go-sev-guest/proto/sevsnp"
	tpb "github.com/google/go-tdx-guest/proto/tdx"
	"github.com/google/go-tdx-guest/testing/testdata"
	tpmpb "github.com/google/go-tpm-tools/proto/attest"
	"github.com/google/uuid"
	"google.golang.org/protobuf/proto"
	"google.golang.org/protobuf/reflect/protoreflect"
	fmpb "google.golang.org/protobuf/types/known/fieldmaskpb"

	"verifharness/rp"
	"verifharness/vk"
)

type rpCase struct {
	Target string `json:"t"`
	Data   []byte `json:"d"`
	Key    string `json:"k"`
	Expect string `json:"x,omitempty"` // outcome Parsers.tla predicts (informational; drift when different)
}

// ---------------------------------------------------------------------------------------------
// child side

type rpEnv struct {
	endorsement *epb.VMLaunchEndorsement
	roots       *x509.CertPool
	now         time.Time
	dir         string
}

var (
	rpEnvOnce sync.Once
	rpEnvVal  *rpEnv
)

func getRpEnv() *rpEnv {
	rpEnvOnce.Do(func() {
		e := &rpEnv{roots: x509.NewCertPool(), dir: os.Getenv("VERIF_C07_DIR")}
		e.roots.AppendCertsFromPEM([]byte(os.Getenv("VERIF_C07_ROOT")))
		e.now, _ = time.Parse(time.RFC3339, os.Getenv("VERIF_C07_NOW"))
		e.endorsement = &epb.VMLaunchEndorsement{}
		if b, err := base64.StdEncoding.DecodeString(os.Getenv("VERIF_C07_ENDORSEMENT")); err == nil {
			proto.Unmarshal(b, e.endorsement)
		}
		if e.dir == "" {
			e.dir, _ = os.MkdirTemp("", "verif-c07-child")
		}
		os.MkdirAll(filepath.Join(e.dir, "efivars"), 0o755)
		rpEnvVal = e
	})
	return rpEnvVal
}

type failGetter struct{ n int }

func (g *failGetter) Get(string) ([]byte, error) {
	g.n++
	return nil, fmt.Errorf("network unavailable")
}

type recReader struct{ calls int }

func (r *recReader) ReadVariable(uuid.UUID, []uint8) ([]byte, error) {
	r.calls++
	return nil, fmt.Errorf("no such variable")
}

type sink struct{ n int }

func (s *sink) Write(p []byte) (int, error) { s.n += len(p); return len(p), nil }

func oc(err error) string {
	if err != nil {
		return "err"
	}
	return "ok"
}

var inspectMasks = [][]string{{"digest"}, {"timestamp"}, {"cl_spec"}, {"commit"}, {"cert"}, {"sev_snp"}, {"sev_snp.measurements"}, {"sev_snp.policy"},
	{"sev_snp.svsm_measurement"}, {"sev_snp.ca_bundle"}, {"tdx"}, {"tdx.measurements"}, {"tdx.svn"}, {"digest", "timestamp", "sev_snp.svn", "tdx"}, {"no_such_field"}, {""}, {"sev_snp..x"}}

func rpEndorsement(data []byte) error {
	e := getRpEnv()
	v := verify.Endorsement(data, &verify.Options{RootsOfTrust: e.roots, Now: e.now})
	verify.Endorsement(data, &verify.Options{RootsOfTrust: e.roots, Now: e.now, SNP: &verify.SNPOptions{Measurement: rp.Meas("p1"), ExpectedLaunchVMSAs: 1},
		ExpectedUefiSha384: rp.Meas("digest")})
	verify.Endorsement(data, &verify.Options{Now: e.now})
	en := &epb.VMLaunchEndorsement{}
	if err := proto.Unmarshal(data, en); err != nil {
		return vk.ChildInfo(fmt.Sprintf("verify=%s sev=err tdx=err", oc(v)))
	}
	ctx := context.Background()
	_, s := gtb.SevPolicy(ctx, en, &gtb.SevPolicyOptions{AllowUnspecifiedVmsas: true})
	gtb.SevPolicy(ctx, en, &gtb.SevPolicyOptions{LaunchVmsas: 1})
	gtb.SevPolicy(ctx, en, &gtb.SevPolicyOptions{LaunchVmsas: 7, Overwrite: true, Base: &cpb.Policy{Measurement: rp.Meas("base"), MinimumGuestSvn: 3}})
	gtb.SevPolicy(ctx, en, &gtb.SevPolicyOptions{})
	_, t := gtb.TdxPolicy(ctx, en, &gtb.TdxPolicyOptions{})
	gtb.TdxPolicy(ctx, en, &gtb.TdxPolicyOptions{RAMGiB: 4})
	gtb.TdxPolicy(ctx, en, &gtb.TdxPolicyOptions{RAMGiB: 1 << 20, Overwrite: true})
	for _, form := range []string{"bin", "hex", "base64", "auto"} {
		f, _ := gtb.ParseBytesForm(form)
		ictx := gtb.WithInspect(ctx, &gtb.Inspect{Writer: gtb.NonterminalWriter{Writer: &sink{}}, Form: f})
		gtb.InspectSignature(ictx, en)
		gtb.InspectPayload(ictx, en)
		for _, m := range inspectMasks {
			gtb.InspectMask(ictx, en, &fmpb.FieldMask{Paths: m})
		}
	}
	// the endorsement as seen through an attestation's certificate table
	at := &spb.Attestation{Report: rp.Report(rp.Meas("p1")), CertificateChain: &spb.CertificateChain{Extras: map[string][]byte{sev.GCEFwCertGUID: data}}}
	gtb.SevValidate(ctx, at, &gtb.SevValidateOptions{RootsOfTrust: e.roots, Now: e.now, Getter: &failGetter{}, ExpectedLaunchVmsas: 1})
	verify.SNPValidateFunc(&verify.Options{RootsOfTrust: e.roots, Now: e.now})(at, data)
	return vk.ChildInfo(fmt.Sprintf("verify=%s sev=%s tdx=%s", oc(v), oc(s), oc(t)))
}

func rpQuote(data []byte) error {
	e := getRpEnv()
	ctx := context.Background()
	tpm, aerr := extract.Attestation(data)
	g := &failGetter{}
	_, xerr := extract.Endorsement(&extract.Options{Quote: data, Getter: g, UEFIVariableReader: &recReader{}})
	extractsev.FromCertTable(data)
	// (TdxValidate without an endorsement uses the default network getter: always give one)
	gtb.TdxValidate(ctx, data, &gtb.TdxValidateOptions{RootsOfTrust: e.roots, Now: e.now, Getter: &failGetter{}, Endorsement: e.endorsement})
	gtb.TdxValidate(ctx, data, &gtb.TdxValidateOptions{RootsOfTrust: e.roots, Now: e.now, Getter: &failGetter{}, Endorsement: e.endorsement, ExpectedRAMGiB: 4, Overwrite: true})
	if aerr == nil && tpm != nil {
		if at := tpm.GetSevSnpAttestation(); at != nil {
			extractsev.FromAttestation(at)
			gtb.SevValidate(ctx, at, &gtb.SevValidateOptions{RootsOfTrust: e.roots, Now: e.now, Getter: &failGetter{}})
			gtb.SevValidate(ctx, at, &gtb.SevValidateOptions{RootsOfTrust: e.roots, Now: e.now, ExpectedLaunchVmsas: 2, TestonlyForceGCS: true, Getter: &failGetter{}})
			verify.SNPValidateFunc(&verify.Options{RootsOfTrust: e.roots, Now: e.now, Getter: &failGetter{}})(at, nil)
			verify.SNPFamilyValidateFunc("", &verify.Options{RootsOfTrust: e.roots, Now: e.now, Getter: &failGetter{}})(at, []byte{})
		}
	}
	// the same bytes as a serialized sevsnp attestation
	sat := &spb.Attestation{}
	if proto.Unmarshal(data, sat) == nil {
		gtb.SevValidate(ctx, sat, &gtb.SevValidateOptions{RootsOfTrust: e.roots, Now: e.now, Getter: &failGetter{}})
		extractsev.FromAttestation(sat)
	}
	return vk.ChildInfo(fmt.Sprintf("attestation=%s endorsement=%s", oc(aerr), oc(xerr)))
}

func rpEventLog(data []byte) error {
	e := getRpEnv()
	el := &eventlog.CryptoAgileLog{}
	uerr := el.Unmarshal(bytes.NewReader(data))
	evs := exel.RIMEventsFromEventLog(el)
	n := 0
	for _, list := range evs {
		for _, ev := range list {
			n++
			exel.Locate(ev.RIMLocatorType, ev.RIMLocator.Data, &exel.LocateOptions{Getter: &failGetter{}, UEFIVariableReader: exel.MakeEfiVarFSReader(filepath.Join(e.dir, "efivars"))})
			exel.Locate(ev.PlatformCertLocatorType, ev.PlatformCertLocator.Data, &exel.LocateOptions{Getter: &failGetter{}, UEFIVariableReader: &recReader{}})
		}
	}
	// the whole discovery path over the file
	f := filepath.Join(e.dir, fmt.Sprintf("el-%d", os.Getpid()))
	if err := os.WriteFile(f, data, 0o600); err != nil {
		return err
	}
	defer os.Remove(f)
	for _, man := range []string{"", extract.GCEFirmwareManufacturer} {
		extract.Endorsement(&extract.Options{EventLogLocation: f, FirmwareManufacturer: man, Getter: &failGetter{},
			UEFIVariableReader: exel.MakeEfiVarFSReader(filepath.Join(e.dir, "efivars")), Quote: []byte{}})
	}
	// a reader that returns one byte at a time (short reads are legal for io.Reader)
	el2 := &eventlog.CryptoAgileLog{}
	el2.Unmarshal(iotestOneByte{bytes.NewReader(data)})
	return vk.ChildInfo(fmt.Sprintf("unmarshal=%s events=%d rim=%d", oc(uerr), len(el.Events), n))
}

type iotestOneByte struct{ r io.Reader }

func (o iotestOneByte) Read(p []byte) (int, error) {
	if len(p) == 0 {
		return 0, nil
	}
	return o.r.Read(p[:1])
}

func rpReader(kind string, data []byte) error {
	var u interface{ Unmarshal(io.Reader) error }
	switch kind {
	case "TCGEventData":
		u = &eventlog.TCGEventData{}
	case "Uint32SizedArray":
		u = &eventlog.Uint32SizedArray{}
	case "ByteSizedCStr":
		u = &eventlog.ByteSizedCStr{}
	case "Digests":
		u = &eventlog.Uint32SizedArrayT[*eventlog.TaggedDigest]{}
	case "TCGPCREvent2":
		u = &eventlog.TCGPCREvent2{}
	case "TCGPCClientPCREvent":
		u = &eventlog.TCGPCClientPCREvent{}
	case "EfiGUID":
		u = &eventlog.EfiGUID{}
	case "TaggedDigest":
		u = &eventlog.TaggedDigest{}
	case "SP800155Event3":
		ev := &eventlog.SP800155Event3{}
		err := ev.UnmarshalFromBytes(data)
		return vk.ChildInfo("unmarshal=" + oc(err))
	default:
		return fmt.Errorf("unknown reader %s", kind)
	}
	err := u.Unmarshal(bytes.NewReader(data))
	return vk.ChildInfo("unmarshal=" + oc(err))
}

func rpLocator(data []byte) error {
	e := getRpEnv()
	rec := &recReader{}
	_, err := exel.Locate(eventlog.RIMLocationVariable, data, &exel.LocateOptions{UEFIVariableReader: rec})
	real := exel.MakeEfiVarFSReader(filepath.Join(e.dir, "efivars"))
	exel.Locate(eventlog.RIMLocationVariable, data, &exel.LocateOptions{UEFIVariableReader: real})
	exel.Locate(eventlog.RIMLocationRaw, data, &exel.LocateOptions{})
	exel.Locate(eventlog.RIMLocationURI, data, &exel.LocateOptions{Getter: &failGetter{}})
	exel.Locate(eventlog.RIMLocationURI, data, &exel.LocateOptions{})
	exel.Locate(eventlog.RIMLocationLocal, data, &exel.LocateOptions{UEFIVariableReader: real, Getter: &failGetter{}})
	exel.Locate(eventlog.RIMLocationLocal, data, &exel.LocateOptions{})
	exel.Locate(77, data, &exel.LocateOptions{})
	_ = err
	dec := "err"
	if rec.calls > 0 {
		dec = "ok"
	}
	return vk.ChildInfo("decode=" + dec)
}

func rpVarName(data []byte) error {
	e := getRpEnv()
	real := exel.MakeEfiVarFSReader(filepath.Join(e.dir, "efivars"))
	_, err := real.ReadVariable(uuid.MustParse(sev.GCEFwCertGUID), data)
	return vk.ChildInfo("read=" + oc(err))
}

func runRp(raw json.RawMessage) error {
	var c rpCase
	if err := json.Unmarshal(raw, &c); err != nil {
		return err
	}
	switch {
	case c.Target == "endorsement":
		return rpEndorsement(c.Data)
	case c.Target == "quote":
		return rpQuote(c.Data)
	case c.Target == "eventlog":
		return rpEventLog(c.Data)
	case c.Target == "locator":
		return rpLocator(c.Data)
	case c.Target == "varname":
		return rpVarName(c.Data)
	case strings.HasPrefix(c.Target, "reader:"):
		return rpReader(strings.TrimPrefix(c.Target, "reader:"), c.Data)
	}
	return fmt.Errorf("unknown target %q", c.Target)
}

func init() { vk.ChildHandlers["rp"] = runRp }

// ---------------------------------------------------------------------------------------------
// parent side: generation

func le32b(v uint32) []byte { var b [4]byte; binary.LittleEndian.PutUint32(b[:], v); return b[:] }

// scaleDeclared maps a reduced-width (declared, present) pair to real declared sizes: the pair
// itself, and for declared > present the 32-bit extremes.
func scaleDeclared(d, r int) []uint32 {
	out := []uint32{uint32(d)}
	if d > r {
		out = append(out, uint32(r)+uint32(d-r)<<20, 0x7fffffff, 0x80000000, 0xfffffff0+uint32(d), 0xffffffff)
	}
	return out
}

type endoRow struct {
	Parses, Golden, Timestamp, Late, Prov, Cert, Sig, Sevsnp, Tdx, Tdxmeas bool
	Bundle                                                                 string
}

func pemCert(der []byte) []byte {
	return pem.EncodeToMemory(&pem.Block{Type: "CERTIFICATE", Bytes: der})
}

func ucs2le(s string) []byte {
	var b []byte
	for _, r := range s {
		b = append(b, byte(r), byte(r>>8))
	}
	return append(b, 0, 0)
}

func efiGUIDBytes(s string) []byte {
	var b [16]byte
	oabi.PutUUID(b[:], uuid.MustParse(s))
	return b[:]
}

func sp800155(loctype uint32, loc []byte, man string) *eventlog.SP800155Event3 {
	return &eventlog.SP800155Event3{PlatformManufacturerStr: eventlog.ByteSizedCStr{Data: "Google"}, PlatformModel: eventlog.ByteSizedCStr{Data: "model"},
		FirmwareManufacturerStr: eventlog.ByteSizedCStr{Data: man}, FirmwareVersion: eventlog.ByteSizedCStr{Data: "1"},
		RIMLocatorType: loctype, RIMLocator: eventlog.Uint32SizedArray{Data: loc}, PlatformCertLocator: eventlog.Uint32SizedArray{Data: []byte("x")}}
}

func genuineEventLog(blob []byte) ([]byte, error) {
	el := &eventlog.CryptoAgileLog{Header: eventlog.TCGPCClientPCREvent{EventType: eventlog.EvNoAction, EventData: eventlog.TCGEventData{Event: &eventlog.UnknownEvent{Data: []byte("Spec ID Event03\x00 and some more header bytes")}}}}
	d := func() eventlog.Uint32SizedArrayT[*eventlog.TaggedDigest] {
		return eventlog.Uint32SizedArrayT[*eventlog.TaggedDigest]{Array: []*eventlog.TaggedDigest{{AlgID: 4, Digest: make([]byte, 20)}, {AlgID: 0xb, Digest: make([]byte, 32)}, {AlgID: 0xc, Digest: make([]byte, 48)}}}
	}
	loc := append(efiGUIDBytes(sev.GCEFwCertGUID), ucs2le("FirmwareRIM")...)
	el.Events = append(el.Events,
		&eventlog.TCGPCREvent2{PCRIndex: 0, EventType: 8, Digests: d(), EventData: eventlog.TCGEventData{Event: &eventlog.UnknownEvent{Data: []byte("short")}}},
		&eventlog.TCGPCREvent2{EventType: eventlog.EvNoAction, Digests: d(), EventData: eventlog.TCGEventData{Event: sp800155(eventlog.RIMLocationVariable, loc, extract.GCEFirmwareManufacturer)}},
		&eventlog.TCGPCREvent2{EventType: eventlog.EvNoAction, Digests: d(), EventData: eventlog.TCGEventData{Event: sp800155(eventlog.RIMLocationRaw, blob, "Other")}},
		&eventlog.TCGPCREvent2{EventType: eventlog.EvNoAction, Digests: d(), EventData: eventlog.TCGEventData{Event: sp800155(eventlog.RIMLocationURI, []byte("https://example.com/x"), "Third")}},
		&eventlog.TCGPCREvent2{PCRIndex: 7, EventType: 0x80000001, Digests: d(), EventData: eventlog.TCGEventData{Event: &eventlog.UnknownEvent{Data: bytes.Repeat([]byte{0xa5}, 40)}}},
	)
	var b bytes.Buffer
	if err := el.Marshal(&b); err != nil {
		return nil, err
	}
	return b.Bytes(), nil
}

// sizeFieldOffsets walks a marshalled genuine log with the known grammar and returns the offsets
// of every 32-bit size / count field and every 8-bit size field.
func sizeFieldOffsets(log []byte) (u32 []int, u8 []int) {
	p := 0
	rd32 := func() uint32 { v := binary.LittleEndian.Uint32(log[p:]); p += 4; return v }
	eventData := func() {
		u32 = append(u32, p)
		n := int(rd32())
		body := p
		if n >= 16 && hex.EncodeToString(log[p:p+16]) == hex.EncodeToString(eventlog.TcgSP800155Event3Signature[:]) {
			q := p + 16 + 4 + 16
			for i := 0; i < 4; i++ { // four byte-sized strings, an ID between the 4th and 5th
				u8 = append(u8, q)
				q += 1 + int(log[q])
				if i == 3 {
					q += 4
					u8 = append(u8, q)
					q += 1 + int(log[q])
				}
			}
			for i := 0; i < 2; i++ {
				q += 4 // locator type
				u32 = append(u32, q)
				q += 4 + int(binary.LittleEndian.Uint32(log[q:]))
			}
		}
		p = body + n
	}
	// header
	p = 4 + 4 + 20
	eventData()
	for p < len(log) {
		p += 8
		u32 = append(u32, p)
		cnt := int(rd32())
		for i := 0; i < cnt; i++ {
			alg := binary.LittleEndian.Uint16(log[p:])
			p += 2 + map[uint16]int{4: 20, 0xb: 32, 0xc: 48, 0xd: 64}[alg]
		}
		eventData()
	}
	return
}

// protoMutations returns field-level mutations of m (cloned each time), recursing into
// sub-messages. Each mutation is returned with a label.
func protoMutations(m proto.Message, prefix string, out func(label string, mm proto.Message), root proto.Message, path []protoreflect.FieldDescriptor) {
	if root == nil {
		root = m
	}
	fds := m.ProtoReflect().Descriptor().Fields()
	for i := 0; i < fds.Len(); i++ {
		fd := fds.Get(i)
		name := prefix + string(fd.Name())
		apply := func(label string, f func(msg protoreflect.Message)) {
			c := proto.Clone(root)
			cur := c.ProtoReflect()
			for _, pfd := range path {
				cur = cur.Mutable(pfd).Message()
			}
			f(cur)
			out(name+":"+label, c)
		}
		apply("clear", func(msg protoreflect.Message) { msg.Clear(fd) })
		switch {
		case fd.IsMap():
			apply("emptymap", func(msg protoreflect.Message) { msg.Clear(fd); msg.Mutable(fd).Map() })
			if fd.MapValue().Kind() == protoreflect.BytesKind && fd.MapKey().Kind() == protoreflect.Uint32Kind {
				for _, k := range []uint32{0, 1, 3, 0xffffffff} {
					for _, n := range []int{0, 1, 47, 48, 49, 1 << 16} {
						k, n := k, n
						apply(fmt.Sprintf("map[%d]=len%d", k, n), func(msg protoreflect.Message) {
							msg.Mutable(fd).Map().Set(protoreflect.ValueOfUint32(k).MapKey(), protoreflect.ValueOfBytes(bytes.Repeat([]byte{0x5a}, n)))
						})
					}
				}
			}
			if fd.MapValue().Kind() == protoreflect.BytesKind && fd.MapKey().Kind() == protoreflect.StringKind {
				for _, k := range []string{"", sev.GCEFwCertGUID, "not-a-guid", strings.Repeat("g", 70000)} {
					k := k
					apply(fmt.Sprintf("map[%.12q]", k), func(msg protoreflect.Message) {
						msg.Mutable(fd).Map().Set(protoreflect.ValueOfString(k).MapKey(), protoreflect.ValueOfBytes([]byte{1, 2, 3}))
					})
				}
			}
		case fd.IsList():
			apply("emptylist", func(msg protoreflect.Message) { msg.Clear(fd); msg.Mutable(fd).List() })
			if fd.Kind() == protoreflect.MessageKind {
				apply("append-empty", func(msg protoreflect.Message) { l := msg.Mutable(fd).List(); l.Append(l.NewElement()) })
				apply("dup", func(msg protoreflect.Message) {
					l := msg.Mutable(fd).List()
					if l.Len() > 0 {
						l.Append(protoreflect.ValueOfMessage(proto.Clone(l.Get(0).Message().Interface()).ProtoReflect()))
					}
				})
			}
		case fd.Kind() == protoreflect.BytesKind:
			cur := m.ProtoReflect().Get(fd).Bytes()
			lens := []int{0, 1, len(cur) - 1, len(cur) + 1, 2 * len(cur), 1 << 16, 1 << 20}
			for _, n := range lens {
				if n < 0 {
					continue
				}
				n := n
				apply(fmt.Sprintf("len%d", n), func(msg protoreflect.Message) {
					b := make([]byte, n)
					copy(b, cur)
					msg.Set(fd, protoreflect.ValueOfBytes(b))
				})
			}
			apply("flip", func(msg protoreflect.Message) {
				b := append([]byte{}, cur...)
				if len(b) > 0 {
					b[len(b)/2] ^= 0x40
				}
				msg.Set(fd, protoreflect.ValueOfBytes(b))
			})
		case fd.Kind() == protoreflect.Uint32Kind || fd.Kind() == protoreflect.Fixed32Kind:
			for _, v := range []uint32{0, 1, 0x7fffffff, 0xffffffff} {
				v := v
				apply(fmt.Sprintf("=%d", v), func(msg protoreflect.Message) { msg.Set(fd, protoreflect.ValueOfUint32(v)) })
			}
		case fd.Kind() == protoreflect.Uint64Kind || fd.Kind() == protoreflect.Fixed64Kind:
			for _, v := range []uint64{0, 1, 1 << 63, ^uint64(0)} {
				v := v
				apply(fmt.Sprintf("=%d", v), func(msg protoreflect.Message) { msg.Set(fd, protoreflect.ValueOfUint64(v)) })
			}
		case fd.Kind() == protoreflect.Int64Kind:
			for _, v := range []int64{0, -1, 1 << 62, -1 << 63, 253402300800, -62135596801} {
				v := v
				apply(fmt.Sprintf("=%d", v), func(msg protoreflect.Message) { msg.Set(fd, protoreflect.ValueOfInt64(v)) })
			}
		case fd.Kind() == protoreflect.Int32Kind:
			for _, v := range []int32{0, -1, 999999999, 1000000000, -1 << 31, 1<<31 - 1} {
				v := v
				apply(fmt.Sprintf("=%d", v), func(msg protoreflect.Message) { msg.Set(fd, protoreflect.ValueOfInt32(v)) })
			}
		case fd.Kind() == protoreflect.StringKind:
			for _, v := range []string{"", "x", strings.Repeat("y", 1<<16), "\xff\xfe"} {
				v := v
				apply(fmt.Sprintf("=%.8q", v), func(msg protoreflect.Message) { msg.Set(fd, protoreflect.ValueOfString(v)) })
			}
		case fd.Kind() == protoreflect.MessageKind:
			apply("emptymsg", func(msg protoreflect.Message) { msg.Clear(fd); msg.Mutable(fd) })
			if m.ProtoReflect().Has(fd) && len(path) < 4 {
				protoMutations(m.ProtoReflect().Get(fd).Message().Interface(), name+".", out, root, append(append([]protoreflect.FieldDescriptor{}, path...), fd))
			}
		}
	}
}

// RunC07 decides C07.
func RunC07(run *vk.Run) {
	m, err := rp.GetMaterial()
	if err != nil {
		run.Infra(err)
		return
	}
	dir, err := os.MkdirTemp("", "verif-c07")
	if err != nil {
		run.Infra(err)
		return
	}
	defer os.RemoveAll(dir)
	now := time.Date(2026, 1, 1, 0, 0, 0, 0, time.UTC)
	os.Setenv("VERIF_C07_ROOT", string(pem.EncodeToMemory(&pem.Block{Type: "CERTIFICATE", Bytes: m.RootCert.Raw})))
	os.Setenv("VERIF_C07_NOW", now.Format(time.RFC3339))
	os.Setenv("VERIF_C07_DIR", dir)
	// a genuine variable in the efivarfs tree
	os.MkdirAll(filepath.Join(dir, "efivars"), 0o755)

	var cases []rpCase
	seen := map[string]bool{}
	add := func(c rpCase) {
		k := c.Target + "\x00" + string(c.Data)
		if !seen[k] {
			seen[k] = true
			cases = append(cases, c)
		}
	}
	tlc := func(w string, neg bool, fn func(raw json.RawMessage) error) bool {
		if neg {
			if _, err := vk.RunTLC(vk.TLCOpts{Module: "Parsers", Config: "Neg_Parsers_" + w + ".cfg", Timeout: 5 * time.Minute, ExpectViolation: true}); err != nil {
				run.Infra(err)
				return false
			}
		}
		em, err := vk.RunTLC(vk.TLCOpts{Module: "Parsers", Config: "Emit_Parsers_" + w + ".cfg", Workers: 1, Timeout: 10 * time.Minute})
		if err != nil {
			run.Infra(err)
			return false
		}
		run.AddTLC(em)
		for _, raw := range em.Cases {
			if err := fn(raw); err != nil {
				run.Infra(err)
				return false
			}
		}
		run.Extra["rows_"+w] = len(em.Cases)
		return true
	}

	// --- genuine objects
	ts := time.Date(2025, 6, 1, 0, 0, 0, 0, time.UTC)
	gspec := rp.GoldenSpec{Snp: map[uint32][]byte{1: rp.Meas("p1"), 2: rp.Meas("p2")}, Svsm: rp.Meas("svsm"),
		Tdx:    []*epb.VMTdx_Measurement{{RamGib: 4, EarlyAccept: true, Mrtd: rp.Meas("mrtd4")}, {RamGib: 8, Mrtd: rp.Meas("mrtd8")}},
		Digest: rp.Meas("digest"), Timestamp: ts, ClSpec: 1234, Commit: []byte("0123456789abcdef0123"), Cert: m.SignCert.Raw, Svn: 2}
	gspecBundle := gspec
	gspecBundle.CaBundle = append(pemCert(m.SignCert.Raw), pemCert(m.ForeignCert.Raw)...)
	genuineDoc := gspecBundle.Proto()
	genuine := rp.Endorse(genuineDoc, m.S)
	genuineBytes, _ := proto.Marshal(genuine)

	os.Setenv("VERIF_C07_ENDORSEMENT", base64.StdEncoding.EncodeToString(genuineBytes))
	report := rp.Report(rp.Meas("p1"))
	report.Signature = make([]byte, sabi.SignatureSize)
	report.Policy = rp.ProdPolicy
	report.SignatureAlgo = 1
	rawSnpReport, rawErr := sabi.ReportToAbiBytes(report)
	if rawErr != nil {
		rawSnpReport = nil
		run.Extra["raw_snp_report_unavailable"] = rawErr.Error()
	}

	// --- endofields rows
	garbage := []byte{0xff, 0xff, 0xff, 0xff, 0xff, 0xff, 0xff, 0xff, 0xff, 0xff, 0x7f, 1}
	if !tlc("endofields", true, func(raw json.RawMessage) error {
		var c struct {
			Row                   endoRow `json:"row"`
			Verify, Sev, Tdx, Res string
		}
		if err := json.Unmarshal(raw, &c); err != nil {
			return err
		}
		r := c.Row
		var data []byte
		if !r.Parses {
			data = garbage
		} else {
			en := &epb.VMLaunchEndorsement{}
			if !r.Golden {
				en.SerializedUefiGolden = garbage
			} else {
				g := gspec
				g.NoTime = !r.Timestamp
				if !r.Late {
					g.Timestamp = time.Date(2024, 1, 1, 0, 0, 0, 0, time.UTC)
				}
				if !r.Prov {
					g.ClSpec, g.Commit = 0, nil
				}
				if !r.Cert {
					g.Cert = nil
				}
				if !r.Sevsnp {
					g.Snp, g.Svsm = nil, nil
				}
				two := append(pemCert(m.SignCert.Raw), pemCert(m.ForeignCert.Raw)...)
				switch r.Bundle {
				case "two":
					g.CaBundle = two
				case "trailing":
					g.CaBundle = append(append([]byte{}, two...), '\n')
				case "three":
					g.CaBundle = append(append([]byte{}, two...), pemCert(m.RootCert.Raw)...)
				case "garbage":
					g.CaBundle = []byte("-----BEGIN CERTIFICATE-----\nno end")
				}
				if !r.Tdx {
					g.Tdx = nil
				} else if !r.Tdxmeas {
					g.Tdx = []*epb.VMTdx_Measurement{}
				}
				doc := g.Proto()
				if r.Tdx && doc.Tdx == nil {
					doc.Tdx = &epb.VMTdx{Svn: 1}
				}
				en.SerializedUefiGolden, _ = proto.MarshalOptions{Deterministic: true}.Marshal(doc)
			}
			if r.Sig {
				en.Signature = rp.SignPSS(m.S, en.SerializedUefiGolden)
			} else {
				en.Signature = []byte("not a signature")
			}
			data, _ = proto.Marshal(en)
		}
		add(rpCase{Target: "endorsement", Data: data, Key: "endofields", Expect: fmt.Sprintf("verify=%s sev=%s tdx=%s", c.Verify, c.Sev, c.Tdx)})
		return nil
	}) {
		return
	}

	// --- sized rows: every size-prefixed reader, declared vs present
	type dr struct {
		Row struct{ D, R int } `json:"row"`
		Res string             `json:"res"`
	}
	if !tlc("sized", true, func(raw json.RawMessage) error {
		var c dr
		if err := json.Unmarshal(raw, &c); err != nil {
			return err
		}
		body := bytes.Repeat([]byte{0x41}, c.Row.R)
		for _, decl := range scaleDeclared(c.Row.D, c.Row.R) {
			exp := "unmarshal=" + c.Res
			add(rpCase{Target: "reader:Uint32SizedArray", Data: append(le32b(decl), body...), Key: "sized", Expect: exp})
			add(rpCase{Target: "reader:TCGEventData", Data: append(le32b(decl), body...), Key: "sized", Expect: exp})
			// as the event data of the header event and of a crypto-agile event of a whole log
			hdr := append(append(le32b(0), le32b(3)...), make([]byte, 20)...)
			add(rpCase{Target: "eventlog", Data: append(append(append([]byte{}, hdr...), le32b(decl)...), body...), Key: "sized-header"})
			full := append(append([]byte{}, hdr...), le32b(0)...)
			full = append(full, le32b(0)...) // pcr
			full = append(full, le32b(3)...) // type
			full = append(full, le32b(0)...) // no digests
			add(rpCase{Target: "eventlog", Data: append(append(full, le32b(decl)...), body...), Key: "sized-event"})
			// an SP800-155 event whose locator declares decl bytes
			sig := append([]byte{}, eventlog.TcgSP800155Event3Signature[:]...)
			ev := append(sig, le32b(0)...)
			ev = append(ev, make([]byte, 16)...)
			for i := 0; i < 4; i++ {
				ev = append(ev, 1, 0)
				if i == 3 {
					ev = append(ev, le32b(0)...)
					ev = append(ev, 1, 0)
				}
			}
			ev = append(ev, le32b(0)...)
			ev = append(append(ev, le32b(decl)...), body...)
			add(rpCase{Target: "reader:TCGEventData", Data: append(le32b(uint32(len(ev))), ev...), Key: "sized-locator"})
			add(rpCase{Target: "reader:SP800155Event3", Data: ev[16:], Key: "sized-locator"})
		}
		if c.Row.D < 256 {
			// byte-sized string: ok needs the terminator as well
			add(rpCase{Target: "reader:ByteSizedCStr", Data: append([]byte{byte(c.Row.D)}, body...), Key: "sized8"})
			add(rpCase{Target: "reader:ByteSizedCStr", Data: append([]byte{byte(c.Row.D)}, make([]byte, c.Row.R)...), Key: "sized8"})
			if c.Row.D > c.Row.R {
				add(rpCase{Target: "reader:ByteSizedCStr", Data: append([]byte{byte(255 - c.Row.R)}, body...), Key: "sized8"})
			}
		}
		return nil
	}) {
		return
	}

	// --- counted rows: digest lists
	if !tlc("counted", true, func(raw json.RawMessage) error {
		var c dr
		if err := json.Unmarshal(raw, &c); err != nil {
			return err
		}
		var body []byte
		for i := 0; i < c.Row.R; i++ {
			body = append(body, 4, 0)
			body = append(body, make([]byte, 20)...)
		}
		for _, decl := range scaleDeclared(c.Row.D, c.Row.R) {
			add(rpCase{Target: "reader:Digests", Data: append(le32b(decl), body...), Key: "counted", Expect: "unmarshal=" + c.Res})
			ev := append(append(le32b(1), le32b(2)...), append(le32b(decl), body...)...)
			add(rpCase{Target: "reader:TCGPCREvent2", Data: ev, Key: "counted-event"})
			add(rpCase{Target: "reader:TCGPCREvent2", Data: append(ev, le32b(0)...), Key: "counted-event"})
		}
		return nil
	}) {
		return
	}

	// --- certtable rows: one header entry (offset, length) in a table of L units of 4 bytes
	if !tlc("certtable", true, func(raw json.RawMessage) error {
		var c struct {
			Row struct{ L, O, Ln int } `json:"row"`
			Res string                 `json:"res"`
		}
		if err := json.Unmarshal(raw, &c); err != nil {
			return err
		}
		const m2 = 32
		tbl := make([]byte, 4*c.Row.L)
		for i := 48; i < len(tbl); i++ {
			tbl[i] = byte(i)
		}
		off, ln := uint32(4*c.Row.O), uint32(4*c.Row.Ln)
		if c.Row.O+c.Row.Ln >= m2 { // the 32-bit sum wraps: keep the relation of the offset to the table
			if c.Row.O <= c.Row.L {
				ln = uint32(0x100000000 - uint64(4*(m2-c.Row.Ln)))
			} else {
				off = uint32(0x100000000 - uint64(4*(m2-c.Row.O)))
			}
		}
		copy(tbl, efiGUIDBytes(sev.GCEFwCertGUID))
		// go-sev-guest writes GUIDs big-endian (uuid bytes); use its own marshalling for the GUID
		g := uuid.MustParse(sev.GCEFwCertGUID)
		copy(tbl[0:16], g[:])
		binary.LittleEndian.PutUint32(tbl[16:], off)
		binary.LittleEndian.PutUint32(tbl[20:], ln)
		exp := ""
		if c.Res == "err" {
			exp = "attestation=err endorsement=err"
		}
		add(rpCase{Target: "quote", Data: tbl, Key: "certtable", Expect: exp})
		if rawSnpReport != nil {
			add(rpCase{Target: "quote", Data: append(append([]byte{}, rawSnpReport...), tbl...), Key: "certtable-after-report"})
		}
		return nil
	}) {
		return
	}

	// --- locator rows
	if !tlc("locator", false, func(raw json.RawMessage) error {
		var c struct {
			Row struct {
				L    int
				Term bool   `json:"term"`
				Fill string `json:"fill"`
			} `json:"row"`
			Res string `json:"res"`
		}
		if err := json.Unmarshal(raw, &c); err != nil {
			return err
		}
		n := 4 * c.Row.L
		if c.Row.L >= 4 {
			n = 16 + (c.Row.L - 4)
		}
		loc := make([]byte, n)
		copy(loc, efiGUIDBytes(sev.GCEFwCertGUID))
		for i := 16; i < n; i++ {
			loc[i] = 'A' + byte(i%7)
			if (i-16)%2 == 1 {
				loc[i] = 0
			}
		}
		if c.Row.Term && n >= 18 {
			loc[n-1], loc[n-2] = 0, 0
		} else if n > 0 {
			loc[n-1] = 1
		}
		if c.Row.Fill == "nul" {
			for i := 16; i < n; i++ {
				loc[i] = 0
			}
		}
		exp := "decode=" + c.Res
		if c.Row.Term && n < 18 {
			exp = ""
		}
		add(rpCase{Target: "locator", Data: loc, Key: "locator", Expect: exp})
		return nil
	}) {
		return
	}
	// names: UCS-2 corner cases straight to the variable reader
	for _, name := range [][]byte{nil, {}, {0}, {0, 0}, {0x41}, {0x41, 0}, {0, 0xd8}, {0, 0xd8, 0, 0}, {0, 0xd8, 0, 0xdc, 0, 0}, {0xff, 0xfe, 0, 0}, {0xfe, 0xff, 0x41, 0, 0, 0},
		ucs2le("../../etc/passwd"), ucs2le("a/b"), ucs2le(strings.Repeat("n", 5000)), ucs2le("a\x00b"), bytes.Repeat([]byte{0xff}, 64), {0x2f, 0, 0, 0}} {
		add(rpCase{Target: "varname", Data: name, Key: "varname"})
		add(rpCase{Target: "locator", Data: append(efiGUIDBytes(sev.GCEFwCertGUID), name...), Key: "locator-name"})
	}

	// locators of the "local device path" kind: UEFI device-path node lists (type, sub-type, 16-bit
	// length, data) with every small / extreme node length, with and without an end node, alone and as
	// the locator of the GCE firmware's SP800-155 event in a whole event log
	{
		node := func(typ, sub byte, length uint16, data ...byte) []byte {
			return append([]byte{typ, sub, byte(length), byte(length >> 8)}, data...)
		}
		end := node(0x7f, 0xff, 4)
		file := append(node(4, 4, uint16(4+len(ucs2le("\\EFI\\rim.bin")))), ucs2le("\\EFI\\rim.bin")...)
		var paths [][]byte
		paths = append(paths, append(append([]byte{}, file...), end...), file, end, nil)
		for _, typ := range []byte{1, 4, 0x7f, 0} {
			for _, sub := range []byte{4, 1, 0xff} {
				for _, l := range []uint16{0, 1, 2, 3, 4, 5, 8, 0x7fff, 0xffff} {
					n := node(typ, sub, l, 'x', 0, 'y', 0)
					paths = append(paths, n, append(append([]byte{}, n...), end...), append(append(append([]byte{}, file...), n...), end...))
				}
			}
		}
		for _, dp := range paths {
			add(rpCase{Target: "locator", Data: dp, Key: "devicepath"})
			el := &eventlog.CryptoAgileLog{Header: eventlog.TCGPCClientPCREvent{EventType: eventlog.EvNoAction, EventData: eventlog.TCGEventData{Event: &eventlog.UnknownEvent{Data: []byte("Spec ID Event03\x00")}}},
				Events: []*eventlog.TCGPCREvent2{{EventType: eventlog.EvNoAction, EventData: eventlog.TCGEventData{Event: sp800155(eventlog.RIMLocationLocal, dp, extract.GCEFirmwareManufacturer)}}}}
			var b bytes.Buffer
			if err := el.Marshal(&b); err == nil {
				add(rpCase{Target: "eventlog", Data: b.Bytes(), Key: "devicepath-log"})
			}
		}
	}

	// --- genuine objects: every truncation, seeded byte mutations, field mutations
	r := rand.New(rand.NewSource(run.Seed))
	quick := run.IsQuick()
	chain := &spb.CertificateChain{VcekCert: m.Vcek.Raw, Extras: map[string][]byte{sev.GCEFwCertGUID: genuineBytes}}
	sevAt := &spb.Attestation{Report: report, CertificateChain: chain}
	sevAtBytes, _ := proto.Marshal(sevAt)
	tpmSev, _ := proto.Marshal(&tpmpb.Attestation{TeeAttestation: &tpmpb.Attestation_SevSnpAttestation{SevSnpAttestation: sevAt}})
	reportBytes, _ := proto.Marshal(report)
	table := &sabi.CertTable{Entries: []sabi.CertTableEntry{{GUID: uuid.MustParse(sabi.VcekGUID), RawCert: m.Vcek.Raw}, {GUID: uuid.MustParse(sev.GCEFwCertGUID), RawCert: genuineBytes}}}
	tableBytes := table.Marshal()
	var rawSnp []byte
	if rawSnpReport != nil {
		rawSnp = append(append([]byte{}, rawSnpReport...), tableBytes...)
	}
	elog, err := genuineEventLog(genuineBytes)
	if err != nil {
		run.Infra(err)
		return
	}
	type base struct {
		target, name string
		data         []byte
	}
	bases := []base{{"endorsement", "endorsement", genuineBytes}, {"quote", "sevsnp-attestation", sevAtBytes}, {"quote", "tpm-attestation-sev", tpmSev},
		{"quote", "tpm-attestation-tdx", m.QuoteBytes}, {"quote", "report-proto", reportBytes}, {"quote", "cert-table", tableBytes}, {"quote", "raw-tdx-quote", testdata.RawQuote},
		{"quote", "hex-tdx-quote", []byte(hex.EncodeToString(testdata.RawQuote))}, {"quote", "base64-cert-table", []byte(base64.StdEncoding.EncodeToString(tableBytes))},
		{"eventlog", "eventlog", elog}}
	if rawSnp != nil {
		bases = append(bases, base{"quote", "raw-snp-report+certs", rawSnp}, base{"quote", "hex-raw-snp", []byte(hex.EncodeToString(rawSnp))})
	}
	for _, b := range bases {
		add(rpCase{Target: b.target, Data: b.data, Key: "genuine:" + b.name})
		step := 1
		if quick && len(b.data) > 1500 {
			step = len(b.data)/1500 + 1
		}
		off := r.Intn(step)
		for cut := 0; cut < len(b.data); cut++ {
			if cut > 64 && len(b.data)-cut > 64 && (cut+off)%step != 0 {
				continue
			}
			add(rpCase{Target: b.target, Data: b.data[:cut], Key: "truncate:" + b.name})
		}
		nmut := 400
		if !quick {
			nmut = 8 * len(b.data)
			if nmut > 40000 {
				nmut = 40000
			}
		}
		for k := 0; k < nmut; k++ {
			d := append([]byte{}, b.data...)
			p := r.Intn(len(d))
			if k%4 == 0 && len(d) > 200 {
				p = r.Intn(200) // headers
			}
			switch k % 5 {
			case 0:
				d[p] = 0xff
			case 1:
				d[p] = 0
			case 2:
				d[p] ^= 1 << uint(r.Intn(8))
			case 3:
				d[p] = byte(r.Intn(256))
			default: // widen a length-like byte and the next three
				for j := 0; j < 4 && p+j < len(d); j++ {
					d[p+j] = 0xff
				}
			}
			add(rpCase{Target: b.target, Data: d, Key: "mutate:" + b.name})
		}
	}
	// size fields of the genuine log: declared sizes around what is present and at the extremes
	u32, u8 := sizeFieldOffsets(elog)
	for _, p := range u32 {
		cur := binary.LittleEndian.Uint32(elog[p:])
		rest := uint32(len(elog) - p - 4)
		for _, v := range []uint32{0, 1, cur - 1, cur + 1, rest - 1, rest, rest + 1, 0x7fffffff, 0x80000000, 0xffffffff, 1 << 30, 1 << 24} {
			d := append([]byte{}, elog...)
			binary.LittleEndian.PutUint32(d[p:], v)
			add(rpCase{Target: "eventlog", Data: d, Key: "sizefield32"})
		}
	}
	for _, p := range u8 {
		for _, v := range []byte{0, 1, elog[p] - 1, elog[p] + 1, 0x7f, 0x80, 0xff} {
			d := append([]byte{}, elog...)
			d[p] = v
			add(rpCase{Target: "eventlog", Data: d, Key: "sizefield8"})
		}
	}
	run.Extra["eventlog_size_fields"] = len(u32) + len(u8)

	// field-level mutations of the endorsement: outer message, and the golden document re-signed
	// genuinely (so that everything after the signature check is reached) or left with the old signature
	nField := 0
	protoMutations(genuine, "endorsement.", func(label string, mm proto.Message) {
		b, _ := proto.Marshal(mm)
		add(rpCase{Target: "endorsement", Data: b, Key: "field:" + label})
		nField++
	}, nil, nil)
	protoMutations(genuineDoc, "golden.", func(label string, mm proto.Message) {
		gb, _ := proto.MarshalOptions{Deterministic: true}.Marshal(mm)
		e1, _ := proto.Marshal(&epb.VMLaunchEndorsement{SerializedUefiGolden: gb, Signature: rp.SignPSS(m.S, gb)})
		e2, _ := proto.Marshal(&epb.VMLaunchEndorsement{SerializedUefiGolden: gb, Signature: genuine.Signature})
		add(rpCase{Target: "endorsement", Data: e1, Key: "field-signed:" + label})
		add(rpCase{Target: "endorsement", Data: e2, Key: "field:" + label})
		nField++
	}, nil, nil)
	protoMutations(sevAt, "attestation.", func(label string, mm proto.Message) {
		b, _ := proto.Marshal(mm)
		add(rpCase{Target: "quote", Data: b, Key: "field:" + label})
		t, _ := proto.Marshal(&tpmpb.Attestation{TeeAttestation: &tpmpb.Attestation_SevSnpAttestation{SevSnpAttestation: mm.(*spb.Attestation)}})
		add(rpCase{Target: "quote", Data: t, Key: "field:tpm." + label})
		nField++
	}, nil, nil)
	protoMutations(m.Quote, "tdxquote.", func(label string, mm proto.Message) {
		t, _ := proto.Marshal(&tpmpb.Attestation{TeeAttestation: &tpmpb.Attestation_TdxAttestation{TdxAttestation: mm.(*tpb.QuoteV4)}})
		add(rpCase{Target: "quote", Data: t, Key: "field:tpm." + label})
		b, _ := proto.Marshal(mm)
		add(rpCase{Target: "quote", Data: b, Key: "field:" + label})
		nField++
	}, nil, nil)
	run.Extra["field_mutations"] = nField
	add(rpCase{Target: "endorsement", Data: nil, Key: "empty"})
	add(rpCase{Target: "quote", Data: nil, Key: "empty"})
	add(rpCase{Target: "eventlog", Data: nil, Key: "empty"})
	for _, k := range []string{"TCGEventData", "Uint32SizedArray", "ByteSizedCStr", "Digests", "TCGPCREvent2", "TCGPCClientPCREvent", "EfiGUID", "TaggedDigest", "SP800155Event3"} {
		for n := 0; n < 24; n++ {
			add(rpCase{Target: "reader:" + k, Data: bytes.Repeat([]byte{0xff}, n), Key: "ones"})
			add(rpCase{Target: "reader:" + k, Data: make([]byte, n), Key: "zeros"})
		}
	}

	// every digest algorithm identifier around the ones the TPM library defines, alone and in a list
	for alg := 0; alg <= 0x30; alg++ {
		d := append([]byte{byte(alg), byte(alg >> 8)}, bytes.Repeat([]byte{0x11}, 64)...)
		add(rpCase{Target: "reader:TaggedDigest", Data: d, Key: "algid"})
		add(rpCase{Target: "reader:Digests", Data: append([]byte{1, 0, 0, 0}, d...), Key: "algid"})
	}
	for _, alg := range []int{0xff, 0x100, 0x7fff, 0x8000, 0xfffe, 0xffff} {
		d := append([]byte{byte(alg), byte(alg >> 8)}, bytes.Repeat([]byte{0x11}, 64)...)
		add(rpCase{Target: "reader:TaggedDigest", Data: d, Key: "algid"})
	}
	raws := make([]json.RawMessage, len(cases))
	for i, c := range cases {
		raws[i], _ = json.Marshal(c)
	}
	if os.Getenv("VERIF_DEBUG") != "" {
		fmt.Fprintf(os.Stderr, "C07: %d cases\n", len(cases))
	}
	res, err := vk.RunChildCasesParallel("rp", raws, 8*time.Second, 4*1024*1024, 12)
	if err != nil {
		run.Infra(err)
		return
	}
	perKey := map[string]int{}
	nExpect := 0
	for i, cr := range res {
		c := cases[i]
		class := c.Key
		if j := strings.IndexByte(class, ':'); j >= 0 && !strings.HasPrefix(class, "genuine") {
			class = class[:j]
		}
		perKey[c.Target+"/"+class]++
		short := c
		if len(short.Data) > 96 {
			short.Data = short.Data[:96]
		}
		rep := map[string]any{"target": c.Target, "key": c.Key, "len": len(c.Data), "data_base64": base64.StdEncoding.EncodeToString(c.Data), "status": cr.Status, "detail": cr.Detail, "alloc": cr.Alloc, "seconds": cr.Dur.Seconds()}
		switch cr.Status {
		case "panic":
			site := ""
			if j := strings.Index(cr.Detail, " @ "); j >= 0 {
				site = strings.SplitN(cr.Detail[j+3:], ":", 2)[0]
			}
			run.Violation("panic:"+c.Target+":"+site, fmt.Sprintf("%s panics on a %d-byte input of class [%s]: %s", c.Target, len(c.Data), c.Key, cr.Detail), rep)
		case "hang":
			run.Violation("time-unbounded:"+c.Target, fmt.Sprintf("%s did not return within 8 s on a %d-byte input of class [%s]", c.Target, len(c.Data), c.Key), rep)
		case "crash":
			run.Violation("memory-unbounded:"+c.Target, fmt.Sprintf("%s exhausted the 4 GiB address-space limit on a %d-byte input of class [%s]: %s", c.Target, len(c.Data), c.Key, cr.Detail), rep)
		case "err":
			run.Infra(fmt.Errorf("harness error in case %d (%s): %s", i, c.Target, cr.Detail))
			return
		default:
			if cr.Alloc > uint64(512*len(c.Data))+16<<20 {
				run.Violation("memory-unbounded:"+c.Target, fmt.Sprintf("%s allocated %d bytes for a %d-byte input of class [%s]", c.Target, cr.Alloc, len(c.Data), c.Key), rep)
			}
			if c.Expect != "" {
				nExpect++
			}
			if c.Expect != "" && c.Expect != cr.Detail {
				run.AddDrift(1)
				fmt.Printf("DRIFT property=C07 %s class [%s] len %d: Parsers.tla predicts %q, code gives %q\n", c.Target, c.Key, len(c.Data), c.Expect, cr.Detail)
			}
		}
		run.Case(c.Target+"\x00"+string(c.Data), true)
		if i%499 == 0 {
			run.Sample(map[string]any{"target": c.Target, "key": c.Key, "len": len(c.Data), "status": cr.Status, "detail": cr.Detail, "alloc": cr.Alloc, "us": cr.Dur.Microseconds()})
		}
	}
	keys := make([]string, 0, len(perKey))
	for k := range perKey {
		keys = append(keys, k)
	}
	sort.Strings(keys)
	cls := map[string]int{}
	for _, k := range keys {
		cls[k] = perKey[k]
	}
	run.Extra["cases_per_class"] = cls
	run.Extra["outcomes_compared_with_spec"] = nExpect
	run.Exhaustive = true
	run.Rule = "TLC enumerates every (declared, present) pair, every locator length/terminator and every field-presence combination of Parsers.tla; every row is turned into real bytes (declared sizes also at the 32-bit extremes) for every size-prefixed reader, whole event logs, locators and endorsements; genuine endorsement / attestations in eight encodings / event log are truncated at every length (quick: every length near both ends, strided in between), mutated byte-wise (seeded) and field-wise (every proto field cleared, emptied, resized, set to extremes; golden documents re-signed genuinely); all run through the relying-party entry points in guarded child processes (panic, 8 s watchdog, 4 GiB address space, allocation <= 512 x input + 16 MiB)"
}
