// Package pars binds spec/Parsers.tla to the byte parsers: firmware analysis (C08) and the
// relying-party decoders (C07), executed in a guarded child process (watchdog, allocation meter,
// address-space limit).
package pars

import (
	"encoding/binary"
	"encoding/json"
	"fmt"
	"math/rand"
	"sort"
	"strings"
	"time"

	"github.com/google/gce-tcb-verifier/ovmf"
	oabi "github.com/google/gce-tcb-verifier/ovmf/abi"
	"github.com/google/gce-tcb-verifier/sev"
	"github.com/google/gce-tcb-verifier/tdx"
	"github.com/google/gce-tcb-verifier/testing/fakeovmf"
	"github.com/google/go-sev-guest/proto/sevsnp"

	"verifharness/fx"
	"verifharness/vk"
)

// fwCase is a recipe for one firmware image (built inside the child).
type fwCase struct {
	Kind string `json:"kind"` // sevmeta | tdxmeta | tdxregion | tdxfv | truncate | mutate | raw
	// tdxfv: data offset / size of the boot firmware volume
	FvOff  uint32 `json:"fvoff,omitempty"`
	FvSize uint32 `json:"fvsize,omitempty"`
	// sevmeta / tdxmeta
	Offset   uint32 `json:"offset"`
	Sections uint32 `json:"sections"`
	Length   uint32 `json:"length"`
	// tdxregion (DefaultOnly: only the entry points of the default launch mode are run)
	DefaultOnly bool `json:"default_only,omitempty"`
	// WideBank: the legacy launch modes are given one RAM bank covering the whole address space
	WideBank bool `json:"wide_bank,omitempty"`
	// tdxlow: memory size of the boot firmware volume (0: its data size, 0x1000) and of the configuration volume
	FvMem   uint64 `json:"fvmem,omitempty"`
	CfvMem  uint64 `json:"cfvmem,omitempty"`
	SecType uint32 `json:"sectype"`
	MemSize uint64 `json:"memsize"`
	MemBase uint64 `json:"membase,omitempty"` // 0: keep the example's base
	Attr    uint32 `json:"attr,omitempty"`    // section attributes (bit 0: extend)
	// truncate / mutate
	Size int    `json:"size"` // base image size
	Cut  int    `json:"cut"`
	Pos  int    `json:"pos"`
	Val  byte   `json:"val"`
	Raw  []byte `json:"raw"`
	Key  string `json:"key"` // class key (for reporting)
	// launch option classes: the SEV product (0 = the default pair Milan / Genoa)
	Product int32 `json:"product,omitempty"`
	// shape: the machine shape named in the TDX launch options / endorsement request
	Shape string `json:"shape,omitempty"`
	// tdxtypes: section type written into sections of the example (index -> type)
	Types map[string]uint32 `json:"types,omitempty"`
}

func le32(b []byte, v uint32) { binary.LittleEndian.PutUint32(b, v) }

// guidBlockPos finds the GUID-table block with the given GUID in a fakeovmf image and returns the
// position of its data.
func findBlock(img []byte, guid string) int {
	var g [16]byte
	oabi.PutUUID(g[:], mustUUID(guid))
	for p := len(img) - 16; p >= 2; p-- {
		if string(img[p:p+16]) == string(g[:]) {
			sz := int(binary.LittleEndian.Uint16(img[p-2 : p]))
			return p + 16 - sz
		}
	}
	return -1
}

func buildFw(c fwCase) []byte {
	switch c.Kind {
	case "raw":
		return c.Raw
	case "sevmeta":
		img := fakeovmf.CleanExample(&fx.TB{}, 0x1000)
		// the SEV metadata offset block: offset field (from the end of the image) then the GUID entry
		if p := findBlock(img, oabi.SevMetadataOffsetGUID); p >= 0 {
			le32(img[p:], c.Offset)
		}
		if int(c.Offset) <= len(img) && c.Offset >= 16 {
			h := img[len(img)-int(c.Offset):]
			le32(h[0:], oabi.SevSnpMetadataSignature)
			le32(h[4:], c.Length)
			le32(h[8:], 1)
			le32(h[12:], c.Sections)
		} else if int(c.Offset) <= len(img) && c.Offset >= 4 {
			le32(img[len(img)-int(c.Offset):], oabi.SevSnpMetadataSignature)
		}
		return img
	case "tdxmeta":
		img := fakeovmf.CleanExample(&fx.TB{}, 2*1024*1024)
		if p := findBlock(img, oabi.TDXMetadataOffsetGUID); p >= 0 {
			le32(img[p:], c.Offset)
		}
		if int(c.Offset)+16 <= len(img) && c.Offset >= 16 {
			pos := len(img) - int(c.Offset) - 16
			oabi.PutUUID(img[pos:], mustUUID(oabi.TDXMetadataGUID))
			h := img[pos+16:]
			le32(h[0:], oabi.TDXMetadataDescriptorMagic)
			le32(h[4:], c.Length)
			le32(h[8:], oabi.TDXMetadataVersion)
			le32(h[12:], c.Sections)
		}
		return img
	case "guidtable":
		// units of 2 bytes: image of 2L bytes, footer entry (size 2T) ending 0x20 bytes before the
		// end, one entry (size 2E) right above the footer when there is room; everything else zero
		img := make([]byte, 2*c.Size)
		put := func(end int, size int, guid string) {
			if end-18 < 0 || end > len(img) {
				return
			}
			binary.LittleEndian.PutUint16(img[end-18:], uint16(size))
			oabi.PutUUID(img[end-16:end], mustUUID(guid))
		}
		put(len(img)-0x20-18, 2*c.Pos, "00f771de-1a7e-4fcb-890e-68c77e2fb44e")
		put(len(img)-0x20, 2*c.Cut, oabi.FwGUIDTableFooterGUID)
		return img
	case "tdxlow":
		// an 8 KiB TDVF whose sections lie in the first pages of guest memory (CFV, BFV, TD_HOB) and one
		// TempMem section at MemBase / MemSize
		fw := make([]byte, 0x2000)
		md := &oabi.TDXMetadata{
			Header: &oabi.TDXMetadataDescriptor{Signature: oabi.TDXMetadataDescriptorMagic, Length: oabi.SizeofTDXMetadataDescriptor + 4*oabi.SizeofTDXMetdataSection, Version: oabi.TDXMetadataVersion, SectionCount: 4},
			Sections: []*oabi.TDXMetadataSection{
				{DataOffset: 0, DataSize: 0x1000, MemoryBase: 0x1000, MemorySize: 0x1000, SectionType: oabi.TDXMetadataSectionTypeCFV},
				{DataOffset: 0x1000, DataSize: 0x1000, MemoryBase: 0x2000, MemorySize: 0x1000, SectionType: oabi.TDXMetadataSectionTypeBFV, Attributes: oabi.TDXMetadataAttributeExtendMR},
				{MemoryBase: 0x3000, MemorySize: 0x1000, SectionType: oabi.TDXMetadataSectionTypeTDHOB},
				{MemoryBase: oabi.EFIPhysicalAddress(c.MemBase), MemorySize: c.MemSize, SectionType: oabi.TDXMetadataSectionTypeTempMem},
			},
		}
		if c.FvMem != 0 {
			md.Sections[1].MemorySize = c.FvMem
		}
		if c.CfvMem != 0 {
			md.Sections[0].MemorySize = c.CfvMem
		}
		if err := fakeovmf.InitializeGUIDTable(fw, oabi.FwGUIDTableEndOffset, []uint16{oabi.SizeofMetadataOffset}, fakeovmf.InitializeTdxGUIDTableFns(fw, 0x100, md)); err != nil {
			return nil
		}
		return fw
	case "tdxregion":
		img := fakeovmf.CleanExample(&fx.TB{}, 2*1024*1024)
		// sections of the example start at 0x100 + 16 (GUID) + 16 (descriptor); entry 4 is the TD_HOB, entry 2 a TempMem
		idx := 2
		if c.SecType == 2 {
			idx = 4
		}
		s := img[0x100+16+16+32*idx:]
		binary.LittleEndian.PutUint64(s[16:], c.MemSize)
		if c.MemBase != 0 {
			binary.LittleEndian.PutUint64(s[8:], c.MemBase)
		}
		if c.Attr != 0 {
			binary.LittleEndian.PutUint32(s[28:], c.Attr)
		}
		return img
	case "tdxtypes":
		img := fakeovmf.CleanExample(&fx.TB{}, 2*1024*1024)
		for k, t := range c.Types {
			var idx int
			fmt.Sscanf(k, "%d", &idx)
			le32(img[0x100+16+16+32*idx+24:], t)
		}
		return img
	case "product", "shape":
		return fakeovmf.CleanExample(&fx.TB{}, 2*1024*1024)
	case "tdxfv":
		img := fakeovmf.CleanExample(&fx.TB{}, 2*1024*1024)
		bfv, cfv := img[0x100+16+16:], img[0x100+16+16+32:]
		le32(bfv[0:], c.FvOff)
		le32(bfv[4:], c.FvSize)
		binary.LittleEndian.PutUint64(bfv[16:], uint64(c.FvSize)) // memory size = data size, as the format demands
		binary.LittleEndian.PutUint64(bfv[8:], (1<<32)-uint64(c.FvSize))
		// the configuration volume takes the rest of the image, so that the volumes add up to the image
		// size; where nothing is left it becomes a scratch-memory section
		rest := uint32(len(img)) - c.FvSize
		if rest != 0 && rest <= uint32(len(img)) {
			le32(cfv[0:], 0)
			le32(cfv[4:], rest)
			binary.LittleEndian.PutUint64(cfv[16:], uint64(rest))
			binary.LittleEndian.PutUint64(cfv[8:], (1<<32)-uint64(c.FvSize)-uint64(rest))
		} else {
			le32(cfv[0:], 0)
			le32(cfv[4:], 0)
			binary.LittleEndian.PutUint64(cfv[8:], 0x820000)
			binary.LittleEndian.PutUint64(cfv[16:], 0x1000)
			le32(cfv[24:], 3)
		}
		return img
	case "truncate":
		img := fakeovmf.CleanExample(&fx.TB{}, c.Size)
		if c.Cut < len(img) {
			// keep the tail (the GUID table lives at the end) or the head
			if c.Pos == 0 {
				return img[len(img)-c.Cut:]
			}
			return img[:c.Cut]
		}
		return img
	case "mutate":
		img := fakeovmf.CleanExample(&fx.TB{}, c.Size)
		if c.Pos < len(img) {
			img[c.Pos] = c.Val
		}
		return img
	}
	return nil
}

// runFw applies every firmware entry point to the image; errors are fine, panics are reported by
// the child runner.
func runFw(raw json.RawMessage) error {
	var c fwCase
	if err := json.Unmarshal(raw, &c); err != nil {
		return err
	}
	img := buildFw(c)
	var errs []string
	note := func(name string, err error) {
		if err != nil {
			errs = append(errs, name)
		}
	}
	p1, p2 := sevsnp.SevProduct_SEV_PRODUCT_MILAN, sevsnp.SevProduct_SEV_PRODUCT_GENOA
	if c.Kind == "product" {
		p1, p2 = sevsnp.SevProduct_SevProductName(c.Product), sevsnp.SevProduct_SevProductName(c.Product)
	}
	_, err := sev.LaunchDigest(&sev.LaunchOptions{Vcpus: 2, Product: p1}, img)
	note("LaunchDigest", err)
	_, err = sev.UnsignedSnp(img, &sev.SnpEndorsementRequest{LaunchVmsas: 1, Product: p2})
	note("UnsignedSnp", err)
	note("ExtractFromFirmware", (&ovmf.SevData{SevEs: true, SevSnp: true}).ExtractFromFirmware(img))
	shape := "c3-standard-4"
	if c.Kind == "shape" {
		shape = c.Shape
	}
	banks := tdx.LaunchOptionsDefaultTDHOBBug(shape).GuestRAMBanks
	if c.WideBank {
		banks = []ovmf.GuestPhysicalRegion{{Start: 0, Length: ^uint64(0)}}
	}
	_, err = tdx.MRTD(tdx.LaunchOptionsDefault(""), img)
	note("MRTD(default)", err)
	if c.DefaultOnly {
		_, err = tdx.UnsignedTDX(img, &tdx.EndorsementRequest{})
		note("UnsignedTDX(default)", err)
		_, err = ovmf.ExtractMaterialGuestPhysicalRegions(img)
		note("ExtractMaterialGuestPhysicalRegions", err)
		if len(errs) > 0 {
			return fmt.Errorf("rejected by: %s", strings.Join(errs, ","))
		}
		return nil
	}
	_, err = tdx.MRTD(&tdx.LaunchOptions{GuestRAMBanks: banks, MeasureAllRegions: true}, img)
	note("MRTD(measure-all)", err)
	_, err = tdx.MRTD(&tdx.LaunchOptions{GuestRAMBanks: banks, MeasureAllRegions: true, DisableUnacceptedMemory: true}, img)
	note("MRTD(measure-all,early-accept)", err)
	_, err = tdx.UnsignedTDX(img, &tdx.EndorsementRequest{MachineShapes: []string{shape}, IncludeEarlyAccept: true})
	note("UnsignedTDX", err)
	_, err = ovmf.ExtractMaterialGuestPhysicalRegions(img)
	note("ExtractMaterialGuestPhysicalRegions", err)
	_, err = ovmf.ExtractMaterialGuestPhysicalRegionsTDHOBBug(img, banks)
	note("ExtractMaterial...TDHOBBug", err)
	_, err = ovmf.ExtractMaterialGuestPhysicalRegionsNoUnacceptedMemory(img, banks)
	note("ExtractMaterial...NoUnacceptedMemory", err)
	if len(errs) > 0 {
		return fmt.Errorf("rejected by: %s", strings.Join(errs, ","))
	}
	return nil
}

func init() { vk.ChildHandlers["fw"] = runFw }

type parserRow struct {
	P          string `json:"p"`
	L          int    `json:"L"`
	O          int    `json:"O"`
	S          int    `json:"S"`
	Ln         int    `json:"Ln"`
	Z          int    `json:"Z"`
	MeasureAll bool   `json:"measureAll"`
	Ext        bool   `json:"ext"`
	T          int    `json:"T"`
	E          int    `json:"E"`
}

const mW = 16 // the reduced width of Parsers.tla

// embedSev maps a reduced-width sevmeta row to real field values (image of 4096 bytes, header 16,
// entry 12): small values scale by 4, wrap-around values are taken from the top of the 32-bit range.
func embedSev(r parserRow) fwCase {
	c := fwCase{Kind: "sevmeta"}
	if r.O <= r.L {
		c.Offset = uint32(4 * r.O)
	} else {
		c.Offset = uint32(4096 + 4*(r.O-r.L))
	}
	wraps := r.S*3 >= mW
	if !wraps {
		c.Sections = uint32(r.S)
	} else {
		c.Sections = 0x15555556 + uint32(r.S-6) // *12 wraps around 2^32
	}
	switch {
	case r.Ln == r.S*3+4:
		c.Length = uint32(uint64(c.Sections)*12 + 16)
	case r.Ln == ((r.S*3)%mW+4)%mW:
		c.Length = c.Sections*12 + 16 // 32-bit wrap-around value
	default:
		c.Length = uint32(4*r.Ln + 1)
	}
	c.Key = fmt.Sprintf("sevmeta off%s16 off%slen sections%s length-%s", rel(int64(c.Offset), 16), rel(int64(c.Offset), 4096), map[bool]string{true: "-wrap", false: "-small"}[wraps],
		map[bool]string{true: "consistent", false: "other"}[r.Ln == r.S*3+4 || r.Ln == ((r.S*3)%mW+4)%mW])
	return c
}

func rel(a, b int64) string {
	switch {
	case a < b:
		return "<"
	case a == b:
		return "="
	}
	return ">"
}

// embedTdx maps a tdxmeta row (entry scaled to 8 units of 4 bytes = 32 bytes).
func embedTdx(r parserRow, m int) fwCase {
	c := fwCase{Kind: "tdxmeta"}
	imgLen := 2 * 1024 * 1024
	if r.O <= r.L {
		c.Offset = uint32(4*r.O) + 96 // clear of the GUID table at the end of the image
		if r.O < 4 {
			c.Offset = uint32(4 * r.O) // below the descriptor size
		}
	} else {
		c.Offset = uint32(imgLen - 16 + 4*(r.O-r.L))
	}
	wraps := r.S*8 >= m
	if !wraps {
		c.Sections = uint32(r.S)
	} else {
		c.Sections = 0x08000000 + uint32(r.S-m/8) // *32 wraps around 2^32
	}
	c.Length = 16 + 32*c.Sections
	c.Key = fmt.Sprintf("tdxmeta off%s16 off%slen count%s", rel(int64(c.Offset), 16), rel(int64(c.Offset), int64(imgLen-16)), map[bool]string{true: "-wrap", false: "-small"}[wraps])
	return c
}

func mustUUID(s string) (u [16]byte) {
	hexs := strings.ReplaceAll(s, "-", "")
	for i := 0; i < 16; i++ {
		fmt.Sscanf(hexs[2*i:2*i+2], "%02x", &u[i])
	}
	return
}

// RunC08 is the C08 check.
func RunC08(run *vk.Run) {
	run.Assumptions = append(run.Assumptions,
		"integer fields are modelled at reduced width in Parsers.tla and embedded into real images: small values scale, wrap-around values are taken from the top of the 32-bit range",
		"resource bounds: a case may allocate at most 64 bytes per image byte plus 64 MiB and run at most 8 s in a child process limited to 4 GiB of address space; third-party decoders are exercised, not modelled")
	var cases []fwCase
	seen := map[string]bool{}
	add := func(c fwCase) {
		j, _ := json.Marshal(c)
		if !seen[string(j)] {
			seen[string(j)] = true
			cases = append(cases, c)
		}
	}
	for _, w := range []string{"sevmeta", "tdxmeta", "tdxregion", "tdxfv", "guidtable"} {
		if _, err := vk.RunTLC(vk.TLCOpts{Module: "Parsers", Config: "Neg_Parsers_" + w + ".cfg", Timeout: 5 * time.Minute, ExpectViolation: true}); err != nil {
			run.Infra(err)
			return
		}
		em, err := vk.RunTLC(vk.TLCOpts{Module: "Parsers", Config: "Emit_Parsers_" + w + ".cfg", Workers: 1, Timeout: 10 * time.Minute})
		if err != nil {
			run.Infra(err)
			return
		}
		run.AddTLC(em)
		classes := map[string]fwCase{}
		for _, raw := range em.Cases {
			var c struct {
				Row parserRow `json:"row"`
				Res string    `json:"res"`
			}
			if err := json.Unmarshal(raw, &c); err != nil {
				run.Infra(err)
				return
			}
			var fc fwCase
			switch w {
			case "sevmeta":
				fc = embedSev(c.Row)
			case "tdxmeta":
				fc = embedTdx(c.Row, mW)
			case "guidtable":
				fc = fwCase{Kind: "guidtable", Size: c.Row.L, Cut: c.Row.T, Pos: c.Row.E, Key: "guidtable"}
			case "tdxfv":
				// the 2 MiB image is L = mW/2 units; values above L come from the top of the 32-bit range
				unit := uint32(2 * 1024 * 1024 / (mW / 2))
				conc := func(v int) uint32 {
					if v <= mW/2 {
						return uint32(v) * unit
					}
					return uint32(0) - uint32(mW-v)*unit
				}
				fc = fwCase{Kind: "tdxfv", FvOff: conc(c.Row.O), FvSize: conc(c.Row.S)}
				if c.Row.O == 0 && c.Row.S == 0 {
					fc.FvOff = 1 // keep the recipe distinguishable from the zero value
				}
				sum := uint64(fc.FvOff) + uint64(fc.FvSize)
				fc.Key = fmt.Sprintf("tdxfv off%simage size%simage sum%s2^32 sum-mod-2^32%simage", rel(int64(fc.FvOff), 2*1024*1024), rel(int64(fc.FvSize), 2*1024*1024), rel(int64(sum), 1<<32), rel(int64(uint32(sum)), 2*1024*1024))
			default:
				fc = fwCase{Kind: "tdxregion", SecType: 3}
				img := uint64(2 * 1024 * 1024)
				switch {
				case c.Row.Z <= c.Row.L:
					fc.MemSize = uint64(c.Row.Z) * 0x1000
				case c.Row.Z == 2*mW:
					// 2 GiB at a free address: small enough to be allocated under the address-space limit
					fc.MemSize = 1 << 31
					fc.MemBase = 1 << 32
				case c.Row.Z <= 2*mW:
					fc.MemSize = img + uint64(c.Row.Z-c.Row.L)*0x1000
				case c.Row.Z <= 3*mW:
					// above every other section, so that the overlap check does not reject it
					fc.MemSize = 1 << 40
					fc.MemBase = 1 << 32
				default:
					fc.MemSize = ^uint64(0) - 0xfff
				}
				if c.Row.MeasureAll {
					fc.SecType = 2 // the hand-off block is allocated in every mode
				}
				fc.Key = fmt.Sprintf("tdxregion type%d size%simage", fc.SecType, rel(int64(fc.MemSize>>12), int64(img>>12)))
				if c.Row.Ext && fc.MemSize <= img {
					// flagged for extension (bit 0), with and without other attribute bits
					fc.Attr = []uint32{1, 3, 0x80000001}[c.Row.Z%3]
					fc.Key += fmt.Sprintf(" attr=%#x", fc.Attr)
				}
				if fc.MemSize == 1<<31 {
					fc.Key += " 2GiB"
				}
				if fc.MemSize > 1<<62 {
					fc.Key += " near-2^64"
				} else if fc.MemSize > 1<<33 {
					fc.Key += " huge"
				}
			}
			k := fc.Key
			if w != "tdxregion" { // distinct concrete values are distinct witnesses, except for the size classes
				fc2 := fc
				fc2.Key = ""
				j, _ := json.Marshal(fc2)
				k += string(j)
			}
			if _, ok := classes[k]; !ok {
				classes[k] = fc
			}
		}
		var keys []string
		for k := range classes {
			keys = append(keys, k)
		}
		sort.Strings(keys)
		for _, k := range keys {
			add(classes[k])
		}
		run.Extra["witness_classes_"+w] = len(keys)
	}
	// byte neighbourhood of valid images: truncations and seeded single-byte mutations
	r := rand.New(rand.NewSource(run.Seed))
	nmut := 150
	if !run.IsQuick() {
		nmut = 6000
	}
	for _, size := range []int{0x1000, 2 * 1024 * 1024} {
		for _, cut := range []int{0, 1, 15, 16, 17, 31, 32, 33, 49, 50, 51, 72, 94, 95, 96, 120, 255, 256, 4095, size - 1} {
			add(fwCase{Kind: "truncate", Size: size, Cut: cut, Pos: 0, Key: "truncate-tail"})
			add(fwCase{Kind: "truncate", Size: size, Cut: cut, Pos: 1, Key: "truncate-head"})
		}
		for k := 0; k < nmut; k++ {
			var pos int
			switch k % 3 {
			case 0:
				pos = size - 1 - r.Intn(160) // GUID table and offset blocks
			case 1:
				pos = r.Intn(0x300) // SEV / TDX metadata
			default:
				pos = r.Intn(size)
			}
			add(fwCase{Kind: "mutate", Size: size, Pos: pos, Val: []byte{0, 1, 0x7f, 0x80, 0xff, byte(r.Intn(256))}[r.Intn(6)], Key: "mutate"})
		}
	}
	// machine shapes: the six the tool knows and names it does not
	for _, sh := range []string{"c3-standard-4", "c3-standard-8", "c3-standard-22", "c3-standard-44", "c3-standard-88", "c3-standard-176", "c3-standard-5", "c3-standard-360", "n2d-standard-2", "", "x", "c3-standard-4 ", "C3-STANDARD-4"} {
		add(fwCase{Kind: "shape", Shape: sh, Key: fmt.Sprintf("shape=%q", sh)})
	}
	// a hand-off block section of a few hundred bytes: around the length of the generated descriptor list
	// (56 + 48 per descriptor) every size is either enough or refused
	for sz := uint64(0x60); sz <= 0x400; sz += 4 {
		add(fwCase{Kind: "tdxregion", SecType: 2, MemSize: sz, Key: "tdxregion type2 small hand-off block"})
	}
	// the default launch mode alone (the legacy modes allocate every declared region: listed findings): a
	// TempMem section flagged for extension that declares more memory than the image has bytes has no
	// contents to extend with -- refused at once, whatever size it declares
	for _, sz := range []uint64{256 << 20, 1 << 31, 1 << 40, 1 << 48, 1 << 62, 1 << 63} {
		for _, attr := range []uint32{1, 3} {
			add(fwCase{Kind: "tdxregion", SecType: 3, MemSize: sz, MemBase: 1 << 32, Attr: attr, DefaultOnly: true, Key: fmt.Sprintf("tdxregion type3 flagged for extension (attr %#x), %#x bytes, default mode only", attr, sz)})
		}
	}
	// a TempMem section at the very top of the guest-physical address space: its end is 2^64 exactly, or
	// wraps past it; with the shapes' RAM banks and with one bank that covers everything
	for _, sz := range []uint64{0x1000, 0x2000, 0x6000} {
		for _, wide := range []bool{false, true} {
			add(fwCase{Kind: "tdxregion", SecType: 3, MemSize: sz, MemBase: 0xfffffffffffff000, WideBank: wide, Key: fmt.Sprintf("tdxregion type3 at the top of the address space, %#x bytes (end wraps: %v), wide bank %v", sz, sz > 0x1000, wide)})
		}
	}
	// ... and the same with every other section in the first pages of guest memory (where a wrapped end lands)
	for _, bs := range [][2]uint64{{0xfffffffffffff000, 0x1000}, {0xfffffffffffff000, 0x2000}, {0xfffffffffffff000, 0x6000}, {0xffffffffffff9000, 0x6000}, {0xffffffffffffe000, 0x3000}, {0x8000, 0x2000}} {
		for _, wide := range []bool{false, true} {
			add(fwCase{Kind: "tdxlow", MemBase: bs[0], MemSize: bs[1], WideBank: wide, Key: fmt.Sprintf("tdxlow TempMem at %#x, %#x bytes, wide bank %v", bs[0], bs[1], wide)})
		}
	}
	// firmware volumes whose memory size is not their data size (more memory than the image has bytes
	// behind the volume's offset, a size whose 32-bit sum with the offset wraps)
	for _, fm := range []uint64{0x800, 0x1001, 0x2000, 0x3000, 0xfffff000, 0x100001000} {
		add(fwCase{Kind: "tdxlow", MemBase: 0x8000, MemSize: 0x1000, FvMem: fm, Key: fmt.Sprintf("tdxlow boot volume memory size %#x for %#x bytes of data", fm, 0x1000)})
		add(fwCase{Kind: "tdxlow", MemBase: 0x8000, MemSize: 0x1000, CfvMem: fm, Key: fmt.Sprintf("tdxlow configuration volume memory size %#x for %#x bytes of data", fm, 0x1000)})
	}
	// every launch option: products the enumeration knows and values it does not
	for _, p := range []int32{0, 1, 2, 3, 4, 5, 100, 1 << 30, -1} {
		add(fwCase{Kind: "product", Product: p, Key: fmt.Sprintf("product=%d", p)})
	}
	// section types: every non-volume section of the example retyped (one or two at a time) to the
	// types the format does not define / the tool does not support
	for _, t := range []uint32{4, 5, 0x7fffffff, 0xffffffff} {
		idxs := []int{1, 2, 3, 4, 5}
		for a := 0; a < len(idxs); a++ {
			add(fwCase{Kind: "tdxtypes", Types: map[string]uint32{fmt.Sprint(idxs[a]): t}, Key: fmt.Sprintf("tdxtypes one section of type %#x", t)})
			for b := a + 1; b < len(idxs); b++ {
				add(fwCase{Kind: "tdxtypes", Types: map[string]uint32{fmt.Sprint(idxs[a]): t, fmt.Sprint(idxs[b]): t}, Key: fmt.Sprintf("tdxtypes two sections of type %#x", t)})
			}
		}
	}
	add(fwCase{Kind: "raw", Raw: nil, Key: "empty"})
	add(fwCase{Kind: "raw", Raw: []byte{1, 2, 3}, Key: "tiny"})
	raws := make([]json.RawMessage, len(cases))
	for i, c := range cases {
		raws[i], _ = json.Marshal(c)
	}
	res, err := vk.RunChildCasesParallel("fw", raws, 8*time.Second, 4*1024*1024, 8)
	if err != nil {
		run.Infra(err)
		return
	}
	for i, cr := range res {
		c := cases[i]
		size := len(buildFw(c))
		rep := map[string]any{"case": c, "status": cr.Status, "detail": cr.Detail, "alloc": cr.Alloc, "seconds": cr.Dur.Seconds()}
		key := c.Kind
		if c.Kind == "tdxregion" && c.DefaultOnly {
			key = fmt.Sprintf("tdxregion-default-mode-extend:type%d", c.SecType)
		} else if c.Kind == "tdxregion" && c.MemSize <= uint64(size) {
			// a region no larger than the image is another input class than the oversized regions of the
			// listed findings
			key = fmt.Sprintf("tdxregion-within-image:type%d", c.SecType)
		} else if c.Kind == "tdxregion" {
			key = fmt.Sprintf("tdxregion:type%d", c.SecType)
		} else if c.Kind == "tdxlow" {
			// (a section at the top of the address space is another input class than the oversized regions
			// of the listed findings, whatever its size)
			key = "tdxlow"
		} else if t := oversizedTdxRegion(buildFw(c)); t != 0 {
			// a byte mutation that lands in the memory-size field of a TD_HOB / TempMem section is the
			// same input class as the tdxregion witnesses: classify by cause, not by how it was generated
			key = fmt.Sprintf("tdxregion:type%d", t)
		}
		// time or memory: for an oversized TDVF region which of the two is hit first depends on the
		// machine's load (a 2 GiB buffer is allocated, zeroed and hashed), so they share one key there
		timeKey, memKey := "time-unbounded:"+key, "memory-unbounded:"+key
		if strings.HasPrefix(key, "tdxregion:") {
			timeKey, memKey = "resource-unbounded:"+key, "resource-unbounded:"+key
		}
		switch cr.Status {
		case "panic":
			run.Violation("panic:"+key, fmt.Sprintf("firmware analysis panics on image class [%s] (%+v): %s", c.Key, c, cr.Detail), rep)
		case "hang":
			run.Violation(timeKey, fmt.Sprintf("firmware analysis of a %d-byte image of class [%s] (%+v) did not finish within 8 s", size, c.Key, c), rep)
		case "crash":
			run.Violation(memKey, fmt.Sprintf("firmware analysis of a %d-byte image of class [%s] (%+v) exhausted the 4 GiB address-space limit: %s", size, c.Key, c, cr.Detail), rep)
		default:
			if cr.Alloc > uint64(64*size)+64<<20 {
				run.Violation(memKey, fmt.Sprintf("firmware analysis of a %d-byte image of class [%s] allocated %d bytes", size, c.Key, cr.Alloc), rep)
			}
		}
		run.Case(string(raws[i]), c.Kind != "raw")
		if i%97 == 0 {
			run.Sample(map[string]any{"case": c, "status": cr.Status, "alloc": cr.Alloc, "ms": cr.Dur.Milliseconds()})
		}
	}
	run.Exhaustive = true
	run.Rule = "TLC enumerates every field value at reduced width for the SEV metadata, TDX metadata, firmware-volume and non-firmware-volume section skeletons of Parsers.tla; every distinct witness class (relations between offset, header size, count*size wrap-around, declared length, section size and image size) is embedded into a real image and given to all ten firmware entry points in a guarded child process; plus truncations and seeded single-byte mutations of valid 4 KiB and 2 MiB images"
}

// oversizedTdxRegion returns the section type (2 = TD_HOB, 3 = TempMem) of the first TDVF
// non-firmware-volume section of a fakeovmf-layout image whose declared memory size exceeds the
// image size, or 0.
func oversizedTdxRegion(img []byte) uint32 {
	const desc = 0x100 + 16 // TDX metadata GUID, then the descriptor
	if len(img) < desc+16 || binary.LittleEndian.Uint32(img[desc:]) != oabi.TDXMetadataDescriptorMagic {
		return 0
	}
	n := int(binary.LittleEndian.Uint32(img[desc+12:]))
	for i := 0; i < n && i < 64; i++ {
		s := desc + 16 + 32*i
		if s+32 > len(img) {
			break
		}
		size := binary.LittleEndian.Uint64(img[s+16:])
		typ := binary.LittleEndian.Uint32(img[s+24:])
		if (typ == 2 || typ == 3) && size > uint64(len(img)) {
			return typ
		}
	}
	return 0
}
