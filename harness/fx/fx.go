// Package fx holds fixtures shared by the property checks: firmware images, authorities, contexts.
package fx

import (
	"context"
	"crypto/sha512"
	"crypto/x509"
	"encoding/pem"
	"fmt"
	"math/rand"
	"sync"
	"testing"
	"time"

	"github.com/google/gce-tcb-verifier/cmd/output"
	"github.com/google/gce-tcb-verifier/keys"
	"github.com/google/gce-tcb-verifier/sign/memca"
	"github.com/google/gce-tcb-verifier/sign/nonprod"
	"github.com/google/gce-tcb-verifier/testing/devkeys"
	"github.com/google/gce-tcb-verifier/testing/fakeovmf"
)

// TB is a minimal testing.TB for repository test helpers that want one.
type TB struct {
	testing.TB
	Failed_ bool
	Msg     string
}

func (t *TB) Helper() {}
func (t *TB) Fatalf(format string, args ...any) {
	t.Failed_ = true
	t.Msg = fmt.Sprintf(format, args...)
	panic("fx.TB.Fatalf: " + t.Msg)
}
func (t *TB) Fatal(args ...any) {
	t.Failed_ = true
	t.Msg = fmt.Sprint(args...)
	panic("fx.TB.Fatal: " + t.Msg)
}
func (t *TB) Errorf(format string, args ...any) {
	t.Failed_ = true
	t.Msg = fmt.Sprintf(format, args...)
}
func (t *TB) Logf(string, ...any) {}
func (t *TB) Cleanup(func())      {}

// Image returns the repository's example firmware (valid SEV-SNP metadata; valid TDX metadata when
// size is 2 MiB) with the free area filled pseudo-randomly from seed so that images differ.
func Image(size int, seed int64) []byte {
	fw := fakeovmf.CleanExample(&TB{}, size)
	if seed != 0 {
		r := rand.New(rand.NewSource(seed))
		// 0x400..0x7f0 is free in every example layout used here (SEV metadata at 0, TDX metadata
		// at 0x100, markers at 0x800/0xa00, GUID table at the end)
		for i := 0x400; i < 0x7f0 && i < len(fw); i++ {
			fw[i] = byte(r.Intn(256))
		}
	}
	return fw
}

// DevNow is a time inside the validity of the development keys' certificates.
var DevNow = time.Date(2025, time.March, 1, 12, 0, 0, 0, time.UTC)

var (
	devOnce   sync.Once
	devSigner *nonprod.Signer
	devErr    error
)

// DevAuthority returns a fresh in-memory CA holding the pre-generated development certificates and
// a signer holding their keys (no key generation; the signer is shared and read-only).
func DevAuthority() (*memca.CertificateAuthority, *nonprod.Signer, error) {
	devOnce.Do(func() {
		s := &nonprod.Signer{Now: DevNow, Rand: NewLockedRand(7)}
		for name, p := range map[string][]byte{"root": devkeys.RootPEM, "primarySigningKey": devkeys.PrimarySigningKeyPEM} {
			blk, _ := pem.Decode(p)
			if blk == nil {
				devErr = fmt.Errorf("devkeys %s: no PEM", name)
				return
			}
			var key any
			var err error
			if key, err = x509.ParsePKCS1PrivateKey(blk.Bytes); err != nil {
				if key, err = x509.ParsePKCS8PrivateKey(blk.Bytes); err != nil {
					devErr = fmt.Errorf("devkeys %s: %v", name, err)
					return
				}
			}
			if err := s.LoadKey(name, key); err != nil {
				devErr = err
				return
			}
		}
		devSigner = s
	})
	if devErr != nil {
		return nil, nil, devErr
	}
	return memca.TestOnlyCertificateAuthority(), devSigner, nil
}

// LockedRand is a goroutine-safe deterministic io.Reader.
type LockedRand struct {
	mu sync.Mutex
	r  *rand.Rand
}

func NewLockedRand(seed int64) *LockedRand { return &LockedRand{r: rand.New(rand.NewSource(seed))} }
func (l *LockedRand) Read(p []byte) (int, error) {
	l.mu.Lock()
	defer l.mu.Unlock()
	return l.r.Read(p)
}

// Ctx builds a context with output options (quiet) and a keys.Context.
func Ctx(kc *keys.Context, overwrite, keepGoing bool) context.Context {
	ctx := output.NewContext(context.Background(), &output.Options{Quiet: true, Overwrite: overwrite, KeepGoing: keepGoing})
	if kc != nil {
		ctx = keys.NewContext(ctx, kc)
	}
	return ctx
}

// DevRootPool returns a cert pool with the development root.
func DevRootPool() *x509.CertPool {
	pool := x509.NewCertPool()
	blk, _ := pem.Decode(devkeys.RootCert)
	if blk != nil {
		if c, err := x509.ParseCertificate(blk.Bytes); err == nil {
			pool.AddCert(c)
			return pool
		}
	}
	if c, err := x509.ParseCertificate(devkeys.RootCert); err == nil {
		pool.AddCert(c)
	}
	return pool
}

// Sha384 returns the SHA-384 digest of b.
func Sha384(b []byte) []byte { d := sha512.Sum384(b); return d[:] }
