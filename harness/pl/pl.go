// Package pl binds spec/PathLang.tla (C19) to gcetcbendorsement/parsepath and the inspect
// renderings.
package pl

import (
	"bytes"
	"context"
	"encoding/base64"
	"encoding/hex"
	"encoding/json"
	"fmt"
	gcmd "github.com/google/gce-tcb-verifier/gcetcbendorsement/cmd"
	"io"
	"math/rand"
	"os"
	"path/filepath"
	"sort"
	"strconv"
	"strings"
	"sync"
	"time"

	gtb "github.com/google/gce-tcb-verifier/gcetcbendorsement"
	"github.com/google/gce-tcb-verifier/gcetcbendorsement/parsepath"
	tm "github.com/google/gce-tcb-verifier/gcetcbendorsement/parsepath/testmessage"
	epb "github.com/google/gce-tcb-verifier/proto/endorsement"
	"google.golang.org/protobuf/proto"
	"google.golang.org/protobuf/reflect/protopath"
	"google.golang.org/protobuf/reflect/protoreflect"
	fmpb "google.golang.org/protobuf/types/known/fieldmaskpb"
	"google.golang.org/protobuf/types/known/timestamppb"

	"verifharness/rp"
	"verifharness/vk"
)

type tok struct {
	K string `json:"k"`
	T string `json:"t"`
}
type step struct {
	K string `json:"k"`
	V string `json:"v"`
}
type emitted struct {
	Root     string `json:"root"`
	Toks     []tok  `json:"toks"`
	Status   string `json:"status"`
	Terminal bool   `json:"terminal"`
	Path     []step `json:"path"`
}

// concStr: the concrete text of the specification's abstract string literals: "zz" stands for a
// string with a multi-byte character (spelled literally in two of the three renderings)
func concStr(s string) string {
	if s == "zz" {
		return "z\u00e9\u01ff" // U+01FF is the largest code point an octal escape can name (\777)
	}
	return s
}

// render writes a token sequence as text; variant selects among equivalent spellings.
func render(ts []tok, variant int) string {
	var b strings.Builder
	for _, t := range ts {
		switch t.K {
		case "ident", "int":
			b.WriteString(t.T)
		case "str":
			t.T = concStr(t.T)
			switch variant % 3 {
			case 0:
				b.WriteString(strconv.Quote(t.T))
			case 1:
				b.WriteString("'" + t.T + "'")
			default: // hex / octal escapes of every character
				b.WriteByte('"')
				for i, c := range t.T {
					switch {
					case c > 0xff && c <= 0x1ff: // three octal numerals name code points up to U+01FF
						fmt.Fprintf(&b, "\\%03o", c)
					case c > 0xff:
						fmt.Fprintf(&b, "\\u%04x", c)
					case c > 0x7f: // the language's \x and octal escapes denote code points, not bytes: \xe9 is U+00E9
						if variant%2 == 0 {
							fmt.Fprintf(&b, "\\x%02x", c)
						} else {
							fmt.Fprintf(&b, "\\%03o", c)
						}
					case i%2 == 0:
						fmt.Fprintf(&b, "\\x%02x", c)
					default:
						fmt.Fprintf(&b, "\\%03o", c)
					}
				}
				b.WriteByte('"')
			}
		case "dot":
			b.WriteByte('.')
		case "obrack":
			b.WriteByte('[')
		case "cbrack":
			b.WriteByte(']')
		case "oparen":
			b.WriteByte('(')
		case "cparen":
			b.WriteByte(')')
		case "illegal":
			b.WriteByte([]byte{' ', '#', '\n', '$'}[variant%4])
		}
	}
	return b.String()
}

func sampleTest(depth int) *tm.Test {
	n := &tm.Test_Nested{Intfield: 41, Stringfield: "str", Bytesfield: []byte{1, 2, 3}}
	t := &tm.Test{Nested: n, Int32Repeats: []int32{7, 8}}
	if depth > 0 {
		sub := sampleTest(depth - 1)
		n.Nested = sampleTest(depth - 1)
		t.Repeats = []*tm.Test{sub, sampleTest(0)}
		// long enough lists that an index literal read in another base (017 = 15, 0x10 = 16) addresses
		// another, distinguishable element
		for k := 2; k < 18; k++ {
			e := sampleTest(0)
			e.Nested.Intfield = int32(100 + k)
			e.Nested.Stringfield = fmt.Sprintf("element %d", k)
			t.Repeats = append(t.Repeats, e)
		}
		for k := 2; k < 18; k++ {
			t.Int32Repeats = append(t.Int32Repeats, int32(1000+k))
		}
		t.Strkeymap = map[string]*tm.Test_Nested{"a": {Intfield: 5, Bytesfield: []byte("bytes-in-map"), Nested: sampleTest(0)},
			"z\u00e9\u01ff": {Intfield: 6, Bytesfield: []byte("bytes under the non-ASCII key"), Nested: sampleTest(0)}}
		t.Boolkeymap = map[bool]*tm.Test{true: sub}
		t.Int32Keymap = map[int32]*tm.Test{0: sub, 1: sampleTest(0), -1: sampleTest(0), 15: sub, 16: sub}
		t.Int64Keymap = map[int64]*tm.Test{0: sub, 1: sub, -1: sub, 15: sub, 16: sub, 2147483648: sub, -2147483649: sub, 4294967296: sub}
		t.Uint32Keymap = map[uint32]*tm.Test{0: sub, 1: sub, 15: sub, 16: sub, 2147483648: sub}
		t.Uint64Keymap = map[uint64]*tm.Test{0: sub, 1: sub, 15: sub, 16: sub, 2147483648: sub, 4294967296: sub, 9223372036854775808: sub}
	}
	return t
}

func sampleGolden(full bool) *epb.VMGoldenMeasurement {
	g := &epb.VMGoldenMeasurement{ClSpec: 9, Digest: rp.Meas("fw"), Cert: []byte("certificate bytes"), Commit: []byte{1, 2}}
	if full {
		g.Timestamp = timestamppb.New(time.Date(2025, 1, 2, 3, 4, 5, 0, time.UTC))
		g.CaBundle = []byte("bundle")
		g.SevSnp = &epb.VMSevSnp{Svn: 3, Policy: 7, FamilyId: bytes.Repeat([]byte{1}, 16), ImageId: bytes.Repeat([]byte{2}, 16), SvsmMeasurement: rp.Meas("svsm"),
			Measurements: map[uint32][]byte{0: rp.Meas("m0"), 1: rp.Meas("m1"), 15: rp.Meas("m15"), 16: rp.Meas("m16"), 2147483648: rp.Meas("mbig")}}
		g.Tdx = &epb.VMTdx{Svn: 2, Measurements: []*epb.VMTdx_Measurement{{RamGib: 16, Mrtd: rp.Meas("t16")}, {RamGib: 0, EarlyAccept: true, Mrtd: rp.Meas("t0")}}}
		for k := 2; k < 18; k++ {
			g.Tdx.Measurements = append(g.Tdx.Measurements, &epb.VMTdx_Measurement{RamGib: uint32(100 + k), Mrtd: rp.Meas(fmt.Sprintf("t-%d", k))})
		}
	}
	return g
}

// walk is the independent evaluation oracle: follow the abstract steps through the message.
func walk(msg proto.Message, steps []step) (protoreflect.Value, bool) {
	cur := protoreflect.ValueOfMessage(msg.ProtoReflect())
	var fd protoreflect.FieldDescriptor
	state := "msg"
	for _, s := range steps {
		switch s.K {
		case "field":
			if state != "msg" {
				return protoreflect.Value{}, false
			}
			m := cur.Message()
			fd = m.Descriptor().Fields().ByTextName(s.V)
			if fd == nil {
				return protoreflect.Value{}, false
			}
			cur = m.Get(fd)
			switch {
			case fd.IsList():
				state = "list"
			case fd.IsMap():
				state = "map"
			case fd.Message() != nil:
				state = "msg"
			default:
				state = "scalar"
			}
		case "list":
			if state != "list" {
				return protoreflect.Value{}, false
			}
			i, err := strconv.ParseInt(s.V, 0, 64)
			if err != nil || i < 0 || int(i) >= cur.List().Len() {
				return protoreflect.Value{}, false
			}
			cur = cur.List().Get(int(i))
			if fd.Message() != nil {
				state = "msg"
			} else {
				state = "scalar"
			}
		case "map":
			if state != "map" {
				return protoreflect.Value{}, false
			}
			var key protoreflect.MapKey
			switch fd.MapKey().Kind() {
			case protoreflect.StringKind:
				key = protoreflect.ValueOfString(s.V).MapKey()
			case protoreflect.BoolKind:
				key = protoreflect.ValueOfBool(s.V == "true").MapKey()
			case protoreflect.Int32Kind:
				v, _ := strconv.ParseInt(s.V, 0, 32)
				key = protoreflect.ValueOfInt32(int32(v)).MapKey()
			case protoreflect.Int64Kind:
				v, _ := strconv.ParseInt(s.V, 0, 64)
				key = protoreflect.ValueOfInt64(v).MapKey()
			case protoreflect.Uint32Kind:
				v, _ := strconv.ParseUint(s.V, 0, 32)
				key = protoreflect.ValueOfUint32(uint32(v)).MapKey()
			case protoreflect.Uint64Kind:
				v, _ := strconv.ParseUint(s.V, 0, 64)
				key = protoreflect.ValueOfUint64(v).MapKey()
			}
			v := cur.Map().Get(key)
			if !v.IsValid() {
				return protoreflect.Value{}, false
			}
			cur = v
			if fd.MapValue().Message() != nil {
				state = "msg"
			} else {
				state = "scalar"
			}
		}
	}
	return cur, true
}

func sameValue(a, b protoreflect.Value) bool {
	switch x := a.Interface().(type) {
	case protoreflect.Message:
		y, ok := b.Interface().(protoreflect.Message)
		return ok && proto.Equal(x.Interface(), y.Interface())
	case protoreflect.List:
		y, ok := b.Interface().(protoreflect.List)
		if !ok || x.Len() != y.Len() {
			return false
		}
		for i := 0; i < x.Len(); i++ {
			if !sameValue(x.Get(i), y.Get(i)) {
				return false
			}
		}
		return true
	case protoreflect.Map:
		y, ok := b.Interface().(protoreflect.Map)
		if !ok || x.Len() != y.Len() {
			return false
		}
		same := true
		x.Range(func(k protoreflect.MapKey, v protoreflect.Value) bool {
			w := y.Get(k)
			if !w.IsValid() || !sameValue(v, w) {
				same = false
			}
			return same
		})
		return same
	case []byte:
		y, ok := b.Interface().([]byte)
		return ok && bytes.Equal(x, y)
	}
	return a.Interface() == b.Interface()
}

// pathSteps projects a real protopath.Path to the abstract steps (literal values normalised).
func pathSteps(p protopath.Path) []step {
	var r []step
	for _, s := range p {
		switch s.Kind() {
		case protopath.FieldAccessStep:
			r = append(r, step{"field", string(s.FieldDescriptor().Name())})
		case protopath.ListIndexStep:
			r = append(r, step{"list", strconv.Itoa(s.ListIndex())})
		case protopath.MapIndexStep:
			r = append(r, step{"map", s.MapIndex().String()})
		}
	}
	return r
}

func normSteps(ss []step) []step {
	var r []step
	for _, s := range ss {
		if s.K == "map" {
			s.V = concStr(s.V)
		}
		if s.K != "field" {
			if v, err := strconv.ParseInt(s.V, 0, 64); err == nil {
				s.V = strconv.FormatInt(v, 10)
			} else if u, err := strconv.ParseUint(s.V, 0, 64); err == nil {
				s.V = strconv.FormatUint(u, 10)
			}
		}
		r = append(r, s)
	}
	return r
}

func guarded(f func()) (panicked string, timedOut bool) {
	done := make(chan string, 1)
	go func() {
		defer func() {
			if r := recover(); r != nil {
				done <- fmt.Sprint(r)
				return
			}
			done <- ""
		}()
		f()
	}()
	select {
	case p := <-done:
		return p, false
	case <-time.After(10 * time.Second):
		return "", true
	}
}

type bw struct{ bytes.Buffer }

func (*bw) IsTerminal() bool { return false }

// RunC19 is the C19 check.
func RunC19(run *vk.Run) {
	n := 6
	if !run.IsQuick() {
		n = 7
	}
	run.Assumptions = append(run.Assumptions, "tokens are abstract classes (identifiers by name, integer literals by class incl. octal/hex/overflow, two string literals in three spellings); token sequences with two adjacent word tokens cannot be written down and are excluded",
		"evaluation is compared with an independent reflective walk on three messages per root type")
	em, err := vk.RunTLC(vk.TLCOpts{Module: "PathLang", Config: fmt.Sprintf("Emit_PathLang_%d.cfg", n), Workers: 1, Timeout: 20 * time.Minute})
	if err != nil {
		run.Infra(err)
		return
	}
	run.AddTLC(em)
	msgs := map[string][]proto.Message{
		"Test":   {sampleTest(2), &tm.Test{}, sampleTest(0)},
		"Golden": {sampleGolden(true), &epb.VMGoldenMeasurement{}, sampleGolden(false)},
	}
	var drift int64
	var mu sync.Mutex
	rp.Parallel(len(em.Cases), func(i int) {
		var c emitted
		if err := json.Unmarshal(em.Cases[i], &c); err != nil {
			run.Infra(err)
			return
		}
		md := msgs[c.Root][0].ProtoReflect().Descriptor()
		for variant := 0; variant < 3; variant++ {
			text := render(c.Toks, variant+i)
			if typingError[c.Status] && len(c.Toks) > 0 && c.Toks[len(c.Toks)-1].K != "ident" {
				// the model stops at the offending index token; close the bracket so that a parser that
				// wrongly accepts the token can finish
				if p2, e2 := parsepath.ParsePath(md, text+"]"); e2 == nil && p2 != nil {
					text += "]"
				}
			}
			var path protopath.Path
			var perr error
			pan, to := guarded(func() { path, perr = parsepath.ParsePath(md, text) })
			rep := map[string]any{"path_text": text, "root": c.Root, "tokens": c.Toks}
			if pan != "" {
				run.Violation("parse-panic", fmt.Sprintf("ParsePath(%q) panics: %s", text, pan), rep)
				continue
			}
			if to {
				run.Violation("parse-hangs", fmt.Sprintf("ParsePath(%q) does not return", text), rep)
				continue
			}
			wantOK := c.Status == "ok" && c.Terminal
			if perr == nil && typingError[c.Status] {
				run.Violation("parse-accepts-ill-typed:"+c.Status, fmt.Sprintf("ParsePath(%s, %q) accepts a path that addresses nothing in the message type (%s): a key or index outside the type's range, or a field the type does not have", c.Root, text, c.Status), rep)
			} else if (perr == nil) != wantOK {
				mu.Lock()
				drift++
				if drift <= 5 {
					fmt.Printf("DRIFT property=C19 ParsePath(%s, %q): real error %v, PathLang.tla says status=%s terminal=%v\n", c.Root, text, perr, c.Status, c.Terminal)
				}
				mu.Unlock()
			}
			if perr != nil {
				continue
			}
			got := pathSteps(path)
			if wantOK && fmt.Sprint(got) != fmt.Sprint(normSteps(c.Path)) {
				mu.Lock()
				drift++
				if drift <= 5 {
					fmt.Printf("DRIFT property=C19 ParsePath(%s, %q) = %v, PathLang.tla says %v\n", c.Root, text, got, normSteps(c.Path))
				}
				mu.Unlock()
			}
			// evaluation on every sample message against the independent walk
			for mi, msg := range msgs[c.Root] {
				var vals protopath.Values
				var verr error
				pan, to := guarded(func() { vals, verr = parsepath.PathValues(path, msg) })
				if pan != "" {
					run.Violation("eval-panic", fmt.Sprintf("evaluating path %q on message #%d panics: %s", text, mi, pan), rep)
					continue
				}
				if to {
					run.Violation("eval-hangs", fmt.Sprintf("evaluating path %q does not return", text), rep)
					continue
				}
				want, present := walk(msg, got)
				// the same text read by the specification's literal rules (Go syntax: 017 is 15, 0x10 is 16):
				// when the parser read a literal otherwise, the text addresses another element
				if wantOK && fmt.Sprint(got) != fmt.Sprint(normSteps(c.Path)) {
					refVal, refPresent := walk(msg, normSteps(c.Path))
					if refPresent != (verr == nil) || (refPresent && !sameValue(vals.Index(-1).Value, refVal)) {
						run.Violation("literal-misread", fmt.Sprintf("path %q parses to %v, but its literals denote %v: on message #%d it evaluates to another element than the one the text addresses", text, got, normSteps(c.Path), mi), rep)
						continue
					}
				}
				switch {
				case present && verr != nil:
					run.Violation("eval-misses-value", fmt.Sprintf("path %q addresses an existing value of message #%d but evaluation fails: %v", text, mi, verr), rep)
				case !present && verr == nil:
					run.Violation("eval-invents-value", fmt.Sprintf("path %q addresses an absent element of message #%d but evaluation returns a value", text, mi), rep)
				case present && !sameValue(vals.Index(-1).Value, want):
					run.Violation("eval-wrong-value", fmt.Sprintf("path %q on message #%d evaluates to another value than walking the message field by field", text, mi), rep)
				}
			}
			if variant > 0 && !hasStr(c.Toks) && !hasIllegal(c.Toks) {
				break // spellings differ only for strings / illegal characters
			}
		}
		run.Case(string(em.Cases[i]), len(c.Toks) > 1)
		if i%9001 == 0 {
			run.Sample(map[string]any{"root": c.Root, "text": render(c.Toks, 0), "spec_status": c.Status, "terminal": c.Terminal, "path": c.Path})
		}
	})
	run.AddDrift(drift)
	checkRenderings(run)
	checkArbitrary(run, msgs)
	run.Exhaustive = true
	run.Rule = fmt.Sprintf("every token sequence of length <= %d over the abstract alphabet that the parser model can be fed (it stops at the first error) for both root types is rendered to text in up to three spellings and given to the real ParsePath; produced paths are compared step by step and evaluated on three messages per type against an independent reflective walk; plus byte renderings of payload / signature / bytes fields in every form and seeded arbitrary byte strings under a watchdog", n)
}

// typingError: parser-model statuses that say the path cannot address anything in the type.
var typingError = map[string]bool{"err:keykind": true, "err:listindex": true, "err:negative": true, "err:nofield": true, "err:needindex": true,
	"err:notmessage": true, "err:notrepeated": true, "err:mapinternal": true, "err:notfield": true}

func hasStr(ts []tok) bool {
	for _, t := range ts {
		if t.K == "str" {
			return true
		}
	}
	return false
}
func hasIllegal(ts []tok) bool {
	for _, t := range ts {
		if t.K == "illegal" {
			return true
		}
	}
	return false
}

// checkRenderings: the raw renderings of payload, signature and bytes fields are the exact bytes.
func checkRenderings(run *vk.Run) {
	m, err := rp.GetMaterial()
	if err != nil {
		run.Infra(err)
		return
	}
	g := sampleGolden(true)
	g.Cert = m.SignCert.Raw
	e := rp.Endorse(g, m.S)
	// a valid but non-canonical serialisation of the same document (digest field moved to the end,
	// map entries in descending key order): the renderings must still be the exact stored bytes
	{
		nd := proto.Clone(g).(*epb.VMGoldenMeasurement)
		nd.Digest = nil
		ms := nd.SevSnp.Measurements
		nd.SevSnp = proto.Clone(nd.SevSnp).(*epb.VMSevSnp)
		nd.SevSnp.Measurements = nil
		head, _ := proto.MarshalOptions{Deterministic: true}.Marshal(nd)
		var keys []uint32
		for k := range ms {
			keys = append(keys, k)
		}
		sort.Slice(keys, func(i, j int) bool { return keys[i] > keys[j] })
		var tailB []byte
		for _, k := range keys {
			one, _ := proto.Marshal(&epb.VMGoldenMeasurement{SevSnp: &epb.VMSevSnp{Measurements: map[uint32][]byte{k: ms[k]}}})
			tailB = append(tailB, one...)
		}
		dg, _ := proto.Marshal(&epb.VMGoldenMeasurement{Digest: g.Digest})
		payload := append(append(head, tailB...), dg...)
		chk := &epb.VMGoldenMeasurement{}
		if err := proto.Unmarshal(payload, chk); err != nil || !proto.Equal(chk, g) {
			run.Infra(fmt.Errorf("fixture: non-canonical payload does not decode to the same document (%v)", err))
			return
		}
		e = &epb.VMLaunchEndorsement{SerializedUefiGolden: payload, Signature: rp.SignPSS(m.S, payload)}
	}
	decode := func(form gtb.BytesForm, out []byte) ([]byte, error) {
		switch form {
		case gtb.BytesHex:
			return hex.DecodeString(string(out))
		case gtb.BytesBase64:
			return base64.StdEncoding.DecodeString(string(out))
		}
		return out, nil
	}
	forms := map[string]gtb.BytesForm{"bin": gtb.BytesRaw, "hex": gtb.BytesHex, "base64": gtb.BytesBase64, "auto": gtb.BytesAuto}
	for fname, form := range forms {
		do := func(what string, want []byte, f func(ctx context.Context) error) {
			w := &bw{}
			ctx := gtb.WithInspect(context.Background(), &gtb.Inspect{Writer: w, Form: form})
			pan, _ := guarded(func() { err = f(ctx) })
			if pan != "" {
				run.Violation("inspect-panic", fmt.Sprintf("inspect %s (%s) panics: %s", what, fname, pan), nil)
				return
			}
			got, derr := decode(form, w.Bytes())
			if err != nil || derr != nil || !bytes.Equal(got, want) {
				run.Violation("inspect-not-exact", fmt.Sprintf("inspect %s in form %s does not render the exact field bytes (err=%v/%v)", what, fname, err, derr), map[string]any{"what": what, "form": fname})
			}
			run.Case("render:"+what+":"+fname, true)
		}
		do("payload", e.SerializedUefiGolden, func(ctx context.Context) error { return gtb.InspectPayload(ctx, e) })
		do("signature", e.Signature, func(ctx context.Context) error { return gtb.InspectSignature(ctx, e) })
		for p, want := range map[string][]byte{"cert": g.Cert, "digest": g.Digest, "sev_snp.measurements[1]": g.SevSnp.Measurements[1], "sev_snp.measurements[0x10]": g.SevSnp.Measurements[16],
			"tdx.measurements[1].mrtd": g.Tdx.Measurements[1].Mrtd, "sev_snp.svsm_measurement": g.SevSnp.SvsmMeasurement, "commit": g.Commit,
			// (values of exactly 16 bytes: the length of a GUID, which only the guidify form may render as one)
			"sev_snp.family_id": g.SevSnp.FamilyId, "sev_snp.image_id": g.SevSnp.ImageId} {
			p := p
			do("mask "+p, want, func(ctx context.Context) error { return gtb.InspectMask(ctx, e, &fmpb.FieldMask{Paths: []string{p}}) })
		}
		// several paths in one mask: value k is the value addressed by path k, in the order given, with
		// repeated and nested paths rendered as often as they are named (values separated by a line feed)
		if form == gtb.BytesHex {
			for _, paths := range [][]string{{"digest", "cert"}, {"sev_snp.measurements[0x10]", "sev_snp.measurements[1]", "commit"}, {"digest", "digest"}, {"commit", "cert", "commit"}} {
				var want []string
				for _, p := range paths {
					want = append(want, hex.EncodeToString(map[string][]byte{"cert": g.Cert, "digest": g.Digest, "sev_snp.measurements[1]": g.SevSnp.Measurements[1], "sev_snp.measurements[0x10]": g.SevSnp.Measurements[16], "commit": g.Commit}[p]))
				}
				w := &bw{}
				ctx := gtb.WithInspect(context.Background(), &gtb.Inspect{Writer: w, Form: form})
				mask := &fmpb.FieldMask{Paths: append([]string{}, paths...)}
				var merr error
				pan, _ := guarded(func() { merr = gtb.InspectMask(ctx, e, mask) })
				if pan != "" || merr != nil || strings.Join(want, "\n") != w.String() {
					run.Violation("inspect-not-exact:several-paths", fmt.Sprintf("inspect mask with paths %v does not render the value of path k as its k-th value (err=%v %s)", paths, merr, pan), map[string]any{"paths": paths})
				}
				if fmt.Sprint(mask.Paths) != fmt.Sprint(paths) {
					run.Violation("inspect-mutates-mask", fmt.Sprintf("inspect mask rewrote the caller's mask %v to %v", paths, mask.Paths), nil)
				}
				run.Case("render:mask-several:"+strings.Join(paths, ","), true)
			}
			// a path that addresses an element the document does not carry is an error, not an empty rendering
			for _, p := range []string{"sev_snp.measurements[8]", "tdx.measurements[99].mrtd", "tdx.measurements[99]"} {
				w := &bw{}
				ctx := gtb.WithInspect(context.Background(), &gtb.Inspect{Writer: w, Form: form})
				var merr error
				pan, _ := guarded(func() { merr = gtb.InspectMask(ctx, e, &fmpb.FieldMask{Paths: []string{p}}) })
				if pan != "" || merr == nil {
					run.Violation("inspect-absent-element", fmt.Sprintf("inspect mask --path %s addresses an element the document does not carry, yet it succeeds and writes %q (%s)", p, w.String(), pan), map[string]any{"path": p})
				}
				run.Case("render:mask-absent:"+p, true)
			}
		}
	}
	// the same renderings through the inspect sub-commands with the real file backend: a separate
	// output file, the input file itself, and a symbolic link to it
	dir, derr := os.MkdirTemp("", "vk-c19-")
	if derr != nil {
		run.Infra(derr)
		return
	}
	defer os.RemoveAll(dir)
	eb, _ := proto.Marshal(e)
	for fname := range forms {
		form := forms[fname]
		for _, sub := range []struct {
			name string
			args []string
			want []byte
		}{{"payload", nil, e.SerializedUefiGolden}, {"signature", nil, e.Signature}, {"mask", []string{"--path", "cert"}, g.Cert}, {"mask", []string{"--path", "sev_snp.measurements[1]"}, g.SevSnp.Measurements[1]}} {
			for _, alias := range []string{"separate", "same", "symlink"} {
				in := filepath.Join(dir, "endorsement.binarypb")
				if err := os.WriteFile(in, eb, 0o600); err != nil {
					run.Infra(err)
					return
				}
				out := filepath.Join(dir, "out.bin")
				os.Remove(out)
				switch alias {
				case "same":
					out = in
				case "symlink":
					if err := os.Symlink(in, out); err != nil {
						run.Infra(err)
						return
					}
				}
				root := gcmd.MakeRoot(gcmd.ContextWithBackend(context.Background(), &gcmd.Backend{IO: gcmd.OSIO{}}))
				root.SetArgs(append([]string{"inspect", sub.name, in, "--out", out, "--bytesform", fname}, sub.args...))
				root.SetOut(io.Discard)
				root.SetErr(io.Discard)
				root.SilenceErrors, root.SilenceUsage = true, true
				var xerr error
				pan, _ := guarded(func() { xerr = root.Execute() })
				if pan != "" {
					run.Violation("inspect-panic", fmt.Sprintf("inspect %s --out (%s) --bytesform %s panics: %s", sub.name, alias, fname, pan), nil)
					continue
				}
				if xerr == nil {
					written, _ := os.ReadFile(out)
					got, derr := decode(form, written)
					if derr != nil || !bytes.Equal(got, sub.want) {
						run.Violation("inspect-not-exact:cli", fmt.Sprintf("`inspect %s %v --bytesform %s` with the output file being %s (the input) exits 0 but writes %d bytes that are not the exact field bytes (%d expected)", sub.name, sub.args, fname, alias, len(written), len(sub.want)), map[string]any{"sub": sub.name, "alias": alias, "form": fname})
					}
				}
				run.Case("render-cli:"+sub.name+strings.Join(sub.args, " ")+":"+fname+":"+alias, true)
			}
		}
	}
	// the defaults, standard output not being a terminal (redirected or piped, as in the documented
	// `openssl ... <(gcetcbendorsement inspect payload FILE)` flow): the exact field bytes
	for _, sub := range []struct {
		name string
		args []string
		want []byte
	}{{"payload", nil, e.SerializedUefiGolden}, {"signature", nil, e.Signature}, {"mask", []string{"--path", "cert"}, g.Cert}} {
		for _, explicit := range []bool{false, true} {
			pio := &pipeIO{files: map[string][]byte{"endorsement.binarypb": eb}}
			root := gcmd.MakeRoot(gcmd.ContextWithBackend(context.Background(), &gcmd.Backend{IO: pio}))
			args := append([]string{"inspect", sub.name, "endorsement.binarypb"}, sub.args...)
			if explicit {
				args = append(args, "--out", "-", "--bytesform", "auto")
			}
			root.SetArgs(args)
			root.SetOut(io.Discard)
			root.SetErr(io.Discard)
			root.SilenceErrors, root.SilenceUsage = true, true
			var xerr error
			pan, _ := guarded(func() { xerr = root.Execute() })
			run.Case(fmt.Sprintf("render-cli-default:%s:%v", sub.name, explicit), true)
			if pan != "" || xerr != nil || !bytes.Equal(pio.stdout.Bytes(), sub.want) {
				run.Violation("inspect-not-exact:cli-default", fmt.Sprintf("`inspect %s FILE %v` with the default output (standard output, not a terminal; flags spelled out: %v) writes %d bytes that are not the exact field bytes (%d expected; error %v %s)", sub.name, sub.args, explicit, pio.stdout.Len(), len(sub.want), xerr, pan), map[string]any{"sub": sub.name})
			}
		}
	}
}

// pipeIO: the command's file layer with a standard output that is not a terminal.
type pipeIO struct {
	files  map[string][]byte
	stdout bytes.Buffer
	other  map[string]*bytes.Buffer
}

func (p *pipeIO) Create(path string) (gtb.TerminalWriter, func(), error) {
	if path == "-" {
		return gtb.NonterminalWriter{Writer: &p.stdout}, func() {}, nil
	}
	if p.other == nil {
		p.other = map[string]*bytes.Buffer{}
	}
	b := &bytes.Buffer{}
	p.other[path] = b
	return gtb.NonterminalWriter{Writer: b}, func() {}, nil
}

func (p *pipeIO) ReadFile(path string) ([]byte, error) {
	if b, ok := p.files[path]; ok {
		return b, nil
	}
	return nil, fmt.Errorf("open %s: %w", path, os.ErrNotExist)
}

// checkArbitrary: arbitrary byte strings and mutations of valid paths never panic or hang.
func checkArbitrary(run *vk.Run, msgs map[string][]proto.Message) {
	r := rand.New(rand.NewSource(run.Seed))
	seeds := []string{"nested.nested.repeats[0]", "strkeymap[\"a\"].bytesfield", "(testprotopath.Test).int32keymap[-1].int32repeats[1]", "sev_snp.measurements[0x10]", "boolkeymap[true]", "tdx.measurements[1].mrtd", "'\\u00e9\\U0001F600'", "\"\\"}
	n := 4000
	if !run.IsQuick() {
		n = 200000
	}
	alphabet := []byte("abcnestd.[]()'\"\\0123456789xXuU-_\x00\n\xff ")
	for i := 0; i < n; i++ {
		var text []byte
		if i%2 == 0 {
			text = []byte(seeds[r.Intn(len(seeds))])
			for k := 0; k < 1+r.Intn(3) && len(text) > 0; k++ {
				switch r.Intn(3) {
				case 0:
					text[r.Intn(len(text))] = alphabet[r.Intn(len(alphabet))]
				case 1:
					text = text[:r.Intn(len(text)+1)]
				default:
					p := r.Intn(len(text) + 1)
					text = append(text[:p:p], append([]byte{alphabet[r.Intn(len(alphabet))]}, text[p:]...)...)
				}
			}
		} else {
			text = make([]byte, r.Intn(24))
			for k := range text {
				text[k] = alphabet[r.Intn(len(alphabet))]
			}
		}
		for root, ms := range msgs {
			md := ms[0].ProtoReflect().Descriptor()
			pan, to := guarded(func() {
				if p, err := parsepath.ParsePath(md, string(text)); err == nil {
					for _, m := range ms {
						parsepath.PathValues(p, m)
					}
				}
			})
			if pan != "" {
				run.Violation("arbitrary-panic", fmt.Sprintf("path %q (%s) panics: %s", text, root, pan), map[string]any{"path_hex": hex.EncodeToString(text)})
			}
			if to {
				run.Violation("arbitrary-hangs", fmt.Sprintf("path %q (%s) does not return", text, root), map[string]any{"path_hex": hex.EncodeToString(text)})
			}
		}
		if i%100 == 0 {
			run.Case(fmt.Sprintf("arbitrary-%d", i), true)
		}
	}
}
