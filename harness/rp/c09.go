package rp

import (
	"bytes"
	"crypto/x509"
	"crypto/x509/pkix"
	"encoding/json"
	"fmt"
	cpb "github.com/google/go-sev-guest/proto/check"
	"math/big"
	"os"
	"os/exec"
	"regexp"
	"runtime"
	"strconv"
	"strings"
	"sync"
	"time"

	gtb "github.com/google/gce-tcb-verifier/gcetcbendorsement"
	epb "github.com/google/gce-tcb-verifier/proto/endorsement"
	"github.com/google/gce-tcb-verifier/sev"
	"github.com/google/gce-tcb-verifier/verifhook"
	"github.com/google/gce-tcb-verifier/verify"
	spb "github.com/google/go-sev-guest/proto/sevsnp"
	"google.golang.org/protobuf/proto"

	"verifharness/fx"
	"verifharness/vk"
)

func goid() int64 {
	var buf [64]byte
	n := runtime.Stack(buf[:], false)
	f := strings.Fields(string(buf[:n]))
	if len(f) < 2 {
		return -1
	}
	id, _ := strconv.ParseInt(f[1], 10, 64)
	return id
}

type callCtl struct {
	reached chan struct{}
	release chan struct{}
	done    chan struct{}
	err     error
	gated   bool
	blocked bool // started, but neither reached the gate nor returned while another call was parked
}

var (
	gateMu   sync.Mutex
	gateCtls = map[int64]*callCtl{}
)

func installGate() {
	verifhook.SetGate(func(point string) {
		gateMu.Lock()
		c := gateCtls[goid()]
		gateMu.Unlock()
		if c == nil || c.gated {
			return
		}
		c.gated = true
		close(c.reached)
		<-c.release
	})
}

type c09env struct {
	m      *Material
	endo   *epb.VMLaunchEndorsement
	eb     []byte
	bad    []byte // the endorsement with a corrupted signature (serialized)
	roots  func() *verify.Options
	attOf  map[string]*spb.Attestation
	alone  map[string]bool // accepted in isolation
	sevOpt func() *gtb.SevValidateOptions
	// attestations that carry their own endorsement in the certificate table: "endorsed" a genuine
	// one, "unendorsed" the same with a corrupted signature
	attSelf  map[string]*spb.Attestation
	sevOptNo func() *gtb.SevValidateOptions // no Endorsement in the options
	// two different endorsed firmware builds, each attestation carrying its own endorsement, validated
	// with one options value that has a base policy and names the launch VMSA count
	attBuild   [2]map[string]*spb.Attestation
	sevOptBase func() *gtb.SevValidateOptions
}

func newC09env() (*c09env, error) {
	m, err := GetMaterial()
	if err != nil {
		return nil, err
	}
	e := &c09env{m: m}
	good := Meas("endorsed-measurement")
	gs := GoldenSpec{Snp: map[uint32][]byte{2: good, 4: Meas("other-endorsed")}, Digest: Meas("fw"), Timestamp: time.Date(2025, 2, 1, 0, 0, 0, 0, time.UTC), ClSpec: 7, Cert: m.SignCert.Raw, Svn: 1}
	e.endo = Endorse(gs.Proto(), m.S)
	e.eb, _ = proto.Marshal(e.endo)
	now := time.Date(2026, 6, 1, 0, 0, 0, 0, time.UTC)
	e.roots = func() *verify.Options { return &verify.Options{RootsOfTrust: pool(m.RootCert), Now: now} }
	e.attOf = map[string]*spb.Attestation{
		"endorsed":   {Report: Report(good), CertificateChain: &spb.CertificateChain{VcekCert: m.Vcek.Raw}},
		"unendorsed": {Report: Report(Meas("never endorsed")), CertificateChain: &spb.CertificateChain{VcekCert: m.Vcek.Raw}},
	}
	e.sevOpt = func() *gtb.SevValidateOptions {
		return &gtb.SevValidateOptions{Endorsement: e.endo, RootsOfTrust: pool(m.RootCert), Now: now}
	}
	badSig := proto.Clone(e.endo).(*epb.VMLaunchEndorsement)
	badSig.Signature = append([]byte{}, badSig.Signature...)
	badSig.Signature[10] ^= 0x40
	bb, _ := proto.Marshal(badSig)
	e.bad = bb
	e.attSelf = map[string]*spb.Attestation{
		"endorsed":   {Report: Report(good), CertificateChain: &spb.CertificateChain{VcekCert: m.Vcek.Raw, Extras: map[string][]byte{sevGUID: e.eb}}},
		"unendorsed": {Report: Report(good), CertificateChain: &spb.CertificateChain{VcekCert: m.Vcek.Raw, Extras: map[string][]byte{sevGUID: bb}}},
	}
	e.sevOptNo = func() *gtb.SevValidateOptions {
		return &gtb.SevValidateOptions{RootsOfTrust: pool(m.RootCert), Now: now}
	}
	for b := 0; b < 2; b++ {
		meas := Meas(fmt.Sprintf("build-%d", b))
		gsb := GoldenSpec{Snp: map[uint32][]byte{2: meas}, Digest: Meas(fmt.Sprintf("fw-%d", b)), Timestamp: time.Date(2025, 2, 1, 0, 0, 0, 0, time.UTC), ClSpec: 7, Cert: m.SignCert.Raw, Svn: uint32(3 - b)} // two builds, two security versions
		eb := Endorse(gsb.Proto(), m.S)
		good, _ := proto.Marshal(eb)
		bad := proto.Clone(eb).(*epb.VMLaunchEndorsement)
		bad.Signature = append([]byte{}, bad.Signature...)
		bad.Signature[10] ^= 0x40
		badb, _ := proto.Marshal(bad)
		e.attBuild[b] = map[string]*spb.Attestation{
			"endorsed":   {Report: Report(meas), CertificateChain: &spb.CertificateChain{VcekCert: m.Vcek.Raw, Extras: map[string][]byte{sevGUID: good}}},
			"unendorsed": {Report: Report(meas), CertificateChain: &spb.CertificateChain{VcekCert: m.Vcek.Raw, Extras: map[string][]byte{sevGUID: badb}}},
		}
	}
	e.sevOptBase = func() *gtb.SevValidateOptions {
		// the verification time is left unset (the wall clock decides) when the wall clock lies inside
		// the fixture certificates' validity: a default written into the shared options is then visible
		vt := now
		if wall := time.Now(); wall.After(m.SignNB.Add(24*time.Hour)) && wall.Before(m.SignNA.Add(-24*time.Hour)) {
			vt = time.Time{}
		}
		return &gtb.SevValidateOptions{RootsOfTrust: pool(m.RootCert), Now: vt, ExpectedLaunchVmsas: 2,
			BasePolicy: &cpb.Policy{MinimumVersion: "0.0", MinimumBuild: 0}}
	}
	for b := 0; b < 2; b++ {
		for k, a := range e.attBuild[b] {
			if ok := gtb.SevValidate(fx.Ctx(nil, false, false), a, e.sevOptBase()) == nil; ok != (k == "endorsed") {
				return nil, fmt.Errorf("fixture: build %d attestation %s with a base policy alone gives %v (%v)", b, k, ok, gtb.SevValidate(fx.Ctx(nil, false, false), a, e.sevOptBase()))
			}
		}
	}
	for k, a := range e.attSelf {
		if ok := gtb.SevValidate(fx.Ctx(nil, false, false), a, e.sevOptNo()) == nil; ok != (k == "endorsed") {
			return nil, fmt.Errorf("fixture: self-carrying attestation %s alone gives %v", k, ok)
		}
	}
	e.alone = map[string]bool{}
	for k, a := range e.attOf {
		e.alone[k] = verify.SNPValidateFunc(e.roots())(a, e.eb) == nil
	}
	if !e.alone["endorsed"] || e.alone["unendorsed"] {
		return nil, fmt.Errorf("fixture: isolated results are %v", e.alone)
	}
	return e, nil
}

const sevGUID = "9f4116cd-c503-4f5a-8f6f-fb68882f4ce2" // sev.GCEFwCertGUID

type seg struct {
	P   int    `json:"p"`
	Seg string `json:"seg"`
}

// forced runs one schedule: calls[i] is the function of call i+1; returns each call's acceptance.
func forced(calls []func() error, sched []seg) ([]bool, error) {
	ctls := make([]*callCtl, len(calls))
	for _, s := range sched {
		p := s.P - 1
		switch s.Seg {
		case "A":
			c := &callCtl{reached: make(chan struct{}), release: make(chan struct{}), done: make(chan struct{})}
			ctls[p] = c
			started := make(chan struct{})
			go func() {
				id := goid()
				gateMu.Lock()
				gateCtls[id] = c
				gateMu.Unlock()
				close(started)
				func() {
					defer func() {
						if r := recover(); r != nil {
							c.err = fmt.Errorf("PANIC: %v", r)
						}
					}()
					c.err = calls[p]()
				}()
				gateMu.Lock()
				delete(gateCtls, id)
				gateMu.Unlock()
				close(c.done)
			}()
			<-started
			parked := false
			for _, o := range ctls {
				if o != nil && o != c {
					select {
					case <-o.done:
					default:
						parked = true
					}
				}
			}
			wait := 20 * time.Second
			if parked {
				wait = 300 * time.Millisecond
			}
			select {
			case <-c.reached:
			case <-c.done: // the call finished without passing a gate: segment B will be empty
			case <-time.After(wait):
				if !parked {
					return nil, fmt.Errorf("call %d neither reached the gate nor returned", s.P)
				}
				// the call waits for another call that is in flight: it cannot be placed by the schedule and
				// runs on when the others are released; its result is judged like any other
				c.blocked = true
			}
		case "B":
			c := ctls[p]
			if c == nil {
				return nil, fmt.Errorf("schedule releases call %d before starting it", s.P)
			}
			if c.blocked {
				continue // finishes when whatever it waits for has finished (collected below)
			}
			select {
			case <-c.done:
			default:
				close(c.release)
				select {
				case <-c.done:
				case <-time.After(20 * time.Second):
					return nil, fmt.Errorf("call %d did not return after release", s.P)
				}
			}
		}
	}
	for i, c := range ctls {
		if c != nil && c.blocked {
			// it may reach the gate now that the others are gone
			select {
			case <-c.reached:
				close(c.release)
			case <-c.done:
			case <-time.After(20 * time.Second):
				return nil, fmt.Errorf("call %d is still blocked after every other call returned", i+1)
			}
			select {
			case <-c.done:
			case <-time.After(20 * time.Second):
				return nil, fmt.Errorf("call %d did not return", i+1)
			}
		}
	}
	res := make([]bool, len(calls))
	for i, c := range ctls {
		res[i] = c.err == nil
	}
	return res, nil
}

var raceRe = regexp.MustCompile(`(?s)WARNING: DATA RACE.*?==================`)

// RunC09 is the C09 check.
func RunC09(run *vk.Run) {
	run.Assumptions = append(run.Assumptions, "the validator closure has one scheduling point (the verifhook gate after the per-call measurement is captured); accesses outside that window are covered only by the race-detector stress run",
		"race reports count only when a frame lies in the repository")
	if _, err := vk.RunTLC(vk.TLCOpts{Module: "SnpValidator", Config: "Neg_SnpValidator.cfg", Timeout: 5 * time.Minute, ExpectViolation: true}); err != nil {
		run.Infra(err)
		return
	}
	// the bounded runs below cover N = 2..4 calls; the proof removes the bound (any N, any families)
	if _, err := vk.RunTLAPS(run, "SnpValidatorProof", 10*time.Minute); err != nil {
		run.Infra(err)
		return
	}
	ns := []int{2, 3}
	if !run.IsQuick() {
		ns = []int{2, 3, 4}
	}
	env, err := newC09env()
	if err != nil {
		run.Infra(err)
		return
	}
	installGate()
	defer verifhook.SetGate(nil)
	ctx := fx.Ctx(nil, false, false)
	for _, n := range ns {
		em, err := vk.RunTLC(vk.TLCOpts{Module: "SnpValidator", Config: fmt.Sprintf("Emit_SnpValidator_%d.cfg", n), Workers: 1, Timeout: 10 * time.Minute})
		if err != nil {
			run.Infra(err)
			return
		}
		run.AddTLC(em)
		for i, raw := range em.Cases {
			var c struct {
				Att   []string `json:"att"`
				Sched []seg    `json:"sched"`
			}
			if err := json.Unmarshal(raw, &c); err != nil {
				run.Infra(err)
				return
			}
			modes := []string{"one-validator", "validators-sharing-options", "SevValidate", "SevValidate-extracting", "SevValidate-base-policy",
				// the caller gave the validator the endorsement (reports differ in their measurement); every
				// report of one firmware comes with its own delivered endorsement, genuine or with a broken signature
				"one-validator-given-endorsement", "one-validator-delivered-endorsements"}
			if n == 4 {
				modes = modes[:1+i%7]
				modes = modes[len(modes)-1:]
			}
			for _, mode := range modes {
				var calls []func() error
				shared := env.roots()
				one := verify.SNPValidateFunc(shared)
				sevShared := env.sevOpt()
				sevSharedNo := env.sevOptNo()
				sevSharedBase := env.sevOptBase()
				given := env.roots()
				given.Endorsement = env.endo
				oneGiven := verify.SNPValidateFunc(given)
				for p := range c.Att {
					abuild := env.attBuild[p%2][c.Att[p]]
					a := env.attOf[c.Att[p]]
					aself := env.attSelf[c.Att[p]]
					switch mode {
					case "one-validator":
						calls = append(calls, func() error { return one(a, env.eb) })
					case "one-validator-given-endorsement":
						calls = append(calls, func() error { return oneGiven(a, nil) })
					case "one-validator-delivered-endorsements":
						blob := env.eb
						if c.Att[p] == "unendorsed" {
							blob = env.bad
						}
						calls = append(calls, func() error { return one(env.attOf["endorsed"], blob) })
					case "validators-sharing-options":
						f := verify.SNPValidateFunc(shared)
						calls = append(calls, func() error { return f(a, env.eb) })
					case "SevValidate-base-policy":
						calls = append(calls, func() error { return gtb.SevValidate(ctx, abuild, sevSharedBase) })
					case "SevValidate-extracting":
						calls = append(calls, func() error { return gtb.SevValidate(ctx, aself, sevSharedNo) })
					default:
						calls = append(calls, func() error { return gtb.SevValidate(ctx, a, sevShared) })
					}
				}
				// the options values the calls share, as configured by the caller
				sharedBefore := *shared
				sevBefore, sevNoBefore, sevBaseBefore := *sevShared, *sevSharedNo, *sevSharedBase
				baseBefore := proto.Clone(sevSharedBase.BasePolicy)
				res, ferr := forced(calls, c.Sched)
				if ferr != nil {
					run.Infra(ferr)
					return
				}
				// "the outcome depends only on ... the options the caller configured": the calls must not
				// reconfigure the shared options (a time, an endorsement or a policy written into them is
				// seen by every later call)
				changed := ""
				switch {
				case mode == "one-validator" || mode == "validators-sharing-options" || mode == "one-validator-delivered-endorsements":
					if !shared.Now.Equal(sharedBefore.Now) || shared.Endorsement != sharedBefore.Endorsement || shared.Getter != sharedBefore.Getter || shared.RootsOfTrust != sharedBefore.RootsOfTrust || !bytes.Equal(shared.ExpectedUefiSha384, sharedBefore.ExpectedUefiSha384) {
						changed = "verify.Options"
					}
				case mode == "SevValidate":
					if !sevShared.Now.Equal(sevBefore.Now) || sevShared.Endorsement != sevBefore.Endorsement || sevShared.BasePolicy != sevBefore.BasePolicy || sevShared.ExpectedLaunchVmsas != sevBefore.ExpectedLaunchVmsas {
						changed = "SevValidateOptions"
					}
				case mode == "SevValidate-extracting":
					if !sevSharedNo.Now.Equal(sevNoBefore.Now) || sevSharedNo.Endorsement != sevNoBefore.Endorsement || sevSharedNo.BasePolicy != sevNoBefore.BasePolicy {
						changed = "SevValidateOptions"
					}
				default:
					if !sevSharedBase.Now.Equal(sevBaseBefore.Now) || sevSharedBase.Endorsement != sevBaseBefore.Endorsement || !proto.Equal(sevSharedBase.BasePolicy, baseBefore) {
						changed = "SevValidateOptions"
					}
				}
				if changed != "" {
					run.Violation("options-reconfigured:"+mode, fmt.Sprintf("the shared %s value was modified by the validation calls (%s): later calls no longer run with what the caller configured", changed, mode), map[string]any{"mode": mode})
				}
				for p, acc := range res {
					if acc != env.alone[c.Att[p]] {
						kind := "unendorsed-accepted"
						if !acc {
							kind = "endorsed-rejected"
						}
						run.Violation("not-reentrant:"+mode+":"+kind, fmt.Sprintf("call %d (%s attestation) got accept=%v under schedule %v with calls %v (%s); alone it gets %v", p+1, c.Att[p], acc, c.Sched, c.Att, mode, env.alone[c.Att[p]]),
							map[string]any{"attestations": c.Att, "schedule": c.Sched, "mode": mode, "results": res})
					}
				}
				run.Case(mode+string(raw), true)
			}
			if i == len(em.Cases)/2 {
				run.Sample(map[string]any{"calls": c.Att, "schedule": c.Sched})
			}
		}
	}
	// validators for two firmware families built from one options value, endorsement downloaded: each
	// call gets what its own validator gives in isolation, whichever validator was built last
	{
		if _, err := vk.RunTLC(vk.TLCOpts{Module: "SnpValidator", Config: "Neg_SnpValidator_fam.cfg", Timeout: 5 * time.Minute, ExpectViolation: true}); err != nil {
			run.Infra(err)
			return
		}
		em, err := vk.RunTLC(vk.TLCOpts{Module: "SnpValidator", Config: "Emit_SnpValidator_fam.cfg", Workers: 1, Timeout: 10 * time.Minute})
		if err != nil {
			run.Infra(err)
			return
		}
		run.AddTLC(em)
		const otherFamily = "5b6f4d2c-9a31-4e0f-8c57-2d1e3f4a5b6c"
		famID := map[string]string{"gce": sev.GCEUefiFamilyID, "other": otherFamily}
		good := env.attOf["endorsed"].GetReport().GetMeasurement()
		for _, raw := range em.Cases {
			var c struct {
				Att    []string `json:"att"`
				Sched  []seg    `json:"sched"`
				Vfam   []string `json:"vfam"`
				Optfam string   `json:"optfam"`
			}
			if err := json.Unmarshal(raw, &c); err != nil {
				run.Infra(err)
				return
			}
			shared := env.roots()
			shared.Getter = &MapGetter{Body: map[string][]byte{snpURL(good): env.eb}}
			// build one validator per family, the one named by optfam last
			order := []string{"other", "gce"}
			if c.Optfam == "other" {
				order = []string{"gce", "other"}
			}
			vals := map[string]func(*spb.Attestation, []byte) error{}
			for _, f := range order {
				vals[f] = verify.SNPFamilyValidateFunc(famID[f], shared)
			}
			var calls []func() error
			for p := range c.Att {
				a, v := env.attOf[c.Att[p]], vals[c.Vfam[p]]
				calls = append(calls, func() error { return v(a, nil) })
			}
			res, ferr := forced(calls, c.Sched)
			if ferr != nil {
				run.Infra(ferr)
				return
			}
			for p, acc := range res {
				// in isolation: a fresh options value, only this validator built from it
				o := env.roots()
				o.Getter = &MapGetter{Body: map[string][]byte{snpURL(good): env.eb}}
				alone := verify.SNPFamilyValidateFunc(famID[c.Vfam[p]], o)(env.attOf[c.Att[p]], nil) == nil
				if acc != alone {
					run.Violation("not-reentrant:validators-of-two-families", fmt.Sprintf("call %d (%s attestation through the %s-family validator, endorsement downloaded) got accept=%v with validators of two families built from one options value (the %s-family one last); a validator built alone gives %v", p+1, c.Att[p], c.Vfam[p], acc, c.Optfam, alone),
						map[string]any{"attestations": c.Att, "validators": c.Vfam, "built_last": c.Optfam, "schedule": c.Sched})
				}
			}
			run.Case("families"+string(raw), true)
		}
	}
	// successive use of one validator over the download path: rejected reports (failed downloads) must
	// not change what later calls get, however many there are
	{
		good := env.attOf["endorsed"].GetReport().GetMeasurement()
		o := env.roots()
		o.Getter = &MapGetter{Body: map[string][]byte{snpURL(good): env.eb}}
		one := verify.SNPValidateFunc(o)
		for round := 0; round < 8; round++ {
			for _, kind := range []string{"unendorsed", "endorsed"} {
				a := env.attOf[kind]
				done := make(chan error, 1)
				go func() {
					defer func() {
						if r := recover(); r != nil {
							done <- fmt.Errorf("PANIC: %v", r)
						}
					}()
					done <- one(a, nil)
				}()
				select {
				case err := <-done:
					if (err == nil) != env.alone[kind] {
						run.Violation("not-reentrant:successive-downloads", fmt.Sprintf("call %d on one validator (%s attestation, endorsement downloaded) got accept=%v; alone it gets %v (%v)", 2*round+1, kind, err == nil, env.alone[kind], err), nil)
					}
				case <-time.After(20 * time.Second):
					run.Violation("validator-blocks:successive-downloads", fmt.Sprintf("call %d on one validator (%s attestation, after %d rejected reports whose download failed) does not return", 2*round+1, kind, round+1), nil)
					round = 99
				}
				if round == 99 {
					break
				}
				run.Case(fmt.Sprintf("successive-download:%d:%s", round, kind), true)
			}
		}
	}
	// a bucket outage (or an endorsement published later) is not a fact about the measurement: once the
	// object can be downloaded, the same long-lived validator accepts the report like a fresh one does
	{
		good := env.attOf["endorsed"].GetReport().GetMeasurement()
		o := env.roots()
		g := &MapGetter{Body: map[string][]byte{}}
		o.Getter = g
		one := verify.SNPValidateFunc(o)
		a := env.attOf["endorsed"]
		first := one(a, nil)
		g.Body[snpURL(good)] = env.eb // the outage ends / the endorsement is published
		second := one(a, nil)
		fo := env.roots()
		fo.Getter = &MapGetter{Body: map[string][]byte{snpURL(good): env.eb}}
		fresh := verify.SNPValidateFunc(fo)(a, nil)
		if first == nil {
			run.AddDrift(1)
			fmt.Printf("DRIFT property=C09 a report was accepted although its endorsement could not be downloaded\n")
		}
		if (second == nil) != (fresh == nil) {
			run.Violation("not-reentrant:download-failure-remembered", fmt.Sprintf("after one failed download for a measurement, the same validator gives accept=%v for that report once the object is served (%v); a fresh validator at the same moment gives accept=%v", second == nil, second, fresh == nil), nil)
		}
		run.Case("successive-download:outage-then-served", true)
	}
	// ... and the other way round: an endorsement that was served and accepted once is not a fact about
	// later reports either -- when the object is gone (withdrawn, or the bucket fails), the same validator
	// gives the report what a fresh validator gets at that moment
	{
		good := env.attOf["endorsed"].GetReport().GetMeasurement()
		o := env.roots()
		g := &MapGetter{Body: map[string][]byte{snpURL(good): env.eb}}
		o.Getter = g
		one := verify.SNPValidateFunc(o)
		a := env.attOf["endorsed"]
		first := one(a, nil)
		delete(g.Body, snpURL(good)) // withdrawn / outage
		for k, att := range []*spb.Attestation{a, env.attOf["unendorsed"], a} {
			later := one(att, nil)
			fo := env.roots()
			fo.Getter = &MapGetter{Body: map[string][]byte{}}
			fresh := verify.SNPValidateFunc(fo)(att, nil)
			if (later == nil) != (fresh == nil) {
				run.Violation("not-reentrant:earlier-download-reused", fmt.Sprintf("a validator that downloaded and accepted an endorsement once (accept=%v) gives accept=%v for call %d after the object is no longer served (%v); a fresh validator at the same moment gives accept=%v (%v)", first == nil, later == nil, k+2, later, fresh == nil, fresh), nil)
				break
			}
		}
		run.Case("successive-download:served-then-outage", true)
	}
	// one SevValidate options value used for a fleet of two endorsed builds (different security versions),
	// in both orders and repeatedly: each attestation gets what it gets with an options value of its own
	for _, order := range [][]int{{0, 1, 0, 1}, {1, 0, 1, 0}, {0, 0, 1, 1, 0}} {
		for _, mk := range []struct {
			name string
			f    func() *gtb.SevValidateOptions
		}{{"options without a base policy", env.sevOptNo}, {"options with a base policy and a named count", env.sevOptBase}} {
			shared := mk.f()
			ctx := fx.Ctx(nil, false, false)
			for k, b := range order {
				for _, kind := range []string{"endorsed", "unendorsed"} {
					att := env.attBuild[b][kind]
					got := gtb.SevValidate(ctx, att, shared)
					alone := gtb.SevValidate(ctx, att, mk.f())
					if (got == nil) != (alone == nil) {
						run.Violation("not-reentrant:sevvalidate-options-history", fmt.Sprintf("SevValidate with one options value (%s) used for two endorsed builds in order %v: call %d (build %d, %s endorsement) gives accept=%v (%v); with an options value of its own it gives accept=%v", mk.name, order, k+1, b, kind, got == nil, got, alone == nil), nil)
					}
				}
			}
			run.Case(fmt.Sprintf("sevvalidate-history:%v:%s", order, mk.name), true)
		}
	}
	// a verdict does not depend on what earlier endorsements carried: an endorsement whose signing
	// certificate was issued by an intermediate authority that its own bundle does not contain gets the
	// same verdict before and after another endorsement, whose bundle does contain that intermediate, went
	// through the verifier (with one validator, and with fresh ones)
	func() {
		m := env.m
		nb, na := time.Date(2024, 6, 1, 0, 0, 0, 0, time.UTC), time.Date(2031, 1, 1, 0, 0, 0, 0, time.UTC)
		inter, err := mkCert(&x509.Certificate{SerialNumber: big.NewInt(31), Subject: pkix.Name{CommonName: "GCE-cc-tcb-intermediate", Organization: []string{"Google"}}, NotBefore: nb, NotAfter: na,
			IsCA: true, BasicConstraintsValid: true, KeyUsage: x509.KeyUsageCertSign}, m.RootCert, &m.O.PublicKey, m.R)
		if err != nil {
			run.Infra(err)
			return
		}
		leaf, err := mkCert(&x509.Certificate{SerialNumber: big.NewInt(32), Subject: m.SignCert.Subject, NotBefore: nb, NotAfter: na,
			KeyUsage: x509.KeyUsageDigitalSignature, BasicConstraintsValid: true}, inter, &m.E.PublicKey, m.O)
		if err != nil {
			run.Infra(err)
			return
		}
		good := env.attOf["endorsed"].GetReport().GetMeasurement()
		mk := func(chain []byte, fw string) (*epb.VMLaunchEndorsement, []byte) {
			gs := GoldenSpec{Snp: map[uint32][]byte{2: good}, Digest: Meas(fw), Timestamp: time.Date(2025, 2, 1, 0, 0, 0, 0, time.UTC), ClSpec: 7, Cert: leaf.Raw, Svn: 1, Chain: chain}
			e := Endorse(gs.Proto(), m.E)
			b, _ := proto.Marshal(e)
			return e, b
		}
		_, withInter := mk(append(pemOf(inter), pemOf(m.RootCert)...), "fw-a")
		_, without := mk(pemOf(m.RootCert), "fw-b")
		one := verify.SNPValidateFunc(env.roots())
		a := env.attOf["endorsed"]
		fresh := func(eb []byte) bool { return verify.SNPValidateFunc(env.roots())(a, eb) == nil }
		before := one(a, without) == nil
		freshBefore := fresh(without)
		mid := one(a, withInter) == nil
		_ = fresh(withInter)
		after := one(a, without) == nil
		freshAfter := fresh(without)
		run.Case("successive:intermediate-in-another-bundle", true)
		if before != after || freshBefore != freshAfter || before != freshBefore {
			run.Violation("not-reentrant:earlier-endorsement-bundle", fmt.Sprintf("an endorsement whose signing certificate needs an intermediate authority that its own bundle lacks gets accept=%v (fresh validator: %v) before, and accept=%v (fresh validator: %v) after another endorsement whose bundle carries that intermediate went through the verifier (that one got accept=%v)", before, freshBefore, after, freshAfter, mid), nil)
		}
	}()
	// options value must still give isolated results afterwards (successive use)
	// free-running stress under the race detector (separate -race build)
	if bin := os.Getenv("VERIF_RACE_BIN"); bin != "" {
		cmd := exec.Command(bin, "C09race")
		var errb bytes.Buffer
		cmd.Stderr = &errb
		cmd.Stdout = &errb
		cmd.Env = append(os.Environ(), "GORACE=halt_on_error=0 exitcode=0")
		if err := cmd.Run(); err != nil {
			run.Infra(fmt.Errorf("race stress binary failed: %v\n%s", err, tailStr(errb.String(), 30)))
			return
		}
		out := errb.String()
		reports := raceRe.FindAllString(out, -1)
		inRepo := 0
		for _, r := range reports {
			if strings.Contains(r, "/repo/") {
				inRepo++
				if inRepo == 1 {
					first := r
					if len(first) > 1500 {
						first = first[:1500]
					}
					run.Violation("data-race", "the race detector reports a data race with a frame in the repository during concurrent validator calls", map[string]any{"report": first})
				}
			}
		}
		var st struct{ Calls, Wrong int }
		for _, ln := range strings.Split(out, "\n") {
			if strings.HasPrefix(ln, "STRESS ") {
				fmt.Sscanf(ln, "STRESS calls=%d wrong=%d", &st.Calls, &st.Wrong)
			}
		}
		if st.Wrong > 0 {
			run.Violation("not-reentrant:stress", fmt.Sprintf("%d of %d free-running concurrent calls got another result than in isolation", st.Wrong, st.Calls), nil)
		}
		run.Extra["race_reports_total"] = len(reports)
		run.Extra["race_reports_in_repository"] = inRepo
		run.Extra["stress_calls"] = st.Calls
		for i := 0; i < st.Calls; i += 1000 {
			run.Case(fmt.Sprintf("stress-%d", i), true)
		}
	} else {
		run.Extra["race_stress"] = "skipped (no -race binary)"
	}
	run.Exhaustive = true
	run.Rule = "SnpValidatorProof.tla: TLAPS proof of C09_Isolated for the per-call design, for any number of calls and any families (inductive invariant: a captured measurement is the call's own); every interleaving of the two segments of N concurrent validator calls (N=2,3; thorough also 4) x every assignment of endorsed/unendorsed attestations emitted by TLC is forced on the real closure with the verifhook gate, in eight sharing modes (a validator given the endorsement by the caller, one validator whose reports of one firmware come with different delivered endorsements, validators of two firmware families built from one options value over the download path, one validator, validators from one Options value, SevValidate with a given endorsement, SevValidate extracting it, SevValidate with a shared base policy over two endorsed builds); each call's result is compared with its isolated result; plus a free-running 16-goroutine stress under the race detector"
}

func tailStr(s string, n int) string {
	l := strings.Split(strings.TrimSpace(s), "\n")
	if len(l) > n {
		l = l[len(l)-n:]
	}
	return strings.Join(l, "\n")
}

// RaceStress is the body of the -race build: free-running concurrent validator calls.
func RaceStress() {
	env, err := newC09env()
	if err != nil {
		fmt.Println("STRESS error", err)
		os.Exit(3)
	}
	one := verify.SNPValidateFunc(env.roots())
	// a second validator that has to download the endorsement (bucket double serving the endorsed
	// measurement's object only)
	dlOpts := env.roots()
	dlOpts.Getter = &MapGetter{Body: map[string][]byte{snpURL(env.attOf["endorsed"].GetReport().GetMeasurement()): env.eb}}
	dl := verify.SNPValidateFunc(dlOpts)
	ctx := fx.Ctx(nil, false, false)
	sevShared := env.sevOpt()
	var wg sync.WaitGroup
	var mu sync.Mutex
	calls, wrong := 0, 0
	for g := 0; g < 16; g++ {
		wg.Add(1)
		go func(g int) {
			defer wg.Done()
			for i := 0; i < 400; i++ {
				k := "endorsed"
				if (g+i)%2 == 0 {
					k = "unendorsed"
				}
				var err error
				if i%5 == 4 {
					err = gtb.SevValidate(ctx, env.attOf[k], sevShared)
				} else if i%5 == 2 {
					err = dl(env.attOf[k], nil)
				} else {
					err = one(env.attOf[k], env.eb)
				}
				mu.Lock()
				calls++
				if (err == nil) != env.alone[k] {
					wrong++
				}
				mu.Unlock()
			}
		}(g)
	}
	wg.Wait()
	fmt.Printf("STRESS calls=%d wrong=%d\n", calls, wrong)
}
