package rp

import (
	"bytes"
	"encoding/json"
	"fmt"
	tcpb "github.com/google/go-tdx-guest/proto/checkconfig"
	"sync"
	"time"

	gtb "github.com/google/gce-tcb-verifier/gcetcbendorsement"
	epb "github.com/google/gce-tcb-verifier/proto/endorsement"
	"github.com/google/gce-tcb-verifier/sev"
	"github.com/google/gce-tcb-verifier/verify"
	spb "github.com/google/go-sev-guest/proto/sevsnp"
	tpb "github.com/google/go-tdx-guest/proto/tdx"
	tdxvalidate "github.com/google/go-tdx-guest/validate"
	tpmpb "github.com/google/go-tpm-tools/proto/attest"
	"google.golang.org/protobuf/proto"

	"verifharness/fx"
	"verifharness/vk"
)

type listRow struct {
	Tech     string   `json:"tech"`
	Listed   []uint32 `json:"listed"`
	Svsm     bool     `json:"svsm"`
	Short2   bool     `json:"short2"`
	Base     string   `json:"base"`
	Meas     string   `json:"meas"`
	Req      uint32   `json:"req"`
	Digest   string   `json:"digest"`
	Entry    string   `json:"entry"`
	Rows     []string `json:"rows"`
	Emptyrow bool     `json:"emptyrow"`
	Mrtd     string   `json:"mrtd"`
	Ram      int      `json:"ram"`
	Table    string   `json:"table"`
	Unspec   bool     `json:"unspec"`
}

func flipBit(b []byte) []byte {
	c := append([]byte{}, b...)
	c[len(c)-1] ^= 1
	return c
}

func measOf(class string) []byte {
	switch class {
	case "n2":
		return flipBit(Meas("m2"))
	case "n16":
		return flipBit(Meas("r16"))
	case "un":
		return Meas("unlisted")
	case "short":
		return Meas("m2")[:47]
	case "nomeas":
		return nil // the report carries no measurement at all
	}
	return Meas(class)
}

// concRam: the specification writes 2^32 + 16 and 2^32 as -16 and -1 (TLC's integers are 32 bits wide)
func concRam(code int) int {
	switch code {
	case -16:
		return 1<<32 + 16
	case -1:
		return 1 << 32
	}
	return code
}

func ramOf(id string) uint32 {
	switch id {
	case "d0":
		return 0
	case "r32":
		return 32
	}
	return 16
}

func in(b []byte, set [][]byte) bool {
	for _, s := range set {
		if len(s) == 48 && bytes.Equal(s, b) {
			return true
		}
	}
	return false
}

// runListing executes one Listing.tla row; returns accepted, the concrete listed / listed-for sets.
func runListing(m *Material, r listRow) (accepted bool, errText string, listed, listedFor [][]byte, policyBad string) {
	ctx := fx.Ctx(nil, false, false)
	roots, now := pool(m.RootCert), time.Date(2026, 6, 1, 0, 0, 0, 0, time.UTC)
	gs := GoldenSpec{Digest: Meas("fw"), Timestamp: time.Date(2025, 2, 1, 0, 0, 0, 0, time.UTC), ClSpec: 9, Cert: m.SignCert.Raw, Svn: 1}
	var err error
	defer func() {
		if p := recover(); p != nil {
			accepted, errText = false, fmt.Sprintf("PANIC: %v", p)
		}
	}()
	if r.Tech == "snp" {
		gs.Snp = map[uint32][]byte{}
		for _, c := range r.Listed {
			v := Meas(fmt.Sprintf("m%d", c))
			if c == 2 && r.Short2 {
				v = []byte{}
			}
			gs.Snp[c] = v
			if len(v) == 48 {
				listed = append(listed, v)
				if c == r.Req {
					listedFor = append(listedFor, v)
				}
			}
		}
		if r.Svsm {
			gs.Svsm = Meas("ms")
			listed = append(listed, gs.Svsm)
			if r.Req == 1 {
				listedFor = append(listedFor, gs.Svsm)
			}
		}
		if r.Req == 0 {
			listedFor = listed
		}
		golden := gs.Proto()
		if r.Digest == "absent" {
			golden.Digest = nil // authentically signed, but no firmware digest is endorsed
		}
		e := Endorse(golden, m.S)
		eb, _ := proto.Marshal(e)
		meas := measOf(r.Meas)
		var want []byte
		switch r.Digest {
		case "eq":
			want = Meas("fw")
		case "diff":
			want = Meas("other-fw")
		case "absent":
			want = Meas("fw")
		}
		att := &spb.Attestation{Report: Report(meas), CertificateChain: &spb.CertificateChain{VcekCert: m.Vcek.Raw}}
		if r.Table == "other" {
			// the attestation's certificate table delivers another genuine endorsement, which lists the
			// report's measurement for every count; the caller's endorsement e is the one validated against
			og := GoldenSpec{Digest: Meas("other-fw"), Timestamp: gs.Timestamp, ClSpec: 10, Cert: m.SignCert.Raw, Svn: 1,
				Snp: map[uint32][]byte{1: meas, 2: meas, 4: meas}}
			ob, _ := proto.Marshal(Endorse(og.Proto(), m.S))
			att.CertificateChain.Extras = map[string][]byte{sev.GCEFwCertGUID: ob}
		}
		switch r.Entry {
		case "SNP":
			// the verifier sees the document as parsed from the signed bytes
			parsed := &epb.VMGoldenMeasurement{}
			if uerr := proto.Unmarshal(e.SerializedUefiGolden, parsed); uerr != nil {
				err = uerr
				break
			}
			err = verify.SNP(parsed, &verify.SNPOptions{Measurement: meas, ExpectedLaunchVMSAs: r.Req})
		case "EndorsementProto":
			err = verify.EndorsementProto(e, &verify.Options{RootsOfTrust: roots, Now: now, ExpectedUefiSha384: want, SNP: &verify.SNPOptions{Measurement: meas, ExpectedLaunchVMSAs: r.Req}})
		case "SNPFunc":
			err = verify.SNPValidateFunc(&verify.Options{RootsOfTrust: roots, Now: now, ExpectedUefiSha384: want, SNP: &verify.SNPOptions{ExpectedLaunchVMSAs: r.Req}})(att, eb)
		case "SevValidate":
			err = gtb.SevValidate(ctx, att, &gtb.SevValidateOptions{Endorsement: e, RootsOfTrust: roots, Now: now, ExpectedLaunchVmsas: r.Req})
			if pol, perr := gtb.SevPolicy(ctx, e, &gtb.SevPolicyOptions{LaunchVmsas: r.Req, AllowUnspecifiedVmsas: true}); perr == nil && r.Req != 0 {
				// a named count pins the measurement: a policy without one leaves the report's measurement
				// unchecked by go-sev-guest, so any report would validate against it
				if len(pol.Measurement) == 0 {
					policyBad = fmt.Sprintf("SevPolicy for %d VMSAs (with AllowUnspecifiedVmsas also set) carries no measurement: the named count is ignored and every report validates against the policy", r.Req)
				} else if !in(pol.Measurement, listedFor) {
					policyBad = fmt.Sprintf("SevPolicy for %d VMSAs carries a measurement that is not the one listed for that count", r.Req)
				}
			}
		case "cli_sev":
			ab, _ := proto.Marshal(&tpmpb.Attestation{TeeAttestation: &tpmpb.Attestation_SevSnpAttestation{SevSnpAttestation: att}})
			args := []string{"sev", "--launch_vmsas", fmt.Sprint(r.Req)}
			if r.Unspec {
				args = append(args, "--allow_unspecified_vmsas")
			}
			_, err = RunCLI(map[string][]byte{"endo.bin": eb, "att.bin": ab, "root.pem": pemOf(m.RootCert)}, now, nil,
				append(args, "validate", "att.bin", "--endorsement", "endo.bin", "--root_cert", "root.pem")...)
		}
	} else {
		for _, id := range r.Rows {
			v := Meas(id)
			gs.Tdx = append(gs.Tdx, &epb.VMTdx_Measurement{RamGib: ramOf(id), EarlyAccept: id == "r16e", Mrtd: v})
			listed = append(listed, v)
			if r.Ram == 0 || int(ramOf(id)) == concRam(r.Ram) {
				listedFor = append(listedFor, v)
			}
		}
		if r.Emptyrow {
			gs.Tdx = append(gs.Tdx, &epb.VMTdx_Measurement{RamGib: 16, Mrtd: []byte{}})
		}
		if gs.Tdx == nil {
			gs.Tdx = []*epb.VMTdx_Measurement{}
		}
		golden := gs.Proto()
		if golden.Tdx == nil {
			golden.Tdx = &epb.VMTdx{Svn: 1}
		}
		e := Endorse(golden, m.S)
		eb, _ := proto.Marshal(e)
		q := proto.Clone(m.Quote).(*tpb.QuoteV4)
		q.TdQuoteBody.MrTd = measOf(r.Mrtd)
		qb, _ := proto.Marshal(&tpmpb.Attestation{TeeAttestation: &tpmpb.Attestation_TdxAttestation{TdxAttestation: q}})
		var base *tcpb.Policy
		if r.Base == "mixed" {
			// the caller's base policy already has an allow-list: one endorsed value (if any) and the quote's own MRTD
			lst := [][]byte{measOf(r.Mrtd)}
			if len(listedFor) > 0 {
				lst = append([][]byte{listedFor[0]}, lst...)
			} else if len(listed) > 0 {
				lst = append([][]byte{listed[0]}, lst...)
			}
			base = &tcpb.Policy{TdQuoteBodyPolicy: &tcpb.TDQuoteBodyPolicy{AnyMrTd: lst}}
		}
		switch r.Entry {
		case "TdxPolicy":
			pol, perr := gtb.TdxPolicy(ctx, e, &gtb.TdxPolicyOptions{RAMGiB: concRam(r.Ram), Base: base})
			if perr != nil {
				err = perr
				break
			}
			any := pol.GetTdQuoteBodyPolicy().GetAnyMrTd()
			if len(any) == 0 {
				policyBad = fmt.Sprintf("TdxPolicy for RAM %d returns an empty MRTD allow-list (every quote would pass)", concRam(r.Ram))
			}
			for _, a := range any {
				if !in(a, listedFor) {
					policyBad = fmt.Sprintf("TdxPolicy for RAM %d puts a value into the allow-list that is not a 48-byte MRTD listed for that size", concRam(r.Ram))
				}
			}
			vopts, verr := tdxvalidate.PolicyToOptions(pol)
			if verr != nil {
				err = verr
				break
			}
			err = tdxvalidate.TdxQuote(q, vopts)
		case "TdxValidate":
			err = gtb.TdxValidate(ctx, qb, &gtb.TdxValidateOptions{Endorsement: e, RootsOfTrust: roots, Now: now, ExpectedRAMGiB: concRam(r.Ram), BasePolicy: base})
		case "cli_tdx":
			_, err = RunCLI(map[string][]byte{"endo.bin": eb, "quote.bin": qb, "root.pem": pemOf(m.RootCert)}, now, nil,
				"tdx", "--ram_gib", fmt.Sprint(concRam(r.Ram)), "validate", "quote.bin", "--endorsement", "endo.bin", "--root_cert", "root.pem")
		}
	}
	if err != nil {
		return false, err.Error(), listed, listedFor, policyBad
	}
	return true, "", listed, listedFor, policyBad
}

// RunC02 is the C02 check.
func RunC02(run *vk.Run) {
	run.Assumptions = append(run.Assumptions, "the endorsement is authentic in every row (authenticity is C01)",
		"count 1 is read as: the table entry for 1 VMSA or the SVSM measurement", "measurements are listed only when 48 bytes long",
		"go-sev-guest / go-tdx-guest option semantics are trusted (an empty allow-list or zero-length entry is unchecked there)")
	for _, neg := range []string{"Neg_Listing_legacy_tdx.cfg", "Neg_Listing_legacy_cli.cfg"} {
		if _, err := vk.RunTLC(vk.TLCOpts{Module: "Listing", Config: neg, Timeout: 5 * time.Minute, ExpectViolation: true}); err != nil {
			run.Infra(err)
			return
		}
	}
	em, err := vk.RunTLC(vk.TLCOpts{Module: "Listing", Config: "Emit_Listing.cfg", Workers: 1, Timeout: 10 * time.Minute})
	if err != nil {
		run.Infra(err)
		return
	}
	run.AddTLC(em)
	m, err := GetMaterial()
	if err != nil {
		run.Infra(err)
		return
	}
	var drift int64
	var mu sync.Mutex
	parallel(len(em.Cases), func(i int) {
		var c struct {
			Row    listRow `json:"row"`
			Result string  `json:"result"`
		}
		if err := json.Unmarshal(em.Cases[i], &c); err != nil {
			run.Infra(fmt.Errorf("%v: %s", err, em.Cases[i]))
			return
		}
		r := c.Row
		acc, et, listed, listedFor, policyBad := runListing(m, r)
		var meas []byte
		named := false
		if r.Tech == "snp" {
			meas, named = measOf(r.Meas), r.Req != 0
		} else {
			meas, named = measOf(r.Mrtd), r.Ram != 0
		}
		rep := map[string]any{"row": r, "real_error": et}
		if acc && !in(meas, listed) {
			run.Violation("accepts-unlisted:"+r.Entry, fmt.Sprintf("%s accepts a measurement the endorsement does not list: %+v", r.Entry, r), rep)
		} else if acc && named && !in(meas, listedFor) {
			run.Violation("accepts-other-config:"+r.Entry, fmt.Sprintf("%s accepts a measurement listed for another configuration than the one named: %+v", r.Entry, r), rep)
		}
		if acc && named && len(listedFor) == 0 {
			run.Violation("unlisted-config-accepted:"+r.Entry, fmt.Sprintf("%s accepts although the endorsement lists nothing for the named configuration: %+v", r.Entry, r), rep)
		}
		if acc && r.Tech == "snp" && (r.Digest == "diff" || r.Digest == "absent") && (r.Entry == "EndorsementProto" || r.Entry == "SNPFunc") {
			run.Violation("digest-mismatch-accepted:"+r.Entry, fmt.Sprintf("%s accepts although the expected firmware digest differs: %+v", r.Entry, r), rep)
		}
		if policyBad != "" {
			run.Violation("policy-open:"+r.Entry, policyBad+fmt.Sprintf(": %+v", r), rep)
		}
		if acc != (c.Result == "accept") {
			mu.Lock()
			drift++
			if drift <= 5 {
				fmt.Printf("DRIFT property=C02 row %+v: real accept=%v (%s), Listing.tla says %s\n", r, acc, et, c.Result)
			}
			mu.Unlock()
		}
		run.Case(string(em.Cases[i]), true)
		if i%4001 == 0 {
			run.Sample(map[string]any{"row": r, "spec_result": c.Result, "real_accepted": acc, "real_error": et})
		}
	})
	// one validator callback used for several attestations that come with the same endorsement bytes: what
	// an earlier call established about the endorsement says nothing about a later report's measurement
	{
		roots, now := pool(m.RootCert), time.Date(2026, 6, 1, 0, 0, 0, 0, time.UTC)
		gs := GoldenSpec{Digest: Meas("fw"), Timestamp: time.Date(2025, 2, 1, 0, 0, 0, 0, time.UTC), ClSpec: 9, Cert: m.SignCert.Raw, Svn: 1,
			Snp: map[uint32][]byte{1: Meas("m1"), 2: Meas("m2")}}
		eb, _ := proto.Marshal(Endorse(gs.Proto(), m.S))
		for _, req := range []uint32{0, 2} {
			for _, via := range []string{"blob", "getter"} {
				mk := func() func(*spb.Attestation, []byte) error {
					o := &verify.Options{RootsOfTrust: roots, Now: now, SNP: &verify.SNPOptions{ExpectedLaunchVMSAs: req}}
					if via == "getter" {
						o.Getter = &MapGetter{Any: eb}
					}
					return verify.SNPValidateFunc(o)
				}
				one := mk()
				for k, cls := range []string{"m2", "n2", "un", "m1", "m2", "n2"} {
					att := &spb.Attestation{Report: Report(measOf(cls)), CertificateChain: &spb.CertificateChain{VcekCert: m.Vcek.Raw}}
					blob := eb
					if via == "getter" {
						blob = nil
					}
					got := one(att, blob) == nil
					alone := mk()(att, blob) == nil
					if got != alone {
						run.Violation("accepts-unlisted:successive:"+via, fmt.Sprintf("call %d on one validator callback (report measurement %s, count %d, endorsement via %s) gives accept=%v; a fresh callback gives %v", k+1, cls, req, via, got, alone), map[string]any{"measurement": cls, "req": req, "via": via})
					}
					run.Case(fmt.Sprintf("successive:%d:%s:%d:%s", req, via, k, cls), true)
				}
			}
		}
	}
	run.AddDrift(drift)
	checkValidateCommands(run, m)
	run.Exhaustive = true
	run.Rule = "every row of Listing.tla (SNP: subsets of VMSA counts x SVSM x zero-length entry x report measurement incl. one-bit neighbour / unlisted / short x requested count x expected digest x entry point, and for SevValidate / the CLI an attestation whose own certificate table carries another genuine endorsement listing the report's measurement; TDX: subsets of RAM/early-accept rows x zero-length row x quote MRTD x requested RAM x entry point; " + fmt.Sprint(len(em.Cases)) + " rows) is realised as a genuinely signed endorsement plus report / quote and executed; the predicates use the listed sets computed by the harness from the endorsement; plus every combination of the validate commands' flags (endorsement file or the attestation's own, root file, base policy file, overwrite, named count / RAM size) on endorsed and unendorsed reports / quotes: the command's verdict is the library's for the options the flags spell"
}
