package rp

import (
	"context"
	"crypto"
	"crypto/rand"
	"crypto/rsa"
	"crypto/sha256"
	"crypto/sha512"
	"crypto/x509"
	"encoding/json"
	"fmt"
	"io"
	"math/big"
	"runtime"
	"strings"
	"sync"
	"time"

	"github.com/google/gce-tcb-verifier/extract/extractsev"
	gtb "github.com/google/gce-tcb-verifier/gcetcbendorsement"
	gcmd "github.com/google/gce-tcb-verifier/gcetcbendorsement/cmd"
	epb "github.com/google/gce-tcb-verifier/proto/endorsement"
	"github.com/google/gce-tcb-verifier/sev"
	sops "github.com/google/gce-tcb-verifier/sign/ops"
	styp "github.com/google/gce-tcb-verifier/sign/types"
	"github.com/google/gce-tcb-verifier/verify"
	spb "github.com/google/go-sev-guest/proto/sevsnp"
	tpmpb "github.com/google/go-tpm-tools/proto/attest"
	"google.golang.org/protobuf/proto"

	"verifharness/fx"
	"verifharness/vk"
)

// Row mirrors Verify.tla's row record.
type Row struct {
	Payload, Sig, Cert, Roots, Time, Prov, Entry string
}

// Parallel runs f(0..n-1) on all cores.
func Parallel(n int, f func(i int)) { parallel(n, f) }

func parallel(n int, f func(i int)) {
	var wg sync.WaitGroup
	ch := make(chan int, 64)
	for w := 0; w < runtime.NumCPU(); w++ {
		wg.Add(1)
		go func() {
			defer wg.Done()
			for i := range ch {
				f(i)
			}
		}()
	}
	for i := 0; i < n; i++ {
		ch <- i
	}
	close(ch)
	wg.Wait()
}

// memIO is the CLI's file system.
type memIO struct {
	mu    sync.Mutex
	files map[string][]byte
	out   map[string]*bufW
}
type bufW struct{ b []byte }

func (w *bufW) Write(p []byte) (int, error) { w.b = append(w.b, p...); return len(p), nil }
func (*bufW) IsTerminal() bool              { return false }

func (m *memIO) Create(path string) (gtb.TerminalWriter, func(), error) {
	m.mu.Lock()
	defer m.mu.Unlock()
	if m.out == nil {
		m.out = map[string]*bufW{}
	}
	w := &bufW{}
	m.out[path] = w
	return w, func() {}, nil
}
func (m *memIO) ReadFile(path string) ([]byte, error) {
	m.mu.Lock()
	defer m.mu.Unlock()
	b, ok := m.files[path]
	if !ok {
		return nil, fmt.Errorf("open %s: no such file", path)
	}
	return b, nil
}

// RunCLI executes the gcetcbendorsement CLI in-process with an in-memory backend.
func RunCLI(files map[string][]byte, now time.Time, getter verify.HTTPSGetter, args ...string) (out map[string][]byte, err error) {
	io_ := &memIO{files: files}
	b := &gcmd.Backend{Now: now, IO: io_}
	if getter != nil {
		b.Getter = getter
	}
	root := gcmd.MakeRoot(gcmd.ContextWithBackend(context.Background(), b))
	root.SetArgs(args)
	root.SetOut(io.Discard)
	root.SetErr(io.Discard)
	root.SilenceErrors, root.SilenceUsage = true, true
	defer func() {
		if r := recover(); r != nil {
			err = fmt.Errorf("PANIC: %v", r)
		}
	}()
	err = root.Execute()
	out = map[string][]byte{}
	for k, w := range io_.out {
		out[k] = w.b
	}
	return out, err
}

type c01env struct {
	sharedPools  map[string]*x509.CertPool // when set: one pool object per roots class, shared by all calls
	m            *Material
	snpMeas      []byte
	att          *spb.Attestation // without the extra entry
	attBytes     []byte
	endo         map[string]*epb.VMLaunchEndorsement // key cert|payload|prov|sig
	genuineBytes []byte                              // a fully genuine endorsement (serialized)
	oracle       map[string]bool                     // concrete signature validity per key
}

func (e *c01env) certDER(class string) []byte {
	switch class {
	case "genuine":
		return e.m.SignCert.Raw
	case "genuine_pkcs1issued":
		return e.m.SignCertPKCS1.Raw
	case "genuine_sha384issued":
		return e.m.SignCertPSS384.Raw
	case "garbage":
		return []byte("this is not a DER certificate at all")
	case "self_signed_evil":
		return e.m.EvilSelf.Raw
	case "evil_chain":
		return e.m.EvilLeaf.Raw
	case "webca_issued":
		return e.m.WebLeaf.Raw
	case "genuine_critext":
		return e.m.SignCertCrit.Raw
	case "self_signed_evil_critext":
		return e.m.EvilSelfCrit.Raw
	case "evil_chain_critext":
		return e.m.EvilLeafCrit.Raw
	}
	return nil
}
func (e *c01env) certKey(class string) *rsa.PrivateKey {
	if strings.HasPrefix(class, "self_signed_evil") || strings.HasPrefix(class, "evil_chain") || class == "webca_issued" {
		return e.m.E
	}
	return e.m.S
}

func (e *c01env) build() {
	m := e.m
	e.snpMeas = Meas("snp-report")
	e.att = &spb.Attestation{Report: Report(e.snpMeas), CertificateChain: &spb.CertificateChain{VcekCert: m.Vcek.Raw}}
	e.attBytes, _ = proto.Marshal(&tpmpb.Attestation{TeeAttestation: &tpmpb.Attestation_SevSnpAttestation{SevSnpAttestation: e.att}})
	e.endo = map[string]*epb.VMLaunchEndorsement{}
	e.oracle = map[string]bool{}
	{
		gs := GoldenSpec{Snp: map[uint32][]byte{2: e.snpMeas}, Tdx: []*epb.VMTdx_Measurement{{Mrtd: m.Mrtd}}, Digest: Meas("fw"), Cert: m.SignCert.Raw, Svn: 1,
			Timestamp: time.Date(2025, 2, 1, 0, 0, 0, 0, time.UTC), ClSpec: 4321}
		e.genuineBytes, _ = proto.Marshal(Endorse(gs.Proto(), m.S))
	}
	garbageSig := make([]byte, 256)
	for i := range garbageSig {
		garbageSig[i] = byte(i*7 + 3)
	}
	for _, cert := range []string{"genuine", "genuine_pkcs1issued", "genuine_sha384issued", "absent", "garbage", "self_signed_evil", "evil_chain",
		"genuine_critext", "self_signed_evil_critext", "evil_chain_critext", "webca_issued"} {
		for _, prov := range []string{"old_none", "new_none", "new_clspec", "new_commit"} {
			gs := GoldenSpec{Snp: map[uint32][]byte{2: e.snpMeas}, Tdx: []*epb.VMTdx_Measurement{{Mrtd: m.Mrtd}}, Digest: Meas("fw"), Cert: e.certDER(cert), Svn: 1}
			switch prov {
			case "old_none":
				gs.Timestamp = time.Date(2024, 6, 1, 0, 0, 0, 0, time.UTC)
			case "new_none":
				gs.Timestamp = time.Date(2025, 2, 1, 0, 0, 0, 0, time.UTC)
			case "new_clspec":
				gs.Timestamp, gs.ClSpec = time.Date(2025, 2, 1, 0, 0, 0, 0, time.UTC), 4321
			default:
				gs.Timestamp, gs.Commit = time.Date(2025, 2, 1, 0, 0, 0, 0, time.UTC), make([]byte, 20)
			}
			doc := gs.Proto()
			canon, _ := proto.MarshalOptions{Deterministic: true}.Marshal(doc)
			other := gs
			other.Digest = Meas("another firmware")
			otherBytes, _ := proto.MarshalOptions{Deterministic: true}.Marshal(other.Proto())
			// non-canonical serialisation of the same message: digest field moved to the end
			nd := gs
			nd.Digest = nil
			head, _ := proto.MarshalOptions{Deterministic: true}.Marshal(nd.Proto())
			tailB, _ := proto.Marshal(&epb.VMGoldenMeasurement{Digest: gs.Digest})
			noncanon := append(append([]byte{}, head...), tailB...)
			payloads := map[string][2][]byte{ // carried bytes, "other" bytes for over_other
				"canonical":    {canon, otherBytes},
				"noncanonical": {noncanon, canon},
				"unparseable":  {[]byte{0xff, 0xff, 0xff, 0xff, 0xff, 0xff, 0xff, 0xff, 0xff, 0xff, 0x7f, 0x01}, canon},
			}
			k := e.certKey(cert)
			for pname, pb := range payloads {
				carried, otherB := pb[0], pb[1]
				h := sha256.Sum256(carried)
				h384 := sha512.Sum384(carried)
				pk, _ := rsa.SignPKCS1v15(rand.Reader, k, crypto.SHA256, h[:])
				s384, _ := rsa.SignPSS(rand.Reader, k, crypto.SHA384, h384[:], &rsa.PSSOptions{SaltLength: rsa.PSSSaltLengthEqualsHash})
				sigs := map[string][]byte{"valid": SignPSS(k, carried), "over_other": SignPSS(k, otherB), "other_key": SignPSS(m.O, carried),
					"pkcs1": pk, "sha384": s384, "garbage": garbageSig, "absent": nil}
				for sname, sig := range sigs {
					key := cert + "|" + pname + "|" + prov + "|" + sname
					e.endo[key] = &epb.VMLaunchEndorsement{SerializedUefiGolden: carried, Signature: sig}
					// independent oracle: PSS/SHA-256 verification under the carried certificate's key
					ok := false
					if c, err := x509.ParseCertificate(e.certDER(cert)); err == nil {
						if pub, isRSA := c.PublicKey.(*rsa.PublicKey); isRSA {
							ok = rsa.VerifyPSS(pub, crypto.SHA256, h[:], sig, &rsa.PSSOptions{SaltLength: rsa.PSSSaltLengthEqualsHash, Hash: crypto.SHA256}) == nil
						}
					}
					e.oracle[key] = ok
				}
			}
		}
	}
}

// sopsCA is the certificate authority sign/ops/verify.go reads from: one certificate, one bundle.
type sopsCA struct {
	styp.CertificateAuthority
	cert, bundle []byte
}

func (c *sopsCA) Certificate(context.Context, string) ([]byte, error) { return c.cert, nil }
func (c *sopsCA) CABundle(context.Context, string) ([]byte, error)    { return c.bundle, nil }

func (e *c01env) roots(class string) *x509.CertPool {
	if p := e.sharedPools[class]; p != nil {
		return p // one pool object reused across calls (see the successive-use pass)
	}
	return e.roots0(class)
}

func (e *c01env) roots0(class string) *x509.CertPool {
	switch class {
	case "empty", "emptyfile":
		return x509.NewCertPool()
	case "R":
		return pool(e.m.RootCert)
	case "foreign":
		return pool(e.m.ForeignCert)
	case "R_and_foreign":
		return pool(e.m.RootCert, e.m.ForeignCert)
	}
	return nil
}
func (e *c01env) rootsFile(class string) []byte {
	switch class {
	case "R":
		return pemOf(e.m.RootCert)
	case "foreign":
		return pemOf(e.m.ForeignCert)
	case "R_and_foreign":
		return pemOf(e.m.RootCert, e.m.ForeignCert)
	case "empty":
		return []byte("no certificates in here")
	case "emptyfile":
		return []byte{}
	}
	return nil
}
func (e *c01env) when(class string) time.Time {
	switch class {
	case "before":
		return e.m.SignNB.Add(-time.Second)
	case "nb":
		return e.m.SignNB
	case "na":
		return e.m.SignNA
	case "after":
		return e.m.SignNA.Add(time.Second)
	}
	return time.Date(2026, 6, 1, 0, 0, 0, 0, time.UTC)
}

func snpURL(meas []byte) string {
	return verify.GCETcbURL(extractsev.GCETcbObjectName(sev.GCEUefiFamilyID, meas))
}

// run executes one row on the real code and reports whether the endorsement was accepted.
func (e *c01env) run(r Row) (accepted bool, errText string) {
	en := e.endo[r.Cert+"|"+r.Payload+"|"+r.Prov+"|"+r.Sig]
	eb, _ := proto.Marshal(en)
	roots, now := e.roots(r.Roots), e.when(r.Time)
	var err error
	func() {
		defer func() {
			if p := recover(); p != nil {
				err = fmt.Errorf("PANIC: %v", p)
			}
		}()
		ctx := fx.Ctx(nil, false, false)
		base := func() *verify.Options { return &verify.Options{RootsOfTrust: roots, Now: now} }
		attWith := func(extra []byte) *spb.Attestation {
			a := proto.Clone(e.att).(*spb.Attestation)
			if extra != nil {
				a.CertificateChain.Extras = map[string][]byte{sev.GCEFwCertGUID: extra}
			}
			return a
		}
		switch r.Entry {
		case "Endorsement":
			err = verify.Endorsement(eb, base())
		case "EndorsementProto":
			err = verify.EndorsementProto(en, base())
		case "SNPFunc_blob":
			err = verify.SNPValidateFunc(base())(e.att, eb)
		case "SNPFunc_opts":
			o := base()
			o.Endorsement = en
			err = verify.SNPValidateFunc(o)(e.att, nil)
		case "SNPFunc_opts_plus_genuine_blob":
			o := base()
			o.Endorsement = en
			err = verify.SNPValidateFunc(o)(e.att, e.genuineBytes)
		case "SevValidate_opts_plus_genuine_extra":
			err = gtb.SevValidate(ctx, attWith(e.genuineBytes), &gtb.SevValidateOptions{Endorsement: en, RootsOfTrust: roots, Now: now})
		case "SNPFunc_getter":
			o := base()
			o.Getter = &MapGetter{Body: map[string][]byte{snpURL(e.snpMeas): eb}}
			err = verify.SNPValidateFunc(o)(e.att, nil)
		case "SevValidate_opts":
			err = gtb.SevValidate(ctx, attWith(nil), &gtb.SevValidateOptions{Endorsement: en, RootsOfTrust: roots, Now: now})
		case "SevValidate_extra":
			err = gtb.SevValidate(ctx, attWith(eb), &gtb.SevValidateOptions{RootsOfTrust: roots, Now: now})
		case "SevValidate_getter":
			err = gtb.SevValidate(ctx, attWith(nil), &gtb.SevValidateOptions{RootsOfTrust: roots, Now: now, Getter: &MapGetter{Body: map[string][]byte{snpURL(e.snpMeas): eb}}})
		case "SevValidate_getter_then_genuine":
			err = gtb.SevValidate(ctx, attWith(nil), &gtb.SevValidateOptions{RootsOfTrust: roots, Now: now, Getter: &SeqGetter{Bodies: [][]byte{eb, e.genuineBytes}}})
		case "TdxValidate_opts":
			err = gtb.TdxValidate(ctx, e.m.QuoteBytes, &gtb.TdxValidateOptions{Endorsement: en, RootsOfTrust: roots, Now: now})
		case "SopsVerifySignatureFromCA":
			// the signer-side library: the authority holds the row's certificate for the key version and the
			// row's roots as its bundle; message and signature are the endorsement's
			g := &epb.VMGoldenMeasurement{}
			_ = proto.Unmarshal(en.GetSerializedUefiGolden(), g)
			ca := &sopsCA{cert: g.GetCert(), bundle: e.rootsFile(r.Roots)}
			err = sops.VerifySignatureFromCA(ctx, ca, "kv", now, en.GetSerializedUefiGolden(), en.GetSignature())
		case "cli_verify", "cli_sev_validate", "cli_tdx_validate", "cli_sev_plus_genuine_extra":
			files := map[string][]byte{"endo.bin": eb, "att.bin": e.attBytes, "quote.bin": e.m.QuoteBytes}
			if r.Entry == "cli_sev_plus_genuine_extra" {
				files["att.bin"], _ = proto.Marshal(&tpmpb.Attestation{TeeAttestation: &tpmpb.Attestation_SevSnpAttestation{SevSnpAttestation: attWith(e.genuineBytes)}})
			}
			var rootArgs []string
			if rf := e.rootsFile(r.Roots); rf != nil {
				files["root.pem"] = rf
				rootArgs = []string{"--root_cert", "root.pem"}
			}
			var args []string
			switch r.Entry {
			case "cli_verify":
				args = append([]string{"verify", "endo.bin"}, rootArgs...)
			case "cli_sev_validate", "cli_sev_plus_genuine_extra":
				args = append([]string{"sev", "validate", "att.bin", "--endorsement", "endo.bin"}, rootArgs...)
			default:
				args = append([]string{"tdx", "validate", "quote.bin", "--endorsement", "endo.bin"}, rootArgs...)
			}
			var getter verify.HTTPSGetter
			if r.Roots == "emptyfile" {
				// the default root is reachable and is the genuine root: an empty --root_cert file must still
				// mean "the caller trusts nothing"
				getter = &MapGetter{Body: map[string][]byte{gtb.DefaultRootURL: pemOf(e.m.RootCert)}}
			}
			_, err = RunCLI(files, now, getter, args...)
		default:
			err = fmt.Errorf("unknown entry %s", r.Entry)
		}
	}()
	if err != nil {
		return false, err.Error()
	}
	return true, ""
}

func classify(errText string) string {
	switch {
	case errText == "":
		return "accept"
	case strings.HasPrefix(errText, "PANIC"):
		return "panic"
	}
	return "reject"
}

// RunC01 is the C01 check.
func RunC01(run *vk.Run) {
	run.Assumptions = append(run.Assumptions, "cryptography is symbolic in the specification (Dolev-Yao); crypto/rsa and crypto/x509 are trusted",
		"forgeries are partitioned into the signature/certificate/root/time classes of Verify.tla; each class is realised with real keys and bytes",
		"PSS signatures with a non-default salt length are not classified (the statement does not fix the salt length)")
	if _, err := vk.RunTLC(vk.TLCOpts{Module: "Verify", Config: "Neg_Verify_tdx.cfg", Timeout: 5 * time.Minute, ExpectViolation: true}); err != nil {
		run.Infra(err)
		return
	}
	// one TLC run checks the invariants on every row and emits the rows (single worker: the
	// emitted lines must not interleave)
	em, err := vk.RunTLC(vk.TLCOpts{Module: "Verify", Config: "Emit_Verify.cfg", Workers: 1, Timeout: 15 * time.Minute})
	if err != nil {
		run.Infra(err)
		return
	}
	run.AddTLC(em)
	if int64(len(em.Cases)) != em.Initial {
		run.Infra(fmt.Errorf("emitted %d rows, TLC had %d initial states", len(em.Cases), em.Initial))
		return
	}
	m, err := GetMaterial()
	if err != nil {
		run.Infra(err)
		return
	}
	t0 := time.Now()
	env := &c01env{m: m}
	env.build()
	fmt.Printf("timing: material+build %.1fs\n", time.Since(t0).Seconds())
	defer func() { fmt.Printf("timing: replay done at %.1fs\n", time.Since(t0).Seconds()) }()
	type emitted struct {
		Row struct {
			Payload, Sig, Cert, Roots, Time, Prov, Entry string
		} `json:"row"`
		Result string `json:"result"`
	}
	var drift int64
	var mu sync.Mutex
	stride := 1
	if run.IsQuick() {
		stride = 4 // quick: a seeded quarter of the rows (every row in thorough)
	}
	parallel(len(em.Cases), func(i int) {
		var c emitted
		if err := json.Unmarshal(em.Cases[i], &c); err != nil {
			run.Infra(err)
			return
		}
		// the library-only entry of sign/ops is cheap: all of its rows run in both tiers
		if c.Row.Entry != "SopsVerifySignatureFromCA" && !vk.Pick(i, run.Seed, stride) {
			return
		}
		r := Row{c.Row.Payload, c.Row.Sig, c.Row.Cert, c.Row.Roots, c.Row.Time, c.Row.Prov, c.Row.Entry}
		// the statement's reading of "authentic" (a genuine-root-issued certificate with a critical
		// extension unknown to the library chains and is in time; the library refuses it all the same)
		specAuth := r.Sig == "valid" && r.Payload != "unparseable" && strings.HasPrefix(r.Cert, "genuine") && (r.Roots == "R" || r.Roots == "R_and_foreign") && (r.Time == "nb" || r.Time == "inside" || r.Time == "na")
		// independent concrete oracle
		sigOK := env.oracle[r.Cert+"|"+r.Payload+"|"+r.Prov+"|"+r.Sig] && r.Payload != "unparseable"
		chainOK := false
		if cc, err := x509.ParseCertificate(env.certDER(r.Cert)); err == nil && env.roots(r.Roots) != nil {
			cc.UnhandledCriticalExtensions = nil // chain and time only: the unknown extension is not the statement's topic
			_, verr := cc.Verify(x509.VerifyOptions{Roots: env.roots(r.Roots), CurrentTime: env.when(r.Time)})
			chainOK = verr == nil
		}
		if (sigOK && chainOK) != specAuth {
			run.Infra(fmt.Errorf("oracle mismatch on row %+v: concrete sig=%v chain=%v, spec authentic=%v", r, sigOK, chainOK, specAuth))
			return
		}
		acc, et := env.run(r)
		if acc && !specAuth {
			why := "signature"
			switch {
			case sigOK && !strings.HasPrefix(r.Cert, "genuine"):
				why = "certificate"
			case sigOK && !(r.Roots == "R" || r.Roots == "R_and_foreign"):
				why = "roots"
			case sigOK:
				why = "time"
			}
			run.Violation("accepts-unauthentic:"+r.Entry+":"+why, fmt.Sprintf("entry point %s accepts an endorsement that is not authentic (%s): %+v", r.Entry, why, r),
				map[string]any{"row": r, "independent_oracle": map[string]bool{"signature_valid": sigOK, "chain_valid": chainOK}})
		}
		if classify(et) == "panic" {
			fmt.Printf("NOTE property=C01 row %+v panics (%s): counted as not accepted; totality is C07's topic\n", r, et)
		}
		want := c.Result == "accept"
		if acc != want {
			mu.Lock()
			drift++
			if drift <= 5 {
				fmt.Printf("DRIFT property=C01 row %+v: real %v (%s), Verify.tla says %s\n", r, acc, et, c.Result)
			}
			mu.Unlock()
		}
		run.Case(string(em.Cases[i]), r.Sig != "valid" || !strings.HasPrefix(r.Cert, "genuine"))
		if i%25013 == 0 {
			run.Sample(map[string]any{"row": r, "spec_result": c.Result, "real_accepted": acc, "real_error": et})
		}
	})
	// successive use: the same roots object and the same endorsement, first at a valid time, then at
	// times outside the certificate's validity (and with the other roots classes): what an earlier
	// call established must not carry over to a call with another verification time or root set
	env.sharedPools = map[string]*x509.CertPool{}
	for _, cls := range []string{"R", "R_and_foreign", "foreign", "empty"} {
		env.sharedPools[cls] = env.roots0(cls)
	}
	for _, entry := range []string{"Endorsement", "EndorsementProto", "SNPFunc_blob", "SNPFunc_opts", "SevValidate_opts", "SevValidate_extra", "TdxValidate_opts"} {
		for _, cert := range []string{"genuine", "genuine_pkcs1issued"} {
			for _, rootsCls := range []string{"R", "R_and_foreign"} {
				warm := Row{Payload: "canonical", Sig: "valid", Cert: cert, Roots: rootsCls, Time: "inside", Prov: "new_clspec", Entry: entry}
				if acc, et := env.run(warm); !acc {
					run.AddDrift(1)
					fmt.Printf("DRIFT property=C01 successive-use warm-up row %+v rejected: %s\n", warm, et)
					continue
				}
				for _, tm := range []string{"before", "after"} {
					r := warm
					r.Time = tm
					if acc, _ := env.run(r); acc {
						run.Violation("not-authentic:successive:time", fmt.Sprintf("entry point %s accepts an endorsement at a time outside its certificate's validity (%s) after the same roots object verified it at a valid time", entry, tm), map[string]any{"row": r})
					}
					run.Case(fmt.Sprintf("successive:%s:%s:%s:%s", entry, cert, rootsCls, tm), true)
				}
			}
		}
	}
	env.sharedPools = nil
	// the wall clock as verification time (no time configured), with one options value kept across calls as
	// a long-running verifier keeps it: a signing certificate that lives for three seconds is accepted while
	// it is valid and refused once it has expired -- by the same options value as by a fresh one
	func() {
		nb := time.Now().Add(-time.Minute)
		na := time.Now().Add(3 * time.Second).Truncate(time.Second)
		short, err := mkCert(&x509.Certificate{SerialNumber: big.NewInt(77), Subject: m.SignCert.Subject, NotBefore: nb, NotAfter: na,
			KeyUsage: x509.KeyUsageDigitalSignature, BasicConstraintsValid: true}, m.RootCert, &m.S.PublicKey, m.R)
		if err != nil {
			run.Infra(err)
			return
		}
		gs := GoldenSpec{Snp: map[uint32][]byte{2: env.snpMeas}, Tdx: []*epb.VMTdx_Measurement{{Mrtd: m.Mrtd}}, Digest: Meas("fw"), Cert: short.Raw, Svn: 1,
			Timestamp: time.Now().Add(-30 * time.Second), ClSpec: 4321}
		en := Endorse(gs.Proto(), m.S)
		ctx := fx.Ctx(nil, false, false)
		vo := &verify.Options{RootsOfTrust: pool(m.RootCert)}
		so := &gtb.SevValidateOptions{Endorsement: en, RootsOfTrust: pool(m.RootCert)}
		to := &gtb.TdxValidateOptions{Endorsement: en, RootsOfTrust: pool(m.RootCert)}
		calls := []struct {
			name string
			f    func() error
		}{
			{"verify.EndorsementProto", func() error { return verify.EndorsementProto(en, vo) }},
			{"SevValidate", func() error { return gtb.SevValidate(ctx, proto.Clone(env.att).(*spb.Attestation), so) }},
			{"TdxValidate", func() error { return gtb.TdxValidate(ctx, m.QuoteBytes, to) }},
		}
		first := make([]error, len(calls))
		for i, c := range calls {
			first[i] = c.f()
		}
		if !time.Now().Before(na) {
			fmt.Printf("NOTE property=C01 wall-clock pass skipped: the machine was too slow for a three-second certificate\n")
			return
		}
		time.Sleep(time.Until(na.Add(1200 * time.Millisecond)))
		for i, c := range calls {
			if first[i] != nil {
				continue // (the quote / report of the fixture may be refused for other reasons at the wall clock's time)
			}
			if err := c.f(); err == nil {
				run.Violation("not-authentic:successive:wall-clock", fmt.Sprintf("%s with no verification time configured (the wall clock decides) and one options value kept across calls accepts an endorsement whose certificate expired %s ago; it had accepted it with the same options value while the certificate was valid", c.name, time.Since(na).Round(100*time.Millisecond)), nil)
			}
			run.Case("successive:wall-clock:"+c.name, true)
		}
	}()
	run.AddDrift(drift)
	run.Exhaustive = !run.IsQuick()
	run.Rule = "every row of Verify.tla (payload x signature x certificate (incl. certificates with an unknown critical extension) x caller roots x caller time x provenance x entry point = " + fmt.Sprint(len(em.Cases)) + ") is realised with real RSA keys, certificates, signatures and attestations and executed on the named entry point (library functions, validator closures, SevValidate, TdxValidate, the three CLI commands in-process, and the signer-side sign/ops.VerifySignatureFromCA, all of whose rows run in both tiers); quick runs a seeded quarter; non-trivial = rows whose signature or certificate is not genuine"
}
