package rp

import (
	"bytes"
	"context"
	"encoding/base64"
	"encoding/hex"
	"encoding/json"
	"encoding/pem"
	"fmt"
	gcmd "github.com/google/gce-tcb-verifier/gcetcbendorsement/cmd"
	"google.golang.org/protobuf/encoding/prototext"
	"io"
	"os"
	"os/exec"
	"strings"
	"sync"
	"time"

	gtb "github.com/google/gce-tcb-verifier/gcetcbendorsement"
	epb "github.com/google/gce-tcb-verifier/proto/endorsement"
	cpb "github.com/google/go-sev-guest/proto/check"
	tcpb "github.com/google/go-tdx-guest/proto/checkconfig"
	"google.golang.org/protobuf/encoding/protowire"
	"google.golang.org/protobuf/proto"

	"verifharness/fx"
	"verifharness/vk"
)

type polRow struct {
	Tech    string `json:"tech"`
	Bpolicy string `json:"bpolicy"`
	Bmeas   string `json:"bmeas"`
	Bsvn    string `json:"bsvn"`
	Bid     bool   `json:"bid"`
	Bauth   bool   `json:"bauth"`
	Bundle  string `json:"bundle"`
	Count   string `json:"count"`
	Ow      bool   `json:"ow"`
	Unspec  bool   `json:"unspec"`
	Base    string `json:"base"`
	Ram     string `json:"ram"`
	Nobase  bool   `json:"nobase"`
	Epol    string `json:"epol"`
}

// endorsedPolicy: the guest policy the row's endorsement carries ("other": not the tool's default)
func endorsedPolicy(r polRow) uint64 {
	if r.Epol == "other" {
		return ProdPolicy | 1<<23
	}
	return ProdPolicy
}

type polOut struct {
	Err       string `json:"err"`
	Policy    string `json:"policy"`
	Meas      string `json:"meas"`
	IDAdded   bool   `json:"idAdded"`
	AuthAdded bool   `json:"authAdded"`
}

func pemBlock(typ string, b []byte) []byte {
	return pem.EncodeToMemory(&pem.Block{Type: typ, Bytes: b})
}

func sevBase(r polRow) *cpb.Policy {
	// fields the derivation does not own, all set: among them the launch identity the caller expects
	// (family / image id, whether an ID block / author key is required)
	p := &cpb.Policy{MinimumVersion: "0.0", MinimumBuild: 3, MinimumLaunchTcb: 5, ReportData: bytes.Repeat([]byte{7}, 64), HostData: bytes.Repeat([]byte{9}, 32),
		FamilyId: bytes.Repeat([]byte{0xaa}, 16), ImageId: bytes.Repeat([]byte{0xbb}, 16), RequireIdBlock: r.Bid, RequireAuthorKey: r.Bauth, Product: nil}
	switch r.Bpolicy {
	case "same":
		p.Policy = endorsedPolicy(r)
	case "diff":
		p.Policy = endorsedPolicy(r) ^ (1 << 19) // debug allowed
	case "stricter":
		p.Policy = endorsedPolicy(r) &^ (1 << 16) // SMT not allowed: a bitwise subset of the endorsed policy
	}
	switch r.Bmeas {
	case "same":
		p.Measurement = Meas("p2")
	case "diff":
		p.Measurement = Meas("base-other")
	}
	switch r.Bsvn {
	case "le":
		p.MinimumGuestSvn = 5
	case "gt":
		p.MinimumGuestSvn = 6
	}
	if r.Bid {
		p.TrustedIdKeys = [][]byte{[]byte("existing id key")}
	}
	if r.Bauth {
		p.TrustedAuthorKeys = [][]byte{[]byte("existing author key")}
	}
	return p
}

func runPolicy(m *Material, r polRow) (problems []string, gotErr string, matchesSpec func(polOut) bool) {
	ctx := fx.Ctx(nil, false, false)
	defer func() {
		if p := recover(); p != nil {
			problems = append(problems, fmt.Sprintf("panic: %v", p))
			gotErr = "PANIC"
			matchesSpec = func(polOut) bool { return false }
		}
	}()
	if r.Tech == "sev" {
		idDER, authDER := m.SignCert.Raw, m.ForeignCert.Raw
		var bundle []byte
		switch r.Bundle {
		case "id":
			bundle = pemBlock("CERTIFICATE", idDER)
		case "id_author":
			bundle = append(pemBlock("CERTIFICATE", idDER), pemBlock("CERTIFICATE", authDER)...)
		case "same_id_author":
			authDER = idDER
			bundle = append(pemBlock("CERTIFICATE", idDER), pemBlock("CERTIFICATE", idDER)...)
		case "three":
			bundle = append(append(pemBlock("CERTIFICATE", idDER), pemBlock("CERTIFICATE", authDER)...), pemBlock("CERTIFICATE", m.RootCert.Raw)...)
		case "wrongtype":
			bundle = pemBlock("PUBLIC KEY", idDER)
		case "wrongauthor":
			bundle = append(pemBlock("CERTIFICATE", idDER), pemBlock("PUBLIC KEY", authDER)...)
		case "garbage":
			bundle = []byte("this is not PEM")
		}
		gs := GoldenSpec{Snp: map[uint32][]byte{2: Meas("p2")}, Svn: 5, Digest: Meas("fw"), Timestamp: time.Date(2025, 2, 1, 0, 0, 0, 0, time.UTC), ClSpec: 1, Cert: m.SignCert.Raw, CaBundle: bundle, Policy: endorsedPolicy(r)}
		e := Endorse(gs.Proto(), m.S)
		endoPol := endorsedPolicy(r)
		base := sevBase(r)
		callBase := base
		if r.Nobase {
			// the caller gives no base at all: what the result is compared with is a policy with nothing set
			// (and the minimum version the library fills in)
			base, callBase = &cpb.Policy{MinimumVersion: "0.0"}, nil
		}
		// a base that already trusts keys may trust the endorsement's certificates in the other role
		if r.Bid {
			base.TrustedIdKeys = append(base.TrustedIdKeys, m.ForeignCert.Raw)
		}
		if r.Bauth {
			base.TrustedAuthorKeys = append(base.TrustedAuthorKeys, m.SignCert.Raw)
		}
		snap := proto.Clone(base).(*cpb.Policy)
		count := map[string]uint32{"listed": 2, "unlisted": 8, "zero": 0}[r.Count]
		out, err := gtb.SevPolicy(ctx, e, &gtb.SevPolicyOptions{Base: callBase, LaunchVmsas: count, Overwrite: r.Ow, AllowUnspecifiedVmsas: r.Unspec})
		if !proto.Equal(base, snap) {
			problems = append(problems, "base-mutated: the caller's base policy changed")
		}
		if err != nil {
			return problems, err.Error(), func(o polOut) bool { return o.Err != "" }
		}
		if out == callBase {
			problems = append(problems, "base-mutated: the result is the caller's base object, not a new policy")
		}
		endoMeas := Meas("p2")
		if !r.Ow {
			if base.Policy != 0 && out.Policy != base.Policy {
				problems = append(problems, fmt.Sprintf("weakened: guest policy %#x replaced by %#x without overwrite", base.Policy, out.Policy))
			}
			if len(base.Measurement) != 0 && !bytes.Equal(out.Measurement, base.Measurement) {
				problems = append(problems, "weakened: measurement replaced without overwrite")
			}
			if base.MinimumGuestSvn != 0 && out.MinimumGuestSvn != base.MinimumGuestSvn {
				problems = append(problems, "weakened: minimum guest SVN changed without overwrite")
			}
			if base.MinimumGuestSvn > 5 {
				problems = append(problems, "weakened: endorsement SVN below the base minimum accepted without overwrite")
			}
		}
		if base.Policy == 0 && out.Policy != endoPol {
			problems = append(problems, fmt.Sprintf("not-from-endorsement: the base names no guest policy, so the result's is the endorsement's; it is %#x", out.Policy))
		}
		if out.Policy != base.Policy && out.Policy != endoPol {
			problems = append(problems, "not-from-endorsement: guest policy is neither the base's nor the endorsement's")
		}
		if !bytes.Equal(out.Measurement, base.Measurement) && !(count == 2 && bytes.Equal(out.Measurement, endoMeas)) {
			problems = append(problems, "not-from-endorsement: measurement is neither the base's nor the one endorsed for the requested count")
		}
		if count != 0 && !bytes.Equal(out.Measurement, endoMeas) {
			problems = append(problems, "not-from-endorsement: a count was named but the result's measurement is not the endorsed one")
		}
		wantID := append([][]byte{}, base.TrustedIdKeys...)
		wantAuth := append([][]byte{}, base.TrustedAuthorKeys...)
		if r.Bundle == "id" || r.Bundle == "id_author" || r.Bundle == "same_id_author" {
			wantID = append(wantID, idDER)
		}
		if r.Bundle == "id_author" || r.Bundle == "same_id_author" {
			wantAuth = append(wantAuth, authDER)
		}
		if !sameList(out.TrustedIdKeys, wantID) || !sameList(out.TrustedAuthorKeys, wantAuth) {
			problems = append(problems, "not-from-endorsement: trusted identity/author keys are not the base's followed by the endorsement's")
		}
		a, b := proto.Clone(out).(*cpb.Policy), proto.Clone(base).(*cpb.Policy)
		for _, p := range []*cpb.Policy{a, b} {
			p.Policy, p.Measurement, p.TrustedIdKeys, p.TrustedAuthorKeys = 0, nil, nil, nil
		}
		if !proto.Equal(a, b) {
			problems = append(problems, "unrelated-changed: a field the derivation does not own differs from the base")
		}
		return problems, "", func(o polOut) bool {
			if o.Err != "" {
				return false
			}
			wp := base.Policy
			if o.Policy == "endo" {
				wp = endoPol
			}
			wm := base.Measurement
			if o.Meas == "endo" {
				wm = endoMeas
			}
			return out.Policy == wp && bytes.Equal(out.Measurement, wm) &&
				(len(out.TrustedIdKeys) == len(base.TrustedIdKeys)+btoi(o.IDAdded)) && (len(out.TrustedAuthorKeys) == len(base.TrustedAuthorKeys)+btoi(o.AuthAdded))
		}
	}
	// tdx
	// (two measurements for 16 GiB: with and without early accept, as the signer lists them for a shape)
	gs := GoldenSpec{Tdx: []*epb.VMTdx_Measurement{{RamGib: 16, Mrtd: Meas("t16")}, {RamGib: 16, EarlyAccept: true, Mrtd: Meas("t16e")}, {RamGib: 0, Mrtd: Meas("t0")}}, Svn: 1, Digest: Meas("fw"), Timestamp: time.Date(2025, 2, 1, 0, 0, 0, 0, time.UTC), ClSpec: 1, Cert: m.SignCert.Raw}
	e := Endorse(gs.Proto(), m.S)
	var base *tcpb.Policy
	hdr := &tcpb.HeaderPolicy{MinimumQeSvn: 3, QeVendorId: bytes.Repeat([]byte{1}, 16)}
	switch r.Base {
	case "nobody":
		base = &tcpb.Policy{HeaderPolicy: hdr}
	case "body_nolist":
		base = &tcpb.Policy{HeaderPolicy: hdr, TdQuoteBodyPolicy: &tcpb.TDQuoteBodyPolicy{MrSeam: bytes.Repeat([]byte{2}, 48), Xfam: bytes.Repeat([]byte{3}, 8)}}
	case "list_same":
		base = &tcpb.Policy{HeaderPolicy: hdr, TdQuoteBodyPolicy: &tcpb.TDQuoteBodyPolicy{MrSeam: bytes.Repeat([]byte{2}, 48), AnyMrTd: [][]byte{Meas("t16")}}}
	case "list_diff":
		base = &tcpb.Policy{HeaderPolicy: hdr, TdQuoteBodyPolicy: &tcpb.TDQuoteBodyPolicy{MrSeam: bytes.Repeat([]byte{2}, 48), AnyMrTd: [][]byte{Meas("base-only")}}}
	case "pin_listed":
		base = &tcpb.Policy{HeaderPolicy: hdr, TdQuoteBodyPolicy: &tcpb.TDQuoteBodyPolicy{MrSeam: bytes.Repeat([]byte{2}, 48), MrTd: Meas("t16")}}
	case "pin_other":
		base = &tcpb.Policy{HeaderPolicy: hdr, TdQuoteBodyPolicy: &tcpb.TDQuoteBodyPolicy{MrSeam: bytes.Repeat([]byte{2}, 48), MrTd: Meas("base-only")}}
	}
	var snap *tcpb.Policy
	if base != nil {
		snap = proto.Clone(base).(*tcpb.Policy)
	}
	ram := map[string]int{"listed": 16, "unlisted": 64, "zero": 0}[r.Ram]
	out, err := gtb.TdxPolicy(ctx, e, &gtb.TdxPolicyOptions{Base: base, RAMGiB: ram, Overwrite: r.Ow})
	if base != nil && !proto.Equal(base, snap) {
		problems = append(problems, "base-mutated: the caller's base policy changed")
	}
	if err != nil {
		return problems, err.Error(), func(o polOut) bool { return o.Err != "" }
	}
	if base != nil && out == base {
		problems = append(problems, "base-mutated: the result is the caller's base object")
	}
	var want [][]byte
	switch ram {
	case 16:
		want = [][]byte{Meas("t16"), Meas("t16e")}
	case 0:
		want = [][]byte{Meas("t16"), Meas("t16e"), Meas("t0")}
	}
	if !sameList(out.GetTdQuoteBodyPolicy().GetAnyMrTd(), want) {
		problems = append(problems, "not-from-endorsement: MRTD allow-list is not the endorsement's list for the requested RAM size")
	}
	if !r.Ow && base != nil && base.GetTdQuoteBodyPolicy().GetAnyMrTd() != nil {
		problems = append(problems, "weakened: existing MRTD allow-list replaced without overwrite")
	}
	a := proto.Clone(out).(*tcpb.Policy)
	b := &tcpb.Policy{}
	if base != nil {
		b = proto.Clone(base).(*tcpb.Policy)
	}
	if a.TdQuoteBodyPolicy != nil {
		a.TdQuoteBodyPolicy.AnyMrTd = nil
	}
	if b.TdQuoteBodyPolicy == nil {
		b.TdQuoteBodyPolicy = &tcpb.TDQuoteBodyPolicy{}
	}
	b.TdQuoteBodyPolicy.AnyMrTd = nil
	if !proto.Equal(a, b) {
		problems = append(problems, "unrelated-changed: a field the derivation does not own differs from the base")
	}
	return problems, "", func(o polOut) bool { return o.Err == "" }
}

func btoi(b bool) int {
	if b {
		return 1
	}
	return 0
}

func sameList(a, b [][]byte) bool {
	if len(a) != len(b) {
		return false
	}
	for i := range a {
		if !bytes.Equal(a[i], b[i]) {
			return false
		}
	}
	return true
}

// RunC17 is the C17 check.
func RunC17(run *vk.Run) {
	run.Assumptions = append(run.Assumptions, "base fields are classified unset / equal to / different from the endorsement's value; one representative unrelated field per kind",
		"with overwrite the code keeps a non-zero base guest policy; the statement constrains only runs without overwrite, so this is transcribed, not judged")
	if _, err := vk.RunTLC(vk.TLCOpts{Module: "Policy", Config: "Neg_Policy_nobase.cfg", Timeout: 5 * time.Minute, ExpectViolation: true}); err != nil {
		run.Infra(err)
		return
	}
	em, err := vk.RunTLC(vk.TLCOpts{Module: "Policy", Config: "Emit_Policy.cfg", Workers: 1, Timeout: 10 * time.Minute})
	if err != nil {
		run.Infra(err)
		return
	}
	run.AddTLC(em)
	m, err := GetMaterial()
	if err != nil {
		run.Infra(err)
		return
	}
	var drift int64
	var mu sync.Mutex
	parallel(len(em.Cases), func(i int) {
		var c struct {
			Row polRow `json:"row"`
			Out polOut `json:"out"`
		}
		if err := json.Unmarshal(em.Cases[i], &c); err != nil {
			run.Infra(err)
			return
		}
		problems, gotErr, match := runPolicy(m, c.Row)
		for _, p := range problems {
			key := strings.SplitN(p, ":", 2)[0] + ":" + c.Row.Tech
			run.Violation(key, fmt.Sprintf("%s policy derivation: %s; row %+v", c.Row.Tech, p, c.Row), map[string]any{"row": c.Row, "error": gotErr})
		}
		if !match(c.Out) {
			mu.Lock()
			drift++
			if drift <= 5 {
				fmt.Printf("DRIFT property=C17 row %+v: real error=%q, Policy.tla says %+v\n", c.Row, gotErr, c.Out)
			}
			mu.Unlock()
		}
		run.Case(string(em.Cases[i]), true)
		if i%2003 == 0 {
			run.Sample(map[string]any{"row": c.Row, "spec": c.Out, "real_error": gotErr})
		}
	})
	run.AddDrift(drift)
	// the commands: `sev policy ENDORSEMENT --base FILE` / `tdx policy ENDORSEMENT --base FILE` give what the
	// library gives for the base the file holds -- every field of it, also fields this build's schema does
	// not know (a base written with a newer go-sev-guest / go-tdx-guest)
	{
		ctx := fx.Ctx(nil, false, false)
		unknown := protowire.AppendVarint(protowire.AppendTag(nil, 9999, protowire.VarintType), 77)
		unknown = protowire.AppendBytes(protowire.AppendTag(unknown, 9998, protowire.BytesType), []byte("kept for a newer reader"))
		gs := GoldenSpec{Snp: map[uint32][]byte{2: Meas("p2")}, Tdx: []*epb.VMTdx_Measurement{{RamGib: 16, Mrtd: Meas("r16")}}, Svn: 5, Digest: Meas("fw"), Timestamp: time.Date(2025, 2, 1, 0, 0, 0, 0, time.UTC), ClSpec: 1, Cert: m.SignCert.Raw,
			CaBundle: append(pemBlock("CERTIFICATE", m.SignCert.Raw), pemBlock("CERTIFICATE", m.ForeignCert.Raw)...)}
		e := Endorse(gs.Proto(), m.S)
		eb, _ := proto.Marshal(e)
		sevBaseB, _ := proto.Marshal(&cpb.Policy{MinimumGuestSvn: 3, MinimumVersion: "0.0", FamilyId: bytes.Repeat([]byte{0xaa}, 16), TrustedIdKeys: [][]byte{[]byte("existing id key")}})
		sevBaseB = append(sevBaseB, unknown...)
		tdxBaseB, _ := proto.Marshal(&tcpb.Policy{TdQuoteBodyPolicy: &tcpb.TDQuoteBodyPolicy{MinimumTeeTcbSvn: bytes.Repeat([]byte{1}, 16)}})
		tdxBaseB = append(tdxBaseB, unknown...)
		// the endorsed guest policy is carried into the result bit for bit, also bits this build's
		// go-sev-guest does not name (platform requirements of newer firmware ABIs)
		for _, pol := range []uint64{ProdPolicy | 1<<23, ProdPolicy | 1<<24 | 1<<23, ProdPolicy | 1<<21, ProdPolicy | 1<<40} {
			gp := GoldenSpec{Snp: map[uint32][]byte{2: Meas("p2")}, Svn: 5, Digest: Meas("fw"), Timestamp: time.Date(2025, 2, 1, 0, 0, 0, 0, time.UTC), ClSpec: 1, Cert: m.SignCert.Raw, Policy: pol}
			ep := Endorse(gp.Proto(), m.S)
			for _, b := range []*cpb.Policy{nil, {}, {Policy: pol}} {
				for _, ow := range []bool{false, true} {
					out, err := gtb.SevPolicy(ctx, ep, &gtb.SevPolicyOptions{Base: b, LaunchVmsas: 2, Overwrite: ow})
					run.Case(fmt.Sprintf("endorsed-policy:%#x:%v:%v", pol, b != nil, ow), true)
					if err == nil && out.GetPolicy() != pol {
						run.Violation("not-from-endorsement:sev:policy-bits", fmt.Sprintf("sev policy derivation: the endorsement's guest policy is %#x, the derived policy carries %#x (base guest policy %#x, overwrite %v)", pol, out.GetPolicy(), b.GetPolicy(), ow), nil)
					}
				}
			}
		}
		decodeForm := func(form string, b []byte) ([]byte, error) {
			switch form {
			case "hex":
				return hex.DecodeString(strings.TrimSpace(string(b)))
			case "base64":
				return base64.StdEncoding.DecodeString(strings.TrimSpace(string(b)))
			}
			return b, nil
		}
		// every combination of the policy commands' flags: the command writes what the library returns for
		// the options the flags spell (base file or none, overwrite, count / RAM size, allow-unspecified),
		// in the form asked for, to the file or to standard output
		type combo struct {
			base, ow, unspec bool
			n                int
			form, out        string
		}
		var combos []combo
		for _, b := range []bool{false, true} {
			for _, ow := range []bool{false, true} {
				for _, n := range []int{0, 1, 2} {
					for _, form := range []string{"bin", "hex", "base64", "textproto", ""} {
						for _, out := range []string{"out.bin", "-"} {
							for _, un := range []bool{false, true} {
								combos = append(combos, combo{b, ow, un, n, form, out})
							}
						}
					}
				}
			}
		}
		for _, tech := range []string{"sev", "tdx"} {
			for _, c := range combos {
				if tech == "tdx" && c.unspec {
					continue
				}
				files := map[string][]byte{"endo.bin": eb}
				args := []string{tech}
				var sevB *cpb.Policy
				var tdxB *tcpb.Policy
				if c.base {
					args = append(args, "--base", "base.bin")
					if tech == "sev" {
						files["base.bin"] = sevBaseB
						sevB = &cpb.Policy{}
						_ = proto.Unmarshal(sevBaseB, sevB)
					} else {
						files["base.bin"] = tdxBaseB
						tdxB = &tcpb.Policy{}
						_ = proto.Unmarshal(tdxBaseB, tdxB)
					}
				}
				if c.ow {
					args = append(args, "--overwrite")
				}
				val := 0
				if tech == "sev" {
					val = []int{0, 2, 8}[c.n]
					if val != 0 {
						args = append(args, "--launch_vmsas", fmt.Sprint(val))
					}
					if c.unspec {
						args = append(args, "--allow_unspecified_vmsas")
					}
				} else {
					val = []int{0, 16, 64}[c.n]
					if val != 0 {
						args = append(args, "--ram_gib", fmt.Sprint(val))
					}
				}
				args = append(args, "policy", "endo.bin")
				if c.out != "-" {
					args = append(args, "--out", c.out)
				}
				if c.form != "" {
					args = append(args, "--outform", c.form)
				}
				pio := &memIO{files: files}
				root := gcmd.MakeRoot(gcmd.ContextWithBackend(context.Background(), &gcmd.Backend{IO: pio}))
				root.SetArgs(args)
				root.SetOut(io.Discard)
				root.SetErr(io.Discard)
				root.SilenceErrors, root.SilenceUsage = true, true
				var cerr error
				func() {
					defer func() {
						if p := recover(); p != nil {
							cerr = fmt.Errorf("PANIC: %v", p)
						}
					}()
					cerr = root.Execute()
				}()
				var written []byte
				if w := pio.out[c.out]; w != nil {
					written = w.b
				}
				var want proto.Message
				var got proto.Message
				var werr error
				if tech == "sev" {
					var p *cpb.Policy
					p, werr = gtb.SevPolicy(ctx, e, &gtb.SevPolicyOptions{Base: sevB, Overwrite: c.ow, LaunchVmsas: uint32(val), AllowUnspecifiedVmsas: c.unspec})
					want, got = p, &cpb.Policy{}
				} else {
					var p *tcpb.Policy
					p, werr = gtb.TdxPolicy(ctx, e, &gtb.TdxPolicyOptions{Base: tdxB, Overwrite: c.ow, RAMGiB: val})
					want, got = p, &tcpb.Policy{}
				}
				run.Case(fmt.Sprintf("cli-policy:%s:%+v", tech, c), true)
				what := fmt.Sprintf("`%s`", strings.Join(args, " "))
				if cerr != nil && strings.HasPrefix(cerr.Error(), "PANIC") {
					run.Violation("command-panics:"+tech, fmt.Sprintf("%s panics: %v", what, cerr), nil)
					continue
				}
				if (cerr == nil) != (werr == nil) {
					run.Violation("command-differs-from-library:"+tech+":outcome", fmt.Sprintf("%s ends with error %v; the library call the flags spell ends with error %v", what, cerr, werr), map[string]any{"args": args})
					continue
				}
				if cerr != nil {
					continue
				}
				var derr error
				switch c.form {
				case "textproto":
					derr = prototext.Unmarshal(written, got)
					// (text form does not carry unknown fields: compare the known ones)
					w2 := proto.Clone(want)
					w2.ProtoReflect().SetUnknown(nil)
					want = w2
				default: // "" = auto: standard output / the file is not a terminal, so binary
					var raw []byte
					raw, derr = decodeForm(c.form, written)
					if derr == nil {
						derr = proto.Unmarshal(raw, got)
					}
				}
				if derr != nil || !proto.Equal(got, want) {
					run.Violation("command-differs-from-library:"+tech+":policy", fmt.Sprintf("%s writes a policy (%d bytes, decode error %v) that is not the one the library derives for the options the flags spell", what, len(written), derr), map[string]any{"args": args})
				}
			}
		}
	}
	// concurrent derivations from one shared base under the race detector
	if bin := os.Getenv("VERIF_RACE_BIN"); bin != "" {
		cmd := exec.Command(bin, "C17race")
		var errb bytes.Buffer
		cmd.Stderr, cmd.Stdout = &errb, &errb
		cmd.Env = append(os.Environ(), "GORACE=halt_on_error=0 exitcode=0")
		if err := cmd.Run(); err != nil {
			run.Infra(fmt.Errorf("race binary failed: %v\n%s", err, tailStr(errb.String(), 20)))
			return
		}
		n := 0
		for _, r := range raceRe.FindAllString(errb.String(), -1) {
			if strings.Contains(r, "/repo/") {
				n++
				if n == 1 {
					if len(r) > 1500 {
						r = r[:1500]
					}
					run.Violation("data-race", "the race detector reports a data race in the repository while deriving policies concurrently from one shared base", map[string]any{"report": r})
				}
			}
		}
		run.Extra["race_reports_in_repository"] = n
	}
	run.Exhaustive = true
	run.Rule = "every row of Policy.tla (SEV: guest policy / measurement / minimum SVN each unset-same-different, existing id/author keys, no base policy at all, two endorsed guest policies (the tool's default and another value), 8 CA-bundle shapes (incl. one certificate as both ID and author key), listed/unlisted/zero count, overwrite, allow-unspecified; TDX: 5 base shapes x RAM listed/unlisted/zero x overwrite) is executed on the real SevPolicy/TdxPolicy (bases that trust keys also trust the endorsement's certificates in the other role); the base is compared with a deep copy taken before the call and the result field by field with base and endorsement; `sev policy` / `tdx policy --base FILE` must give what the library gives for the base in FILE, unknown fields included"
}

// PolicyRace derives policies concurrently from one shared base (body of the -race build).
func PolicyRace() {
	m, err := GetMaterial()
	if err != nil {
		fmt.Println(err)
		os.Exit(3)
	}
	ctx := fx.Ctx(nil, false, false)
	gs := GoldenSpec{Snp: map[uint32][]byte{2: Meas("p2")}, Tdx: []*epb.VMTdx_Measurement{{RamGib: 16, Mrtd: Meas("t16")}}, Svn: 5, Digest: Meas("fw"),
		Timestamp: time.Date(2025, 2, 1, 0, 0, 0, 0, time.UTC), ClSpec: 1, Cert: m.SignCert.Raw, CaBundle: append(pemBlock("CERTIFICATE", m.SignCert.Raw), pemBlock("CERTIFICATE", m.ForeignCert.Raw)...)}
	e := Endorse(gs.Proto(), m.S)
	base := sevBase(polRow{Bid: true, Bauth: true, Bpolicy: "same"})
	base.TrustedIdKeys = append(make([][]byte, 0, 8), base.TrustedIdKeys...) // spare capacity: an in-place append would race
	tbase := &tcpb.Policy{TdQuoteBodyPolicy: &tcpb.TDQuoteBodyPolicy{MrSeam: bytes.Repeat([]byte{2}, 48)}}
	var wg sync.WaitGroup
	for g := 0; g < 8; g++ {
		wg.Add(1)
		go func() {
			defer wg.Done()
			for i := 0; i < 300; i++ {
				gtb.SevPolicy(ctx, e, &gtb.SevPolicyOptions{Base: base, LaunchVmsas: 2})
				gtb.TdxPolicy(ctx, e, &gtb.TdxPolicyOptions{Base: tbase, RAMGiB: 16})
			}
		}()
	}
	wg.Wait()
	fmt.Println("POLICYRACE done")
}
