package rp

// The validate commands against the library: for every combination of their flags the command's
// verdict is the verdict of SevValidate / TdxValidate called with the options the flags spell
// (endorsement file or the attestation's own, root file, base policy file, overwrite, named count /
// RAM size). Part of C02 (what is validated against what, for the named configuration).

import (
	"fmt"
	"strings"
	"time"

	gtb "github.com/google/gce-tcb-verifier/gcetcbendorsement"
	epb "github.com/google/gce-tcb-verifier/proto/endorsement"
	"github.com/google/gce-tcb-verifier/sev"
	cpb "github.com/google/go-sev-guest/proto/check"
	spb "github.com/google/go-sev-guest/proto/sevsnp"
	tcpb "github.com/google/go-tdx-guest/proto/checkconfig"
	tpb "github.com/google/go-tdx-guest/proto/tdx"
	tpmpb "github.com/google/go-tpm-tools/proto/attest"
	"google.golang.org/protobuf/proto"

	"verifharness/fx"
	"verifharness/vk"
)

func checkValidateCommands(run *vk.Run, m *Material) {
	ctx := fx.Ctx(nil, false, false)
	now := time.Date(2026, 6, 1, 0, 0, 0, 0, time.UTC)
	gs := GoldenSpec{Snp: map[uint32][]byte{2: Meas("m2"), 4: Meas("m4")}, Tdx: []*epb.VMTdx_Measurement{{RamGib: 16, Mrtd: Meas("r16")}, {RamGib: 32, Mrtd: Meas("r32")}},
		Svn: 1, Digest: Meas("fw"), Timestamp: time.Date(2025, 2, 1, 0, 0, 0, 0, time.UTC), ClSpec: 7, Cert: m.SignCert.Raw}
	e := Endorse(gs.Proto(), m.S)
	eb, _ := proto.Marshal(e)
	verdict := func(err error) string {
		switch {
		case err == nil:
			return "accept"
		case strings.HasPrefix(err.Error(), "PANIC"):
			return "panic"
		}
		return "reject"
	}
	safeCLI := func(files map[string][]byte, args ...string) (err error) {
		defer func() {
			if p := recover(); p != nil {
				err = fmt.Errorf("PANIC: %v", p)
			}
		}()
		_, err = RunCLI(files, now, nil, args...)
		return err
	}
	// ---- sev validate ----
	sevBases := map[string]*cpb.Policy{"none": nil, "compat": {MinimumVersion: "0.0", MinimumGuestSvn: 0}, "conflict": {Measurement: Meas("base-other")}}
	for _, meas := range []string{"m2", "un"} {
		for _, extras := range []bool{false, true} {
			att := &spb.Attestation{Report: Report(measOf(meas)), CertificateChain: &spb.CertificateChain{VcekCert: m.Vcek.Raw}}
			if extras {
				att.CertificateChain.Extras = map[string][]byte{sev.GCEFwCertGUID: eb}
			}
			ab, _ := proto.Marshal(&tpmpb.Attestation{TeeAttestation: &tpmpb.Attestation_SevSnpAttestation{SevSnpAttestation: att}})
			for _, given := range []bool{false, true} {
				for _, root := range []string{"R", "foreign"} {
					for bname, base := range sevBases {
						for _, ow := range []bool{false, true} {
							for _, vmsas := range []uint32{0, 2, 4, 8} {
								files := map[string][]byte{"att.bin": ab, "endo.bin": eb, "root.pem": pemOf(m.RootCert)}
								roots := pool(m.RootCert)
								if root == "foreign" {
									files["root.pem"] = pemOf(m.ForeignCert)
									roots = pool(m.ForeignCert)
								}
								args := []string{"sev"}
								if base != nil {
									files["base.bin"], _ = proto.Marshal(base)
									args = append(args, "--base", "base.bin")
								}
								if ow {
									args = append(args, "--overwrite")
								}
								if vmsas != 0 {
									args = append(args, "--launch_vmsas", fmt.Sprint(vmsas))
								}
								args = append(args, "validate", "att.bin", "--root_cert", "root.pem")
								opts := &gtb.SevValidateOptions{RootsOfTrust: roots, Now: now, Overwrite: ow, ExpectedLaunchVmsas: vmsas}
								if base != nil {
									opts.BasePolicy = proto.Clone(base).(*cpb.Policy)
								}
								if given {
									args = append(args, "--endorsement", "endo.bin")
									opts.Endorsement = e
								}
								cerr := safeCLI(files, args...)
								var lerr error
								func() {
									defer func() {
										if p := recover(); p != nil {
											lerr = fmt.Errorf("PANIC: %v", p)
										}
									}()
									lerr = gtb.SevValidate(ctx, proto.Clone(att).(*spb.Attestation), opts)
								}()
								run.Case(fmt.Sprintf("cli-sev-validate:%s:%v:%v:%s:%s:%v:%d", meas, extras, given, root, bname, ow, vmsas), true)
								if verdict(cerr) != verdict(lerr) {
									run.Violation("command-differs-from-library:sev-validate", fmt.Sprintf("`%s` (report measurement %s, endorsement in the attestation: %v) gives %s (%v); SevValidate with the options the flags spell gives %s (%v)", strings.Join(args, " "), meas, extras, verdict(cerr), cerr, verdict(lerr), lerr), map[string]any{"args": args})
								}
							}
						}
					}
				}
			}
		}
	}
	// ---- tdx validate ----
	tdxBases := map[string]*tcpb.Policy{"none": nil, "compat": {TdQuoteBodyPolicy: &tcpb.TDQuoteBodyPolicy{MinimumTeeTcbSvn: make([]byte, 16)}}, "conflict": {TdQuoteBodyPolicy: &tcpb.TDQuoteBodyPolicy{AnyMrTd: [][]byte{Meas("base-other")}}}}
	for _, mrtd := range []string{"r16", "un"} {
		q := proto.Clone(m.Quote).(*tpb.QuoteV4)
		q.TdQuoteBody.MrTd = measOf(mrtd)
		qb, _ := proto.Marshal(&tpmpb.Attestation{TeeAttestation: &tpmpb.Attestation_TdxAttestation{TdxAttestation: q}})
		for _, root := range []string{"R", "foreign"} {
			for bname, base := range tdxBases {
				for _, ow := range []bool{false, true} {
					for _, ram := range []int{0, 16, 32, 64} {
						files := map[string][]byte{"quote.bin": qb, "endo.bin": eb, "root.pem": pemOf(m.RootCert)}
						roots := pool(m.RootCert)
						if root == "foreign" {
							files["root.pem"] = pemOf(m.ForeignCert)
							roots = pool(m.ForeignCert)
						}
						args := []string{"tdx"}
						opts := &gtb.TdxValidateOptions{Endorsement: e, RootsOfTrust: roots, Now: now, Overwrite: ow, ExpectedRAMGiB: ram}
						if base != nil {
							files["base.bin"], _ = proto.Marshal(base)
							args = append(args, "--base", "base.bin")
							opts.BasePolicy = proto.Clone(base).(*tcpb.Policy)
						}
						if ow {
							args = append(args, "--overwrite")
						}
						if ram != 0 {
							args = append(args, "--ram_gib", fmt.Sprint(ram))
						}
						args = append(args, "validate", "quote.bin", "--endorsement", "endo.bin", "--root_cert", "root.pem")
						cerr := safeCLI(files, args...)
						var lerr error
						func() {
							defer func() {
								if p := recover(); p != nil {
									lerr = fmt.Errorf("PANIC: %v", p)
								}
							}()
							lerr = gtb.TdxValidate(ctx, qb, opts)
						}()
						run.Case(fmt.Sprintf("cli-tdx-validate:%s:%s:%s:%v:%d", mrtd, root, bname, ow, ram), true)
						if verdict(cerr) != verdict(lerr) {
							run.Violation("command-differs-from-library:tdx-validate", fmt.Sprintf("`%s` (quote MRTD %s) gives %s (%v); TdxValidate with the options the flags spell gives %s (%v)", strings.Join(args, " "), mrtd, verdict(cerr), cerr, verdict(lerr), lerr), map[string]any{"args": args})
						}
					}
				}
			}
		}
	}
}
