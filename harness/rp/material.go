// Package rp binds the relying-party specifications (Verify.tla, Listing.tla, Policy.tla,
// SnpValidator.tla) to the real verify / gcetcbendorsement code.
package rp

import (
	"bytes"
	"crypto"
	"crypto/rand"
	"crypto/rsa"
	"crypto/sha256"
	"crypto/sha512"
	"crypto/x509"
	"crypto/x509/pkix"
	"encoding/asn1"
	"encoding/pem"
	"fmt"
	"math/big"
	"os"
	"sync"
	"time"

	epb "github.com/google/gce-tcb-verifier/proto/endorsement"
	"github.com/google/go-sev-guest/abi"
	spb "github.com/google/go-sev-guest/proto/sevsnp"
	sgtest "github.com/google/go-sev-guest/testing"
	tabi "github.com/google/go-tdx-guest/abi"
	tpb "github.com/google/go-tdx-guest/proto/tdx"
	"github.com/google/go-tdx-guest/testing/testdata"
	tpmpb "github.com/google/go-tpm-tools/proto/attest"
	"google.golang.org/protobuf/proto"
	"google.golang.org/protobuf/types/known/timestamppb"
)

// Material is the real cryptographic material behind the abstract classes.
type Material struct {
	R, S, E, E2, F, O                        *rsa.PrivateKey
	RootCert                                 *x509.Certificate // R self-signed CA
	SignCert                                 *x509.Certificate // S issued by R
	SignCertPKCS1                            *x509.Certificate // S issued by R with PKCS#1 v1.5 / SHA-256
	SignCertPSS384                           *x509.Certificate // S issued by R with RSA-PSS / SHA-384
	ForeignCert                              *x509.Certificate // F self-signed CA
	EvilSelf                                 *x509.Certificate // E self-signed, same subject as SignCert
	EvilCA                                   *x509.Certificate // E2 self-signed CA
	EvilLeaf                                 *x509.Certificate // E issued by E2
	SignCertCrit, EvilSelfCrit, EvilLeafCrit *x509.Certificate // with an unknown critical extension
	WebCA, WebLeaf                           *x509.Certificate // a CA of the system trust store and a certificate it issued to E
	SignNB, SignNA                           time.Time
	Quote                                    *tpb.QuoteV4
	QuoteBytes                               []byte // serialized tpm attestation carrying the quote
	Mrtd                                     []byte
	Vcek                                     *x509.Certificate
	SnpNow                                   time.Time
}

var (
	matOnce sync.Once
	mat     *Material
	matErr  error
)

func mkCert(tpl, parent *x509.Certificate, pub *rsa.PublicKey, signer *rsa.PrivateKey) (*x509.Certificate, error) {
	if tpl.SignatureAlgorithm == x509.UnknownSignatureAlgorithm {
		tpl.SignatureAlgorithm = x509.SHA256WithRSAPSS
	}
	der, err := x509.CreateCertificate(rand.Reader, tpl, parent, pub, signer)
	if err != nil {
		return nil, err
	}
	return x509.ParseCertificate(der)
}

// GetMaterial generates (once per process) keys, certificates and attestations.
func GetMaterial() (*Material, error) {
	matOnce.Do(func() {
		m := &Material{}
		keys := make([]*rsa.PrivateKey, 6)
		var wg sync.WaitGroup
		for i := range keys {
			wg.Add(1)
			go func(i int) {
				defer wg.Done()
				k, err := rsa.GenerateKey(rand.Reader, 2048)
				if err != nil {
					matErr = err
				}
				keys[i] = k
			}(i)
		}
		wg.Wait()
		if matErr != nil {
			return
		}
		m.R, m.S, m.E, m.E2, m.F, m.O = keys[0], keys[1], keys[2], keys[3], keys[4], keys[5]
		name := func(cn, sn string) pkix.Name {
			return pkix.Name{Country: []string{"USA"}, Organization: []string{"Google"}, CommonName: cn, SerialNumber: sn}
		}
		rootTpl := func(cn string) *x509.Certificate {
			return &x509.Certificate{SerialNumber: big.NewInt(1), Subject: name(cn, "1"), NotBefore: time.Date(2024, 1, 1, 0, 0, 0, 0, time.UTC),
				NotAfter: time.Date(2049, 1, 1, 0, 0, 0, 0, time.UTC), IsCA: true, BasicConstraintsValid: true, KeyUsage: x509.KeyUsageCertSign | x509.KeyUsageCRLSign}
		}
		m.SignNB = time.Date(2025, 1, 1, 0, 0, 0, 0, time.UTC)
		m.SignNA = time.Date(2030, 1, 2, 0, 0, 0, 0, time.UTC)
		leafTpl := func() *x509.Certificate {
			return &x509.Certificate{SerialNumber: big.NewInt(2), Subject: name("GCE-uefi-signer", "2"), NotBefore: m.SignNB, NotAfter: m.SignNA,
				KeyUsage: x509.KeyUsageDigitalSignature, BasicConstraintsValid: true}
		}
		var err error
		rt := rootTpl("GCE-cc-tcb-root")
		if m.RootCert, err = mkCert(rt, rt, &m.R.PublicKey, m.R); err != nil {
			matErr = err
			return
		}
		if m.SignCert, err = mkCert(leafTpl(), m.RootCert, &m.S.PublicKey, m.R); err != nil {
			matErr = err
			return
		}
		p1 := leafTpl()
		p1.SignatureAlgorithm = x509.SHA256WithRSA
		if m.SignCertPKCS1, err = mkCert(p1, m.RootCert, &m.S.PublicKey, m.R); err != nil {
			matErr = err
			return
		}
		p384 := leafTpl()
		p384.SignatureAlgorithm = x509.SHA384WithRSAPSS
		if m.SignCertPSS384, err = mkCert(p384, m.RootCert, &m.S.PublicKey, m.R); err != nil {
			matErr = err
			return
		}
		ft := rootTpl("Foreign-root")
		if m.ForeignCert, err = mkCert(ft, ft, &m.F.PublicKey, m.F); err != nil {
			matErr = err
			return
		}
		es := leafTpl()
		if m.EvilSelf, err = mkCert(es, es, &m.E.PublicKey, m.E); err != nil {
			matErr = err
			return
		}
		et := rootTpl("GCE-cc-tcb-root") // same name as the genuine root, different key
		if m.EvilCA, err = mkCert(et, et, &m.E2.PublicKey, m.E2); err != nil {
			matErr = err
			return
		}
		if m.EvilLeaf, err = mkCert(leafTpl(), m.EvilCA, &m.E.PublicKey, m.E2); err != nil {
			matErr = err
			return
		}
		// the same three certificates with a critical extension crypto/x509 does not know
		crit := func(t *x509.Certificate) *x509.Certificate {
			t.ExtraExtensions = []pkix.Extension{{Id: asn1.ObjectIdentifier{1, 3, 6, 1, 4, 1, 11129, 99, 7}, Critical: true, Value: []byte{0x05, 0x00}}}
			return t
		}
		if m.SignCertCrit, err = mkCert(crit(leafTpl()), m.RootCert, &m.S.PublicKey, m.R); err != nil {
			matErr = err
			return
		}
		esc := crit(leafTpl())
		if m.EvilSelfCrit, err = mkCert(esc, esc, &m.E.PublicKey, m.E); err != nil {
			matErr = err
			return
		}
		if m.EvilLeafCrit, err = mkCert(crit(leafTpl()), m.EvilCA, &m.E.PublicKey, m.E2); err != nil {
			matErr = err
			return
		}
		// a "public web CA" that the process's system trust store contains (SSL_CERT_FILE is pointed at
		// it before crypto/x509 first loads the system roots), and a server certificate it issued to E
		wk, werr := rsa.GenerateKey(rand.Reader, 2048)
		if werr != nil {
			matErr = werr
			return
		}
		wt := rootTpl("Public Web CA")
		if m.WebCA, err = mkCert(wt, wt, &wk.PublicKey, wk); err != nil {
			matErr = err
			return
		}
		wl := leafTpl()
		wl.ExtKeyUsage = []x509.ExtKeyUsage{x509.ExtKeyUsageServerAuth}
		wl.DNSNames = []string{"forger.example"}
		if m.WebLeaf, err = mkCert(wl, m.WebCA, &m.E.PublicKey, wk); err != nil {
			matErr = err
			return
		}
		if f, ferr := os.CreateTemp("", "vk-webca-*.pem"); ferr == nil {
			f.Write(pemOf(m.WebCA))
			f.Close()
			os.Setenv("SSL_CERT_FILE", f.Name())
			os.Setenv("SSL_CERT_DIR", "/nonexistent")
		}
		// TDX quote from go-tdx-guest's test data
		q, err := tabi.QuoteToProto(testdata.RawQuote)
		if err != nil {
			matErr = fmt.Errorf("tdx test quote: %v", err)
			return
		}
		m.Quote = q.(*tpb.QuoteV4)
		m.Mrtd = m.Quote.GetTdQuoteBody().GetMrTd()
		m.QuoteBytes, _ = proto.Marshal(&tpmpb.Attestation{TeeAttestation: &tpmpb.Attestation_TdxAttestation{TdxAttestation: m.Quote}})
		m.SnpNow = time.Date(2025, 6, 1, 0, 0, 0, 0, time.UTC)
		chain, err := sgtest.DefaultTestOnlyCertChain("Milan", m.SnpNow)
		if err != nil {
			matErr = fmt.Errorf("sev test chain: %v", err)
			return
		}
		m.Vcek = chain.Vcek
		mat = m
	})
	return mat, matErr
}

func pemOf(cs ...*x509.Certificate) []byte {
	var b bytes.Buffer
	for _, c := range cs {
		pem.Encode(&b, &pem.Block{Type: "CERTIFICATE", Bytes: c.Raw})
	}
	return b.Bytes()
}

func pool(cs ...*x509.Certificate) *x509.CertPool {
	p := x509.NewCertPool()
	for _, c := range cs {
		p.AddCert(c)
	}
	return p
}

// Meas returns a deterministic 48-byte value.
func Meas(tag string) []byte { d := sha512.Sum384([]byte("measurement " + tag)); return d[:] }

// ProdPolicy is the guest policy the signer endorses.
var ProdPolicy = abi.SnpPolicyToBytes(abi.SnpPolicy{SMT: true, MigrateMA: true})

// Report returns an SNP report carrying the given measurement (as in the repository's tests).
func Report(meas []byte) *spb.Report {
	return &spb.Report{Signature: []byte("signature"), Version: 2, GuestSvn: 2, ReportData: make([]byte, abi.ReportSize),
		FamilyId: make([]byte, abi.FamilyIDSize), ImageId: make([]byte, abi.ImageIDSize), Measurement: meas,
		IdKeyDigest: make([]byte, abi.IDKeyDigestSize), AuthorKeyDigest: make([]byte, abi.AuthorKeyDigestSize),
		HostData: make([]byte, abi.HostDataSize), ReportId: make([]byte, abi.ReportIDSize), ReportIdMa: make([]byte, abi.ReportIDMASize),
		ChipId: make([]byte, abi.ChipIDSize), Policy: abi.SnpPolicyToBytes(abi.SnpPolicy{})}
}

// Golden builds a golden measurement document by hand.
type GoldenSpec struct {
	Snp       map[uint32][]byte
	Svsm      []byte
	Tdx       []*epb.VMTdx_Measurement
	Digest    []byte
	Timestamp time.Time
	ClSpec    uint64
	Commit    []byte
	Cert      []byte
	NoTime    bool
	Svn       uint32
	CaBundle  []byte
	Policy    uint64 // endorsed guest policy (0: ProdPolicy)
	Chain     []byte // the document's own ca_bundle (PEM), as the signer fills it in
}

func (g GoldenSpec) Proto() *epb.VMGoldenMeasurement {
	d := &epb.VMGoldenMeasurement{Digest: g.Digest, ClSpec: g.ClSpec, Commit: g.Commit, Cert: g.Cert, CaBundle: g.Chain}
	if !g.NoTime {
		d.Timestamp = timestamppb.New(g.Timestamp)
	}
	if g.Snp != nil || g.Svsm != nil {
		pol := ProdPolicy
		if g.Policy != 0 {
			pol = g.Policy
		}
		d.SevSnp = &epb.VMSevSnp{Svn: g.Svn, Measurements: g.Snp, Policy: pol, SvsmMeasurement: g.Svsm, CaBundle: g.CaBundle,
			FamilyId: make([]byte, 16), ImageId: make([]byte, 16)}
	}
	if g.Tdx != nil {
		d.Tdx = &epb.VMTdx{Svn: g.Svn, Measurements: g.Tdx}
	}
	return d
}

// SignPSS signs msg with RSA-PSS/SHA-256, salt = hash length.
func SignPSS(k *rsa.PrivateKey, msg []byte) []byte {
	h := sha256.Sum256(msg)
	s, err := rsa.SignPSS(rand.Reader, k, crypto.SHA256, h[:], &rsa.PSSOptions{SaltLength: rsa.PSSSaltLengthEqualsHash, Hash: crypto.SHA256})
	if err != nil {
		panic(err)
	}
	return s
}

// Endorse marshals doc and signs it genuinely with k.
func Endorse(doc *epb.VMGoldenMeasurement, k *rsa.PrivateKey) *epb.VMLaunchEndorsement {
	b, err := proto.MarshalOptions{Deterministic: true}.Marshal(doc)
	if err != nil {
		panic(err)
	}
	return &epb.VMLaunchEndorsement{SerializedUefiGolden: b, Signature: SignPSS(k, b)}
}

// SeqGetter answers the k-th request with the k-th body (the last one from then on), whatever the URL.
type SeqGetter struct {
	mu     sync.Mutex
	Bodies [][]byte
	n      int
}

func (g *SeqGetter) Get(string) ([]byte, error) {
	g.mu.Lock()
	defer g.mu.Unlock()
	i := g.n
	g.n++
	if i >= len(g.Bodies) {
		i = len(g.Bodies) - 1
	}
	return g.Bodies[i], nil
}

// MapGetter serves fixed bodies per URL and records the URLs requested.
type MapGetter struct {
	mu   sync.Mutex
	Body map[string][]byte
	Any  []byte // served for every URL when non-nil
	URLs []string
}

func (g *MapGetter) Get(url string) ([]byte, error) {
	g.mu.Lock()
	defer g.mu.Unlock()
	g.URLs = append(g.URLs, url)
	if b, ok := g.Body[url]; ok {
		return b, nil
	}
	if g.Any != nil {
		return g.Any, nil
	}
	return nil, fmt.Errorf("404 %s", url)
}
