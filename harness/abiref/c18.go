package abiref

import (
	"bytes"
	"encoding/binary"
	"encoding/json"
	"fmt"
	"math/rand"
	"reflect"
	"sort"
	"strings"

	"github.com/google/gce-tcb-verifier/eventlog"
	oabi "github.com/google/gce-tcb-verifier/ovmf/abi"
	opb "github.com/google/gce-tcb-verifier/proto/ovmf"
	spb "github.com/google/gce-tcb-verifier/proto/sev"
	"github.com/google/gce-tcb-verifier/sev"
	"github.com/google/uuid"
	"google.golang.org/protobuf/reflect/protoreflect"

	"verifharness/vk"
)

type adapter struct {
	enc  func(v Values, n int) ([]byte, error) // encode into a buffer of n bytes
	dec  func(b []byte) (Values, error)
	wide map[string]bool // fields whose Go-side type is wider than the ABI field
	mbz  bool            // the Go side can express the reserved fields
}

func u(v Values, k string) uint64 { x, _ := v[k].(uint64); return x }
func bs(v Values, k string) []byte {
	x, _ := v[k].([]byte)
	return x
}
func guidOf(v Values, k string) uuid.UUID {
	var g uuid.UUID
	copy(g[:], bs(v, k))
	return g
}

func safe[T any](f func() (T, error)) (out T, err error) {
	defer func() {
		if r := recover(); r != nil {
			err = fmt.Errorf("PANIC: %v", r)
		}
	}()
	return f()
}

// putterFill: what the destination buffers handed to the encoders contain beforehand (an encoding
// is determined by the value alone, whatever the destination held)
var putterFill byte

func putter(n int, put func([]byte) error) ([]byte, error) {
	return safe(func() ([]byte, error) {
		b := bytes.Repeat([]byte{putterFill}, n)
		if err := put(b); err != nil {
			return nil, err
		}
		return b, nil
	})
}

func setVmsa(m *spb.VmcbSaveArea, v Values, t Table) error {
	r := m.ProtoReflect()
	for _, f := range t.Fields {
		fd := r.Descriptor().Fields().ByName(protoreflect.Name(f.Name))
		if f.Name == "tail" {
			// the bytes after xcr0: the message has three fields for them (valid_bitmap, x87_state_gpa, reserved_12)
			if tv, ok := v["tail"].([]byte); ok && len(tv) >= 24 {
				allZero := true
				for _, b := range tv {
					allZero = allZero && b == 0
				}
				if !allZero {
					m.ValidBitmap = append([]byte{}, tv[:16]...)
					m.X87StateGpa = binary.LittleEndian.Uint64(tv[16:24])
					m.Reserved_12 = append([]byte{}, tv[24:]...)
				}
			}
			continue
		}
		if fd == nil {
			return fmt.Errorf("VmcbSaveArea has no field %q", f.Name)
		}
		val, ok := v[f.Name]
		if !ok {
			continue
		}
		switch {
		case strings.HasPrefix(f.Kind, "struct:"):
			sv := val.(Values)
			seg := &spb.VmcbSeg{Selector: uint32(u(sv, "selector")), Attrib: uint32(u(sv, "attrib")), Limit: uint32(u(sv, "limit")), Base: u(sv, "base")}
			r.Set(fd, protoreflect.ValueOfMessage(seg.ProtoReflect()))
		case fd.Kind() == protoreflect.BytesKind:
			r.Set(fd, protoreflect.ValueOfBytes(val.([]byte)))
		case fd.Kind() == protoreflect.Uint32Kind:
			x := val
			if b, isB := val.([]byte); isB {
				x = uint64(b[0])
			}
			r.Set(fd, protoreflect.ValueOfUint32(uint32(x.(uint64))))
		default:
			x := val
			if b, isB := val.([]byte); isB { // 8-byte reserved fields held as uint64 on the Go side
				x = binary.LittleEndian.Uint64(append(append([]byte{}, b...), make([]byte, 8)...)[:8])
			}
			r.Set(fd, protoreflect.ValueOfUint64(x.(uint64)))
		}
	}
	return nil
}

func adapters(e *Exported) map[string]adapter {
	return map[string]adapter{
		"EfiGuid": {
			enc: func(v Values, n int) ([]byte, error) {
				var d4 [8]byte
				copy(d4[:], bs(v, "data4"))
				return putter(n, oabi.EFIGUID{Data1: uint32(u(v, "data1")), Data2: uint16(u(v, "data2")), Data3: uint16(u(v, "data3")), Data4: d4}.Put)
			},
			dec: func(b []byte) (Values, error) {
				return safe(func() (Values, error) {
					g, err := oabi.FromEFIGUID(b)
					if err != nil {
						return nil, err
					}
					x := oabi.FromUUID(g)
					return Values{"data1": uint64(x.Data1), "data2": uint64(x.Data2), "data3": uint64(x.Data3), "data4": append([]byte{}, x.Data4[:]...)}, nil
				})
			}},
		"FwGuidEntry": {
			enc: func(v Values, n int) ([]byte, error) {
				return putter(n, (&oabi.FwGUIDEntry{Size: uint16(u(v, "size")), GUID: guidOf(v, "guid")}).Put)
			},
			dec: func(b []byte) (Values, error) {
				return safe(func() (Values, error) {
					f := &oabi.FwGUIDEntry{}
					if err := f.PopulateFromBytes(b); err != nil {
						return nil, err
					}
					return Values{"size": uint64(f.Size), "guid": append([]byte{}, f.GUID[:]...)}, nil
				})
			}},
		"SevMetadataSection": {
			enc: func(v Values, n int) ([]byte, error) {
				return putter(n, (&oabi.SevMetadataSection{Address: uint32(u(v, "address")), Length: uint32(u(v, "length")), Kind: uint32(u(v, "kind"))}).Put)
			},
			dec: func(b []byte) (Values, error) {
				return safe(func() (Values, error) {
					s := oabi.SevMetadataSectionFromBytes(b)
					return Values{"address": uint64(s.Address), "length": uint64(s.Length), "kind": uint64(s.Kind)}, nil
				})
			}},
		"SevMetadata": {
			enc: func(v Values, n int) ([]byte, error) {
				return putter(n, (&oabi.SevMetadata{Signature: uint32(u(v, "signature")), Length: uint32(u(v, "length")), Version: uint32(u(v, "version")), Sections: uint32(u(v, "sections"))}).Put)
			},
			dec: func(b []byte) (Values, error) {
				return safe(func() (Values, error) {
					s := oabi.SevMetadataFromBytes(b)
					return Values{"signature": uint64(s.Signature), "length": uint64(s.Length), "version": uint64(s.Version), "sections": uint64(s.Sections)}, nil
				})
			}},
		"MetadataOffset": {
			enc: func(v Values, n int) ([]byte, error) {
				en, _ := v["entry"].(Values)
				return putter(n, (&oabi.MetadataOffset{Offset: uint32(u(v, "offset")), GUIDEntry: oabi.FwGUIDEntry{Size: uint16(u(en, "size")), GUID: guidOf(en, "guid")}}).Put)
			},
			dec: func(b []byte) (Values, error) {
				return safe(func() (Values, error) {
					m, err := oabi.MetadataOffsetFromBytes(b)
					if err != nil {
						return nil, err
					}
					return Values{"offset": uint64(m.Offset), "entry": Values{"size": uint64(m.GUIDEntry.Size), "guid": append([]byte{}, m.GUIDEntry.GUID[:]...)}}, nil
				})
			}},
		"SevEsResetBlock": {
			wide: map[string]bool{"size": true},
			enc: func(v Values, n int) ([]byte, error) {
				return putter(n, func(b []byte) error {
					return oabi.PutSevEsResetBlock(b, &opb.SevEsResetBlock{Addr: uint32(u(v, "addr")), Size: uint32(u(v, "size")), Guid: bs(v, "guid")})
				})
			},
			dec: func(b []byte) (Values, error) {
				return safe(func() (Values, error) {
					r, err := oabi.SevEsResetBlockFromBytes(b)
					if err != nil {
						return nil, err
					}
					return Values{"addr": uint64(r.Addr), "size": uint64(r.Size), "guid": append([]byte{}, r.Guid...)}, nil
				})
			}},
		"TdxDescriptor": {
			enc: func(v Values, n int) ([]byte, error) {
				return putter(n, (&oabi.TDXMetadataDescriptor{Signature: uint32(u(v, "signature")), Length: uint32(u(v, "length")), Version: uint32(u(v, "version")), SectionCount: uint32(u(v, "section_count"))}).Put)
			},
			dec: func(b []byte) (Values, error) {
				return safe(func() (Values, error) {
					d, err := oabi.TDXMetadataDescriptorFromBytes(b)
					if err != nil {
						return nil, err
					}
					return Values{"signature": uint64(d.Signature), "length": uint64(d.Length), "version": uint64(d.Version), "section_count": uint64(d.SectionCount)}, nil
				})
			}},
		"TdxSection": {
			enc: func(v Values, n int) ([]byte, error) {
				return putter(n, (&oabi.TDXMetadataSection{DataOffset: uint32(u(v, "data_offset")), DataSize: uint32(u(v, "data_size")), MemoryBase: oabi.EFIPhysicalAddress(u(v, "memory_base")),
					MemorySize: u(v, "memory_size"), SectionType: uint32(u(v, "section_type")), Attributes: uint32(u(v, "attributes"))}).Put)
			},
			dec: func(b []byte) (Values, error) {
				return safe(func() (Values, error) {
					d, err := oabi.TDXMetadataSectionFromBytes(b)
					if err != nil {
						return nil, err
					}
					return Values{"data_offset": uint64(d.DataOffset), "data_size": uint64(d.DataSize), "memory_base": uint64(d.MemoryBase), "memory_size": d.MemorySize,
						"section_type": uint64(d.SectionType), "attributes": uint64(d.Attributes)}, nil
				})
			}},
		"VmcbSeg": {
			wide: map[string]bool{"selector": true, "attrib": true},
			enc: func(v Values, n int) ([]byte, error) {
				return safe(func() ([]byte, error) {
					m := &spb.VmcbSaveArea{Es: &spb.VmcbSeg{Selector: uint32(u(v, "selector")), Attrib: uint32(u(v, "attrib")), Limit: uint32(u(v, "limit")), Base: u(v, "base")}}
					buf := make([]byte, sev.SizeofVmsa)
					if n < 16 { // a destination too small for the structure
						buf = make([]byte, n)
					}
					if err := sev.PutVmsa(m, buf); err != nil {
						return nil, err
					}
					return buf[:16], nil
				})
			}},
		"Vmsa": {
			wide: map[string]bool{"cpl": true}, mbz: true,
			enc: func(v Values, n int) ([]byte, error) {
				return safe(func() ([]byte, error) {
					m := &spb.VmcbSaveArea{}
					if err := setVmsa(m, v, e.Tables["Vmsa"]); err != nil {
						return nil, fmt.Errorf("FIXTURE: %v", err)
					}
					buf := make([]byte, n)
					for i := range buf {
						buf[i] = 0xEE // the encoder must overwrite everything it owns
					}
					if err := sev.PutVmsa(m, buf); err != nil {
						return nil, err
					}
					return buf, nil
				})
			}},
		"HobHeader": {
			enc: func(v Values, n int) ([]byte, error) {
				return safe(func() ([]byte, error) {
					var w bytes.Buffer
					_, err := oabi.EFIHOBGenericHeader{HobType: uint16(u(v, "hob_type")), HobLength: uint16(u(v, "hob_length"))}.WriteTo(&w)
					return w.Bytes(), err
				})
			}},
		"HobHandoff": {
			enc: func(v Values, n int) ([]byte, error) {
				return safe(func() ([]byte, error) {
					h, _ := v["header"].(Values)
					var w bytes.Buffer
					_, err := oabi.EFIHOBHandoffInfoTable{Header: oabi.EFIHOBGenericHeader{HobType: uint16(u(h, "hob_type")), HobLength: uint16(u(h, "hob_length"))},
						Version: uint32(u(v, "version")), BootMode: oabi.EFIBootMode(u(v, "boot_mode")), EfiMemoryTop: oabi.EFIPhysicalAddress(u(v, "memory_top")),
						EfiMemoryBottom: oabi.EFIPhysicalAddress(u(v, "memory_bottom")), EfiFreeMemoryTop: oabi.EFIPhysicalAddress(u(v, "free_memory_top")),
						EfiFreeMemoryBottom: oabi.EFIPhysicalAddress(u(v, "free_memory_bottom")), EfiEndOfHobList: oabi.EFIPhysicalAddress(u(v, "end_of_hob_list"))}.WriteTo(&w)
					return w.Bytes(), err
				})
			}},
		"HobResource": {
			enc: func(v Values, n int) ([]byte, error) {
				return safe(func() ([]byte, error) {
					h, _ := v["header"].(Values)
					o, _ := v["owner"].(Values)
					var d4 [8]byte
					copy(d4[:], bs(o, "data4"))
					var w bytes.Buffer
					_, err := oabi.EFIHOBResourceDescriptor{Header: oabi.EFIHOBGenericHeader{HobType: uint16(u(h, "hob_type")), HobLength: uint16(u(h, "hob_length"))},
						Owner:        oabi.EFIGUID{Data1: uint32(u(o, "data1")), Data2: uint16(u(o, "data2")), Data3: uint16(u(o, "data3")), Data4: d4},
						ResourceType: oabi.EFIResourceType(u(v, "resource_type")), ResourceAttribute: oabi.EFIResourceAttributeType(u(v, "resource_attribute")),
						PhysicalStart: oabi.EFIPhysicalAddress(u(v, "physical_start")), ResourceLength: u(v, "resource_length")}.WriteTo(&w)
					return w.Bytes(), err
				})
			}},
	}
}

// nominal gives every field a distinct non-trivial in-range value.
func (e *Exported) nominal(s string, r *rand.Rand) Values {
	v := Values{}
	for i, f := range e.Tables[s].Fields {
		if sub, ok := e.sub(f.Kind); ok {
			v[f.Name] = e.nominal(sub, r)
			continue
		}
		switch f.Kind {
		case "u":
			x := uint64(i+2)*0x0101010101010101 + 0x11
			if r != nil {
				x = r.Uint64()
			}
			v[f.Name] = x & MaxOf(f.Width)
		case "mbz":
			v[f.Name] = make([]byte, f.Width)
		default:
			b := make([]byte, f.Width)
			for k := range b {
				b[k] = byte(i*17 + k + 1)
				if r != nil {
					b[k] = byte(r.Intn(256))
				}
			}
			v[f.Name] = b
		}
	}
	return v
}

func sameValues(a, b Values) bool {
	ja, _ := json.Marshal(a)
	jb, _ := json.Marshal(b)
	return bytes.Equal(ja, jb)
}

// RunC18 is the C18 check.
func RunC18(run *vk.Run) {
	e, res, err := Load()
	if err != nil {
		run.Infra(err)
		return
	}
	run.AddTLC(res)
	run.Assumptions = append(run.Assumptions, "field values are boundary classes (0, 1, max, max+1 where the Go type is wider) plus seeded random in-range values, not exhaustive",
		"a panic of an exported decoder on a truncated buffer is not an acceptance; it is counted (truncated_panics) but is C07/C08's topic",
		"PAGE_INFO (beyond its zero value) and the TDX extension buffers have no exported codec; their layouts are bound through the C04 / C05 digest oracles", "decoders that read a record at an offset of a larger buffer are prefix decoders (Abi.tla ExactDecoders lists the size-exact ones): for them the accepted byte string is the record's own length")
	ads := adapters(e)
	truncPanics := 0
	type pick struct {
		S     string `json:"s"`
		Field string `json:"field"`
		Cls   string `json:"cls"`
	}
	for i, raw := range res.Cases {
		var p pick
		if err := json.Unmarshal(raw, &p); err != nil {
			run.Infra(err)
			return
		}
		ad, ok := ads[p.S]
		if !ok {
			continue
		}
		t := e.Tables[p.S]
		var fld Field
		for _, f := range t.Fields {
			if f.Name == p.Field {
				fld = f
			}
		}
		v := e.nominal(p.S, nil)
		rep := map[string]any{"structure": p.S, "field": p.Field, "class": p.Cls}
		viol := func(key, f string, a ...any) {
			run.Violation(key+":"+p.S, fmt.Sprintf("%s.%s [%s]: ", p.S, p.Field, p.Cls)+fmt.Sprintf(f, a...), rep)
		}
		switch p.Cls {
		case "zero", "one", "max":
			v[p.Field] = map[string]uint64{"zero": 0, "one": 1, "max": MaxOf(fld.Width)}[p.Cls]
			checkRoundTrip(e, ad, p.S, v, viol)
		case "max_plus_1":
			if !ad.wide[p.Field] {
				continue
			}
			v[p.Field] = MaxOf(fld.Width) + 1
			if b, err := ad.enc(v, t.Size); err == nil {
				viol("out-of-range-accepted", "value %#x does not fit the %d-byte field but the encoder accepted it (wrote %x)", MaxOf(fld.Width)+1, fld.Width, b[fld.Off:fld.Off+fld.Width])
			}
		case "mbz_nonzero":
			if !ad.mbz {
				continue
			}
			// exact-width all-zero reserved bytes must be accepted
			if _, err := ad.enc(v, t.Size); err != nil {
				viol("zero-reserved-refused", "an all-zero reserved field of the ABI width %d is refused: %v", fld.Width, err)
			}
			nz := make([]byte, fld.Width)
			nz[fld.Width-1] = 1
			v[p.Field] = nz
			if _, err := ad.enc(v, t.Size); err == nil {
				viol("nonzero-reserved-accepted", "a non-zero reserved field is accepted")
			}
			if p.Field == "tail" {
				// ... and each of the message's three fields for that area on its own
				for _, at := range []int{0, 15, 16, 23, 24, 300} {
					nz := make([]byte, fld.Width)
					nz[at] = 0x80
					v[p.Field] = nz
					if _, err := ad.enc(v, t.Size); err == nil {
						viol("nonzero-reserved-accepted", "a non-zero byte at offset %#x of the save area (a field that is zero at launch and that the encoding cannot carry) is accepted and dropped", fld.Off+at)
						break
					}
				}
			}
		case "truncated":
			if _, err := ad.enc(v, t.Size-1); err == nil && p.S != "HobHeader" && p.S != "HobHandoff" && p.S != "HobResource" {
				viol("short-destination-accepted", "encoding into a %d-byte destination (structure needs %d) succeeded", t.Size-1, t.Size)
			}
			if ad.dec != nil {
				ref := e.Encode(p.S, v)
				short := make([]byte, t.Size-1) // exact capacity: slicing beyond the length must fail
				copy(short, ref)
				if _, err := ad.dec(short); err == nil {
					viol("truncated-accepted", "a %d-byte input (structure needs %d) was decoded successfully", t.Size-1, t.Size)
				} else if strings.HasPrefix(err.Error(), "PANIC") {
					truncPanics++
				}
			}
		case "extended":
			if ad.dec != nil {
				ref := e.Encode(p.S, v)
				if got, err := ad.dec(append(append([]byte{}, ref...), 0x5a)); err == nil {
					if !sameValues(got, stripMbz(e, p.S, v)) {
						viol("extended-misdecoded", "input extended by one byte decodes to other values")
					}
					if e.exactDecoder(p.S) {
						viol("extended-accepted", "the %d-byte encoding followed by one more byte is accepted by the size-exact decoder: the extra byte is dropped, so the accepted string does not re-encode to itself", t.Size)
					}
				} else if !e.exactDecoder(p.S) && !strings.HasPrefix(err.Error(), "PANIC") {
					run.AddDrift(1)
					fmt.Printf("DRIFT property=C18 %s: Abi.tla lists the decoder as a prefix decoder, the code refuses a longer buffer (%v)\n", p.S, err)
				}
			}
		}
		run.Case(string(raw), true)
		if i%61 == 0 {
			run.Sample(p)
		}
	}
	// seeded random in-range values: decode(encode(v)) = v, size exact, bytes = reference
	r := rand.New(rand.NewSource(run.Seed))
	n := 300
	if !run.IsQuick() {
		n = 20000
	}
	var names []string
	for s := range ads {
		names = append(names, s)
	}
	sort.Strings(names)
	for _, s := range names {
		for k := 0; k < n; k++ {
			v := e.nominal(s, r)
			rep := map[string]any{"structure": s, "values": v}
			checkRoundTrip(e, ads[s], s, v, func(key, f string, a ...any) {
				run.Violation(key+":"+s, fmt.Sprintf("%s [random values]: ", s)+fmt.Sprintf(f, a...), rep)
			})
			if k%50 == 0 {
				run.Case(fmt.Sprintf("random:%s:%d", s, k), true)
			}
		}
	}
	// PAGE_INFO has no exported constructor; its zero value must still encode to the table's all-zero
	// layout whatever the destination held
	for _, fill := range []byte{0, 0xff, 0x5a} {
		dst := bytes.Repeat([]byte{fill}, e.Tables["PageInfo"].Size)
		err := (&sev.PageInfo{}).Put(dst)
		if err != nil || !bytes.Equal(dst, e.Encode("PageInfo", Values{})) {
			run.Violation("stale-destination-bytes:PageInfo", fmt.Sprintf("PAGE_INFO zero value encoded into a destination pre-filled with %#x is not the all-zero ABI layout (err=%v)", fill, err), map[string]any{"fill": fill, "got": fmt.Sprintf("%x", dst)})
			break
		}
		run.Case(fmt.Sprintf("pageinfo-dirty:%d", fill), true)
	}
	run.Extra["truncated_panics"] = truncPanics
	checkTCG(run, e, r)
	checkHobGuid(run)
	checkTdxMetadataRecord(run, r)
	run.Exhaustive = true
	run.Rule = "for every structure table of Abi.tla with an exported codec, every (field, boundary class) pair emitted by TLC is executed (one field off-nominal at a time) and seeded random in-range values are round-tripped: real encoding = table-driven reference encoding, exact size, decode(encode(v)) = v, out-of-range / non-zero reserved / truncated refused, extended inputs refused by the size-exact decoders, encodings independent of what the destination held; the TCG event records are checked against the grammar tables (size-prefixed parts, terminators, padding)"
}

func stripMbz(e *Exported, s string, v Values) Values {
	return v
}

func checkRoundTrip(e *Exported, ad adapter, s string, v Values, viol func(key, f string, a ...any)) {
	t := e.Tables[s]
	ref := e.Encode(s, v)
	b, err := ad.enc(v, t.Size)
	if err != nil {
		if strings.HasPrefix(err.Error(), "FIXTURE") {
			viol("fixture", "%v", err)
			return
		}
		viol("in-range-refused", "an in-range value is refused: %v", err)
		return
	}
	if len(b) != t.Size {
		viol("size-wrong", "encoding is %d bytes, the ABI size is %d", len(b), t.Size)
		return
	}
	if !bytes.Equal(b, ref) {
		off := 0
		for off < len(b) && b[off] == ref[off] {
			off++
		}
		viol("layout-wrong", "encoding differs from the ABI layout at offset %#x (got %x, want %x)", off, b[off:minInt(off+8, len(b))], ref[off:minInt(off+8, len(ref))])
		return
	}
	for _, fill := range []byte{0xff, 0x5a} {
		putterFill = fill
		b2, err2 := ad.enc(v, t.Size)
		putterFill = 0
		if err2 != nil || !bytes.Equal(b2, ref) {
			viol("stale-destination-bytes", "encoding into a destination pre-filled with %#x differs from the ABI layout (err=%v): bytes of the destination show through", fill, err2)
			break
		}
	}
	if ad.dec != nil {
		got, err := ad.dec(b)
		if err != nil {
			viol("roundtrip-fails", "the encoding does not decode: %v", err)
			return
		}
		want, _ := e.Decode(s, ref)
		for k, x := range got {
			if !reflect.DeepEqual(x, want[k]) {
				viol("roundtrip-differs", "field %s decodes to %v, want %v", k, x, want[k])
			}
		}
	}
}

func minInt(a, b int) int {
	if a < b {
		return a
	}
	return b
}

// checkTdxMetadataRecord: the whole TDX metadata record (descriptor followed by its sections) decodes to
// what was encoded and re-encodes to the same bytes, whatever the descriptor's length field says (the
// record codec takes the section count for the number of sections; the length field is data to it) and
// whatever follows the record in the buffer.
func checkTdxMetadataRecord(run *vk.Run, r *rand.Rand) {
	for count := 0; count <= 3; count++ {
		for _, length := range []uint32{uint32(16 + 32*count), 16, 48, 0, 0xabcdef99, uint32(16 + 32*count + 8), 17} {
			for _, pad := range []int{0, 40} {
				md := &oabi.TDXMetadata{Header: &oabi.TDXMetadataDescriptor{Signature: oabi.TDXMetadataDescriptorMagic, Length: length, Version: oabi.TDXMetadataVersion, SectionCount: uint32(count)}}
				for k := 0; k < count; k++ {
					md.Sections = append(md.Sections, &oabi.TDXMetadataSection{DataOffset: r.Uint32(), DataSize: r.Uint32(), MemoryBase: oabi.EFIPhysicalAddress(r.Uint64()), MemorySize: r.Uint64(), SectionType: uint32(r.Intn(5)), Attributes: uint32(r.Intn(4))})
				}
				buf := bytes.Repeat([]byte{0xcc}, 16+32*count+pad)
				what := fmt.Sprintf("TDX metadata record with %d sections, length field %#x, %d bytes after the record", count, length, pad)
				if err := md.Put(buf); err != nil {
					run.Violation("tdxmetadata:roundtrip", fmt.Sprintf("%s is not written: %v", what, err), nil)
					continue
				}
				var back *oabi.TDXMetadata
				_, derr := safe(func() (int, error) {
					var e error
					back, e = oabi.TDXMetadataFromBytes(buf)
					return 0, e
				})
				run.Case(fmt.Sprintf("tdxmetadata:%d:%#x:%d", count, length, pad), true)
				if derr != nil {
					run.Violation("tdxmetadata:roundtrip", fmt.Sprintf("%s does not decode: %v", what, derr), nil)
					continue
				}
				ok := back.Header != nil && *back.Header == *md.Header && len(back.Sections) == count
				for k := 0; ok && k < count; k++ {
					ok = back.Sections[k] != nil && *back.Sections[k] == *md.Sections[k]
				}
				if !ok {
					run.Violation("tdxmetadata:roundtrip", fmt.Sprintf("%s decodes to another value than the one encoded (sections are silently altered)", what), nil)
					continue
				}
				re := bytes.Repeat([]byte{0xcc}, len(buf))
				if err := back.Put(re); err != nil || !bytes.Equal(re, buf) {
					run.Violation("tdxmetadata:roundtrip", fmt.Sprintf("%s: the decoded value re-encodes to other bytes (%v)", what, err), nil)
				}
			}
		}
	}
}

// checkHobGuid: GUID extension HOBs are 8-byte aligned and carry their exact length.
func checkHobGuid(run *vk.Run) {
	g := uuid.MustParse(oabi.Tcg800155PlatformIDEventHobGUID)
	for n := 0; n < 40; n++ {
		data := bytes.Repeat([]byte{0xa5}, n)
		h, err := oabi.CreateEFIHOBGUID(g, append([]byte{}, data...))
		if err != nil {
			run.Violation("hob-guid", fmt.Sprintf("CreateEFIHOBGUID refuses %d bytes: %v", n, err), nil)
			continue
		}
		var w bytes.Buffer
		if _, err := h.WriteTo(&w); err != nil {
			run.Violation("hob-guid", fmt.Sprintf("GUID HOB with %d data bytes does not serialise: %v", n, err), nil)
			continue
		}
		b := w.Bytes()
		pad := (8 - n%8) % 8
		if len(b) != 24+n+pad || len(b)%8 != 0 || int(binary.LittleEndian.Uint16(b[2:4])) != len(b) || binary.LittleEndian.Uint16(b[0:2]) != 4 ||
			!bytes.Equal(b[24:24+n], data) || !bytes.Equal(b[24+n:], make([]byte, pad)) {
			run.Violation("hob-guid", fmt.Sprintf("GUID HOB with %d data bytes is not header(8)+guid(16)+data+zero padding to 8 bytes (len %d)", n, len(b)), nil)
		}
		run.Case(fmt.Sprintf("hobguid:%d", n), true)
		// the same data handed over as a sub-slice of a larger buffer (a log, a firmware image, a reused
		// scratch buffer): what lies behind the data is not part of it, the padding is zero all the same
		big := bytes.Repeat([]byte{0xee}, n+24)
		copy(big, data)
		h2, err := oabi.CreateEFIHOBGUID(g, big[:n])
		if err != nil {
			run.Violation("hob-guid", fmt.Sprintf("CreateEFIHOBGUID refuses %d bytes given as a sub-slice: %v", n, err), nil)
			continue
		}
		var w2 bytes.Buffer
		if _, err := h2.WriteTo(&w2); err != nil || !bytes.Equal(w2.Bytes(), b) {
			run.Violation("hob-guid:subslice", fmt.Sprintf("GUID HOB with %d data bytes given as a sub-slice of a larger buffer serialises to other bytes than for the same data alone (the padding is not zero, or the data differ): error %v", n, err), nil)
		}
		run.Case(fmt.Sprintf("hobguid-subslice:%d", n), true)
	}
}

// ---- TCG event records against the grammar tables ----

type tcgCase struct {
	name string
	mk   func() (encode func() ([]byte, error), decodeInto func([]byte) (any, error), reencode func(any) ([]byte, error))
}

func checkTCG(run *vk.Run, e *Exported, r *rand.Rand) {
	if len(e.Grammars["Sp800155Event3"]) != 14 || len(e.Grammars["TcgPcrEvent2"]) != 4 {
		run.Infra(fmt.Errorf("grammar tables changed shape"))
		return
	}
	le := binary.LittleEndian
	sized4 := func(b []byte) []byte { return append(le.AppendUint32(nil, uint32(len(b))), b...) }
	cstr1 := func(s string) []byte { return append([]byte{byte(len(s) + 1)}, append([]byte(s), 0)...) }
	viol := func(key, f string, a ...any) { run.Violation("tcg:"+key, fmt.Sprintf(f, a...), nil) }
	decode3 := func(b []byte) (*eventlog.SP800155Event3, error) {
		return safe(func() (*eventlog.SP800155Event3, error) {
			ev := &eventlog.SP800155Event3{}
			return ev, ev.UnmarshalFromBytes(b)
		})
	}
	for k := 0; k < 60; k++ {
		ev := &eventlog.SP800155Event3{PlatformManufacturerID: r.Uint32(), ReferenceManifestGUID: eventlog.EfiGUID{UUID: func() uuid.UUID { u, _ := uuid.NewRandomFromReader(r); return u }()},
			PlatformManufacturerStr: eventlog.ByteSizedCStr{Data: "Google, Inc."}, PlatformModel: eventlog.ByteSizedCStr{Data: strings.Repeat("m", r.Intn(20))},
			PlatformVersion: eventlog.ByteSizedCStr{Data: ""}, FirmwareManufacturerStr: eventlog.ByteSizedCStr{Data: "fw"}, FirmwareManufacturerID: r.Uint32(),
			FirmwareVersion: eventlog.ByteSizedCStr{Data: "2.7"}, RIMLocatorType: uint32(r.Intn(4)), RIMLocator: eventlog.Uint32SizedArray{Data: randBytes(r, 1+r.Intn(40))},
			PlatformCertLocatorType: uint32(r.Intn(4)), PlatformCertLocator: eventlog.Uint32SizedArray{Data: randBytes(r, r.Intn(9))}}
		got, err := ev.MarshalToBytes()
		if err != nil {
			viol("marshal", "SP800155Event3 does not marshal: %v", err)
			continue
		}
		// reference encoding from the grammar
		var ref []byte
		ref = append(ref, eventlog.TcgSP800155Event3Signature[:]...)
		ref = le.AppendUint32(ref, ev.PlatformManufacturerID)
		var g [16]byte
		oabi.PutUUID(g[:], ev.ReferenceManifestGUID.UUID)
		ref = append(ref, g[:]...)
		for _, s := range []string{ev.PlatformManufacturerStr.Data, ev.PlatformModel.Data, ev.PlatformVersion.Data, ev.FirmwareManufacturerStr.Data} {
			ref = append(ref, cstr1(s)...)
		}
		ref = le.AppendUint32(ref, ev.FirmwareManufacturerID)
		ref = append(ref, cstr1(ev.FirmwareVersion.Data)...)
		ref = le.AppendUint32(ref, ev.RIMLocatorType)
		ref = append(ref, sized4(ev.RIMLocator.Data)...)
		ref = le.AppendUint32(ref, ev.PlatformCertLocatorType)
		ref = append(ref, sized4(ev.PlatformCertLocator.Data)...)
		if !bytes.Equal(got, ref) {
			viol("layout", "SP800155Event3 encoding differs from the grammar's encoding")
			continue
		}
		body := got[16:]
		back, err := decode3(body)
		if err != nil {
			viol("roundtrip", "SP800155Event3 does not decode its own encoding: %v", err)
			continue
		}
		if re, _ := back.MarshalToBytes(); !bytes.Equal(re, got) {
			viol("roundtrip", "SP800155Event3 decode/encode is not the identity")
		}
		// trailing zero padding is tolerated and dropped; non-zero trailing bytes are refused
		if p, err := decode3(append(append([]byte{}, body...), 0, 0, 0)); err != nil {
			viol("padding", "documented trailing zero padding is refused: %v", err)
		} else if re, _ := p.MarshalToBytes(); !bytes.Equal(re, got) {
			viol("padding", "padded input re-encodes to other bytes")
		}
		if _, err := decode3(append(append([]byte{}, body...), 0, 1)); err == nil {
			viol("strictness:nonzero-padding", "non-zero trailing bytes are accepted")
		}
		// every truncation of the body must be refused (a sized part shorter than its prefix is not completed)
		for cut := 0; cut < len(body); cut++ {
			if p, err := decode3(body[:cut]); err == nil {
				re, _ := p.MarshalToBytes()
				viol("strictness:short-read", "a truncated event (%d of %d bytes) is accepted and silently completed (re-encodes to %d bytes)", cut, len(body), len(re)-16)
				break
			}
		}
		// the decoder takes the payload (what follows the 16-byte signature), nothing else: the signature
		// followed by the payload is another byte string -- refused, or (the grammar is self-delimiting, so
		// random field bytes can happen to parse) decoded as the event that those very bytes spell
		if p, err := decode3(got); err == nil {
			re, _ := p.MarshalToBytes()
			want := append(append([]byte{}, eventlog.TcgSP800155Event3Signature[:]...), got...)
			if len(re) > len(want) || !bytes.Equal(re, want[:len(re)]) || len(bytes.Trim(want[len(re):], "\x00")) != 0 {
				viol("strictness:signature-prefix", "the signature followed by the payload is accepted where the payload alone is expected, as an event that these bytes do not spell")
			}
		}
		// the same strictness when the event is the payload of a log record: a record whose Event3 body is
		// malformed (cut inside a field, or followed by non-zero bytes) is refused, not kept as opaque data
		record := func(payload []byte) []byte {
			rec := le.AppendUint32(nil, 0) // PCR index
			rec = le.AppendUint32(rec, 3)  // EV_NO_ACTION
			rec = le.AppendUint32(rec, 0)  // no digests
			return append(le.AppendUint32(rec, uint32(len(payload))), payload...)
		}
		decodeRec := func(b []byte) error {
			_, err := safe(func() (int, error) { return 0, (&eventlog.TCGPCREvent2{}).Unmarshal(bytes.NewReader(b)) })
			return err
		}
		if err := decodeRec(record(got)); err != nil {
			viol("roundtrip:record", "a TCG_PCR_EVENT2 record carrying a well-formed SP800-155 Event3 is refused: %v", err)
		}
		for _, cut := range []int{len(got) - 1, len(got) - 3, 16 + 4 + 16 + 1, 16 + 4 + 8} {
			if cut > 16 && cut < len(got) && decodeRec(record(got[:cut])) == nil {
				viol("strictness:record", "a TCG_PCR_EVENT2 record whose SP800-155 Event3 payload is cut after %d of %d bytes is accepted", cut, len(got))
				break
			}
		}
		if decodeRec(record(append(append([]byte{}, got...), 0, 7))) == nil {
			viol("strictness:record", "a TCG_PCR_EVENT2 record whose SP800-155 Event3 payload is followed by non-zero bytes is accepted")
		}
		run.Case(fmt.Sprintf("sp800155:%d", k), true)
	}
	// a whole log (header record, then TCG_PCR_EVENT2 records with one, two and no digests): every prefix
	// of its bytes that the log decoder accepts re-encodes to exactly those bytes -- a log cut inside a
	// record is refused, not taken for a shorter log
	{
		dg := func(alg uint16, n int, fill byte) *eventlog.TaggedDigest {
			return &eventlog.TaggedDigest{AlgID: alg, Digest: bytes.Repeat([]byte{fill}, n)}
		}
		mk := func(pcr uint32, data int, ds ...*eventlog.TaggedDigest) *eventlog.TCGPCREvent2 {
			return &eventlog.TCGPCREvent2{PCRIndex: pcr, EventType: 0x80000001, Digests: eventlog.Uint32SizedArrayT[*eventlog.TaggedDigest]{Array: ds},
				EventData: eventlog.TCGEventData{Event: &eventlog.UnknownEvent{Data: bytes.Repeat([]byte{'d'}, data)}}}
		}
		lg := &eventlog.CryptoAgileLog{Header: eventlog.TCGPCClientPCREvent{}, Events: []*eventlog.TCGPCREvent2{
			mk(0, 5, dg(0xb, 32, 0x5a)), mk(1, 0, dg(0xb, 32, 0x11), dg(0xc, 48, 0x22)), mk(2, 9), mk(3, 1, dg(0xc, 48, 0x33))}}
		var full bytes.Buffer
		if err := lg.Marshal(&full); err != nil {
			viol("marshal:log", "a four-record log does not serialise: %v", err)
		} else {
			fb := full.Bytes()
			for cut := 0; cut <= len(fb); cut++ {
				got := &eventlog.CryptoAgileLog{}
				_, derr := safe(func() (int, error) { return 0, got.Unmarshal(bytes.NewReader(fb[:cut])) })
				if derr != nil {
					if cut == len(fb) {
						viol("roundtrip:log", "the log decoder refuses a log the encoder wrote: %v", derr)
					}
					continue
				}
				var re bytes.Buffer
				if err := got.Marshal(&re); err != nil || !bytes.Equal(re.Bytes(), fb[:cut]) {
					viol("strictness:log-cut-inside-record", "a log cut after %d of %d bytes (inside a record) is accepted as a log of %d records that re-encodes to %d bytes: the cut record is silently dropped", cut, len(fb), len(got.Events), re.Len())
					break
				}
			}
			run.Case("log:every-prefix", true)
		}
	}
	// an event whose own first fields spell the signature bytes is an event like any other
	{
		var gid [16]byte
		copy(gid[:], eventlog.TcgSP800155Event3Signature[4:])
		ev := &eventlog.SP800155Event3{PlatformManufacturerID: le.Uint32(eventlog.TcgSP800155Event3Signature[0:4]), ReferenceManifestGUID: eventlog.EfiGUID{UUID: func() uuid.UUID { u, _ := oabi.FromEFIGUID(gid[:]); return u }()},
			PlatformManufacturerStr: eventlog.ByteSizedCStr{Data: "G"}, FirmwareManufacturerStr: eventlog.ByteSizedCStr{Data: "fw"}, RIMLocator: eventlog.Uint32SizedArray{Data: []byte{1, 2, 3}}}
		if enc, err := ev.MarshalToBytes(); err == nil {
			if back, derr := decode3(enc[16:]); derr != nil {
				viol("roundtrip", "an event whose manufacturer id and GUID spell the signature bytes does not decode its own encoding: %v", derr)
			} else if re, _ := back.MarshalToBytes(); !bytes.Equal(re, enc) {
				viol("roundtrip", "an event whose manufacturer id and GUID spell the signature bytes decodes to another event")
			}
		}
		run.Case("sp800155:signature-lookalike", true)
	}
	// C strings: every payload row of Abi.tla's PartRows (acceptance, value, both round trips), alone
	// and as the PlatformModel of a whole event
	toBytes := func(v []int) []byte {
		b := make([]byte, len(v))
		for i, x := range v {
			b[i] = byte(x)
		}
		return b
	}
	nRows := 0
	for _, row := range e.Parts {
		if row.Part != "cstr1" {
			continue
		}
		nRows++
		payload, value := toBytes(row.Payload), toBytes(row.Value)
		in := append([]byte{byte(len(payload))}, payload...)
		c := &eventlog.ByteSizedCStr{}
		_, derr := safe(func() (int, error) { return 0, c.Unmarshal(bytes.NewReader(in)) })
		switch {
		case derr == nil && !row.Accept:
			viol("strictness:cstr", "malformed sized C string %v accepted as %q", in, c.Data)
		case derr == nil:
			if c.Data != string(value) {
				viol("roundtrip:cstr", "sized C string %v decodes to %q, the grammar's value is %q", in, c.Data, value)
			}
			var w bytes.Buffer
			if err := c.Marshal(&w); err != nil || !bytes.Equal(w.Bytes(), in) {
				viol("roundtrip:cstr", "accepted sized C string %v re-encodes to %v (%v)", in, w.Bytes(), err)
			}
		case row.Accept:
			viol("roundtrip:cstr", "sized C string %v (value %q, the encoding of that value) is refused: %v", in, value, derr)
		}
		if row.Accept {
			var w bytes.Buffer
			v := &eventlog.ByteSizedCStr{Data: string(value)}
			if err := v.Marshal(&w); err != nil || !bytes.Equal(w.Bytes(), in) {
				viol("layout:cstr", "value %q encodes to %v (%v), the grammar says %v", value, w.Bytes(), err, in)
			}
			// inside a whole event
			ev := &eventlog.SP800155Event3{PlatformManufacturerStr: eventlog.ByteSizedCStr{Data: "G"}, PlatformModel: eventlog.ByteSizedCStr{Data: string(value)},
				FirmwareManufacturerStr: eventlog.ByteSizedCStr{Data: "fw"}, RIMLocator: eventlog.Uint32SizedArray{Data: []byte{1, 2, 3}}}
			if enc, err := ev.MarshalToBytes(); err == nil {
				if back, err := decode3(enc[16:]); err != nil {
					viol("roundtrip:cstr", "an event whose PlatformModel is %q does not decode its own encoding: %v", value, err)
				} else if re, _ := back.MarshalToBytes(); !bytes.Equal(re, enc) || back.PlatformModel.Data != string(value) {
					viol("roundtrip:cstr", "an event whose PlatformModel is %q decodes to %q and re-encodes to %d bytes instead of %d", value, back.PlatformModel.Data, len(re), len(enc))
				}
			}
		}
		run.Case(fmt.Sprintf("cstr:%v", row.Payload), true)
	}
	if nRows < 100 {
		run.Infra(fmt.Errorf("Abi.tla emitted only %d cstr1 rows", nRows))
		return
	}
	// tagged digests and GUID hand-off blocks: the size rules of Abi.tla's TaggedRows / GuidHobRows
	nTagged, nHob, nLen := 0, 0, 0
	for _, row := range e.Parts {
		switch row.Part {
		case "cstrlen":
			nLen++
			n := row.Payload[0]
			val := strings.Repeat("m", n)
			var w bytes.Buffer
			_, merr := safe(func() (int, error) { return 0, (&eventlog.ByteSizedCStr{Data: val}).Marshal(&w) })
			switch {
			case merr == nil && !row.Accept:
				viol("strictness:cstr-length", "a %d-byte string (with its terminator more than a one-byte size can describe) is encoded: %d bytes written, size byte %d", n, w.Len(), w.Bytes()[0])
			case merr != nil && row.Accept:
				viol("roundtrip:cstr-length", "a %d-byte string is refused: %v", n, merr)
			case merr == nil:
				back := &eventlog.ByteSizedCStr{}
				_, derr := safe(func() (int, error) { return 0, back.Unmarshal(bytes.NewReader(w.Bytes())) })
				if w.Len() != row.Value[0] || int(w.Bytes()[0]) != n+1 || derr != nil || back.Data != val {
					viol("roundtrip:cstr-length", "a %d-byte string encodes to %d bytes (size byte %d) and decodes back with error %v", n, w.Len(), w.Bytes()[0], derr)
				}
			}
			// as the model string of a whole event: what is encoded must decode to the same event
			ev := &eventlog.SP800155Event3{PlatformManufacturerStr: eventlog.ByteSizedCStr{Data: "G"}, PlatformModel: eventlog.ByteSizedCStr{Data: val},
				FirmwareManufacturerStr: eventlog.ByteSizedCStr{Data: "fw"}, RIMLocator: eventlog.Uint32SizedArray{Data: []byte{1, 2, 3}}}
			if enc, err := ev.MarshalToBytes(); err == nil {
				if back, derr := decode3(enc[16:]); derr != nil || back.PlatformModel.Data != val {
					viol("roundtrip:cstr-length", "an event with a %d-byte model string is encoded (%d bytes) but does not decode to itself (%v)", n, len(enc), derr)
				}
			} else if row.Accept {
				viol("roundtrip:cstr-length", "an event with a %d-byte model string is refused: %v", n, err)
			}
			run.Case(fmt.Sprintf("cstrlen:%d", n), true)
		case "tagged":
			nTagged++
			alg, n := uint16(row.Payload[0]), row.Payload[1]
			dg := randBytes(r, n)
			var w bytes.Buffer
			_, merr := safe(func() (int, error) { return 0, (&eventlog.TaggedDigest{AlgID: alg, Digest: dg}).Marshal(&w) })
			switch {
			case merr == nil && !row.Accept:
				viol("strictness:tagged-digest", "a %d-byte digest tagged with algorithm %#x is encoded (%d bytes written) instead of refused", n, alg, w.Len())
			case merr != nil && row.Accept:
				viol("roundtrip:tagged-digest", "a %d-byte digest tagged with algorithm %#x is refused: %v", n, alg, merr)
			case merr == nil:
				want := append(le.AppendUint16(nil, alg), dg...)
				if !bytes.Equal(w.Bytes(), want) {
					viol("layout:tagged-digest", "tagged digest (algorithm %#x) encodes to %d bytes that are not id + digest", alg, w.Len())
				}
				back := &eventlog.TaggedDigest{}
				if _, err := safe(func() (int, error) { return 0, back.Unmarshal(bytes.NewReader(w.Bytes())) }); err != nil || back.AlgID != alg || !bytes.Equal(back.Digest, dg) {
					viol("roundtrip:tagged-digest", "tagged digest (algorithm %#x) does not decode to itself (%v)", alg, err)
				}
			}
			// inside an event: an event carrying a digest of the wrong length must not encode to something
			// that decodes to a different event
			ev := &eventlog.TCGPCREvent2{PCRIndex: 1, EventType: 2, Digests: eventlog.Uint32SizedArrayT[*eventlog.TaggedDigest]{Array: []*eventlog.TaggedDigest{{AlgID: alg, Digest: dg}}},
				EventData: eventlog.TCGEventData{Event: &eventlog.UnknownEvent{Data: []byte("x")}}}
			var we bytes.Buffer
			if _, err := safe(func() (int, error) { return 0, ev.Marshal(&we) }); err == nil && !row.Accept {
				viol("strictness:tagged-digest", "a TCG_PCR_EVENT2 with a %d-byte digest tagged %#x is encoded instead of refused", n, alg)
			}
			run.Case(fmt.Sprintf("tagged:%d:%d", alg, n), true)
		case "guidhob":
			nHob++
			n := row.Payload[0]
			data := make([]byte, n)
			for i := range data {
				data[i] = byte(i*3 + 1)
			}
			var w bytes.Buffer
			var cnt int64
			_, herr := safe(func() (int, error) {
				h, err := oabi.CreateEFIHOBGUID(uuid.MustParse("11112222-3333-4444-5555-666677778888"), data)
				if err != nil {
					return 0, err
				}
				cnt, err = h.WriteTo(&w)
				return 0, err
			})
			switch {
			case herr == nil && !row.Accept:
				viol("strictness:guid-hob", "a GUID hand-off block with %d bytes of data (more than a 16-bit length can describe) is written: %d bytes, returned count %d, encoded length %d", n, w.Len(), cnt, hobLen(w.Bytes()))
			case herr != nil && row.Accept:
				viol("roundtrip:guid-hob", "a GUID hand-off block with %d bytes of data is refused: %v", n, herr)
			case herr == nil:
				want := row.Value[0]
				if w.Len() != want || int(cnt) != want || hobLen(w.Bytes()) != want {
					viol("layout:guid-hob", "GUID hand-off block with %d bytes of data: %d bytes written, returned count %d, encoded length %d; the table says %d", n, w.Len(), cnt, hobLen(w.Bytes()), want)
				}
			}
			run.Case(fmt.Sprintf("guidhob:%d", n), true)
		}
	}
	if nLen < 10 {
		run.Infra(fmt.Errorf("Abi.tla emitted %d cstrlen rows", nLen))
		return
	}
	if nTagged < 30 || nHob < 10 {
		run.Infra(fmt.Errorf("Abi.tla emitted %d tagged and %d guidhob rows", nTagged, nHob))
		return
	}
	// C strings: missing terminator / length byte larger than what is present
	for _, bad := range [][]byte{{3, 'a', 'b', 'c'}, {0}, {5, 'a', 0}} {
		c := &eventlog.ByteSizedCStr{}
		if err := c.Unmarshal(bytes.NewReader(bad)); err == nil {
			viol("strictness:cstr", "malformed sized C string %v accepted as %q", bad, c.Data)
		}
	}
	// sized arrays: declared longer than present
	a := &eventlog.Uint32SizedArray{}
	if err := a.Unmarshal(bytes.NewReader([]byte{8, 0, 0, 0, 1, 2})); err == nil {
		viol("strictness:short-read", "Uint32SizedArray declaring 8 bytes with 2 present is accepted as %v", a.Data)
	}
	// TCG_PCR_EVENT2 with tagged digests; TCG_PCClientPCREvent
	algs := map[uint16]int{4: 20, 11: 32, 12: 48}
	for k := 0; k < 60; k++ {
		ev := &eventlog.TCGPCREvent2{PCRIndex: r.Uint32(), EventType: r.Uint32(), EventData: eventlog.TCGEventData{Event: &eventlog.UnknownEvent{Data: randBytes(r, r.Intn(30))}}}
		var ref []byte
		ref = le.AppendUint32(ref, ev.PCRIndex)
		ref = le.AppendUint32(ref, ev.EventType)
		nd := r.Intn(4)
		ref = le.AppendUint32(ref, uint32(nd))
		for d := 0; d < nd; d++ {
			alg := []uint16{4, 11, 12}[r.Intn(3)]
			dg := randBytes(r, algs[alg])
			ev.Digests.Array = append(ev.Digests.Array, &eventlog.TaggedDigest{AlgID: alg, Digest: dg})
			ref = le.AppendUint16(ref, alg)
			ref = append(ref, dg...)
		}
		ref = append(ref, sized4(ev.EventData.Event.(*eventlog.UnknownEvent).Data)...)
		var w bytes.Buffer
		if err := ev.Marshal(&w); err != nil {
			viol("marshal", "TCG_PCR_EVENT2 does not marshal: %v", err)
			continue
		}
		if !bytes.Equal(w.Bytes(), ref) {
			viol("layout", "TCG_PCR_EVENT2 encoding differs from the grammar's encoding")
			continue
		}
		back := &eventlog.TCGPCREvent2{}
		if _, err := safe(func() (int, error) { return 0, back.Unmarshal(bytes.NewReader(ref)) }); err != nil {
			viol("roundtrip", "TCG_PCR_EVENT2 does not decode its own encoding: %v", err)
			continue
		}
		var w2 bytes.Buffer
		back.Marshal(&w2)
		if !bytes.Equal(w2.Bytes(), ref) {
			viol("roundtrip", "TCG_PCR_EVENT2 decode/encode is not the identity")
		}
		for cut := 1; cut < len(ref); cut++ {
			b2 := &eventlog.TCGPCREvent2{}
			if _, err := safe(func() (int, error) { return 0, b2.Unmarshal(bytes.NewReader(ref[:cut])) }); err == nil {
				viol("strictness:short-read", "a truncated TCG_PCR_EVENT2 (%d of %d bytes) is accepted", cut, len(ref))
				break
			}
		}
		run.Case(fmt.Sprintf("event2:%d", k), true)
	}
	bad := le.AppendUint16(le.AppendUint32(le.AppendUint32(le.AppendUint32(nil, 1), 3), 1), 0x99)
	if err := (&eventlog.TCGPCREvent2{}).Unmarshal(bytes.NewReader(append(bad, make([]byte, 64)...))); err == nil {
		viol("strictness:algid", "unknown digest algorithm id accepted")
	}
	hdr := &eventlog.TCGPCClientPCREvent{PCRIndex: 1, EventType: 3, EventData: eventlog.TCGEventData{Event: &eventlog.UnknownEvent{Data: []byte("spec id")}}}
	copy(hdr.SHA1Digest[:], randBytes(r, 20))
	var w bytes.Buffer
	if err := hdr.Marshal(&w); err == nil {
		ref := append(append(le.AppendUint32(le.AppendUint32(nil, 1), 3), hdr.SHA1Digest[:]...), sized4([]byte("spec id"))...)
		if !bytes.Equal(w.Bytes(), ref) {
			viol("layout", "TCG_PCClientPCREvent encoding differs from the grammar's encoding")
		}
		for cut := 1; cut < len(ref); cut++ {
			b2 := &eventlog.TCGPCClientPCREvent{}
			if _, err := safe(func() (int, error) { return 0, b2.Unmarshal(bytes.NewReader(ref[:cut])) }); err == nil {
				viol("strictness:short-read", "a truncated TCG_PCClientPCREvent (%d of %d bytes) is accepted", cut, len(ref))
				break
			}
		}
	} else {
		viol("marshal", "TCG_PCClientPCREvent does not marshal: %v", err)
	}
}

func randBytes(r *rand.Rand, n int) []byte {
	b := make([]byte, n)
	for i := range b {
		b[i] = byte(1 + r.Intn(255))
	}
	return b
}

// hobLen reads the 16-bit HobLength of an encoded hand-off block (-1 if too short).
func hobLen(b []byte) int {
	if len(b) < 4 {
		return -1
	}
	return int(binary.LittleEndian.Uint16(b[2:4]))
}
