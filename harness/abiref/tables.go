// Package abiref interprets the layout tables exported from spec/Abi.tla: a generic reference
// encoder / decoder, used by C18 (codec checks) and by the C04 / C05 measurement oracles.
package abiref

import (
	"encoding/binary"
	"encoding/json"
	"fmt"
	"strings"
	"sync"
	"time"

	"verifharness/vk"
)

type Field struct {
	Name  string `json:"name"`
	Off   int    `json:"off"`
	Width int    `json:"width"`
	Kind  string `json:"kind"`
}
type Table struct {
	Size   int     `json:"size"`
	Fields []Field `json:"fields"`
}
type PartRow struct {
	Part    string `json:"part"`
	Payload []int  `json:"payload"`
	Accept  bool   `json:"accept"`
	Value   []int  `json:"value"`
}
type Exported struct {
	Tables   map[string]Table    `json:"tables"`
	Grammars map[string][]string `json:"grammars"`
	Parts    []PartRow           `json:"parts"`
	Exact    []string            `json:"exact"` // structures whose decoder is size-exact
}

func (e *Exported) exactDecoder(s string) bool {
	for _, x := range e.Exact {
		if x == s {
			return true
		}
	}
	return false
}

var (
	loadOnce sync.Once
	loaded   *Exported
	loadRes  *vk.TLCResult
	loadErr  error
)

// Load runs TLC on Abi.tla once (table consistency ASSUMEs + emission) and returns the tables.
func Load() (*Exported, *vk.TLCResult, error) {
	loadOnce.Do(func() {
		res, err := vk.RunTLC(vk.TLCOpts{Module: "Abi", Config: "Emit_Abi.cfg", Workers: 1, Timeout: 5 * time.Minute})
		if err != nil {
			loadErr = err
			return
		}
		if len(res.Edges) < 1 {
			loadErr = fmt.Errorf("Abi.tla did not emit its tables")
			return
		}
		e := &Exported{}
		if err := json.Unmarshal(res.Edges[0], e); err != nil {
			loadErr = err
			return
		}
		loaded, loadRes = e, res
	})
	return loaded, loadRes, loadErr
}

// Values maps field names to uint64 (kind u), []byte (bytes, guid, mbz) or Values (nested struct).
type Values map[string]any

func (e *Exported) sub(kind string) (string, bool) {
	if strings.HasPrefix(kind, "struct:") {
		return strings.TrimPrefix(kind, "struct:"), true
	}
	return "", false
}

// Encode writes v according to the table of structure s (missing fields are zero).
func (e *Exported) Encode(s string, v Values) []byte {
	t := e.Tables[s]
	out := make([]byte, t.Size)
	for _, f := range t.Fields {
		dst := out[f.Off : f.Off+f.Width]
		if sub, ok := e.sub(f.Kind); ok {
			sv, _ := v[f.Name].(Values)
			copy(dst, e.Encode(sub, sv))
			continue
		}
		switch f.Kind {
		case "u":
			x, _ := v[f.Name].(uint64)
			switch f.Width {
			case 1:
				dst[0] = byte(x)
			case 2:
				binary.LittleEndian.PutUint16(dst, uint16(x))
			case 4:
				binary.LittleEndian.PutUint32(dst, uint32(x))
			case 8:
				binary.LittleEndian.PutUint64(dst, x)
			}
		case "guid":
			// EFI GUID: first three groups little-endian, rest as is; value given as 16 RFC-4122 bytes
			b, _ := v[f.Name].([]byte)
			if len(b) == 16 {
				dst[0], dst[1], dst[2], dst[3] = b[3], b[2], b[1], b[0]
				dst[4], dst[5] = b[5], b[4]
				dst[6], dst[7] = b[7], b[6]
				copy(dst[8:], b[8:])
			}
		default: // bytes, mbz
			b, _ := v[f.Name].([]byte)
			copy(dst, b)
		}
	}
	return out
}

// Decode reads a structure (b must be at least the structure's size).
func (e *Exported) Decode(s string, b []byte) (Values, error) {
	t := e.Tables[s]
	if len(b) < t.Size {
		return nil, fmt.Errorf("%s: %d bytes, need %d", s, len(b), t.Size)
	}
	v := Values{}
	for _, f := range t.Fields {
		src := b[f.Off : f.Off+f.Width]
		if sub, ok := e.sub(f.Kind); ok {
			sv, err := e.Decode(sub, src)
			if err != nil {
				return nil, err
			}
			v[f.Name] = sv
			continue
		}
		switch f.Kind {
		case "u":
			switch f.Width {
			case 1:
				v[f.Name] = uint64(src[0])
			case 2:
				v[f.Name] = uint64(binary.LittleEndian.Uint16(src))
			case 4:
				v[f.Name] = uint64(binary.LittleEndian.Uint32(src))
			case 8:
				v[f.Name] = binary.LittleEndian.Uint64(src)
			}
		case "guid":
			g := make([]byte, 16)
			g[0], g[1], g[2], g[3] = src[3], src[2], src[1], src[0]
			g[4], g[5] = src[5], src[4]
			g[6], g[7] = src[7], src[6]
			copy(g[8:], src[8:])
			v[f.Name] = g
		case "mbz":
			for _, x := range src {
				if x != 0 {
					return nil, fmt.Errorf("%s.%s: reserved bytes not zero", s, f.Name)
				}
			}
			v[f.Name] = append([]byte{}, src...)
		default:
			v[f.Name] = append([]byte{}, src...)
		}
	}
	return v, nil
}

// MaxOf returns the largest value a field of the given width holds.
func MaxOf(width int) uint64 {
	if width >= 8 {
		return ^uint64(0)
	}
	return (uint64(1) << (8 * uint(width))) - 1
}
