// Package kms binds spec/Kms.tla to keys/gcpkms: an in-process KeyManagementServiceClient whose
// listings follow a pagination script, and the C20 predicates.
package kms

import (
	"context"
	"crypto"
	"crypto/rsa"
	"encoding/json"
	"errors"
	"fmt"
	"hash/crc32"
	"runtime"
	"strings"
	"sync"
	"time"

	"cloud.google.com/go/kms/apiv1/kmspb"
	"github.com/google/gce-tcb-verifier/keys/gcpkms"
	styp "github.com/google/gce-tcb-verifier/sign/types"
	"google.golang.org/grpc"
	"google.golang.org/grpc/codes"
	"google.golang.org/grpc/status"
	"google.golang.org/protobuf/types/known/wrapperspb"

	"verifharness/fx"
	"verifharness/vk"
)

const block = 50 // one abstract version/key stands for 50 real ones (abstract page size 2 = real 100)

var stateOf = map[string]kmspb.CryptoKeyVersion_CryptoKeyVersionState{
	"ENABLED": kmspb.CryptoKeyVersion_ENABLED, "DISABLED": kmspb.CryptoKeyVersion_DISABLED, "DESTROYED": kmspb.CryptoKeyVersion_DESTROYED,
	"DESTROY_SCHEDULED": kmspb.CryptoKeyVersion_DESTROY_SCHEDULED, "PENDING_GENERATION": kmspb.CryptoKeyVersion_PENDING_GENERATION,
	"GENERATION_FAILED": kmspb.CryptoKeyVersion_GENERATION_FAILED,
}

// Service is the in-process KMS model.
type Service struct {
	kmspb.KeyManagementServiceClient // unimplemented methods panic (nil interface)
	mu                               sync.Mutex
	Versions                         map[string][]*kmspb.CryptoKeyVersion // key name -> versions
	Keys                             []string                             // key names in listing order
	// pagination scripts: number of items of each successive page (per listing kind); when exhausted
	// full pages are served
	VerPages, KeyPages []int
	verCalls, keyCalls int
	FailVerCall        int // 1-based listing call that fails (0 = none)
	ListVerCalls       int
	ListKeyCalls       int
	Budget             int // listing calls allowed before the model declares non-termination
	Overrun            bool
	Listed             map[string]int
	PollStates         []kmspb.CryptoKeyVersion_CryptoKeyVersionState
	polls              int
	PollErrAt          int
	PollErrAlways      bool       // every poll fails
	ErrCode            codes.Code // status code of injected errors (OK: a plain error)
	DestroyFailCall    int        // 1-based destroy call that is refused (0 = none)
	destroyCalls       int
	Destroyed          []string
	NewVersionState    kmspb.CryptoKeyVersion_CryptoKeyVersionState
	Sign               func(*kmspb.AsymmetricSignRequest) (*kmspb.AsymmetricSignResponse, error)
}

var errSvc = errors.New("kms: injected service error")

// svcCodes: the gRPC status codes an injected service error carries (chosen per case)
var svcCodes = []codes.Code{codes.Internal, codes.Unavailable, codes.NotFound, codes.FailedPrecondition, codes.PermissionDenied, codes.DeadlineExceeded, codes.Aborted}

func (s *Service) svcErr() error {
	if s.ErrCode == codes.OK {
		return errSvc
	}
	return status.Error(s.ErrCode, "kms: injected service error")
}

func pageOf(total, cursor, want, real int) (n int) {
	if want == -1 { // an empty page that still carries a continuation token
		return 0
	}
	n = want
	if n <= 0 || n > real {
		n = real
	}
	if cursor+n > total {
		n = total - cursor
	}
	return
}

func parseTok(tok string) int {
	var c int
	fmt.Sscanf(tok, "t%d", &c)
	return c
}

func (s *Service) budget() error {
	if s.Budget > 0 && s.ListVerCalls+s.ListKeyCalls > s.Budget {
		s.Overrun = true
		return fmt.Errorf("kms model: listing budget of %d calls exceeded (client does not terminate)", s.Budget)
	}
	return nil
}

func (s *Service) ListCryptoKeyVersions(_ context.Context, r *kmspb.ListCryptoKeyVersionsRequest, _ ...grpc.CallOption) (*kmspb.ListCryptoKeyVersionsResponse, error) {
	s.mu.Lock()
	defer s.mu.Unlock()
	s.ListVerCalls++
	if err := s.budget(); err != nil {
		return nil, err
	}
	if s.FailVerCall == s.ListVerCalls {
		return nil, s.svcErr()
	}
	all := s.Versions[r.Parent]
	cursor := parseTok(r.PageToken)
	want := int(r.PageSize)
	if s.verCalls < len(s.VerPages) {
		want = s.VerPages[s.verCalls]
	}
	s.verCalls++
	n := pageOf(len(all), cursor, want, int(r.PageSize))
	resp := &kmspb.ListCryptoKeyVersionsResponse{TotalSize: int32(len(all))}
	for _, v := range all[cursor : cursor+n] {
		resp.CryptoKeyVersions = append(resp.CryptoKeyVersions, &kmspb.CryptoKeyVersion{Name: v.Name, State: v.State})
		if s.Listed != nil {
			s.Listed[v.Name]++
		}
	}
	if cursor+n < len(all) {
		resp.NextPageToken = fmt.Sprintf("t%d", cursor+n)
	}
	return resp, nil
}

func (s *Service) ListCryptoKeys(_ context.Context, r *kmspb.ListCryptoKeysRequest, _ ...grpc.CallOption) (*kmspb.ListCryptoKeysResponse, error) {
	s.mu.Lock()
	defer s.mu.Unlock()
	s.ListKeyCalls++
	if err := s.budget(); err != nil {
		return nil, err
	}
	cursor := parseTok(r.PageToken)
	want := int(r.PageSize)
	if s.keyCalls < len(s.KeyPages) {
		want = s.KeyPages[s.keyCalls]
	}
	s.keyCalls++
	n := pageOf(len(s.Keys), cursor, want, int(r.PageSize))
	resp := &kmspb.ListCryptoKeysResponse{TotalSize: int32(len(s.Keys))}
	for _, k := range s.Keys[cursor : cursor+n] {
		resp.CryptoKeys = append(resp.CryptoKeys, &kmspb.CryptoKey{Name: k})
		if s.Listed != nil {
			s.Listed[k]++
		}
	}
	if cursor+n < len(s.Keys) {
		resp.NextPageToken = fmt.Sprintf("t%d", cursor+n) // also after an empty page: "t<cursor>" continues
	}
	return resp, nil
}

func (s *Service) find(name string) *kmspb.CryptoKeyVersion {
	for _, vs := range s.Versions {
		for _, v := range vs {
			if v.Name == name {
				return v
			}
		}
	}
	return nil
}

func (s *Service) DestroyCryptoKeyVersion(_ context.Context, r *kmspb.DestroyCryptoKeyVersionRequest, _ ...grpc.CallOption) (*kmspb.CryptoKeyVersion, error) {
	s.mu.Lock()
	defer s.mu.Unlock()
	s.destroyCalls++
	if s.DestroyFailCall == s.destroyCalls {
		return nil, s.svcErr()
	}
	v := s.find(r.Name)
	if v == nil {
		return nil, fmt.Errorf("kms model: no version %s", r.Name)
	}
	if v.State != kmspb.CryptoKeyVersion_ENABLED && v.State != kmspb.CryptoKeyVersion_DISABLED {
		return nil, fmt.Errorf("kms model: version %s in state %v cannot be destroyed", r.Name, v.State)
	}
	v.State = kmspb.CryptoKeyVersion_DESTROY_SCHEDULED
	s.Destroyed = append(s.Destroyed, r.Name)
	return v, nil
}

func (s *Service) GetCryptoKeyVersion(_ context.Context, r *kmspb.GetCryptoKeyVersionRequest, _ ...grpc.CallOption) (*kmspb.CryptoKeyVersion, error) {
	s.mu.Lock()
	defer s.mu.Unlock()
	s.polls++
	if s.PollErrAt == s.polls || s.PollErrAlways {
		return nil, s.svcErr()
	}
	v := s.find(r.Name)
	if v == nil {
		return nil, fmt.Errorf("kms model: no version %s", r.Name)
	}
	if s.polls <= len(s.PollStates) {
		v.State = s.PollStates[s.polls-1]
	} else if v.State == kmspb.CryptoKeyVersion_PENDING_GENERATION {
		v.State = kmspb.CryptoKeyVersion_ENABLED
	}
	return &kmspb.CryptoKeyVersion{Name: v.Name, State: v.State}, nil
}

func (s *Service) CreateCryptoKeyVersion(_ context.Context, r *kmspb.CreateCryptoKeyVersionRequest, _ ...grpc.CallOption) (*kmspb.CryptoKeyVersion, error) {
	s.mu.Lock()
	defer s.mu.Unlock()
	st := s.NewVersionState
	if st == 0 {
		st = kmspb.CryptoKeyVersion_ENABLED
	}
	v := &kmspb.CryptoKeyVersion{Name: fmt.Sprintf("%s/cryptoKeyVersions/new%d", r.Parent, len(s.Versions[r.Parent])+1), State: st}
	s.Versions[r.Parent] = append(s.Versions[r.Parent], v)
	return &kmspb.CryptoKeyVersion{Name: v.Name, State: v.State}, nil
}

func (s *Service) CreateKeyRing(context.Context, *kmspb.CreateKeyRingRequest, ...grpc.CallOption) (*kmspb.KeyRing, error) {
	return &kmspb.KeyRing{}, nil
}
func (s *Service) CreateCryptoKey(_ context.Context, r *kmspb.CreateCryptoKeyRequest, _ ...grpc.CallOption) (*kmspb.CryptoKey, error) {
	return &kmspb.CryptoKey{}, nil
}
func (s *Service) AsymmetricSign(_ context.Context, r *kmspb.AsymmetricSignRequest, _ ...grpc.CallOption) (*kmspb.AsymmetricSignResponse, error) {
	return s.Sign(r)
}

type emitted struct {
	Mode  string `json:"mode"`
	Flags struct {
		Opts    string `json:"opts"`
		Sigcrc  bool   `json:"sigcrc"`
		Vdata   bool   `json:"vdata"`
		Vdigest bool   `json:"vdigest"`
		Svcerr  bool   `json:"svcerr"`
	} `json:"flags"`
	Hist []struct {
		Op    string `json:"op"`
		N     int    `json:"n"`
		State string `json:"state"`
	} `json:"hist"`
	Ret   string   `json:"ret"`
	Final []string `json:"final"`
}

func parallel(n int, f func(i int)) {
	var wg sync.WaitGroup
	ch := make(chan int, 64)
	for w := 0; w < runtime.NumCPU()*2; w++ {
		wg.Add(1)
		go func() {
			defer wg.Done()
			for i := range ch {
				f(i)
			}
		}()
	}
	for i := 0; i < n; i++ {
		ch <- i
	}
	close(ch)
	wg.Wait()
}

const keyName = "projects/p/locations/l/keyRings/r/cryptoKeys/k"

func manager(s *Service) *gcpkms.Manager {
	return &gcpkms.Manager{Project: "p", Location: "l", KeyRingID: "r", KeyClient: s}
}

// buildVersions expands an abstract state vector (recovered from the final vector and the mode) into
// blocks of real versions.
func buildVersions(states []string) []*kmspb.CryptoKeyVersion {
	var vs []*kmspb.CryptoKeyVersion
	for i, st := range states {
		for j := 0; j < block; j++ {
			vs = append(vs, &kmspb.CryptoKeyVersion{Name: fmt.Sprintf("%s/cryptoKeyVersions/%d", keyName, i*block+j+1), State: stateOf[st]})
		}
	}
	return vs
}

var crcTable = crc32.MakeTable(crc32.Castagnoli)

func crc(b []byte) int64 { return int64(crc32.Checksum(b, crcTable)) }

// RunC20 is the C20 check.
func RunC20(run *vk.Run) {
	tier := "quick"
	if !run.IsQuick() {
		tier = "thorough"
	}
	run.Assumptions = append(run.Assumptions, "the listing page size is the constant 100: one abstract version stands for a block of 50 real versions in the same state (abstract page size 2)",
		"legal pagination: a page holds 1..PageSize of the remaining items and the next-page token is empty exactly on the last page (no empty non-final pages)",
		"polling sleeps 5 s per PENDING result: behaviours with more than one (quick) / two (thorough) pending polls are checked in the model only")
	res, err := vk.RunTLC(vk.TLCOpts{Module: "Kms", Config: "MC_Kms_" + tier + ".cfg", Timeout: 15 * time.Minute})
	if err != nil {
		run.Infra(err)
		return
	}
	run.AddTLC(res)
	for _, neg := range []string{"Neg_Kms_shortpage.cfg", "Neg_Kms_shortpage2.cfg"} {
		if _, err := vk.RunTLC(vk.TLCOpts{Module: "Kms", Config: neg, Timeout: 5 * time.Minute, ExpectViolation: true}); err != nil {
			run.Infra(err)
			return
		}
	}
	em, err := vk.RunTLC(vk.TLCOpts{Module: "Kms", Config: "Emit_Kms_" + tier + ".cfg", Workers: 1, Timeout: 15 * time.Minute})
	if err != nil {
		run.Infra(err)
		return
	}
	run.AddTLC(em)
	maxPending := 1
	if !run.IsQuick() {
		maxPending = 2
	}
	var drift int64
	var mu sync.Mutex
	note := func(f string, a ...any) {
		mu.Lock()
		drift++
		if drift <= 5 {
			fmt.Printf("DRIFT property=C20 "+f+"\n", a...)
		}
		mu.Unlock()
	}
	ctx := fx.Ctx(nil, false, true)
	parallel(len(em.Cases), func(i int) {
		var c emitted
		if err := json.Unmarshal(em.Cases[i], &c); err != nil {
			run.Infra(err)
			return
		}
		rep := map[string]any{"behaviour": json.RawMessage(em.Cases[i])}
		switch c.Mode {
		case "wipe", "getver":
			// initial states: final states with DESTROY_SCHEDULED possibly produced by this wipeout;
			// the behaviour does not record them, so recover: every version listed and destroyable
			// originally... we rebuild from hist: the emitted final vector is post-state, so use a
			// pre-state in which each scheduled version was ENABLED (odd index) or DISABLED (even).
			pre := append([]string{}, c.Final...)
			if c.Mode == "wipe" {
				for k := range pre {
					if pre[k] == "DESTROY_SCHEDULED" {
						if k%2 == 0 {
							pre[k] = "ENABLED"
						} else {
							pre[k] = "DISABLED"
						}
					}
				}
			}
			s := &Service{Versions: map[string][]*kmspb.CryptoKeyVersion{keyName: buildVersions(pre)}, Keys: []string{keyName}, Listed: map[string]int{}}
			pages := 0
			for _, h := range c.Hist {
				if h.Op == "List" {
					s.VerPages = append(s.VerPages, h.N*block)
					pages++
				}
				if h.Op == "ListEmpty" {
					s.VerPages = append(s.VerPages, -1)
					pages++
				}
				if h.Op == "ListErr" {
					s.FailVerCall = pages + 1
				}
				if h.Op == "DestroyErr" {
					// the first real version of abstract version h.N is the one the service refuses to destroy
					before := 0
					for k := 0; k < h.N-1 && k < len(pre); k++ {
						if pre[k] == "ENABLED" || pre[k] == "DISABLED" {
							before++
						}
					}
					s.DestroyFailCall = before*block + 1
				}
			}
			s.ErrCode = svcCodes[i%len(svcCodes)]
			total := len(pre) * block
			s.Budget = pages + 3 + 1
			m := manager(s)
			if c.Mode == "wipe" {
				err := m.Wipeout(ctx)
				if s.Overrun {
					run.Violation("listing-does-not-terminate:wipeout", fmt.Sprintf("wipeout keeps listing after the service's %d pages were served (%d versions, page script %v)", pages, total, s.VerPages), rep)
					return
				}
				if (err == nil) != (c.Ret == "ok") {
					note("wipe behaviour %s: real error %v, spec %s", em.Cases[i], err, c.Ret)
				}
				if err == nil {
					left := 0
					for _, v := range s.Versions[keyName] {
						if v.State == kmspb.CryptoKeyVersion_ENABLED || v.State == kmspb.CryptoKeyVersion_DISABLED {
							left++
						}
					}
					if left > 0 {
						run.Violation("wipeout-incomplete", fmt.Sprintf("wipeout returned success but %d of %d versions are still enabled or disabled (page script %v)", left, total, s.VerPages), rep)
					}
					if s.ListVerCalls > pages+1 {
						run.Violation("listing-call-bound:wipeout", fmt.Sprintf("wipeout made %d listing calls for %d pages", s.ListVerCalls, pages), rep)
					}
				} else if s.FailVerCall == 0 && s.DestroyFailCall == 0 {
					run.Violation("wipeout-fails", fmt.Sprintf("wipeout fails without a service error: %v", err), rep)
				}
			} else {
				s.NewVersionState = kmspb.CryptoKeyVersion_ENABLED
				preState := map[string]kmspb.CryptoKeyVersion_CryptoKeyVersionState{}
				for _, v := range s.Versions[keyName] {
					preState[v.Name] = v.State
				}
				bctx := gcpkms.NewBootstrapContext(ctx, &gcpkms.BootstrapContext{RootKeyID: "k", SigningKeyID: "s"})
				name, err := m.CreateNewRootKey(bctx)
				if s.Overrun {
					run.Violation("listing-does-not-terminate:bootstrap", fmt.Sprintf("bootstrap keeps listing after the service's %d pages were served (%d versions)", pages, total), rep)
					return
				}
				anyEnabled, anyPending := false, false
				for _, st := range pre {
					anyEnabled = anyEnabled || st == "ENABLED"
					anyPending = anyPending || st == "PENDING_GENERATION"
				}
				if err == nil {
					v := s.find(name)
					if v == nil || v.State != kmspb.CryptoKeyVersion_ENABLED {
						run.Violation("bootstrap-selects-unusable", fmt.Sprintf("bootstrap returned version %q which is not enabled", name), rep)
					}
					// "selects an enabled version (or waits for a pending one)": a pending version is only waited
					// for when no enabled version exists anywhere in the listing
					if was, known := preState[name]; anyEnabled && s.FailVerCall == 0 && known && was != kmspb.CryptoKeyVersion_ENABLED {
						run.Violation("bootstrap-overlooks-enabled", fmt.Sprintf("bootstrap waited for version %q (%v before the call) although an enabled version exists on a later page (%d versions, page script %v)", name, was, total, s.VerPages), rep)
					}
					isNew := strings.Contains(name, "/new")
					if isNew && (anyEnabled || anyPending) && s.FailVerCall == 0 {
						run.Violation("bootstrap-overlooks-version", fmt.Sprintf("bootstrap created a new version although an enabled or pending one exists (%d versions, page script %v)", total, s.VerPages), rep)
					}
				}
				// however the listing is paged (short pages, empty pages that carry a continuation token), a key
				// that has an enabled or pending version is bootstrapped with it
				if err != nil && c.Ret != "err" && s.FailVerCall == 0 && (anyEnabled || anyPending) {
					run.Violation("bootstrap-fails-on-paged-listing", fmt.Sprintf("bootstrap fails (%v) although the key has an enabled or pending version and no call failed (%d versions, page script %v)", err, total, s.VerPages), rep)
				}
				if (err == nil) != (c.Ret != "err") {
					note("getver behaviour %s: real error %v, spec %s", em.Cases[i], err, c.Ret)
				}
			}
		case "poll":
			pend := 0
			s := &Service{Versions: map[string][]*kmspb.CryptoKeyVersion{}, NewVersionState: kmspb.CryptoKeyVersion_PENDING_GENERATION}
			for k, h := range c.Hist {
				if h.Op == "GetErr" {
					s.PollErrAt = k + 1
					s.PollStates = append(s.PollStates, kmspb.CryptoKeyVersion_PENDING_GENERATION)
					continue
				}
				if h.State == "PENDING_GENERATION" {
					pend++
				}
				s.PollStates = append(s.PollStates, stateOf[h.State])
			}
			if pend > maxPending {
				return
			}
			// the created version's state in the create response: still pending, or already what the first
			// poll reports (a version that is not pending never changes) -- both are legal worlds
			first := kmspb.CryptoKeyVersion_PENDING_GENERATION
			if len(s.PollStates) > 0 {
				first = s.PollStates[0]
			}
			for _, created := range []kmspb.CryptoKeyVersion_CryptoKeyVersionState{kmspb.CryptoKeyVersion_PENDING_GENERATION, first} {
				if created != kmspb.CryptoKeyVersion_PENDING_GENERATION && s.PollErrAt == 1 {
					continue
				}
				s2 := &Service{Versions: map[string][]*kmspb.CryptoKeyVersion{}, NewVersionState: created, PollStates: s.PollStates, PollErrAt: s.PollErrAt}
				// (a deadline, so that polling that never ends is seen as such: 5 s per pending poll of the script,
				// and time for one more poll after its last state)
				dctx, cancel := context.WithTimeout(ctx, time.Duration(5*pend+7)*time.Second)
				sctx := gcpkms.NewSigningKeyContext(dctx, &gcpkms.SigningKeyContext{SigningKeyID: "k"})
				name, err := manager(s2).CreateNewSigningKeyVersion(sctx)
				cancel()
				if n := len(s.PollStates); n > 0 && s.PollStates[n-1] != kmspb.CryptoKeyVersion_PENDING_GENERATION && s2.polls > n && s.PollErrAt == 0 {
					run.Violation("polling-does-not-terminate:final-state", fmt.Sprintf("creating a key version kept polling (%d polls) after the service reported the final state %v (poll script %v, state in the create response: %v); the call ended with: %v", s2.polls, s.PollStates[n-1], s.PollStates, created, err), rep)
				}
				if err == nil {
					if v := s2.find(name); v == nil || v.State != kmspb.CryptoKeyVersion_ENABLED {
						run.Violation("rotation-returns-unusable", fmt.Sprintf("rotation returned version %q which is not enabled (state in the create response: %v, poll script %v)", name, created, s.PollStates), rep)
					}
				}
				if (err == nil) != (c.Ret == "enabled") {
					note("poll behaviour %s (create response %v): real error %v, spec %s", em.Cases[i], created, err, c.Ret)
				}
				if created == first {
					break
				}
			}
		case "sign":
			sig := make([]byte, 256)
			for k := range sig {
				sig[k] = byte(k*13 + 5)
			}
			// a wrong signature checksum is realised as every single-bit corruption of the 64-bit value the
			// service reports (the CRC occupies the low 32 bits), and as an absent checksum
			corrupt := []int{-1}
			if !c.Flags.Sigcrc {
				corrupt = nil
				for b := 0; b < 64; b++ {
					corrupt = append(corrupt, b)
				}
				corrupt = append(corrupt, 64) // absent
			}
			var flip int
			s := &Service{}
			s.Sign = func(r *kmspb.AsymmetricSignRequest) (*kmspb.AsymmetricSignResponse, error) {
				if c.Flags.Svcerr {
					return nil, errSvc
				}
				resp := &kmspb.AsymmetricSignResponse{Signature: sig, VerifiedDataCrc32C: c.Flags.Vdata, VerifiedDigestCrc32C: c.Flags.Vdigest}
				switch {
				case flip == 64:
				case flip >= 0:
					resp.SignatureCrc32C = wrapperspb.Int64(int64(uint64(crc(sig)) ^ (1 << uint(flip))))
				default:
					resp.SignatureCrc32C = wrapperspb.Int64(crc(sig))
				}
				return resp, nil
			}
			var opts crypto.SignerOpts
			switch c.Flags.Opts {
			case "pss256salt32":
				opts = &rsa.PSSOptions{SaltLength: rsa.PSSSaltLengthEqualsHash, Hash: crypto.SHA256}
			case "pss256saltauto":
				opts = &rsa.PSSOptions{SaltLength: rsa.PSSSaltLengthAuto, Hash: crypto.SHA256}
			case "pss384":
				opts = &rsa.PSSOptions{SaltLength: rsa.PSSSaltLengthEqualsHash, Hash: crypto.SHA384}
			default:
				opts = crypto.SHA256
			}
			signer := &gcpkms.Signer{Manager: manager(s)}
			allOK := c.Flags.Opts == "pss256salt32" && c.Flags.Sigcrc && c.Flags.Vdata && c.Flags.Vdigest && !c.Flags.Svcerr
			for _, flip = range corrupt {
				got, err := signer.Sign(ctx, keyName+"/cryptoKeyVersions/1", styp.Digest{SHA256: make([]byte, 32)}, opts)
				if err == nil && !allOK {
					how := ""
					if flip == 64 {
						how = " (signature checksum absent)"
					} else if flip >= 0 {
						how = fmt.Sprintf(" (bit %d of the reported signature checksum flipped)", flip)
					}
					run.Violation("sign-unchecked", fmt.Sprintf("Signer.Sign returned a signature although %+v%s", c.Flags, how), rep)
					break
				}
				if err == nil && string(got) != string(sig) {
					run.Violation("sign-unchecked", "Signer.Sign returned other bytes than the service's signature", rep)
				}
				if (err == nil) != (c.Ret == "signature") {
					note("sign behaviour %s: real error %v, spec %s", em.Cases[i], err, c.Ret)
				}
			}
		}
		run.Case(string(em.Cases[i]), len(c.Hist) > 1 || c.Mode == "sign")
		if i%1201 == 0 {
			run.Sample(map[string]any{"mode": c.Mode, "behaviour": json.RawMessage(em.Cases[i])})
		}
	})
	// every single-bit corruption of the signature (checksum unchanged) must be refused
	sig := make([]byte, 256)
	for k := range sig {
		sig[k] = byte(k*13 + 5)
	}
	good := crc(sig)
	bad := 0
	for bit := 0; bit < len(sig)*8; bit++ {
		c := append([]byte{}, sig...)
		c[bit/8] ^= 1 << (bit % 8)
		s := &Service{Sign: func(*kmspb.AsymmetricSignRequest) (*kmspb.AsymmetricSignResponse, error) {
			return &kmspb.AsymmetricSignResponse{Signature: c, SignatureCrc32C: wrapperspb.Int64(good), VerifiedDataCrc32C: true, VerifiedDigestCrc32C: true}, nil
		}}
		if _, err := (&gcpkms.Signer{Manager: manager(s)}).Sign(ctx, "v", styp.Digest{SHA256: make([]byte, 32)}, &rsa.PSSOptions{SaltLength: rsa.PSSSaltLengthEqualsHash, Hash: crypto.SHA256}); err == nil {
			bad++
		}
		run.Case(fmt.Sprintf("sigbit-%d", bit), true)
	}
	if bad > 0 {
		run.Violation("sign-unchecked:bitflip", fmt.Sprintf("%d single-bit corruptions of the signature were returned to the caller", bad), nil)
	}
	// key-level listing loop of Manager.Wipeout around the page size
	for _, nk := range []int{0, 1, 99, 100, 101, 150, 200, 250} {
		for _, script := range [][]int{nil, {50}, {100, 50}, {50, 50, 50}, {-1}, {50, -1, 50}, {-1, -1, 100}} {
			s := &Service{Versions: map[string][]*kmspb.CryptoKeyVersion{}, Listed: map[string]int{}, KeyPages: script}
			for k := 0; k < nk; k++ {
				kn := fmt.Sprintf("projects/p/locations/l/keyRings/r/cryptoKeys/k%03d", k)
				s.Keys = append(s.Keys, kn)
				s.Versions[kn] = []*kmspb.CryptoKeyVersion{{Name: kn + "/cryptoKeyVersions/1", State: kmspb.CryptoKeyVersion_ENABLED}}
			}
			s.Budget = 3*nk + 20
			err := manager(s).Wipeout(ctx)
			rep := map[string]any{"keys": nk, "key_page_script": script}
			if s.Overrun {
				run.Violation("listing-does-not-terminate:wipeout-keys", fmt.Sprintf("Manager.Wipeout keeps listing keys (%d keys, page script %v)", nk, script), rep)
				continue
			}
			left := 0
			for _, vs := range s.Versions {
				if vs[0].State == kmspb.CryptoKeyVersion_ENABLED {
					left++
				}
			}
			if err == nil && left > 0 {
				run.Violation("wipeout-incomplete:keys", fmt.Sprintf("Manager.Wipeout returned success but %d of %d keys still have an enabled version (page script %v)", left, nk, script), rep)
			}
			if err != nil {
				run.Violation("wipeout-fails", fmt.Sprintf("Manager.Wipeout fails without a service error: %v", err), rep)
			}
			run.Case(fmt.Sprintf("keys-%d-%v", nk, script), nk > 0)
		}
	}
	run.AddDrift(drift)
	run.Exhaustive = true
	// a service that keeps failing the poll with one status code: creating a key version returns (an
	// error) after a bounded number of calls, whatever the code, and well before the caller's patience ends
	for _, code := range svcCodes {
		s := &Service{Versions: map[string][]*kmspb.CryptoKeyVersion{}, NewVersionState: kmspb.CryptoKeyVersion_PENDING_GENERATION, PollErrAlways: true, ErrCode: code}
		cctx, cancel := context.WithTimeout(ctx, 1500*time.Millisecond)
		done := make(chan error, 1)
		go func() {
			_, err := manager(s).CreateNewSigningKeyVersion(gcpkms.NewSigningKeyContext(cctx, &gcpkms.SigningKeyContext{SigningKeyID: "k"}))
			done <- err
		}()
		select {
		case err := <-done:
			s.mu.Lock()
			polls := s.polls
			s.mu.Unlock()
			if err == nil {
				run.Violation("rotation-returns-unusable", fmt.Sprintf("creating a key version succeeded although every poll failed with %v", code), nil)
			}
			if polls > 20 {
				run.Violation("polling-does-not-terminate", fmt.Sprintf("creating a key version polled %d times within 1.5 s while every poll failed with %v", polls, code), nil)
			}
		case <-time.After(12 * time.Second):
			run.Violation("polling-does-not-terminate", fmt.Sprintf("creating a key version does not return while every poll fails with %v (the caller's context expired after 1.5 s)", code), nil)
		}
		cancel()
		run.Case("poll-always-fails:"+code.String(), true)
	}
	run.Rule = "every terminal behaviour of Kms.tla within the tier's bounds (all version-state vectors up to N versions, all legal paginations with page size 2, a service error at each listing call and a refused destroy at each destroyable version (status codes rotated over Internal, Unavailable, NotFound, FailedPrecondition, PermissionDenied, DeadlineExceeded, Aborted), all polling outcomes and a service that fails every poll, all signing flag/option combinations) is replayed against the real gcpkms Manager/Signer over an in-process KMS model with block scaling (1 abstract version = 50 real); plus all 2048 single-bit corruptions of the signature and the key-level listing loop for 0..250 keys"
}
