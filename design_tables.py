#!/usr/bin/env python3
"""Regenerates the two generated tables of DESIGN.md (between the BEGIN/END markers):
   - seeded-table: one row per seeded change with the last recorded detection result
   - status-table: one row per property from evidence/<id>.json (as last written)."""
import glob, json, os, re

def seeded():
    rows = ["| seeded change | property | what it needs to manifest (abridged) | check | result on the current checks |", "|---|---|---|---|---|"]
    for d in sorted(glob.glob('/verif/seeded/*/')):
        mp = d + 'meta.json'
        if not os.path.exists(mp):
            continue
        m = json.load(open(mp))
        need = m.get('needs_to_manifest', '').replace('|', '/')
        if len(need) > 170:
            need = need[:170] + '...'
        det = []
        if os.path.exists(d + 'detection.txt'):
            for l in open(d + 'detection.txt', errors='replace'):
                mm = re.match(r'SEEDED (\S+) property=(\S+) check=(\S+) tier=(\S+) (\S+) exit=(\d+) violations=(\d+)\s*(.*)', l)
                if mm:
                    what = mm.group(8).replace('what:', '').strip().replace('|', '/')
                    if len(what) > 150:
                        what = what[:150] + '...'
                    det.append((mm.group(3), f"{mm.group(5)} ({mm.group(7)} violations){': ' + what if what else ''}"))
        if not det:
            det = [(m['property'], 'not run yet')]
        for c, r in det:
            rows.append(f"| {m['id']} | {m['property']} | {need} | {c} quick | {r} |")
    return "\n".join(rows)

def status():
    rows = ["| property | tier | TLC states | TLC transitions | cases run on real code | distinct | drift | known findings seen | wall s |", "|---|---|---|---|---|---|---|---|---|"]
    for f in sorted(glob.glob('/verif/evidence/C*.json')):
        e = json.load(open(f))
        c = e.get('coverage', {})
        rows.append(f"| {e['property_id']} | {e.get('tier')} | {c.get('states')} | {c.get('transitions')} | {c.get('traces_validated_against_impl')} | {c.get('distinct_nontrivial')} | {c.get('drift')} | {len(c.get('known_findings_seen') or [])} | {e.get('wall_s')} |")
    return "\n".join(rows)

p = '/verif/DESIGN.md'
s = open(p).read()
for name, fn in (('seeded-table', seeded), ('status-table', status)):
    b, e = f'<!-- BEGIN {name} -->', f'<!-- END {name} -->'
    i, j = s.index(b) + len(b), s.index(e)
    s = s[:i] + "\n" + fn() + "\n" + s[j:]
open(p, 'w').write(s)
print("tables regenerated")
