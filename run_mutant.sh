#!/bin/sh
# usage: run_mutant.sh <patch.diff> <property id>...   -- applies the patch to /repo, runs the quick
# checks of the given properties, prints one line per property, and restores /repo.
P="$1"; shift
cd /repo || exit 2
if ! git apply --check "$P" 2>/dev/null; then echo "MUTANT $P: patch does not apply"; exit 3; fi
git apply "$P"
for id in "$@"; do
  out=$(cd /verif && ./check "$id" quick 2>&1)
  rc=$?
  v=$(echo "$out" | grep -c '^VIOLATION')
  first=$(echo "$out" | grep -A1 '^VIOLATION' | grep 'what:' | head -1 | cut -c1-200)
  echo "MUTANT $(basename $(dirname $P)) of $(basename $(dirname $(dirname $P))) check=$id exit=$rc violations=$v $first"
  [ $rc -eq 2 ] && echo "$out" | grep ERROR | head -3
done
git checkout -- . && git clean -fdq -e '*.orig' >/dev/null 2>&1
git status --short | head -3
