CONSTANTS
  Kinds = {1, 2, 3}
  Addrs = {1, 2, 4, 99}
  Lens = {0, 1, 2, 98}
  MaxSecs = 3
  Vcpus = {1}
  Roms = {1}
  Bases = {"high"}
  Metas = {0}
SPECIFICATION Spec
INVARIANTS C04_OrderRomSectionsVmsas C04_AcceptedHaveMandatory Emit
CHECK_DEADLOCK FALSE
