---------------------------- MODULE SystemProof ----------------------------
(***************************************************************************)
(* TLAPS proof of the end-to-end statement of System.tla for histories of  *)
(* any length, any number of images, configurations, ticks and any         *)
(* certificate lifetime: whatever the untrusted bucket serves, an accepted *)
(* measurement was endorsed by the trusted authority for the named count   *)
(* under a certificate valid at the verification time.                     *)
(***************************************************************************)
EXTENDS SystemCore, TLAPS

ASSUME Params == MaxCmds \in Nat /\ MaxT \in Nat /\ Life \in Nat /\ Cfgs \subseteq Nat \ {0}
ASSUME Sound == Design = "sound"

Certs == [key : Int, nb : Int, issuer : {"none", "root", "evil"}]
Objs == [doc : Images \cup {"none"}, signer : Int, cert : Certs, sig : {"none", "valid", "over_other"}]

Inv ==
  /\ now \in Nat /\ ncmds \in Nat
  /\ prim \in 0 .. MaxCmds /\ nkeys \in 0 .. MaxCmds
  /\ certs \in [Keys -> Certs]
  /\ bucket \in [Meas -> Objs]
  /\ prim # 0 => prim \in Keys /\ certs[prim].issuer = "root"
  /\ \A k \in Keys : certs[k].issuer \in {"none", "root"}
  \* a validly signed object under a root-issued certificate is one the authority issued
  /\ \A m \in Meas : (bucket[m].sig = "valid" /\ bucket[m].cert.issuer = "root") =>
        /\ bucket[m].doc \in Images
        /\ \A m2 \in Listed(bucket[m].doc) : [m |-> m2, cert |-> bucket[m].cert] \in endorsed
  /\ Sys_AcceptedWasEndorsed

LEMMA InitInv == Init => Inv
  BY Params DEF Init, Inv, Sys_AcceptedWasEndorsed, NoCert, NoObj, Certs, Objs, Keys

LEMMA ListedIn == \A img \in Images : \A m \in Listed(img) : m \in Meas /\ m.img = img
  BY DEF Listed, Meas

LEMMA NextInv == Inv /\ [Next]_vars => Inv'
<1> SUFFICES ASSUME Inv, [Next]_vars PROVE Inv'
  OBVIOUS
<1> USE Params, Sound
<1>1. CASE Tick
  BY <1>1 DEF Inv, Tick, Cmd, Sys_AcceptedWasEndorsed
<1>2. CASE Bootstrap
  BY <1>2 DEF Inv, Bootstrap, Cmd, Sys_AcceptedWasEndorsed, Certs, Keys
<1>3. CASE Rotate
  BY <1>3 DEF Inv, Rotate, Cmd, Sys_AcceptedWasEndorsed, Certs, Keys
<1>4. ASSUME NEW img \in Images, Endorse(img) PROVE Inv'
  <2>1. certs[prim] \in Certs /\ certs[prim].issuer = "root" /\ prim \in Keys
    BY <1>4 DEF Inv, Endorse
  <2>2. bucket' \in [Meas -> Objs]
    BY <1>4, <2>1 DEF Inv, Endorse, Objs
  <2>3. \A m \in Meas : (bucket'[m].sig = "valid" /\ bucket'[m].cert.issuer = "root") =>
          /\ bucket'[m].doc \in Images
          /\ \A m2 \in Listed(bucket'[m].doc) : [m |-> m2, cert |-> bucket'[m].cert] \in endorsed'
    BY <1>4, <2>1 DEF Inv, Endorse
  <2>4. Sys_AcceptedWasEndorsed'
    BY <1>4 DEF Inv, Endorse, Cmd, Sys_AcceptedWasEndorsed
  <2> QED
    BY <1>4, <2>2, <2>3, <2>4 DEF Inv, Endorse, Cmd
<1>5. ASSUME NEW a \in Meas, NEW b \in Meas, Swap(a, b) PROVE Inv'
  BY <1>5 DEF Inv, Swap, Cmd, Sys_AcceptedWasEndorsed
<1>6. ASSUME NEW a \in Meas, Forge(a) PROVE Inv'
  <2>1. a.img \in Images
    BY DEF Meas
  <2> QED
    BY <1>6, <2>1 DEF Inv, Forge, Cmd, Sys_AcceptedWasEndorsed, Objs, Certs
<1>7. ASSUME NEW a \in Meas, Corrupt(a) PROVE Inv'
  BY <1>7 DEF Inv, Corrupt, Cmd, Sys_AcceptedWasEndorsed, Objs, Certs
<1>8. ASSUME NEW a \in Meas, Drop(a) PROVE Inv'
  BY <1>8 DEF Inv, Drop, Cmd, Sys_AcceptedWasEndorsed, Objs, Certs, NoObj, NoCert
<1>9. ASSUME NEW m \in Meas, NEW req \in {0} \cup Cfgs, NEW roots \in {"genuine", "foreign"}, Validate(m, req, roots) PROVE Inv'
  <2>1. CASE ~Accepts(m, req, roots)
    BY <1>9, <2>1 DEF Inv, Validate, Cmd, Sys_AcceptedWasEndorsed
  <2>2. CASE Accepts(m, req, roots)
    <3>1. bucket[m].sig = "valid" /\ bucket[m].cert.issuer = "root" /\ roots = "genuine" /\ InTime(bucket[m].cert, now)
          /\ m \in Listed(bucket[m].doc) /\ (req = 0 \/ m.cfg = req)
      BY <2>2 DEF Inv, Accepts, Certs, Objs
    <3>2. [m |-> m, cert |-> bucket[m].cert] \in endorsed
      BY <3>1 DEF Inv
    <3>3. Sys_AcceptedWasEndorsed'
      BY <1>9, <3>1, <3>2 DEF Validate, Cmd, Sys_AcceptedWasEndorsed, Inv
    <3> QED
      BY <1>9, <3>3 DEF Inv, Validate, Cmd
  <2> QED
    BY <2>1, <2>2
<1>10. CASE UNCHANGED vars
  BY <1>10 DEF Inv, vars, Sys_AcceptedWasEndorsed
<1> QED
  BY <1>1, <1>2, <1>3, <1>4, <1>5, <1>6, <1>7, <1>8, <1>9, <1>10 DEF Next

THEOREM EndToEnd == Spec => []Sys_AcceptedWasEndorsed
<1>1. Inv => Sys_AcceptedWasEndorsed
  BY DEF Inv
<1> QED
  BY InitInv, NextInv, <1>1, PTL DEF Spec
=============================================================================
