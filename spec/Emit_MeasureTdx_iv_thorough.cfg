CONSTANTS
  LineLen = 8
  FourGiB = 4
  MaxBanks = 2
  MaxSecs = 3
  Part = "intervals"
SPECIFICATION Spec
INVARIANTS C05_UnacceptedSound C05_ExtendRule Emit
CHECK_DEADLOCK FALSE
