--------------------------- MODULE EndorseCommit ---------------------------
(***************************************************************************)
(* The model of the sign + commit retry loop is in EndorseCommitCore.tla   *)
(* (so that the proof system can read it: EndorseCommitProof.tla proves    *)
(* the attempt bound of C14 and the no-effect statements of C15 for any    *)
(* retry budget); this module adds the emission of complete behaviours.    *)
(* Trace_EndorseCommit.tla extends this module.                            *)
(***************************************************************************)
EXTENDS EndorseCommitCore, Json

(***************************************************************************)
(* Emission of complete behaviours (used by the replay direction).         *)
(***************************************************************************)
Emit == pc = "done" => PrintT(<<"VCASE", ToJson([cfg |-> cfg, hist |-> hist, head |-> head.man, endo |-> head.endo])>>)
=============================================================================
