---------------------------- MODULE EndorseFlags ----------------------------
(***************************************************************************)
(* The endorse command's own component (cmd/endorse.go): what its flag     *)
(* validation (PersistentPreRunE) and its initialisation (InitContext)     *)
(* make of the command line, as a decision table.  The result is the       *)
(* endorse.Context handed to endorse.VirtualFirmware: which technologies   *)
(* are requested, the security version number picked up from the SCRTM     *)
(* version file next to the image, the SVSM measurement, the image name.   *)
(* Not anchored in a listed property (it feeds C06's "the document         *)
(* describes exactly what was requested"); conformance prints DRIFT only.  *)
(***************************************************************************)
EXTENDS Integers, Sequences, FiniteSets, TLC, Json

VARIABLES row, out
vars == <<row, out>>

Uefi == {"empty", "noext", "fd"}                       \* --uefi: absent, without the .fd suffix, proper
Scrtm == {"none", "sibling", "suffix", "both", "garbage", "emptyfile"}
   \* <image>_scrtm_ver.pb (replacing .fd) is looked up first, then <image>.scrtm.pb; "both": the
   \* sibling says version 7, the suffix file 9; garbage: not a SCRTMVersion message; emptyfile: zero bytes
Ids == {"unset", "uuid", "bad"}
CommitLens == {0, 19, 20, 32}
SvsmMeas == {"none", "hex48", "hex48_ws", "hex47", "nothex", "missing"}
\* --tdx_machine_shapes spelled: not at all, once with one shape, once with a comma list of two,
\* twice with one shape each, once with a comma list of two and once with a third shape
ShapeSpellings == {"none", "one", "comma", "repeated", "mixed"}
ShapeCount(sp) == CASE sp = "none" -> 0 [] sp = "one" -> 1 [] sp \in {"comma", "repeated"} -> 2 [] OTHER -> 3

Rows == {r \in [uefi : Uefi, scrtm : Scrtm, addSnp : BOOLEAN, addTdx : BOOLEAN, family : Ids, image : Ids,
                commit : CommitLens, exists : BOOLEAN, svsm : SvsmMeas, shapes : ShapeSpellings] :
           /\ (r.uefi # "fd" => r.scrtm = "none" /\ ~r.exists)
           /\ (r.shapes # "none" => r.uefi = "fd" /\ r.scrtm \in {"none", "sibling"} /\ r.family # "bad" /\ r.image = "unset"
                                     /\ r.commit \in {0, 20} /\ r.svsm = "none")
           /\ (~r.addSnp => r.family \in {"unset", "bad"} /\ r.image = "unset")}

\* the version the command reads: the first of the two candidate files that can be read wins; an
\* empty file counts as "no version"; (an unreadable first file falls through to the second)
Version(r) == CASE r.scrtm \in {"sibling", "both"} -> 7 [] r.scrtm = "suffix" -> 9 [] OTHER -> 0
HasVersion(r) == r.scrtm \in {"sibling", "suffix", "both"}

Validate(r) ==
  IF r.uefi = "empty" THEN "err:no-uefi"
  ELSE IF r.uefi = "noext" THEN "err:suffix"
  ELSE IF r.scrtm = "garbage" THEN "err:scrtm"
  ELSE IF r.addSnp /\ r.family = "bad" THEN "err:family"
  ELSE IF r.addSnp /\ r.image = "bad" THEN "err:image"
  ELSE IF r.commit \notin {0, 20} THEN "err:commit"
  ELSE "ok"

Initialise(r) ==
  IF ~r.exists THEN "err:image-unreadable"
  ELSE IF r.svsm = "missing" THEN "err:svsm-file"
  ELSE IF r.svsm = "nothex" THEN "err:svsm-hex"
  ELSE IF r.svsm = "hex47" THEN "err:svsm-size"
  ELSE "ok"

Decide(r) ==
  LET v == Validate(r) IN
  IF v # "ok" THEN [stage |-> "validate", res |-> v, snp |-> FALSE, tdx |-> FALSE, svn |-> 0, svsm |-> FALSE, imageRead |-> FALSE, nshapes |-> 0]
  ELSE LET i == Initialise(r) IN
       [stage |-> IF i = "ok" THEN "run" ELSE "init", res |-> i,
        snp |-> r.addSnp, tdx |-> r.addTdx,
        svn |-> IF HasVersion(r) /\ (r.addSnp \/ r.addTdx) THEN Version(r) ELSE 0,
        svsm |-> (i = "ok" /\ r.svsm \in {"hex48", "hex48_ws"}),
        imageRead |-> r.exists,
        \* a comma list names several shapes, as does repeating the flag; without --add_tdx the list is dropped
        nshapes |-> IF r.addTdx THEN ShapeCount(r.shapes) ELSE 0]

Init == row \in Rows /\ out = [stage |-> "pending"]
Step == out.stage = "pending" /\ out' = Decide(row) /\ UNCHANGED row
Spec == Init /\ [][Step]_vars

\* requested technologies, and only those, reach the request
OnlyRequested == out.stage = "run" => (out.snp <=> row.addSnp) /\ (out.tdx <=> row.addTdx)
\* nothing is read from disk (image, SVSM files) when a flag is refused
RefusedBeforeReading == out.stage = "validate" => ~out.imageRead /\ ~out.svsm
\* the version comes from the file next to the image, never from anywhere else
SvnFromFile == out.stage = "run" /\ out.svn # 0 => HasVersion(row) /\ out.svn = Version(row)
\* every shape named on the command line, however spelled, is one machine shape of the request
ShapesAllNamed == out.stage = "run" /\ row.addTdx => out.nshapes = ShapeCount(row.shapes)
Emit == out.stage # "pending" => PrintT(<<"VCASE", ToJson([row |-> row, out |-> out])>>)
=============================================================================
