CONSTANTS
  M = 16
  Design = "legacy"
  Which = "sevmeta"
SPECIFICATION Spec
INVARIANTS Total MemSafe AllocBounded Terminates
CHECK_DEADLOCK FALSE
