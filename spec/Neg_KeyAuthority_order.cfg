CONSTANTS
  MaxVer = 2
  MaxSerial = 5
  MaxCmds = 3
  MaxAborts = 1
  MaxIssued = 0
  Rebootstrap = FALSE
  Wipeouts = FALSE
  Collide = FALSE
  Times = {1, 2}
  KeepGoing = {FALSE}
  Design = "legacy_order"
SPECIFICATION Spec
VIEW view
INVARIANTS C10_PrimaryUsable
CHECK_DEADLOCK FALSE
