CONSTANTS
  Images = {"i1","i2","i3","i4"}
  Names = {"a","b","q/a","endorsement"}
  Design = "code"
SPECIFICATION Spec
VIEW view
ACTION_CONSTRAINT EmitEdge
CHECK_DEADLOCK FALSE
