CONSTANTS
  MaxRetries = 1
  MaxOthers = 1
  Design = "repaired"
SPECIFICATION Spec
VIEW view
INVARIANTS C14_AttemptBound C14_ManifestReadInAttempt C14_Released C14_Honest C14_NoLostUpdate C14_MineCommitted C13_NoClobber C15_DryRunNoEffects C15_MeasOnlyNoEffects C15_NoPanic C15_HeadUntouched
PROPERTIES C14_RetryOnlyRetriable C14_FreshWorkspace C14_ResultAfterCommit C14_Terminates
CHECK_DEADLOCK FALSE
