----------------------------- MODULE SystemCore -----------------------------
(***************************************************************************)
(* The whole pipeline in one model: the signing authority (bootstrap,      *)
(* rotate), the endorse run that measures an image and signs the golden    *)
(* document with the primary key, publication of the endorsement under the *)
(* object name of every measurement it lists, an UNTRUSTED bucket between  *)
(* signer and relying party, and the relying party's SEV-SNP validation    *)
(* that downloads the object named by the report's measurement.            *)
(*                                                                         *)
(* Each module of this directory models one of these stages in detail;     *)
(* this one keeps only what the stages hand to each other, so that the     *)
(* end-to-end statement can be written down and checked:                   *)
(*                                                                         *)
(*   a report is accepted only if its measurement is one the authority     *)
(*   the relying party trusts has endorsed (for the named VMSA count when  *)
(*   one is named), by a key whose certificate is valid at the relying     *)
(*   party's verification time -- whatever the bucket serves.              *)
(*                                                                         *)
(* The bucket is adversarial: objects can be served under another name     *)
(* (Swap), replaced by a document re-signed with a key of the adversary's  *)
(* own (Forge), have a payload byte changed (Corrupt) or vanish (Drop).    *)
(* Cryptography is symbolic (who signed, over which document, certified by *)
(* which root).  Time is a logical clock; certificates live for Life ticks.*)
(*                                                                         *)
(* It is not anchored in one listed property: it composes C01 (authentic), *)
(* C02 (listed for the named configuration), C03 (what the signer produces *)
(* verifies, also after rotations), C06 (the document describes the image) *)
(* and C16 (object names are a function of the measurement).  Conformance: *)
(* TLC-generated histories are replayed on the real commands, the real     *)
(* endorse pipeline and gcetcbendorsement.SevValidate ("./check X-SYSTEM").*)
(***************************************************************************)
EXTENDS Integers, Sequences, FiniteSets, TLC

CONSTANTS Images, Cfgs, MaxT, Life, MaxCmds, Design
  \* Design: "sound" | "no_listing" (the validator only checks authenticity: negative control)
  \*                 | "no_time"    (the certificate's validity is not checked: negative control)

VARIABLES now, prim, nkeys, certs, bucket, endorsed, ncmds, hist, last
vars == <<now, prim, nkeys, certs, bucket, endorsed, ncmds, hist, last>>
view == <<now, prim, nkeys, certs, bucket, endorsed, ncmds, last>>

Meas == [img : Images, cfg : Cfgs]                  \* a launch measurement: a function of image and configuration
MName(m) == m.img \o "/" \o ToString(m.cfg)
NoCert == [key |-> 0, nb |-> 0, issuer |-> "none"]
NoObj == [doc |-> "none", signer |-> 0, cert |-> NoCert, sig |-> "none"]
Keys == 1 .. MaxCmds
Listed(img) == {[img |-> img, cfg |-> c] : c \in Cfgs}

Init ==
  /\ now = 1
  /\ prim = 0 /\ nkeys = 0
  /\ certs = [k \in Keys |-> NoCert]
  /\ bucket = [m \in Meas |-> NoObj]
  /\ endorsed = {}
  /\ ncmds = 0 /\ hist = <<>> /\ last = [op |-> "none"]

Cmd(e) == ncmds < MaxCmds /\ ncmds' = ncmds + 1 /\ hist' = Append(hist, e)

Tick == now < MaxT /\ now' = now + 1 /\ Cmd([op |-> "tick"]) /\ UNCHANGED <<prim, nkeys, certs, bucket, endorsed, last>>

\* the authority: one bootstrap, then rotations; the previous key is destroyed by the rotation
Bootstrap ==
  /\ prim = 0 /\ nkeys = 0
  /\ nkeys' = 1 /\ prim' = 1
  /\ certs' = [certs EXCEPT ![1] = [key |-> 1, nb |-> now, issuer |-> "root"]]
  /\ Cmd([op |-> "bootstrap", t |-> now])
  /\ UNCHANGED <<now, bucket, endorsed, last>>

Rotate ==
  /\ prim # 0 /\ nkeys < MaxCmds
  /\ nkeys' = nkeys + 1 /\ prim' = nkeys + 1
  /\ certs' = [certs EXCEPT ![nkeys + 1] = [key |-> nkeys + 1, nb |-> now, issuer |-> "root"]]
  /\ Cmd([op |-> "rotate", t |-> now])
  /\ UNCHANGED <<now, bucket, endorsed, last>>

\* the endorse run: measures the image for every configuration, signs with the primary key and its
\* certificate, and the release step publishes the document under each listed measurement's name
Endorse(img) ==
  /\ prim # 0
  /\ LET obj == [doc |-> img, signer |-> prim, cert |-> certs[prim], sig |-> "valid"] IN
       /\ bucket' = [m \in Meas |-> IF m \in Listed(img) THEN obj ELSE bucket[m]]
       /\ endorsed' = endorsed \cup {[m |-> m, cert |-> certs[prim]] : m \in Listed(img)}
  /\ Cmd([op |-> "endorse", img |-> img, t |-> now])
  /\ UNCHANGED <<now, prim, nkeys, certs, last>>

\* the bucket is not trusted
Swap(a, b) ==
  /\ a # b /\ bucket[b] # NoObj
  /\ bucket' = [bucket EXCEPT ![a] = bucket[b]]
  /\ Cmd([op |-> "swap", to |-> MName(a), from |-> MName(b)])
  /\ UNCHANGED <<now, prim, nkeys, certs, endorsed, last>>
Forge(a) ==   \* a document listing a's measurement, signed by the adversary's key under the adversary's own root
  /\ bucket' = [bucket EXCEPT ![a] = [doc |-> a.img, signer |-> -1, cert |-> [key |-> -1, nb |-> 1, issuer |-> "evil"], sig |-> "valid"]]
  /\ Cmd([op |-> "forge", at |-> MName(a)])
  /\ UNCHANGED <<now, prim, nkeys, certs, endorsed, last>>
Corrupt(a) == \* the document of another image under the genuine signature of the stored one
  /\ bucket[a] # NoObj /\ bucket[a].sig = "valid" /\ bucket[a].signer > 0
  /\ \E other \in Images \ {bucket[a].doc} :
       bucket' = [bucket EXCEPT ![a] = [@ EXCEPT !.doc = other, !.sig = "over_other"]]
  /\ Cmd([op |-> "corrupt", at |-> MName(a)])
  /\ UNCHANGED <<now, prim, nkeys, certs, endorsed, last>>
Drop(a) ==
  /\ bucket[a] # NoObj
  /\ bucket' = [bucket EXCEPT ![a] = NoObj]
  /\ Cmd([op |-> "drop", at |-> MName(a)])
  /\ UNCHANGED <<now, prim, nkeys, certs, endorsed, last>>

\* the relying party: a report with measurement m, optionally a named configuration, trusted roots
InTime(c, t) == c.nb <= t /\ t <= c.nb + Life
Accepts(m, req, roots) ==
  LET o == bucket[m] IN
  /\ o # NoObj
  /\ o.sig = "valid"                                                   \* signature over the carried document, by the certified key
  /\ o.cert.issuer = (IF roots = "genuine" THEN "root" ELSE "other")   \* chains to the caller's roots
  /\ (Design = "no_time" \/ InTime(o.cert, now))                       \* certificate valid at the caller's time
  /\ (Design = "no_listing" \/
        /\ m \in Listed(o.doc)                                         \* the document lists the report's measurement
        /\ (req = 0 \/ m.cfg = req))                                   \* ... for the named configuration

Validate(m, req, roots) ==
  /\ last' = [op |-> "validate", m |-> MName(m), req |-> req, roots |-> roots, t |-> now,
              res |-> IF Accepts(m, req, roots) THEN "accept" ELSE "reject"]
  /\ Cmd(last')
  /\ UNCHANGED <<now, prim, nkeys, certs, bucket, endorsed>>

Next ==
  \/ Tick \/ Bootstrap \/ Rotate
  \/ \E img \in Images : Endorse(img)
  \/ \E a, b \in Meas : Swap(a, b)
  \/ \E a \in Meas : Forge(a) \/ Corrupt(a) \/ Drop(a)
  \/ \E m \in Meas, req \in {0} \cup Cfgs, roots \in {"genuine", "foreign"} : Validate(m, req, roots)
Spec == Init /\ [][Next]_vars

\* ---- the end-to-end statement ----
Sys_AcceptedWasEndorsed ==
  (last.op = "validate" /\ last.res = "accept") =>
    \E e \in endorsed :
      /\ MName(e.m) = last.m
      /\ e.cert.issuer = "root" /\ last.roots = "genuine"
      /\ InTime(e.cert, last.t)
      /\ (last.req = 0 \/ e.m.cfg = last.req)
\* completeness (drift oracle): an untampered object of the current authority validates in time
Sys_GenuineValidates ==
  \A m \in Meas :
    (bucket[m] # NoObj /\ bucket[m].sig = "valid" /\ bucket[m].signer > 0 /\ m \in Listed(bucket[m].doc) /\ InTime(bucket[m].cert, now))
      => Accepts(m, 0, "genuine") /\ Accepts(m, m.cfg, "genuine")
\* a rotation never invalidates what was issued before it (C03's "also after rotations")
Sys_RotationKeepsOldEndorsements ==
  [][(\E k \in Keys : prim' = k /\ prim # 0 /\ prim' # prim) =>
       \A m \in Meas : \A req \in {0} \cup Cfgs : Accepts(m, req, "genuine") = (Accepts(m, req, "genuine"))']_vars

=============================================================================
