------------------------------ MODULE Discovery ------------------------------
(***************************************************************************)
(* C16: extract.Endorsement's source precedence and network confinement,   *)
(* and the confinement of UEFI-variable locators to the efivarfs root.     *)
(* mode "sources": one row = which evidence sources are present / absent / *)
(* failing and whether a fetch is forced; Decide transcribes               *)
(* extract.Endorsement / fromEventLog / fromQuote step by step and records *)
(* the result and the URLs requested.                                      *)
(* mode "path": a variable name is a sequence of path components (plain    *)
(* names, "..", symbolic links pointing out of / back into the root,       *)
(* absolute prefix); Resolve follows secure-join semantics over a small    *)
(* directory tree; the invariant is that the file opened lies inside the   *)
(* root.                                                                   *)
(* Design "repaired": the object name is derived from every full-length    *)
(* measurement (also when a local blob was found) and no request is made   *)
(* without one; "legacy" leaves it empty and requests the bucket root.     *)
(***************************************************************************)
EXTENDS Integers, Sequences, FiniteSets, TLC, Json

CONSTANTS Design, MaxName

VARIABLES row, out, reqs
vars == <<row, out, reqs>>

\* ---------------- sources ----------------
EvLogs == {"none", "unreadable", "nomatch", "raw", "raw_uri", "var_ok", "var_missing", "var_missing_uri", "var_ok_uri", "local_kind", "uri",
           \* logs with two kinds of local locator (the variable event first): raw data takes precedence
           "var_ok_then_raw", "var_missing_then_raw"}
\* "snp_bare_*": the go-sev-guest Attestation message itself instead of one wrapped in a go-tpm-tools
\* Attestation: another serialisation of the same evidence, with the same outcome
SnpExtra == {"snp_extra", "snp_bare_extra"}
SnpNoExtra == {"snp_noextra", "snp_bare_noextra"}
\* the bare certificate table as text: hexadecimal, or base64 on one line, with a final newline, wrapped at
\* 76 columns (base64(1)) or at 64 with CR LF (openssl, MIME) -- other spellings of the same evidence
\* "_padded": followed by zero bytes up to a whole 4096-byte page, as the kernel interfaces deliver it
CertTableExtra == {"certtable_extra", "certtable_extra_hex", "certtable_extra_b64", "certtable_extra_b64nl", "certtable_extra_b64wrap", "certtable_extra_b64crlf", "certtable_extra_padded"}
Quotes == CertTableExtra \cup {"none", "unparseable", "snp_extra", "snp_noextra", "snp_bare_extra", "snp_bare_noextra", "report_only", "tdx", "certtable_noextra",
           "snp_short_meas", "tdx_short_mrtd"}      \* a report / quote whose measurement is not 48 bytes long
Providers == {"none", "snp_extra", "snp_noextra", "failing"}
Getters == {"none", "ok", "failing"}
SrcRows == [mode : {"sources"}, evlog : EvLogs, quote : Quotes, provider : Providers, getter : Getters, force : BOOLEAN]

\* the event log's local locators (raw, then UEFI variable): outcome
EvLocal(r) ==
  CASE r.evlog \in {"raw", "raw_uri", "var_ok_then_raw", "var_missing_then_raw"} -> "evlog_raw"
    [] r.evlog \in {"var_ok", "var_ok_uri"} -> "evlog_var"
    [] OTHER -> "err"       \* unreadable, no matching manufacturer, variable missing, unsupported kind, URI only
HasUri(r) == r.evlog \in {"uri", "raw_uri", "var_ok_uri", "var_missing_uri"}
\* legacy: the first matching locator in the order raw > variable > local > URI decides, and a URI
\* locator is fetched at once (before the attestation's own evidence is looked at)
FromEventLogLegacy(r) ==
  IF EvLocal(r) # "err" THEN <<EvLocal(r), <<>>>>
  ELSE IF r.evlog = "uri" THEN
         IF r.getter = "none" THEN <<"err", <<>>>>
         ELSE IF r.getter = "ok" THEN <<"net_body", <<"uri_from_log">>>>
         ELSE <<"err", <<"uri_from_log">>>>
  ELSE <<"err", <<>>>>

\* result of fromQuote: <<blob, object-name kind, error?>>
FromQuote(q) ==
  CASE q \in {"none", "unparseable"} -> <<"", "", TRUE>>
    [] q \in SnpExtra -> <<"quote_extra", IF Design = "legacy" THEN "" ELSE "fullq", FALSE>>
    [] q \in SnpNoExtra \cup {"report_only", "tdx"} -> <<"", "fullq", FALSE>>
    [] q \in CertTableExtra -> <<"quote_extra", "", FALSE>>     \* no measurement in a bare certificate table
    [] q = "certtable_noextra" -> <<"", IF Design = "legacy" THEN "short" ELSE "", FALSE>>
    [] q \in {"snp_short_meas", "tdx_short_mrtd"} -> <<"", IF Design = "legacy" THEN "short" ELSE "", FALSE>>
FromProvider(p) ==
  CASE p = "snp_extra" -> <<"provider_extra", IF Design = "legacy" THEN "" ELSE "fullp", FALSE>>
    [] p = "snp_noextra" -> <<"", "fullp", FALSE>>
    [] OTHER -> <<"", "", TRUE>>

\* the network stage: (repaired) the event log's URI locator first, then the bucket object
Fetch(r, obj, soFar) ==
  LET tryUri == Design # "legacy" /\ ~r.force /\ HasUri(r) /\ r.getter # "none"
      afterUri == IF tryUri THEN Append(soFar, "uri_from_log") ELSE soFar
  IN IF tryUri /\ r.getter = "ok" THEN <<"net_body", afterUri>>
     ELSE IF r.getter = "none" THEN <<"err", afterUri>>
     ELSE IF obj = "" /\ Design # "legacy" THEN <<"err", afterUri>>          \* nothing to ask for
     ELSE LET url == IF obj = "fullq" THEN "obj_full_quote" ELSE IF obj = "fullp" THEN "obj_full_provider"
                     ELSE IF obj = "short" THEN "obj_short" ELSE "bucket_root" IN
          IF r.getter = "ok" THEN <<"net_body", Append(afterUri, url)>> ELSE <<"err", Append(afterUri, url)>>

Extract(r) ==
  LET ev == IF r.evlog # "none" /\ ~r.force
              THEN (IF Design = "legacy" THEN FromEventLogLegacy(r) ELSE <<EvLocal(r), <<>>>>)
              ELSE <<"skip", <<>>>>
  IN IF ev[1] \notin {"err", "skip"} THEN ev
     ELSE
     LET q == FromQuote(r.quote)
         reqs0 == ev[2]
     IN IF ~q[3] /\ q[1] # "" /\ ~r.force THEN <<q[1], reqs0>>
        ELSE IF r.provider # "none" /\ q[2] = ""
          THEN IF r.provider = "failing" THEN <<"err", reqs0>>
               ELSE LET p == FromProvider(r.provider)
                    IN IF p[1] # "" /\ ~r.force THEN <<p[1], reqs0>>
                       ELSE Fetch(r, p[2], reqs0)
          ELSE Fetch(r, q[2], reqs0)

\* what "local evidence" is available, in precedence order
Local(r) ==
  IF r.evlog \in {"raw", "raw_uri", "var_ok_then_raw", "var_missing_then_raw"} THEN "evlog_raw"
  ELSE IF r.evlog \in {"var_ok", "var_ok_uri"} THEN "evlog_var"
  ELSE IF r.quote \in SnpExtra \cup CertTableExtra THEN "quote_extra"
  ELSE "none"

\* ---------------- path confinement ----------------
Comps == {"plain", "dotdot", "slash", "link_out", "link_in", "missing"}
PathRows == [mode : {"path"}, name : UNION {[1 .. k -> Comps] : k \in 1 .. MaxName}]
\* Directory tree: depth counts levels below the root ("in0" = root, "in1" = root/sub); "out" would be
\* outside.  Secure join: ".." at the root stays at the root, absolute targets are re-rooted, a link
\* that points outside the root is followed inside the root instead.
StepDir(d, c) ==
  CASE c = "plain" -> IF d = "in0" THEN "in1" ELSE "noent"
    [] c = "dotdot" -> IF d = "in1" THEN "in0" ELSE d
    [] c = "slash" -> d
    [] c = "link_out" -> IF d = "in0" THEN "in0" ELSE "noent"     \* /outside re-rooted: root/outside does not exist -> stays confined
    [] c = "link_in" -> IF d = "in0" THEN "in1" ELSE "noent"
    [] c = "missing" -> "noent"
RECURSIVE Walk(_, _)
Walk(d, s) == IF s = <<>> \/ d = "noent" THEN d ELSE Walk(StepDir(d, Head(s)), Tail(s))

\* ---------------- the SNP validator's own fetch (verify.SNPFamilyValidateFunc) ----------------
ValRows == [mode : {"validator"}, supplied : {"opts", "blob", "both", "none"}, getter : Getters, meas : {"full", "short"}]
Validate(r) ==
  IF r.meas = "short" THEN <<"err", <<>>>>                                   \* size check comes first
  ELSE IF r.supplied # "none" THEN <<"ok", <<>>>>
  ELSE IF r.getter = "none" THEN <<"err", <<>>>>
  ELSE IF r.getter = "ok" THEN <<"ok", <<"obj_full_quote">>>>
  ELSE <<"err", <<"obj_full_quote">>>>

Init == row \in SrcRows \cup PathRows \cup ValRows /\ out = "pending" /\ reqs = <<>>
Decide ==
  /\ out = "pending"
  /\ IF row.mode = "sources"
       THEN LET e == Extract(row) IN out' = e[1] /\ reqs' = e[2]
       ELSE IF row.mode = "validator"
       THEN LET v == Validate(row) IN out' = v[1] /\ reqs' = v[2]
       ELSE out' = Walk("in0", row.name) /\ reqs' = <<>>
  /\ UNCHANGED row
Spec == Init /\ [][Decide]_vars

C16_LocalFirst ==
  out # "pending" /\ row.mode = "sources" /\ ~row.force /\ Local(row) \in {"evlog_raw", "evlog_var", "quote_extra"} =>
     out = Local(row) /\ reqs = <<>>
C16_FetchOnlyForMeasurement ==
  row.mode = "sources" => \A i \in 1 .. Len(reqs) : reqs[i] \in {"obj_full_quote", "obj_full_provider", "uri_from_log"}
\* the object asked for, and the evidence returned, are those of the supplied attestation whenever it
\* carries a full-length measurement: the local machine's own quote is only consulted otherwise
HasFullMeasurement(q) == q \in SnpExtra \cup SnpNoExtra \cup {"report_only", "tdx"}
C16_SuppliedDecides ==
  out # "pending" /\ row.mode = "sources" /\ HasFullMeasurement(row.quote) =>
     out # "provider_extra" /\ \A i \in 1 .. Len(reqs) : reqs[i] # "obj_full_provider"
\* a validator that has been given the endorsement (by the caller or from the certificate table) does not
\* touch the network
C16_ValidatorOffline == row.mode = "validator" /\ row.supplied # "none" => reqs = <<>>
C16_ForcedIsNetwork ==
  out # "pending" /\ row.mode = "sources" /\ row.force => out \in {"net_body", "err"}
C16_PathConfined == row.mode = "path" => out # "out"

Emit == out # "pending" => PrintT(<<"VCASE", ToJson([row |-> row, out |-> out, reqs |-> reqs])>>)
=============================================================================
