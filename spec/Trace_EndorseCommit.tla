------------------------ MODULE Trace_EndorseCommit ------------------------
(***************************************************************************)
(* Trace validation for EndorseCommit: trace.ndjson holds many recorded    *)
(* executions of the real endorse.VirtualFirmware (events logged by the    *)
(* recording doubles), each introduced by a "Cfg" line.  Every event must  *)
(* be explained by one step of EndorseCommit!Next whose `ev` equals the    *)
(* logged record, and all C13/C14/C15 invariants are evaluated after every *)
(* step.  l is the next line to consume; register 1 keeps the high-water   *)
(* mark of l so that a rejected trace can be located.                      *)
(***************************************************************************)
EXTENDS EndorseCommit

VARIABLE l

Trace == ndJsonDeserialize("trace.ndjson")

CfgOf(r) == [retries |-> r.retries, dryRun |-> r.dryRun, measOnly |-> r.measOnly,
             snapshot |-> r.snapshot, exists0 |-> r.exists0, overwrite |-> r.overwrite]

TraceInit ==
  /\ Trace[1].op = "Cfg"
  /\ InitWith(CfgOf(Trace[1]))
  /\ l = 2

\* a new recorded execution starts: only after the previous one returned
TraceReset ==
  /\ l <= Len(Trace) /\ Trace[l].op = "Cfg"
  /\ pc = "done"
  /\ LET c == CfgOf(Trace[l]) IN
     /\ cfg' = c
     /\ pc' = IF c.measOnly THEN "print" ELSE "caprimary"
     /\ attempt' = 0 /\ tries' = 0
     /\ head' = [man |-> IF c.exists0 THEN {"old"} ELSE {},
                 endo |-> IF c.exists0 THEN "old" ELSE "none", snap |-> FALSE]
     /\ ws' = NoWs /\ created' = {} /\ destroyed' = {}
     /\ lastErr' = "none" /\ ret' = "none" /\ nResults' = 0 /\ nCommits' = 0
     /\ others' = {} /\ cached' = {} /\ effects' = {}
     /\ ev' = Ev("Init", 0, "ok") /\ hist' = <<>>
  /\ l' = l + 1

TraceEvent ==
  /\ l <= Len(Trace) /\ Trace[l].op # "Cfg"
  /\ Next
  /\ ev' = [op |-> Trace[l].op, ws |-> Trace[l].ws, out |-> Trace[l].out]
  /\ l' = l + 1

TraceNext == TraceReset \/ TraceEvent
TraceSpec == TraceInit /\ [][TraceNext]_<<vars, l>>

HighWater == TLCSet(1, IF TLCGet(1) > l THEN TLCGet(1) ELSE l)
TraceAccepted ==
  IF TLCGet(1) = Len(Trace) + 1 THEN TRUE
  ELSE PrintT(<<"VTRACE-REJECT", TLCGet(1)>>) /\ FALSE
ASSUME TLCSet(1, 0)
=============================================================================
