CONSTANTS
  MaxRetries = 8
  MaxOthers = 3
  Design = "repaired"
INIT TraceInit
NEXT TraceNext
CONSTRAINT HighWater
INVARIANTS C14_AttemptBound C14_ManifestReadInAttempt C14_Released C14_Honest C14_NoLostUpdate C14_MineCommitted C13_NoClobber C15_DryRunNoEffects C15_MeasOnlyNoEffects C15_NoPanic C15_HeadUntouched
POSTCONDITION TraceAccepted
CHECK_DEADLOCK FALSE
