CONSTANTS Design = "repaired"
SPECIFICATION Spec
INVARIANTS C02_Listed C02_ForNamedConfig C02_DigestMatches C02_UnlistedConfigRejected Emit
CHECK_DEADLOCK FALSE
