CONSTANTS
  Design = "legacy"
  MaxName = 1
SPECIFICATION Spec
INVARIANTS C16_FetchOnlyForMeasurement
CHECK_DEADLOCK FALSE
