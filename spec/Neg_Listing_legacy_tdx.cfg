CONSTANTS Design = "legacy_tdx"
SPECIFICATION Spec
INVARIANTS C02_Listed C02_ForNamedConfig C02_UnlistedConfigRejected
CHECK_DEADLOCK FALSE
