CONSTANTS
  MaxVer = 4
  MaxSerial = 9
  MaxCmds = 12
  MaxAborts = 12
  MaxIssued = 6
  Rebootstrap = FALSE
  Wipeouts = FALSE
  Collide = FALSE
  Times = {1}
  KeepGoing = {FALSE}
  Design = "atomic"
INIT TraceInit
NEXT TraceNext
CONSTRAINT HighWater
INVARIANTS C10_PrimaryUsable C11_StoreConsistent C12_IssuedShape C12_StoredShape C03_AllIssuedVerify
POSTCONDITION TraceAccepted
CHECK_DEADLOCK FALSE
