CONSTANTS
  Images = {"i1","i2","i3","i4"}
  Names = {"a","b","q/a","endorsement"}
  Design = "code"
SPECIFICATION Spec
VIEW view
INVARIANTS C13_UniquePaths C13_UniqueDigests C13_EntriesResolve C13_LatestMapsToItsFile
PROPERTIES C13_NoClobber C13_FilesOnlyGrow
CHECK_DEADLOCK FALSE
