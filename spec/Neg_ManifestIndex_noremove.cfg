CONSTANTS
  Images = {"i1","i2","i3"}
  Names = {"a","b","endorsement"}
  Design = "no_remove_digest"
SPECIFICATION Spec
VIEW view
INVARIANTS C13_UniqueDigests
CHECK_DEADLOCK FALSE
