------------------------- MODULE SnpValidatorProof -------------------------
(***************************************************************************)
(* TLAPS proof that the per-call design of the validator is re-entrant for *)
(* ANY number of concurrent calls and any set of firmware families: the    *)
(* bounded TLC runs (N = 2, 3, 4) explore every interleaving for those N;  *)
(* this inductive argument removes the bound.                              *)
(***************************************************************************)
EXTENDS SnpValidatorCore, TLAPS

ASSUME NPos == N \in Nat \ {0}
ASSUME DesignPerCall == Design = "percall"

Inv ==
  /\ att \in [Procs -> Atts]
  /\ vfam \in [Procs -> Fams]
  /\ pc \in [Procs -> {"start", "captured", "done"}]
  /\ local \in [Procs -> Atts \cup {"none"}]
  /\ res \in [Procs -> {"none", "accept", "reject"}]
  /\ \A p \in Procs : pc[p] \in {"captured", "done"} => local[p] = att[p]
  /\ \A p \in Procs : pc[p] = "done" => res[p] = AloneVia(att[p], vfam[p])

LEMMA InitInv == Init => Inv
  BY DesignPerCall DEF Init, Inv, Atts

LEMMA NextInv == Inv /\ [Next]_vars => Inv'
<1> SUFFICES ASSUME Inv, [Next]_vars PROVE Inv'
  OBVIOUS
<1>1. ASSUME NEW p \in Procs, Capture(p) PROVE Inv'
  BY <1>1, DesignPerCall DEF Inv, Capture, Atts
<1>2. ASSUME NEW p \in Procs, Finish(p) PROVE Inv'
  BY <1>2, DesignPerCall DEF Inv, Finish, Atts, AloneVia, Alone
<1>3. CASE UNCHANGED vars
  BY <1>3 DEF Inv, vars
<1> QED
  BY <1>1, <1>2, <1>3 DEF Next

THEOREM Reentrant == Spec => []C09_Isolated
<1>1. Inv => C09_Isolated
  BY DEF Inv, C09_Isolated
<1> QED
  BY InitInv, NextInv, <1>1, PTL DEF Spec
=============================================================================
