CONSTANTS
  M = 16
  Design = "legacy"
  Which = "endofields"
SPECIFICATION Spec
INVARIANTS Total MemSafe AllocBounded Terminates
CHECK_DEADLOCK FALSE
