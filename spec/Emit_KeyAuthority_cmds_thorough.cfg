CONSTANTS
  MaxVer = 4
  MaxSerial = 9
  MaxCmds = 4
  MaxAborts = 0
  MaxIssued = 0
  Rebootstrap = TRUE
  Wipeouts = TRUE
  Collide = TRUE
  Times = {1}
  KeepGoing = {FALSE, TRUE}
  Design = "atomic"
SPECIFICATION Spec
INVARIANTS EmitCmds
CHECK_DEADLOCK FALSE
