CONSTANTS
  N = 2
  Design = "famshared"
  Fams = {"gce", "other"}
SPECIFICATION Spec
INVARIANTS C09_Isolated
CHECK_DEADLOCK FALSE
