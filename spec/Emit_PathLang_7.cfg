CONSTANTS
  MaxLen = 7
  Roots = {"Test", "Golden"}
SPECIFICATION Spec
INVARIANTS C19_PathWellTyped C19_EndsInPathOrError Emit
CHECK_DEADLOCK FALSE
