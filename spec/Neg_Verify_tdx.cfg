CONSTANTS Design = "legacy_tdx"
SPECIFICATION Spec
INVARIANTS C01_Authentic
CHECK_DEADLOCK FALSE
