CONSTANTS Design = "legacy_nobase"
SPECIFICATION Spec
INVARIANTS C17_NoBaseMeansEndorsement
CHECK_DEADLOCK FALSE
