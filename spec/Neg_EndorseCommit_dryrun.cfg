CONSTANTS
  MaxRetries = 0
  MaxOthers = 0
  Design = "legacy_dryrun"
INIT Init
NEXT Next
INVARIANTS C15_NoPanic
CHECK_DEADLOCK FALSE
