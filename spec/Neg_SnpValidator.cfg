CONSTANTS
  N = 2
  Design = "shared"
  Fams = {"gce"}
SPECIFICATION Spec
INVARIANTS C09_Isolated
CHECK_DEADLOCK FALSE
