CONSTANTS
  N = 2
  Design = "shared"
SPECIFICATION Spec
INVARIANTS C09_Isolated
CHECK_DEADLOCK FALSE
