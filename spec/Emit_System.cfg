CONSTANTS
  Images = {"i1", "i2"}
  Cfgs = {1, 2}
  MaxT = 4
  Life = 1
  MaxCmds = 9
  Design = "sound"
SPECIFICATION Spec
INVARIANTS Sys_AcceptedWasEndorsed EmitHist
CHECK_DEADLOCK FALSE
