CONSTANTS
  Kinds = {1, 2, 3, 9}
  Addrs = {1, 2, 3, 4}
  Lens = {1}
  MaxSecs = 4
  Vcpus = {1}
  Roms = {1}
  Bases = {"high"}
  Metas = {0}
SPECIFICATION Spec
INVARIANTS C04_OrderRomSectionsVmsas C04_AcceptedHaveMandatory Emit
CHECK_DEADLOCK FALSE
