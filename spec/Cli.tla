-------------------------------- MODULE Cli --------------------------------
(***************************************************************************)
(* The command life cycle of the signer tool (cmd/compose.go, cmd/root.go, *)
(* cmd/endorse.go, bootstrap.go, rotate.go, wipeout.go), one action per    *)
(* step of the code.  A command is the composition of three component      *)
(* slots <<Global, own, extra>> (Global and extra may be nil).  cobra runs *)
(* the flag parser, then the PersistentPreRunE of the *nearest* command    *)
(* that has one (the sub-command's, so the root's own hook -- output       *)
(* option validation -- does not run for sub-commands: modelled as the     *)
(* named deviation RootHookSkipped), which validates the slots in order    *)
(* and stops at the first error; then RunE initialises the slots in order, *)
(* stops at the first error, and only then calls the run function.         *)
(*                                                                         *)
(* This module is not anchored in one of the listed properties; it grows   *)
(* the specification over the tool's front end.  The invariants marked     *)
(* "Obs" are expectations a user could reasonably have that the code does  *)
(* NOT meet; they are kept in Find_* configurations whose counterexamples  *)
(* the harness reproduces on the real commands (reported as observations,  *)
(* never as violations).                                                   *)
(***************************************************************************)
EXTENDS Integers, Sequences, FiniteSets, TLC, Json

CONSTANTS Design,   \* "code" as implemented | "init_first" (negative control: initialise each slot right after validating it)
          Traverse  \* cobra.EnableTraverseRunHooks: FALSE in the signer binary; the library-global is switched to TRUE by
                    \* gcetcbendorsement's MakeRoot, so a process that links both tools runs the root hook as well

VARIABLES inp, pc, i, log, res, wiped
vars == <<inp, pc, i, log, res, wiped>>

Cmds == {"endorse", "bootstrap", "rotate", "wipeout"}
Slots == 1 .. 3
Phases == {"none", "flags", "validate", "init", "run"}
WipeArgs == {"none", "ca", "keys", "other"}

\* An input: the command, which optional slots are nil, where (if anywhere) a hook fails, the
\* wipeout argument, conflicting output options, a repeated --timestamp flag.
Inputs ==
  {r \in [cmd : Cmds, nilGlobal : BOOLEAN, nilExtra : BOOLEAN, failPhase : Phases, failPos : Slots,
          warg : WipeArgs, quietVerbose : BOOLEAN, tsTwice : BOOLEAN] :
     /\ (r.failPhase \in {"none", "flags", "run"} => r.failPos = 1)
     /\ (r.failPhase \in {"validate", "init"} /\ r.failPos = 1 => ~r.nilGlobal)
     /\ (r.failPhase \in {"validate", "init"} /\ r.failPos = 3 => ~r.nilExtra)
     \* the own component (slot 2) can only fail where the real one can: endorse validates its flags and
     \* reads the image, rotate computes the next serial while initialising
     /\ (r.failPhase = "validate" /\ r.failPos = 2 => r.cmd = "endorse")
     /\ (r.failPhase = "init" /\ r.failPos = 2 => r.cmd \in {"endorse", "rotate"})
     \* the key-managing commands need the key context that Global or extra installs
     /\ (r.cmd # "endorse" => ~(r.nilGlobal /\ r.nilExtra))
     /\ (r.cmd # "wipeout" => r.warg = "none")
     /\ (r.failPhase = "run" => r.warg # "other")      \* a wipeout that selects nothing calls nothing that could fail
     /\ (r.tsTwice => r.cmd # "wipeout" /\ r.failPhase = "flags")
     /\ (r.failPhase = "flags" => r.tsTwice)}

\* rotate's own InitContext computes the next serial from the key context, which only an earlier slot
\* (Global) can have installed: without Global it fails there
KeysNeededEarly == inp.cmd = "rotate" /\ inp.nilGlobal
FailsAt(phase, k) == (inp.failPhase = phase /\ inp.failPos = k) \/ (phase = "init" /\ k = 2 /\ KeysNeededEarly)
Present(k) == CASE k = 1 -> ~inp.nilGlobal [] k = 2 -> TRUE [] k = 3 -> ~inp.nilExtra
Ev(what, k) == [ev |-> what, slot |-> k]

Init ==
  /\ inp \in Inputs
  /\ pc = "flags" /\ i = 1 /\ log = <<>> /\ res = "running" /\ wiped = {}

\* cobra parses the flags; a flag value that refuses to be set twice is a usage error
ParseFlags ==
  /\ pc = "flags"
  /\ IF inp.failPhase = "flags" THEN pc' = "done" /\ res' = "flagerr"
     ELSE pc' = (IF Traverse THEN "roothook" ELSE "validate") /\ res' = res
  /\ UNCHANGED <<inp, i, log, wiped>>

\* with hook traversal the root command's hook runs first: output options, then Global (which the
\* sub-command's hook validates a second time)
RootHook ==
  /\ pc = "roothook"
  /\ IF inp.quietVerbose THEN pc' = "done" /\ res' = "err" /\ log' = log
     ELSE IF inp.nilGlobal THEN pc' = "validate" /\ res' = res /\ log' = log
     ELSE /\ log' = Append(log, Ev("validate", 1))
          /\ IF inp.failPhase = "validate" /\ inp.failPos = 1 THEN pc' = "done" /\ res' = "err"
             ELSE pc' = "validate" /\ res' = res
  /\ UNCHANGED <<inp, i, wiped>>

\* deviation: the root command's own PersistentPreRunE (output options: --quiet with --verbose is an
\* error) is shadowed by the sub-command's hook, so conflicting output options are never refused
RootHookSkipped == ~Traverse

Validate ==
  /\ pc = "validate" /\ i <= 3
  /\ IF ~Present(i) THEN log' = log /\ i' = i + 1 /\ UNCHANGED <<pc, res>>
     ELSE /\ log' = Append(log, Ev("validate", i))
          /\ IF inp.failPhase = "validate" /\ inp.failPos = i
               THEN pc' = "done" /\ res' = "err" /\ i' = i
               ELSE IF Design = "init_first" THEN pc' = "init1" /\ res' = res /\ i' = i
               ELSE i' = i + 1 /\ UNCHANGED <<pc, res>>
  /\ UNCHANGED <<inp, wiped>>

\* (negative control only) initialise the slot that was just validated
InitEarly ==
  /\ pc = "init1"
  /\ log' = Append(log, Ev("init", i))
  /\ IF FailsAt("init", i) THEN pc' = "done" /\ res' = "err" /\ i' = i
     ELSE pc' = "validate" /\ i' = i + 1 /\ res' = res
  /\ UNCHANGED <<inp, wiped>>

ValidateDone ==
  /\ pc = "validate" /\ i = 4
  /\ pc' = IF Design = "init_first" THEN "run" ELSE "init"
  /\ i' = 1
  /\ UNCHANGED <<inp, log, res, wiped>>

InitSlot ==
  /\ pc = "init" /\ i <= 3
  /\ IF ~Present(i) THEN log' = log /\ i' = i + 1 /\ UNCHANGED <<pc, res>>
     ELSE /\ log' = Append(log, Ev("init", i))
          /\ IF FailsAt("init", i)
               THEN pc' = "done" /\ res' = "err" /\ i' = i
               ELSE i' = i + 1 /\ UNCHANGED <<pc, res>>
  /\ UNCHANGED <<inp, wiped>>

InitDone ==
  /\ pc = "init" /\ i = 4
  /\ pc' = "run"
  /\ UNCHANGED <<inp, i, log, res, wiped>>

\* wipeout's argument: nothing = both stores; "ca" / "keys" = that store; anything else selects
\* neither store and the command still succeeds (deviation, see Obs_WipeoutWipesOrFails)
WipeSet(a) == CASE a = "none" -> {"ca", "keys"} [] a = "ca" -> {"ca"} [] a = "keys" -> {"keys"} [] OTHER -> {}

Run ==
  /\ pc = "run"
  /\ log' = Append(log, Ev("run", 0))
  /\ wiped' = IF inp.cmd = "wipeout" /\ inp.failPhase # "run" THEN WipeSet(inp.warg) ELSE {}
  /\ res' = IF inp.failPhase = "run" THEN "err" ELSE "ok"
  /\ pc' = "done"
  /\ UNCHANGED <<inp, i>>

Next == ParseFlags \/ RootHook \/ Validate \/ InitEarly \/ ValidateDone \/ InitSlot \/ InitDone \/ Run
Spec == Init /\ [][Next]_vars /\ WF_vars(Next)

(***************************************************************************)
(* Life-cycle properties (hold for the code)                               *)
(***************************************************************************)
Idx(what, k) == {n \in 1 .. Len(log) : log[n] = Ev(what, k)}
Count(what, k) == Cardinality(Idx(what, k))
AtMostOnce == \A k \in 0 .. 3 : \A w \in {"validate", "init", "run"} : Count(w, k) <= IF Traverse /\ w = "validate" /\ k = 1 THEN 2 ELSE 1
\* every flag validation precedes every (potentially expensive, side-effecting) initialisation
ValidateBeforeInit ==
  \A n, m \in 1 .. Len(log) : log[n].ev = "validate" /\ log[m].ev = "init" => n < m
InOrder ==
  \A n, m \in 1 .. Len(log) : n < m /\ log[n].ev = log[m].ev =>
     log[n].slot < log[m].slot \/ (Traverse /\ n = 1 /\ m = 2 /\ log[n] = Ev("validate", 1) /\ log[m] = log[n])
RunOnlyWhenReady ==
  Count("run", 0) = 1 =>
     /\ \A k \in Slots : Present(k) => Count("validate", k) >= 1 /\ Count("init", k) = 1
     /\ inp.failPhase \in {"none", "run"} /\ ~KeysNeededEarly
FailureStops ==
  pc = "done" /\ res \in {"err", "flagerr"} /\ inp.failPhase \in {"flags", "validate", "init"} =>
     /\ Count("run", 0) = 0
     /\ (inp.failPhase = "flags" => log = <<>>)
     /\ (Traverse /\ inp.quietVerbose => log = <<>>)
     /\ (inp.failPhase = "validate" => \A n \in 1 .. Len(log) : log[n].ev = "validate" /\ log[n].slot <= inp.failPos)
     /\ (inp.failPhase = "init" => \A n \in 1 .. Len(log) : log[n].ev = "init" => log[n].slot <= inp.failPos)
ResultHonest ==
  pc = "done" => (res = "ok" <=> inp.failPhase = "none" /\ ~KeysNeededEarly /\ ~(Traverse /\ inp.quietVerbose))
Terminates == <>(pc = "done")

(***************************************************************************)
(* Expectations the code does not meet (Find_* configurations)             *)
(***************************************************************************)
Obs_ConflictingOutputOptionsRefused == pc = "done" /\ inp.quietVerbose => res # "ok"
Obs_WipeoutWipesOrFails == pc = "done" /\ inp.cmd = "wipeout" /\ res = "ok" => wiped # {}

Emit ==
  pc = "done" => PrintT(<<"VCASE", ToJson([inp |-> inp, log |-> log, res |-> res, wiped |-> wiped])>>)
=============================================================================
