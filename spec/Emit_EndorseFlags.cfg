SPECIFICATION Spec
INVARIANTS OnlyRequested RefusedBeforeReading SvnFromFile ShapesAllNamed Emit
CHECK_DEADLOCK FALSE
