SPECIFICATION Spec
INVARIANTS OnlyRequested RefusedBeforeReading SvnFromFile Emit
CHECK_DEADLOCK FALSE
