CONSTANTS
  M = 16
  Design = "legacy"
  Which = "guidtable"
SPECIFICATION Spec
INVARIANTS Total MemSafe AllocBounded Terminates
CHECK_DEADLOCK FALSE
