-------------------------- MODULE SnpValidatorCore --------------------------
(***************************************************************************)
(* C09: one SNP validator function (the closure returned by                *)
(* verify.SNPFamilyValidateFunc) invoked by several callers at once.       *)
(* Each call captures its attestation's measurement and then compares it   *)
(* with the endorsement.  The closure has one observable scheduling point  *)
(* (the verifhook gate right after the capture), so a call is two atomic   *)
(* segments: Capture(p) and Finish(p).  Design "percall" keeps the         *)
(* captured measurement in per-call state; "shared" (the pinned tree       *)
(* before the repair) keeps it in the options value shared by all calls.   *)
(* Validators for several firmware families may be built from one options  *)
(* value (Fams).  The endorsement object exists under the "gce" family     *)
(* only, so a call through another family's validator finds nothing to     *)
(* download.  A validator keeps its family to itself; "famshared"          *)
(* (negative control) keeps it in the options value, where the validator   *)
(* built last decides for all of them.                                     *)
(***************************************************************************)
EXTENDS Integers, Sequences, FiniteSets

CONSTANTS N, Design, Fams   \* number of concurrent calls; "percall" | "shared" | "famshared"; families

VARIABLES att, pc, local, shared, res, sched, vfam, optfam
vars == <<att, pc, local, shared, res, sched, vfam, optfam>>

Procs == 1 .. N
Atts == {"endorsed", "unendorsed"}
Alone(a) == IF a = "endorsed" THEN "accept" ELSE "reject"
\* the isolated result of a call with attestation a through the validator of family f
AloneVia(a, f) == IF f = "gce" THEN Alone(a) ELSE "reject"

Init ==
  /\ att \in [Procs -> Atts]
  /\ pc = [p \in Procs |-> "start"]
  /\ local = [p \in Procs |-> "none"]
  /\ shared = "none"
  /\ res = [p \in Procs |-> "none"]
  /\ sched = <<>>
  /\ vfam \in [Procs -> Fams]          \* the validator each call goes through
  /\ optfam \in Fams                   \* the family of the validator that was built last

Capture(p) ==
  /\ pc[p] = "start"
  /\ IF Design = "shared" THEN shared' = att[p] /\ UNCHANGED local
     ELSE local' = [local EXCEPT ![p] = att[p]] /\ UNCHANGED shared
  /\ pc' = [pc EXCEPT ![p] = "captured"]
  /\ sched' = Append(sched, [seg |-> "A", p |-> p])
  /\ UNCHANGED <<att, res, vfam, optfam>>

Finish(p) ==
  /\ pc[p] = "captured"
  /\ LET m == IF Design = "shared" THEN shared ELSE local[p]
           f == IF Design = "famshared" THEN optfam ELSE vfam[p] IN
       res' = [res EXCEPT ![p] = AloneVia(m, f)]
  /\ pc' = [pc EXCEPT ![p] = "done"]
  /\ sched' = Append(sched, [seg |-> "B", p |-> p])
  /\ UNCHANGED <<att, local, shared, vfam, optfam>>

Next == \E p \in Procs : Capture(p) \/ Finish(p)
Spec == Init /\ [][Next]_vars

C09_Isolated == \A p \in Procs : pc[p] = "done" => res[p] = AloneVia(att[p], vfam[p])

=============================================================================
