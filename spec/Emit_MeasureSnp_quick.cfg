CONSTANTS
  Kinds = {1, 2, 3, 4, 9}
  Addrs = {1, 2, 3}
  Lens = {1, 2}
  MaxSecs = 3
  Vcpus = {1, 2}
  Roms = {1}
  Bases = {"high"}
  Metas = {0}
SPECIFICATION Spec
INVARIANTS C04_OrderRomSectionsVmsas C04_AcceptedHaveMandatory Emit
CHECK_DEADLOCK FALSE
