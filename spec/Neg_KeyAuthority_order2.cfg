CONSTANTS
  MaxVer = 2
  MaxSerial = 5
  MaxCmds = 3
  MaxAborts = 0
  MaxIssued = 0
  Rebootstrap = FALSE
  Wipeouts = FALSE
  Collide = FALSE
  Times = {1, 2}
  KeepGoing = {FALSE}
  Design = "legacy_order"
SPECIFICATION Spec
VIEW view
PROPERTIES C10_DestroyAfterDurable
CHECK_DEADLOCK FALSE
