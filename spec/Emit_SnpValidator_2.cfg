CONSTANTS
  N = 2
  Design = "percall"
  Fams = {"gce"}
SPECIFICATION Spec
INVARIANTS C09_Isolated Emit
CHECK_DEADLOCK FALSE
