CONSTANTS
  M = 16
  Design = "legacy"
  Which = "sized"
SPECIFICATION Spec
INVARIANTS Total MemSafe AllocBounded Terminates
CHECK_DEADLOCK FALSE
