CONSTANTS
  Design = "legacy"
  MaxName = 1
SPECIFICATION Spec
INVARIANTS C16_LocalFirst
CHECK_DEADLOCK FALSE
