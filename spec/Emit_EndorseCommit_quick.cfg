CONSTANTS
  MaxRetries = 1
  MaxOthers = 1
  Design = "repaired"
INIT Init
NEXT Next
INVARIANTS Emit
CHECK_DEADLOCK FALSE
