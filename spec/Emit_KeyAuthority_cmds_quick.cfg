CONSTANTS
  MaxVer = 3
  MaxSerial = 9
  MaxCmds = 3
  MaxAborts = 0
  MaxIssued = 0
  Rebootstrap = TRUE
  Wipeouts = TRUE
  Collide = TRUE
  Times = {1}
  KeepGoing = {FALSE, TRUE}
  Design = "atomic"
SPECIFICATION Spec
INVARIANTS EmitCmds
CHECK_DEADLOCK FALSE
