CONSTANTS
  Traverse = FALSE
  Design = "code"
SPECIFICATION Spec
INVARIANTS Obs_ConflictingOutputOptionsRefused
CHECK_DEADLOCK FALSE
