CONSTANTS
  Images = {"i1", "i2"}
  Cfgs = {1, 2}
  MaxT = 4
  Life = 1
  MaxCmds = 5
  Design = "sound"
SPECIFICATION Spec
INVARIANTS Sys_AcceptedWasEndorsed Sys_GenuineValidates
PROPERTIES Sys_RotationKeepsOldEndorsements
VIEW view
CHECK_DEADLOCK FALSE
