--------------------------- MODULE ManifestIndex ---------------------------
(***************************************************************************)
(* The endorsement manifest as an index over endorse runs (C13).           *)
(* `man` is the committed manifest (sequence of [path, digest]), `files`   *)
(* maps every candidate file name to the firmware digest signed in the     *)
(* endorsement stored under that name ("none" = no such file).  Endorse    *)
(* transcribes defaultGenerateBasename (existence check gated by           *)
(* overwrite) and the merge rules of addEndorsementEntry in                *)
(* endorse/commit.go; Snapshot is the snapshot variant, which leaves the   *)
(* manifest and the endorsement files alone.                               *)
(***************************************************************************)
EXTENDS Integers, Sequences, FiniteSets, TLC, Json

CONSTANTS Images, Names, Design   \* Design: "code" | "no_remove_digest" | "append_path" (negative controls)

VARIABLES man, files, last
vars == <<man, files, last>>
view == <<man, files>>

NoFile == "none"
Entry(p, d) == [path |-> p, digest |-> d]

HasPath(m, p) == \E i \in 1 .. Len(m) : m[i].path = p
HasDigest(m, d) == \E i \in 1 .. Len(m) : m[i].digest = d
RemoveDigest(m, d) == SelectSeq(m, LAMBDA e : e.digest # d)

\* addEndorsementEntry
Merge(m, p, d) ==
  IF ~HasPath(m, p) /\ ~HasDigest(m, d) THEN Append(m, Entry(p, d))
  ELSE IF HasPath(m, p) THEN
         IF Design = "append_path" THEN Append(m, Entry(p, d))
         ELSE
         LET ip == CHOOSE i \in 1 .. Len(m) : m[i].path = p
             sameEntry == m[ip].digest = d
             m2 == IF HasDigest(m, d) /\ ~sameEntry /\ Design # "no_remove_digest"
                     THEN RemoveDigest(m, d) ELSE m
         IN [i \in 1 .. Len(m2) |-> IF m2[i].path = p THEN Entry(p, d) ELSE m2[i]]
       ELSE [i \in 1 .. Len(m) |-> IF m[i].digest = d THEN Entry(p, d) ELSE m[i]]

Init ==
  /\ man = <<>>
  /\ files = [n \in Names |-> NoFile]
  /\ last = [op |-> "init", img |-> "", name |-> "", ow |-> FALSE, kg |-> FALSE, res |-> "ok"]

\* kg: the run was told to keep going past recoverable errors.  An existing file without overwrite
\* permission is not one of those: the run is refused all the same, and the manifest never changes
\* unless the file it names was written by this run.
Endorse(img, name, ow, kg) ==
  IF files[name] # NoFile /\ ~ow
    THEN /\ UNCHANGED <<man, files>>
         /\ last' = [op |-> "endorse", img |-> img, name |-> name, ow |-> ow, kg |-> kg, res |-> "err"]
    ELSE /\ files' = [files EXCEPT ![name] = img]
         /\ man' = Merge(man, name, img)
         /\ last' = [op |-> "endorse", img |-> img, name |-> name, ow |-> ow, kg |-> kg, res |-> "ok"]

Snapshot(img, ow, kg) ==
  /\ UNCHANGED <<man, files>>
  /\ last' = [op |-> "snapshot", img |-> img, name |-> "", ow |-> ow, kg |-> kg, res |-> "ok"]

\* a dry run goes through the motions against a no-op file abstraction: whatever the flags and
\* whatever exists, neither the manifest nor any file changes
DryRun(img, name, ow, kg) ==
  /\ UNCHANGED <<man, files>>
  /\ last' = [op |-> "dryrun", img |-> img, name |-> name, ow |-> ow, kg |-> kg, res |-> "ok"]

Next ==
  \/ \E img \in Images, name \in Names, ow \in BOOLEAN, kg \in BOOLEAN : DryRun(img, name, ow, kg)
  \/ \E img \in Images, name \in Names, ow \in BOOLEAN, kg \in BOOLEAN : Endorse(img, name, ow, kg)
  \/ \E img \in Images, ow \in BOOLEAN, kg \in BOOLEAN : Snapshot(img, ow, kg)

Spec == Init /\ [][Next]_vars

(***************************************************************************)
(* C13                                                                     *)
(***************************************************************************)
C13_UniquePaths == \A i, j \in 1 .. Len(man) : man[i].path = man[j].path => i = j
C13_UniqueDigests == \A i, j \in 1 .. Len(man) : man[i].digest = man[j].digest => i = j
C13_EntriesResolve == \A i \in 1 .. Len(man) : files[man[i].path] = man[i].digest
Lookup(m, d) == IF HasDigest(m, d) THEN m[CHOOSE i \in 1 .. Len(m) : m[i].digest = d].path ELSE "none"
C13_LatestMapsToItsFile ==
  last.op = "endorse" /\ last.res = "ok" => Lookup(man, last.img) = last.name /\ files[last.name] = last.img
C13_NoClobber ==
  [][\A n \in Names : files[n] # NoFile /\ files'[n] # files[n] => last'.ow /\ last'.name = n]_vars
C13_FilesOnlyGrow == [][\A n \in Names : files[n] # NoFile => files'[n] # NoFile]_vars

(***************************************************************************)
(* Emission: one record per transition.                                    *)
(***************************************************************************)
EmitEdge ==
  PrintT(<<"VEDGE", ToJson([man |-> man, files |-> files, act |-> last', man2 |-> man', files2 |-> files'])>>)
=============================================================================
