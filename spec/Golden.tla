------------------------------- MODULE Golden -------------------------------
(***************************************************************************)
(* C06: what endorse.GoldenMeasurement / SignDoc put into the document.    *)
(* LD(count, product) and MRTD(shape, mode) are uninterpreted (the harness *)
(* binds them to sev.LaunchDigest / tdx.MRTD of the same image; their own  *)
(* correctness is C04 / C05).  The document is built entry by entry;       *)
(* any single measurement may fail, and then no document is produced.      *)
(* Design "strict": a failed measurement aborts.  "ignore_ea_error" (the   *)
(* latent path of the pinned tree: the early-accept measurement's error is *)
(* discarded) is the negative control.                                     *)
(***************************************************************************)
EXTENDS Integers, Sequences, FiniteSets, TLC, Json

CONSTANTS Design

VARIABLES req, fails, doc, pc
vars == <<req, fails, doc, pc>>

AllCounts == {1, 2, 4, 8, 16, 24, 32, 48, 64, 80, 96, 112, 128, 224, 240}
Shapes == {"c3-standard-4", "c3-standard-8", "c3-standard-88"}
ShapeLists == {<<>>, <<"c3-standard-4">>, <<"c3-standard-8", "c3-standard-4">>, <<"c3-standard-88">>, <<"c3-standard-4", "c3-standard-4">>}
Ram(s) == IF s = "c3-standard-4" THEN 16 ELSE IF s = "c3-standard-8" THEN 32 ELSE 352

Reqs == [snp : BOOLEAN, tdx : BOOLEAN, vmsas : {0, 1, 2, 240}, product : {"Milan", "Genoa"},
         shapes : ShapeLists, ea : BOOLEAN, svsm : BOOLEAN, prov : {"clspec", "commit"}]

\* which measurement (if any) fails: "none", an SNP count, or a TDX row
Fails == {"none", "snp", "tdx_shape", "tdx_ea", "tdx_default"}

Counts(r) == IF r.vmsas = 0 THEN AllCounts ELSE {r.vmsas}
SnpEntries(r) == {[count |-> c, val |-> <<"LD", c, r.product>>] : c \in Counts(r)}
\* TDX rows in order: per shape the legacy measure-all row (+ early-accept twin), then the default
RECURSIVE ShapeRows(_, _)
ShapeRows(ss, ea) ==
  IF ss = <<>> THEN <<>>
  ELSE LET s == Head(ss)
           base == <<[ram |-> Ram(s), ea |-> FALSE, val |-> <<"MRTD", s, "measure_all">>]>>
           twin == IF ea THEN <<[ram |-> Ram(s), ea |-> TRUE, val |-> <<"MRTD", s, "measure_all_ea">>]>> ELSE <<>>
       IN base \o twin \o ShapeRows(Tail(ss), ea)
TdxRows(r) == ShapeRows(r.shapes, r.ea) \o <<[ram |-> 0, ea |-> FALSE, val |-> <<"MRTD", "", "default">>]>>
Zero == <<"ZERO">>

Init == req \in {r \in Reqs : r.snp \/ r.tdx} /\ fails \in Fails /\ doc = [status |-> "pending"] /\ pc = "build"

Build ==
  /\ pc = "build" /\ pc' = "done"
  /\ LET snpFails == req.snp /\ fails = "snp"
         tdxFails == req.tdx /\ ((fails = "tdx_shape" /\ req.shapes # <<>>) \/ fails = "tdx_default"
                                 \/ (fails = "tdx_ea" /\ req.ea /\ req.shapes # <<>> /\ Design = "strict"))
         rows == IF Design = "ignore_ea_error" /\ fails = "tdx_ea"
                   THEN [i \in DOMAIN TdxRows(req) |-> IF TdxRows(req)[i].ea THEN [TdxRows(req)[i] EXCEPT !.val = Zero] ELSE TdxRows(req)[i]]
                   ELSE TdxRows(req)
     IN doc' = IF snpFails \/ tdxFails THEN [status |-> "error"]
               ELSE [status |-> "ok", digest |-> "SHA384(img)",
                     snp |-> IF req.snp THEN SnpEntries(req) ELSE {},
                     svsm |-> req.snp /\ req.svsm,
                     tdx |-> IF req.tdx THEN rows ELSE <<>>,
                     prov |-> req.prov]
  /\ UNCHANGED <<req, fails>>
Spec == Init /\ [][Build]_vars

C06_ExactlyRequested ==
  doc.status = "ok" =>
    /\ {e.count : e \in doc.snp} = (IF req.snp THEN Counts(req) ELSE {})
    /\ Len(doc.tdx) = (IF req.tdx THEN Len(req.shapes) * (IF req.ea THEN 2 ELSE 1) + 1 ELSE 0)
C06_ValuesOfThisImage ==
  doc.status = "ok" =>
    /\ \A e \in doc.snp : e.val = <<"LD", e.count, req.product>>
    /\ \A i \in DOMAIN doc.tdx : doc.tdx[i].val # Zero /\ doc.tdx[i].val[1] = "MRTD"
C06_NothingFromFailure ==
  doc.status = "ok" => ~(req.snp /\ fails = "snp") /\ ~(req.tdx /\ fails = "tdx_default")
                       /\ ~(req.tdx /\ fails = "tdx_ea" /\ req.ea /\ req.shapes # <<>>)
                       /\ ~(req.tdx /\ fails = "tdx_shape" /\ req.shapes # <<>>)
Emit == pc = "done" /\ fails = "none" => PrintT(<<"VCASE", ToJson([req |-> req, doc |-> doc])>>)
=============================================================================
