------------------------------- MODULE System -------------------------------
(***************************************************************************)
(* The composition model is in SystemCore.tla (so that the proof system    *)
(* can read it: SystemProof.tla proves the end-to-end statement for        *)
(* histories of any length); this module adds the emission of witness      *)
(* histories for the replay ("./check X-SYSTEM").                          *)
(***************************************************************************)
EXTENDS SystemCore, Json

EmitHist == ncmds = MaxCmds => PrintT(<<"VCASE", ToJson([hist |-> hist])>>)
\* one witness history per distinct (state, validation) under VIEW view
EmitOnValidate == (last.op = "validate" /\ Len(hist) > 0 /\ hist[Len(hist)] = last) => PrintT(<<"VCASE", ToJson([hist |-> hist])>>)
=============================================================================
