CONSTANTS
  M = 16
  Design = "guarded"
  Which = "tdxfv"
SPECIFICATION Spec
INVARIANTS Total MemSafe AllocBounded Terminates Emit
CHECK_DEADLOCK FALSE
