-------------------------------- MODULE Abi --------------------------------
(***************************************************************************)
(* C18 (and the layout half of C04 / C05): the binary structures the tools *)
(* read and write, as data.  Every structure is a table of fields          *)
(* [name, offset, width, kind]; kinds: "u" little-endian unsigned integer, *)
(* "bytes" opaque bytes, "guid" EFI GUID (mixed-endian), "mbz" reserved    *)
(* must-be-zero, "struct:<T>" nested structure.  TLC checks the tables     *)
(* (fields ascending, non-overlapping, covering the structure, nested      *)
(* sizes matching) and enumerates, per structure and field, the boundary   *)
(* classes the codec checks run; the harness interprets the emitted tables *)
(* with a generic reference encoder / decoder and compares with the real   *)
(* Put / FromBytes / WriteTo functions.  The variable-size TCG event       *)
(* records are described as grammars of size-prefixed parts.               *)
(***************************************************************************)
EXTENDS Integers, Sequences, FiniteSets, TLC, Json

VARIABLES pick
vars == <<pick>>

F(n, o, w, k) == [name |-> n, off |-> o, width |-> w, kind |-> k]

Seg(n, o) == F(n, o, 16, "struct:VmcbSeg")
U64(n, o) == F(n, o, 8, "u")

Tables == [
  EfiGuid |-> [size |-> 16, fields |-> <<F("data1", 0, 4, "u"), F("data2", 4, 2, "u"), F("data3", 6, 2, "u"), F("data4", 8, 8, "bytes")>>],
  FwGuidEntry |-> [size |-> 18, fields |-> <<F("size", 0, 2, "u"), F("guid", 2, 16, "guid")>>],
  SevMetadataSection |-> [size |-> 12, fields |-> <<F("address", 0, 4, "u"), F("length", 4, 4, "u"), F("kind", 8, 4, "u")>>],
  SevMetadata |-> [size |-> 16, fields |-> <<F("signature", 0, 4, "u"), F("length", 4, 4, "u"), F("version", 8, 4, "u"), F("sections", 12, 4, "u")>>],
  MetadataOffset |-> [size |-> 22, fields |-> <<F("offset", 0, 4, "u"), F("entry", 4, 18, "struct:FwGuidEntry")>>],
  SevEsResetBlock |-> [size |-> 22, fields |-> <<F("addr", 0, 4, "u"), F("size", 4, 2, "u"), F("guid", 6, 16, "guid")>>],
  TdxDescriptor |-> [size |-> 16, fields |-> <<F("signature", 0, 4, "u"), F("length", 4, 4, "u"), F("version", 8, 4, "u"), F("section_count", 12, 4, "u")>>],
  TdxSection |-> [size |-> 32, fields |-> <<F("data_offset", 0, 4, "u"), F("data_size", 4, 4, "u"), F("memory_base", 8, 8, "u"), F("memory_size", 16, 8, "u"),
                                           F("section_type", 24, 4, "u"), F("attributes", 28, 4, "u")>>],
  PageInfo |-> [size |-> 112, fields |-> <<F("digest_cur", 0, 48, "bytes"), F("contents", 48, 48, "bytes"), F("length", 96, 2, "u"), F("page_type", 98, 1, "u"),
                                          F("imi", 99, 1, "u"), F("vmpl_rsvd", 100, 1, "mbz"), F("vmpl1_perms", 101, 1, "u"), F("vmpl2_perms", 102, 1, "u"),
                                          F("vmpl3_perms", 103, 1, "u"), F("gpa", 104, 8, "u")>>],
  VmcbSeg |-> [size |-> 16, fields |-> <<F("selector", 0, 2, "u"), F("attrib", 2, 2, "u"), F("limit", 4, 4, "u"), F("base", 8, 8, "u")>>],
  Vmsa |-> [size |-> 1648, fields |-> <<
      Seg("es", 0), Seg("cs", 16), Seg("ss", 32), Seg("ds", 48), Seg("fs", 64), Seg("gs", 80), Seg("gdtr", 96), Seg("ldtr", 112), Seg("idtr", 128), Seg("tr", 144),
      F("reserved_1", 160, 43, "mbz"), F("cpl", 203, 1, "u"), F("reserved_2", 204, 4, "mbz"), U64("efer", 208), F("reserved_3", 216, 104, "mbz"),
      U64("xss", 320), U64("cr4", 328), U64("cr3", 336), U64("cr0", 344), U64("dr7", 352), U64("dr6", 360), U64("rflags", 368), U64("rip", 376),
      F("reserved_4", 384, 88, "mbz"), U64("rsp", 472), F("reserved_5", 480, 24, "mbz"), U64("rax", 504), U64("star", 512), U64("lstar", 520),
      U64("cstar", 528), U64("sfmask", 536), U64("kernel_gs_base", 544), U64("sysenter_cs", 552), U64("sysenter_esp", 560), U64("sysenter_eip", 568),
      U64("cr2", 576), F("reserved_6", 584, 32, "mbz"), U64("g_pat", 616), U64("dbgctl", 624), U64("br_from", 632), U64("br_to", 640),
      U64("last_excp_from", 648), U64("last_excp_to", 656), F("reserved_7", 664, 80, "mbz"), F("pkru", 744, 4, "u"), F("reserved_7a", 748, 20, "mbz"),
      F("reserved_8", 768, 8, "mbz"), U64("rcx", 776), U64("rdx", 784), U64("rbx", 792), F("reserved_9", 800, 8, "mbz"), U64("rbp", 808), U64("rsi", 816),
      U64("rdi", 824), U64("r8", 832), U64("r9", 840), U64("r10", 848), U64("r11", 856), U64("r12", 864), U64("r13", 872), U64("r14", 880), U64("r15", 888),
      F("reserved_10", 896, 16, "mbz"), U64("sw_exit_code", 912), U64("sw_exit_info_1", 920), U64("sw_exit_info_2", 928), U64("sw_scratch", 936),
      U64("sev_features", 944), F("reserved_11", 952, 48, "mbz"), U64("xcr0", 1000), F("tail", 1008, 640, "mbz")>>],
  HobHeader |-> [size |-> 8, fields |-> <<F("hob_type", 0, 2, "u"), F("hob_length", 2, 2, "u"), F("reserved", 4, 4, "mbz")>>],
  HobHandoff |-> [size |-> 56, fields |-> <<F("header", 0, 8, "struct:HobHeader"), F("version", 8, 4, "u"), F("boot_mode", 12, 4, "u"), U64("memory_top", 16),
                                           U64("memory_bottom", 24), U64("free_memory_top", 32), U64("free_memory_bottom", 40), U64("end_of_hob_list", 48)>>],
  HobResource |-> [size |-> 48, fields |-> <<F("header", 0, 8, "struct:HobHeader"), F("owner", 8, 16, "struct:EfiGuid"), F("resource_type", 24, 4, "u"),
                                            F("resource_attribute", 28, 4, "u"), U64("physical_start", 32), U64("resource_length", 40)>>],
  TdxPageAdd |-> [size |-> 128, fields |-> <<F("name", 0, 12, "bytes"), F("pad", 12, 4, "mbz"), U64("gpa", 16), F("rest", 24, 104, "mbz")>>],
  TdxMrExtend |-> [size |-> 128, fields |-> <<F("name", 0, 9, "bytes"), F("pad", 9, 7, "mbz"), U64("gpa", 16), F("rest", 24, 104, "mbz")>>]
]
Structs == DOMAIN Tables

\* Grammars of the variable-size TCG records: sequence of parts; "u<w>" integer, "digest20" fixed bytes,
\* "sized<w>" bytes prefixed by a w-byte length, "cstr1" NUL-terminated string prefixed by a 1-byte length,
\* "array4:<G>" 4-byte count followed by that many G records, "tagged" 2-byte algorithm id + digest of the
\* algorithm's size, "pad0" trailing zero padding.
Grammars == [
  TcgPcClientPcrEvent |-> <<"u4", "u4", "digest20", "sized4">>,
  TcgPcrEvent2 |-> <<"u4", "u4", "array4:TaggedDigest", "sized4">>,
  TaggedDigest |-> <<"u2", "tagged">>,
  Sp800155Event3 |-> <<"sig16", "u4", "guid", "cstr1", "cstr1", "cstr1", "cstr1", "u4", "cstr1", "u4", "sized4", "u4", "sized4", "pad0">>
]

\* ---- consistency of the tables (checked by TLC when the module is loaded) ----
WellFormed(t) ==
  LET fs == t.fields IN
  /\ Len(fs) >= 1
  /\ fs[1].off = 0
  /\ \A i \in 1 .. Len(fs) - 1 : fs[i].off + fs[i].width = fs[i + 1].off      \* ascending, no gap, no overlap
  /\ fs[Len(fs)].off + fs[Len(fs)].width = t.size                                 \* covers the structure
  /\ \A i \in 1 .. Len(fs) : fs[i].width >= 1
  /\ \A i \in 1 .. Len(fs) : fs[i].kind = "u" => fs[i].width \in {1, 2, 4, 8}
  /\ \A i \in 1 .. Len(fs) : fs[i].kind = "guid" => fs[i].width = 16
NestedOK(t) ==
  \A i \in 1 .. Len(t.fields) :
    LET k == t.fields[i].kind IN
    (Len(k) > 7 /\ SubSeq(k, 1, 7) = "struct:") =>
       LET sub == SubSeq(k, 8, Len(k)) IN sub \in Structs /\ Tables[sub].size = t.fields[i].width
ASSUME \A s \in Structs : WellFormed(Tables[s]) /\ NestedOK(Tables[s])
ASSUME Tables["Vmsa"].size = 1648 /\ Tables["PageInfo"].size = 112

\* ---- boundary classes: one field off-nominal at a time ----
Classes == {"zero", "one", "max", "max_plus_1", "mbz_nonzero", "truncated", "extended"}
Picks == {[s |-> s, f |-> i, c |-> c] : s \in Structs, i \in 1 .. 80, c \in Classes}
ValidPick(p) ==
  /\ p.f <= Len(Tables[p.s].fields)
  /\ LET k == Tables[p.s].fields[p.f].kind IN
     CASE p.c \in {"zero", "one", "max"} -> k = "u"
       [] p.c = "max_plus_1" -> k = "u" /\ Tables[p.s].fields[p.f].width \in {1, 2}    \* Go-side type is wider than the field
       [] p.c = "mbz_nonzero" -> k = "mbz"
       [] p.c \in {"truncated", "extended"} -> p.f = 1
Init == pick \in {p \in Picks : ValidPick(p)}
Next == UNCHANGED pick
Spec == Init /\ [][Next]_vars

\* ---- semantics of the string part "cstr1" on every payload of up to 4 bytes over three byte
\*      classes (NUL, printable, high): accepted iff the last byte is the terminator; the value is
\*      everything before that final terminator, embedded NULs included (so that accepted bytes
\*      re-encode to themselves and every value survives encode/decode) ----
ByteCls == {0, 65, 255}
Payloads == UNION {[1 .. n -> ByteCls] : n \in 0 .. 4}
CStrAccepts(p) == Len(p) >= 1 /\ p[Len(p)] = 0
CStrValue(p) == SubSeq(p, 1, Len(p) - 1)
PartRows == {[part |-> "cstr1", payload |-> p, accept |-> CStrAccepts(p),
              value |-> IF CStrAccepts(p) THEN CStrValue(p) ELSE <<>>] : p \in Payloads}
ASSUME \A r \in PartRows : r.accept => Len(r.value) + 1 = Len(r.payload)
\* ---- "cstrlen": the size prefix is one byte and counts the terminator: a value of n bytes is
\*      encodable iff n + 1 <= 255 (a longer one is refused, never written with a wrapped prefix);
\*      payload = <<n>>, value = <<encoded length>> ----
CStrLenRows == {[part |-> "cstrlen", payload |-> <<n>>, accept |-> (n + 1 <= 255),
                 value |-> IF n + 1 <= 255 THEN <<n + 2>> ELSE <<>>] : n \in {0, 1, 127, 128, 253, 254, 255, 256, 257, 510, 511, 512, 70000}}

\* ---- "tagged": a digest is encoded only when its length is the size of its algorithm (over-long and
\*      short digests are refused, not truncated or padded); payload = <<algorithm id, digest length>> ----
AlgSize == [a \in {4, 11, 12} |-> CASE a = 4 -> 20 [] a = 11 -> 32 [] a = 12 -> 48]
TaggedRows == {[part |-> "tagged", payload |-> <<a, n>>, accept |-> (n = AlgSize[a]), value |-> <<>>] :
                 a \in {4, 11, 12}, n \in {0, 19, 20, 21, 31, 32, 33, 40, 47, 48, 49, 64, 96}}
\* ---- "guidhob": an EFI_HOB_GUID_TYPE with L bytes of data (padded to 8) has a 16-bit total length:
\*      header 24 + padded data must fit, and what is written, the encoded length and the returned
\*      count agree; payload = <<L>>, value = <<total length>> ----
Pad8(n) == ((n + 7) \div 8) * 8
GuidHobRows == {[part |-> "guidhob", payload |-> <<n>>, accept |-> (24 + Pad8(n) <= 65535),
                 value |-> IF 24 + Pad8(n) <= 65535 THEN <<24 + Pad8(n)>> ELSE <<>>] :
                  n \in {0, 1, 8, 4096, 65496, 65503, 65504, 65505, 65511, 65512, 65513, 65520, 70000, 131072}}
ASSUME \A r \in GuidHobRows : r.accept <=> r.payload[1] <= 65504

\* Decoder contracts.  A structure whose bytes arrive as a block of their own (its size is declared by
\* the GUID table, or it is a GUID value) is decoded size-exact: a longer byte string is refused, since
\* its tail would be dropped without notice and the accepted string would not re-encode to itself.
\* The other records are read at an offset of the image (header, then entries): their decoders take
\* the bytes from that offset on and read the structure's own length -- "prefix" decoders, for which
\* the accepted byte string is the structure's prefix of the buffer.
ExactDecoders == {"EfiGuid", "SevEsResetBlock"}
ASSUME ExactDecoders \subseteq DOMAIN Tables
EmitTables == PrintT(<<"VEDGE", ToJson([tables |-> Tables, grammars |-> Grammars, parts |-> PartRows \cup TaggedRows \cup GuidHobRows \cup CStrLenRows,
                                        exact |-> ExactDecoders])>>)
ASSUME EmitTables
Emit == PrintT(<<"VCASE", ToJson([s |-> pick.s, field |-> Tables[pick.s].fields[pick.f].name, cls |-> pick.c])>>)
=============================================================================
