CONSTANTS
  Kinds = {1}
  Addrs = {1}
  Lens = {1}
  MaxSecs = 0
  Vcpus = {1}
  Roms = {1}
  Bases = {"high"}
  Metas = {0}
SPECIFICATION Spec
INVARIANTS Emit
CHECK_DEADLOCK FALSE
