-------------------------- MODULE EndorseCommitProof -------------------------
(***************************************************************************)
(* TLAPS proofs about the commit retry loop for ANY retry budget and any   *)
(* number of concurrent writers (TLC explores budgets -1 .. MaxRetries     *)
(* for small MaxRetries): the number of attempts never exceeds             *)
(* max(1, retries + 1) (C14), a measurement-only run has no effect but     *)
(* printing and a dry run creates no workspace, writes, chmods or commits  *)
(* nothing (C15).                                                          *)
(***************************************************************************)
EXTENDS EndorseCommitCore, TLAPS

ASSUME Params == MaxRetries \in Int /\ MaxOthers \in Nat
ASSUME Repaired == Design = "repaired"

PreLoop == {"print", "caprimary", "cacert", "cabundle", "sign"}
InAttempt == {"readman", "exists", "wendo", "chmod", "wman", "snapw1", "snapc1", "snapw2", "snapc2", "snapc3",
              "commit", "destroy", "failed", "result"}
Budget == tries = 0 \/ tries <= cfg.retries

Inv ==
  /\ cfg \in Cfgs
  /\ attempt \in Nat /\ tries \in Nat
  /\ pc \in PreLoop \cup InAttempt \cup {"loop", "return", "done"}
  /\ pc \in PreLoop => attempt = 0 /\ tries = 0
  /\ pc = "loop" => attempt = tries /\ Budget
  /\ pc \in InAttempt => attempt = tries + 1 /\ Budget
  /\ C14_AttemptBound
  /\ pc = "print" => cfg.measOnly
  \* C15
  /\ cfg.measOnly => pc \in {"print", "return", "done"} /\ effects \subseteq {"print"}
  /\ cfg.dryRun /\ ~cfg.measOnly => pc \in PreLoop \cup {"loop", "return", "done"} /\ effects \subseteq {"ca", "signer", "result"}

LEMMA InitInv == Init => Inv
  BY Params DEF Init, InitWith, Inv, Cfgs, PreLoop, InAttempt, Budget, C14_AttemptBound, Max

LEMMA NextInv == Inv /\ [Next]_vars => Inv'
<1> SUFFICES ASSUME Inv, [Next]_vars PROVE Inv'
  OBVIOUS
<1> USE Params, Repaired DEF Inv, Cfgs, PreLoop, InAttempt, Budget, C14_AttemptBound, Max, Step, Ev, Kinds, FailAttempt, NoWs
<1>1. CASE PrintMeas BY <1>1 DEF PrintMeas
<1>2. CASE CAPrimary BY <1>2 DEF CAPrimary, KeyCall
<1>3. CASE CACert BY <1>3 DEF CACert, KeyCall
<1>4. CASE CABundle BY <1>4 DEF CABundle, KeyCall
<1>5. CASE Sign BY <1>5 DEF Sign, KeyCall
<1>6. CASE BeginDry BY <1>6 DEF BeginDry
<1>7. CASE GetOps BY <1>7 DEF GetOps
<1>8. CASE ReadMan BY <1>8 DEF ReadMan
<1>9. CASE Exists BY <1>9 DEF Exists
<1>10. CASE WriteEndo BY <1>10 DEF WriteEndo, FileOp
<1>11. CASE Chmod BY <1>11 DEF Chmod, FileOp
<1>12. CASE WriteMan BY <1>12 DEF WriteMan, FileOp, ManifestToWrite
<1>13. CASE SnapW1 BY <1>13 DEF SnapW1, FileOp
<1>14. CASE SnapC1 BY <1>14 DEF SnapC1, FileOp
<1>15. CASE SnapW2 BY <1>15 DEF SnapW2, FileOp
<1>16. CASE SnapC2 BY <1>16 DEF SnapC2, FileOp
<1>17. CASE SnapC3 BY <1>17 DEF SnapC3, FileOp
<1>18. CASE Commit BY <1>18 DEF Commit
<1>19. CASE Destroy BY <1>19 DEF Destroy
<1>20. CASE Result BY <1>20 DEF Result
<1>21. CASE AskRetriable BY <1>21 DEF AskRetriable
<1>22. CASE Return BY <1>22 DEF Return
<1>23. CASE Other BY <1>23 DEF Other
<1>24. CASE UNCHANGED vars BY <1>24 DEF vars
<1> QED
  BY <1>1, <1>2, <1>3, <1>4, <1>5, <1>6, <1>7, <1>8, <1>9, <1>10, <1>11, <1>12, <1>13, <1>14, <1>15, <1>16,
     <1>17, <1>18, <1>19, <1>20, <1>21, <1>22, <1>23, <1>24 DEF Next

THEOREM BoundedForAnyBudget == Init /\ [][Next]_vars => [](C14_AttemptBound /\ C15_MeasOnlyNoEffects /\ C15_DryRunNoEffects)
<1>1. Inv => C14_AttemptBound /\ C15_MeasOnlyNoEffects /\ C15_DryRunNoEffects
  BY DEF Inv, C15_MeasOnlyNoEffects, C15_DryRunNoEffects, Cfgs
<1> QED
  BY InitInv, NextInv, <1>1, PTL
=============================================================================
