CONSTANTS
  MaxVersions = 3
  PageSize = 2
  MaxEmpty = 1
  MaxPolls = 2
  Design = "shortpage"
  Modes = {"wipe"}
SPECIFICATION Spec
VIEW view
INVARIANTS C20_WipeoutComplete
CHECK_DEADLOCK FALSE
