CONSTANTS
  MaxVer = 3
  MaxSerial = 9
  MaxCmds = 3
  MaxAborts = 0
  MaxIssued = 2
  Rebootstrap = FALSE
  Wipeouts = FALSE
  Collide = TRUE
  Times = {1}
  KeepGoing = {FALSE}
  Design = "atomic"
SPECIFICATION Spec
INVARIANTS EmitIssue
CHECK_DEADLOCK FALSE
