CONSTANTS Design = "legacy_cli"
SPECIFICATION Spec
INVARIANTS C02_Listed C02_ForNamedConfig C02_UnlistedConfigRejected
CHECK_DEADLOCK FALSE
