CONSTANTS
  Traverse = FALSE
  Design = "code"
SPECIFICATION Spec
INVARIANTS AtMostOnce ValidateBeforeInit InOrder RunOnlyWhenReady FailureStops ResultHonest Emit
CHECK_DEADLOCK FALSE
