CONSTANTS
  MaxVersions = 3
  PageSize = 2
  MaxEmpty = 1
  MaxPolls = 2
  Design = "token"
  Modes = {"wipe","getver","poll","sign"}
INIT Init
NEXT Next
INVARIANTS C20_CallBound C20_WipeoutComplete C20_BootstrapSelects C20_PollReturnsEnabledOnly C20_SignChecked Emit
CHECK_DEADLOCK FALSE
