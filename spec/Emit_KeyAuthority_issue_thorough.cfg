CONSTANTS
  MaxVer = 4
  MaxSerial = 9
  MaxCmds = 4
  MaxAborts = 0
  MaxIssued = 3
  Rebootstrap = FALSE
  Wipeouts = FALSE
  Collide = TRUE
  Times = {1}
  KeepGoing = {FALSE}
  Design = "atomic"
SPECIFICATION Spec
INVARIANTS EmitIssue
CHECK_DEADLOCK FALSE
