---------------------------- MODULE KeyAuthority ----------------------------
(***************************************************************************)
(* The signing authority: key store + certificate-authority store and the  *)
(* commands bootstrap / rotate / wipeout / endorse of rotate/*.go,         *)
(* sign/gcsca/gcsca.go and the nonprod key managers, with faults and       *)
(* crashes.  One action per state-changing call the real code makes        *)
(* (key creation / destruction, certificate signing, one storage object    *)
(* write, wipeouts); reads are folded into the next step.  `ev` is the     *)
(* event the recording doubles log for that call.                          *)
(*                                                                         *)
(* Design = "atomic" is the design the properties demand (a failed step    *)
(* ends the operation; the old key is destroyed after the manifest names   *)
(* the new one; certificates get serial = subject serial).  "legacy_order" *)
(* (all rotation steps run after a failure, destroy before finalize) and   *)
(* "legacy_template" (template cloned from the previous certificate keeps  *)
(* its certificate serial, re-bootstrapped root gets the signing lifetime) *)
(* are negative controls describing the pinned tree before the repairs.    *)
(*                                                                         *)
(* Decides C10 (failure atomicity), C11 (store consistent at every write   *)
(* prefix), C12 (chain-of-trust invariants over command histories) and the *)
(* authority half of C03 (everything issued verifies under the root).      *)
(***************************************************************************)
EXTENDS Integers, Sequences, FiniteSets, TLC, Json

CONSTANTS
  MaxVer,        \* signing key versions k0 .. k<MaxVer>
  MaxSerial,     \* subject serial numbers 1 .. MaxSerial
  MaxCmds,       \* commands per history
  MaxAborts,     \* faults + crashes per history
  MaxIssued,     \* endorsements issued per history
  Rebootstrap,   \* TRUE: bootstrap may run over a populated authority (with or without overwrite)
  Wipeouts,      \* TRUE: wipeout commands are part of histories
  Collide,       \* TRUE: a serial override may name another key version's certificate object
  Times,         \* certificate creation times a command may carry
  KeepGoing,     \* values of the --keep_going flag a command may carry ({FALSE} or BOOLEAN)
  Design         \* "atomic" | "legacy_order" | "legacy_template"

VARIABLES
  live,      \* key store: key name -> generation id (0 = no such key)
  gen,       \* generation counter (distinguishes re-created keys of one name)
  sman,      \* stored manifest [proot, psign, entries]
  spem,      \* stored root certificate (PEM object) or NoCert
  sobjs,     \* stored certificate objects: object id -> certificate or NoCert
  pc,        \* "idle" or the step of the running command
  regs,      \* registers of the running command
  ncmds, naborts,
  issued,    \* endorsements produced so far
  everRot,   \* key names created by rotations since the last key wipeout
  boots,     \* number of successful bootstraps since the last wipeout
  lastRet,   \* result of the last finished command: "none" | "ok" | "err" | "crash"
  dirty,     \* TRUE when a failed/crashed/refused command or a partial wipeout happened since the last wipeout-all
  ev, hist

vars == <<live, gen, sman, spem, sobjs, pc, regs, ncmds, naborts, issued, everRot, boots, lastRet, dirty, ev, hist>>
view == <<live, gen, sman, spem, sobjs, pc, regs, ncmds, naborts, issued, everRot, boots, lastRet, dirty>>

Ver == 0 .. MaxVer
KName(i) == IF i = 0 THEN "k0" ELSE IF i = 1 THEN "k1" ELSE IF i = 2 THEN "k2" ELSE IF i = 3 THEN "k3" ELSE "k4"
SignNames == {KName(i) : i \in Ver}
Names == {"root"} \cup SignNames
VerOf(n) == CHOOSE i \in Ver : KName(i) = n
Serials == 1 .. MaxSerial
ObjIds == 0 .. MaxSerial            \* 0 = the root certificate's object in the certificate directory

NoCert == [name |-> "", kgen |-> 0, iname |-> "", igen |-> 0, cserial |-> 0, sserial |-> 0, nb |-> 0, life |-> "", ca |-> FALSE]
NoMan == [proot |-> "", psign |-> "", entries |-> {}]
NoRegs == [cmd |-> "", ow |-> FALSE, kg |-> FALSE, sov |-> 0, t |-> 0, rootCert |-> NoCert, newCert |-> NoCert,
           newName |-> "", oldName |-> "", pending |-> {}, failed |-> FALSE, mutPrimary |-> ""]

Ev(op, a, out) == [op |-> op, arg |-> a, out |-> out]
\* command parameters as logged by the driver: "<-|ow|kg|owkg>,<serial flag>,<time>"
Params(ow, kg, n, t) ==
  (IF ow /\ kg THEN "owkg" ELSE IF ow THEN "ow" ELSE IF kg THEN "kg" ELSE "-") \o "," \o ToString(n) \o "," \o ToString(t)
Step(e) == ev' = e /\ hist' = Append(hist, e)

EntryOf(m, n) == {e \in m.entries : e.kvn = n}
HasEntry(m, n) == EntryOf(m, n) # {}
ObjOf(m, n) == (CHOOSE e \in EntryOf(m, n) : TRUE).obj
StoredCert(n) == IF HasEntry(sman, n) THEN sobjs[ObjOf(sman, n)] ELSE NoCert

SelfSigned(c) == c # NoCert /\ c.iname = c.name /\ c.igen = c.kgen
ChainsTo(c, r) == c # NoCert /\ r # NoCert /\ SelfSigned(r) /\ c.iname = r.name /\ c.igen = r.kgen

\* what endorse.SignDoc + verify would do with the stored state: primary key is live, its stored
\* certificate is for that very key and chains to the stored root certificate
CanEndorse ==
  /\ sman.psign # "" /\ live[sman.psign] # 0
  /\ LET c == StoredCert(sman.psign) IN
       /\ c # NoCert /\ c.kgen = live[sman.psign] /\ ChainsTo(c, spem)

Init ==
  /\ live = [n \in Names |-> 0] /\ gen = 0
  /\ sman = NoMan /\ spem = NoCert /\ sobjs = [o \in ObjIds |-> NoCert]
  /\ pc = "idle" /\ regs = NoRegs
  /\ ncmds = 0 /\ naborts = 0 /\ issued = {} /\ everRot = {} /\ boots = 0
  /\ lastRet = "none" /\ dirty = FALSE
  /\ ev = Ev("Init", "", "ok") /\ hist = <<>>

(***************************************************************************)
(* Ending a command.                                                       *)
(***************************************************************************)
Finish(r) ==
  /\ pc' = "idle" /\ regs' = NoRegs /\ lastRet' = r
  /\ dirty' = (dirty \/ r # "ok")

\* the running command ends with an error before its next step (a fault at any call between two
\* state changes, or the step's own call failing), or the process dies
Abort ==
  /\ pc \notin {"idle"} /\ naborts < MaxAborts
  /\ \/ Design # "legacy_order" \/ regs.cmd # "rotate"
  /\ naborts' = naborts + 1
  /\ \E k \in {"err", "crash"} :
       /\ Finish(k)
       /\ Step(Ev("Return", regs.cmd, k))
  /\ UNCHANGED <<live, gen, sman, spem, sobjs, ncmds, issued, everRot, boots>>

(***************************************************************************)
(* bootstrap                                                               *)
(***************************************************************************)
StartBootstrap(ow, kg, ss, t) ==
  /\ pc = "idle" /\ ncmds < MaxCmds
  /\ Rebootstrap \/ (sman = NoMan /\ spem = NoCert /\ \A n \in Names : live[n] = 0)
  /\ ncmds' = ncmds + 1
  /\ regs' = [NoRegs EXCEPT !.cmd = "bootstrap", !.ow = ow, !.kg = kg, !.sov = ss, !.t = t]
  /\ pc' = "b_root"
  /\ Step(Ev("Cmd", "bootstrap", Params(ow, kg, ss, t)))
  /\ UNCHANGED <<live, gen, sman, spem, sobjs, naborts, issued, everRot, boots, lastRet, dirty>>

\* CreateNewRootKey / CreateFirstSigningKey: refuse an existing key unless overwrite
BCreate(at, name, next) ==
  /\ pc = at
  /\ IF live[name] # 0 /\ ~regs.ow
       THEN /\ Finish("err") /\ Step(Ev("Return", "bootstrap", "err"))
            /\ UNCHANGED <<live, gen>>
       ELSE /\ gen' = gen + 1 /\ live' = [live EXCEPT ![name] = gen + 1]
            /\ pc' = next /\ UNCHANGED <<regs, lastRet, dirty>>
            /\ Step(Ev("CreateKey", name, "ok"))
  /\ UNCHANGED <<sman, spem, sobjs, ncmds, naborts, issued, everRot, boots>>
BRoot == BCreate("b_root", "root", "b_first")
BFirst == BCreate("b_first", "k0", "b_signroot")

\* root certificate: Google template on a fresh store, otherwise cloned from the stored root cert
RootTemplate(t) ==
  [name |-> "root", kgen |-> live["root"], iname |-> "root", igen |-> live["root"], cserial |-> 1, sserial |-> 1,
   nb |-> t, life |-> IF spem # NoCert /\ Design = "legacy_template" THEN "sign" ELSE "root", ca |-> TRUE]
BSignRoot ==
  /\ pc = "b_signroot"
  /\ LET c == RootTemplate(regs.t) IN
       /\ regs' = [regs EXCEPT !.rootCert = c, !.pending = {[kvn |-> "root", cert |-> c]}]
       /\ Step(Ev("Sign", "root", "ok"))
  /\ pc' = "b_signfirst"
  /\ UNCHANGED <<live, gen, sman, spem, sobjs, ncmds, naborts, issued, everRot, boots, lastRet, dirty>>

\* a signing certificate: cloned from the current primary's certificate when there is one
SignTemplate(name, serial, t) ==
  LET prev == StoredCert(sman.psign) IN
  [name |-> name, kgen |-> live[name], iname |-> "root", igen |-> live["root"],
   cserial |-> IF sman.psign # "" /\ prev # NoCert /\ Design = "legacy_template" THEN prev.cserial ELSE serial,
   sserial |-> serial, nb |-> t, life |-> "sign", ca |-> FALSE]
BSignFirst ==
  /\ pc = "b_signfirst"
  /\ LET c == SignTemplate("k0", regs.sov, regs.t) IN
       /\ regs' = [regs EXCEPT !.newCert = c, !.pending = @ \cup {[kvn |-> "k0", cert |-> c]}]
       /\ Step(Ev("Sign", "k0", "ok"))
  /\ pc' = "upload"
  /\ UNCHANGED <<live, gen, sman, spem, sobjs, ncmds, naborts, issued, everRot, boots, lastRet, dirty>>

(***************************************************************************)
(* CertificateAuthority.Finalize (shared by bootstrap and rotate): upload  *)
(* the pending certificates in any order, then the root PEM, then the      *)
(* manifest.  `regs.mutPrimary` is the primary signing key the mutation    *)
(* sets; the manifest being assembled lives in regs.pending/sman.          *)
(***************************************************************************)
ObjFor(p) == IF HasEntry(sman, p.kvn) THEN ObjOf(sman, p.kvn)
             ELSE IF p.kvn = "root" THEN 0 ELSE p.cert.sserial
\* manifest with the entries of everything uploaded so far by this command
\* gcsca.upload + writeIfAllowed.  --keep_going ("keep going as long as there is no direct dependency"):
\* a key version that already has a manifest entry is left alone, and an object that exists is not
\* overwritten but the command carries on (and still registers the entry for a fresh key version)
UploadOne ==
  /\ pc = "upload" /\ regs.pending # {}
  /\ \E p \in regs.pending :
       LET o == ObjFor(p)
           next == IF regs.pending = {p} THEN (IF regs.cmd = "bootstrap" THEN "pem" ELSE "man") ELSE "upload"
           skip == /\ regs' = [regs EXCEPT !.pending = @ \ {p}]
                   /\ pc' = next
                   /\ Step(Ev("SkipObj", ToString(o), "ok"))
                   /\ UNCHANGED <<sobjs, lastRet, dirty>>
       IN
       IF regs.kg /\ HasEntry(sman, p.kvn) THEN skip
       ELSE IF sobjs[o] # NoCert /\ ~regs.ow
         THEN IF regs.kg THEN skip
              ELSE /\ Finish("err") /\ Step(Ev("Return", regs.cmd, "err"))
                   /\ UNCHANGED <<sobjs>>
         ELSE /\ sobjs' = [sobjs EXCEPT ![o] = p.cert]
              /\ regs' = [regs EXCEPT !.pending = @ \ {p}]
              /\ pc' = next
              /\ Step(Ev("WriteObj", ToString(o), "ok"))
              /\ UNCHANGED <<lastRet, dirty>>
  /\ UNCHANGED <<live, gen, sman, spem, ncmds, naborts, issued, everRot, boots>>

WritePem ==
  /\ pc = "pem"
  /\ IF spem # NoCert /\ ~regs.ow
       THEN IF regs.kg
              THEN /\ pc' = "man" /\ UNCHANGED <<spem, regs, lastRet, dirty>>       \* not overwritten, carry on
                   /\ Step(Ev("SkipPem", "root", "ok"))
              ELSE /\ Finish("err") /\ Step(Ev("Return", regs.cmd, "err")) /\ UNCHANGED spem
       ELSE /\ spem' = regs.rootCert /\ pc' = "man" /\ UNCHANGED <<regs, lastRet, dirty>>
            /\ Step(Ev("WritePem", "root", "ok"))
  /\ UNCHANGED <<live, gen, sman, sobjs, ncmds, naborts, issued, everRot, boots>>

\* entries added by this command: one per certificate it uploaded that had no entry
NewEntries ==
  IF regs.cmd = "bootstrap"
    THEN {[kvn |-> "root", obj |-> 0] : x \in IF HasEntry(sman, "root") THEN {} ELSE {1}}
         \cup {[kvn |-> "k0", obj |-> regs.newCert.sserial] : x \in IF HasEntry(sman, "k0") THEN {} ELSE {1}}
    ELSE {[kvn |-> regs.newName, obj |-> regs.newCert.sserial] : x \in IF HasEntry(sman, regs.newName) THEN {} ELSE {1}}
WriteMan ==
  /\ pc = "man"
  /\ sman' = [proot |-> IF regs.cmd = "bootstrap" THEN "root" ELSE sman.proot,
              psign |-> IF regs.cmd = "bootstrap" THEN "k0" ELSE regs.mutPrimary,
              entries |-> sman.entries \cup NewEntries]
  /\ Step(Ev("WriteMan", IF regs.cmd = "bootstrap" THEN "k0" ELSE regs.mutPrimary, "ok"))
  /\ pc' = IF regs.cmd = "bootstrap" THEN "ret"
           ELSE IF Design = "legacy_order" THEN "r_return" ELSE "r_destroy"
  /\ UNCHANGED <<live, gen, spem, sobjs, regs, ncmds, naborts, issued, everRot, boots, lastRet, dirty>>

ReturnOk ==
  /\ pc = "ret"
  /\ Finish("ok")
  /\ boots' = IF regs.cmd = "bootstrap" THEN boots + 1 ELSE boots
  /\ Step(Ev("Return", regs.cmd, "ok"))
  /\ UNCHANGED <<live, gen, sman, spem, sobjs, ncmds, naborts, issued, everRot>>

(***************************************************************************)
(* rotate                                                                  *)
(***************************************************************************)
\* the rotate command computes the next serial from the primary's certificate before rotate.Key
StartRotate(sov, ow, kg, t) ==
  /\ pc = "idle" /\ ncmds < MaxCmds
  /\ ncmds' = ncmds + 1
  /\ LET prev == StoredCert(sman.psign)
         serial == IF sov # 0 THEN sov ELSE prev.sserial + 1 IN
     IF sman.psign = "" \/ prev = NoCert \/ serial > MaxSerial \/ VerOf(sman.psign) = MaxVer
       THEN \* no primary certificate to succeed (or the model's bounds are exhausted): refused
            /\ sman.psign = "" \/ prev = NoCert
            /\ regs' = [NoRegs EXCEPT !.cmd = "rotate"] /\ pc' = "r_refused"
            /\ Step(Ev("Cmd", "rotate", Params(ow, kg, sov, t)))
            /\ UNCHANGED <<lastRet, dirty>>
       ELSE \* a serial that names another key version's certificate object: with overwrite the operator
            \* asks for that certificate to be replaced -- excluded from the fault configurations
            \* (Collide = FALSE), where replacing the current primary's certificate before the manifest
            \* switch is the operator's own doing, and included in the command-history ones
            /\ Collide \/ sobjs[serial] = NoCert \/ sobjs[serial].name = KName(VerOf(sman.psign) + 1)
            /\ regs' = [NoRegs EXCEPT !.cmd = "rotate", !.ow = ow, !.kg = kg, !.sov = serial, !.t = t,
                                     !.oldName = sman.psign, !.newName = KName(VerOf(sman.psign) + 1)]
            /\ pc' = "r_create"
            /\ Step(Ev("Cmd", "rotate", Params(ow, kg, sov, t)))
            /\ UNCHANGED <<lastRet, dirty>>
  /\ UNCHANGED <<live, gen, sman, spem, sobjs, naborts, issued, everRot, boots>>

\* legacy_order: a step may fail and the later steps still run (multierr.Combine evaluates all)
LegacyFail(next) ==
  /\ Design = "legacy_order" /\ naborts < MaxAborts
  /\ naborts' = naborts + 1
  /\ regs' = [regs EXCEPT !.failed = TRUE]
  /\ pc' = next
  /\ Step(Ev("StepFailed", pc, "err"))
  /\ UNCHANGED <<live, gen, sman, spem, sobjs, ncmds, issued, everRot, boots, lastRet, dirty>>

RCreate ==
  /\ pc = "r_create"
  /\ gen' = gen + 1 /\ live' = [live EXCEPT ![regs.newName] = gen + 1]
  /\ everRot' = everRot \cup {regs.newName}
  /\ pc' = "r_sign"
  /\ Step(Ev("CreateKey", regs.newName, "ok"))
  /\ UNCHANGED <<sman, spem, sobjs, regs, ncmds, naborts, issued, boots, lastRet, dirty>>

RSign ==
  /\ pc = "r_sign"
  /\ IF live["root"] = 0 \/ spem = NoCert
       THEN \* no root key / root certificate to issue with
            IF Design = "legacy_order"
              THEN /\ regs' = [regs EXCEPT !.failed = TRUE] /\ pc' = "r_primary"
                   /\ Step(Ev("StepFailed", "r_sign", "err")) /\ UNCHANGED <<lastRet, dirty>>
              ELSE /\ Finish("err") /\ Step(Ev("Return", "rotate", "err"))
       ELSE LET c == SignTemplate(regs.newName, regs.sov, regs.t) IN
            /\ regs' = [regs EXCEPT !.newCert = c, !.pending = {[kvn |-> regs.newName, cert |-> c]},
                                    !.mutPrimary = IF Design = "legacy_order" THEN "" ELSE regs.newName]
            /\ pc' = IF Design = "legacy_order" THEN "r_primary" ELSE "upload"
            /\ Step(Ev("Sign", regs.newName, "ok"))
            /\ UNCHANGED <<lastRet, dirty>>
  /\ UNCHANGED <<live, gen, sman, spem, sobjs, ncmds, naborts, issued, everRot, boots>>
RSignFails == pc = "r_sign" /\ LegacyFail("r_primary")

\* legacy_order only: the mutation's primary is set and the old key destroyed before Finalize
\* (in the atomic design SetPrimarySigningKeyVersion is an in-memory step folded into RSign)
RPrimary ==
  /\ pc = "r_primary" /\ Design = "legacy_order"
  /\ regs' = [regs EXCEPT !.mutPrimary = regs.newName]
  /\ live' = [live EXCEPT ![regs.oldName] = 0]
  /\ pc' = IF regs.pending = {} THEN "man" ELSE "upload"
  /\ Step(Ev("DestroyKey", regs.oldName, "ok"))
  /\ UNCHANGED <<gen, sman, spem, sobjs, ncmds, naborts, issued, everRot, boots, lastRet, dirty>>

RDestroy ==
  /\ pc = "r_destroy"
  /\ live' = [live EXCEPT ![regs.oldName] = 0]
  /\ pc' = "ret"
  /\ Step(Ev("DestroyKey", regs.oldName, "ok"))
  /\ UNCHANGED <<gen, sman, spem, sobjs, regs, ncmds, naborts, issued, everRot, boots, lastRet, dirty>>

RRefused ==
  /\ pc = "r_refused"
  /\ Finish("err")
  /\ Step(Ev("Return", "rotate", "err"))
  /\ UNCHANGED <<live, gen, sman, spem, sobjs, ncmds, naborts, issued, everRot, boots>>

RReturnLegacy ==
  /\ pc = "r_return"
  /\ Finish(IF regs.failed THEN "err" ELSE "ok")
  /\ Step(Ev("Return", "rotate", IF regs.failed THEN "err" ELSE "ok"))
  /\ UNCHANGED <<live, gen, sman, spem, sobjs, ncmds, naborts, issued, everRot, boots>>

(***************************************************************************)
(* wipeout, endorse                                                        *)
(***************************************************************************)
Wipe(what) ==
  /\ Wipeouts /\ pc = "idle" /\ ncmds < MaxCmds
  /\ ncmds' = ncmds + 1
  /\ IF what \in {"ca", "all"}
       THEN sman' = NoMan /\ spem' = NoCert /\ sobjs' = [o \in ObjIds |-> NoCert]
       ELSE UNCHANGED <<sman, spem, sobjs>>
  /\ IF what \in {"keys", "all"}
       THEN live' = [n \in Names |-> 0] /\ everRot' = {}
       ELSE UNCHANGED <<live, everRot>>
  /\ boots' = 0
  /\ lastRet' = "ok"
  /\ dirty' = (what # "all")
  /\ Step(Ev("Wipe", what, "ok"))
  /\ UNCHANGED <<gen, pc, regs, naborts, issued>>

Endorse ==
  /\ pc = "idle" /\ Cardinality(issued) < MaxIssued
  /\ IF CanEndorse
       THEN /\ issued' = issued \cup {[n |-> Cardinality(issued) + 1, kname |-> sman.psign, kgen |-> live[sman.psign],
                                       cert |-> StoredCert(sman.psign), root |-> spem]}
            /\ Step(Ev("Endorse", sman.psign, "ok"))
       ELSE /\ ev.op # "Endorse"      \* a refused probe is not repeated back to back
            /\ UNCHANGED issued
            /\ Step(Ev("Endorse", sman.psign, "err"))
  /\ UNCHANGED <<live, gen, sman, spem, sobjs, pc, regs, ncmds, naborts, everRot, boots, lastRet, dirty>>

Next ==
  \/ \E ow \in BOOLEAN, kg \in KeepGoing, ss \in {2, 4}, t \in Times : StartBootstrap(ow, kg, ss, t)
  \/ BRoot \/ BFirst \/ BSignRoot \/ BSignFirst \/ UploadOne \/ WritePem \/ WriteMan
  \/ \E sov \in {0, MaxSerial}, ow \in BOOLEAN, kg \in KeepGoing, t \in Times : StartRotate(sov, ow, kg, t)
  \/ RCreate \/ RSign \/ RSignFails \/ RPrimary \/ RDestroy \/ RReturnLegacy \/ ReturnOk \/ RRefused
  \/ \E w \in {"ca", "keys", "all"} : Wipe(w)
  \/ Endorse \/ Abort

Spec == Init /\ [][Next]_vars

(***************************************************************************)
(* C10: after a failed or interrupted rotation the recorded primary is     *)
(* still usable; the old key goes only after the new one is durable.       *)
(***************************************************************************)
\* a healthy history: one successful bootstrap of an empty authority, then only rotations
\* (successful, failed or crashed) -- no wipeout, no re-bootstrap
Healthy == boots = 1 /\ ~Rebootstrap /\ ~Wipeouts
C10_PrimaryUsable == Healthy /\ pc = "idle" => CanEndorse
C10_DestroyAfterDurable ==
  [][\A n \in SignNames : live[n] # 0 /\ live'[n] = 0 /\ regs.cmd = "rotate" =>
        sman.psign # n /\ CanEndorse']_vars

(***************************************************************************)
(* C11: at every prefix of the object writes of a first bootstrap and of   *)
(* later rotations the stored state is self-consistent.                    *)
(***************************************************************************)
C11_StoreConsistent ==
  ~Rebootstrap /\ ~Wipeouts =>
    /\ \A e \in sman.entries : sobjs[e.obj] # NoCert
    /\ sman.psign # "" => HasEntry(sman, sman.psign) /\ ChainsTo(StoredCert(sman.psign), spem)
C11_ManifestLast ==
  [][sman' # sman => \A e \in sman'.entries : sobjs[e.obj] # NoCert]_vars

(***************************************************************************)
(* C12: chain-of-trust invariants over command histories.                  *)
(***************************************************************************)
RootShape(c) == c.ca /\ SelfSigned(c) /\ c.life = "root" /\ c.cserial = c.sserial
SignShape(c) == ~c.ca /\ c.life = "sign" /\ c.cserial = c.sserial /\ c.iname = "root"
\* certificates are checked when they are issued (registers) and, in undisturbed histories (no
\* refused/failed command or partial wipeout since the last full wipeout), as stored
C12_IssuedShape ==
  /\ regs.rootCert # NoCert => RootShape(regs.rootCert)
  /\ regs.newCert # NoCert => SignShape(regs.newCert) /\ regs.newCert.igen = live["root"] /\ regs.newCert.nb = regs.t
C12_StoredShape ==
  pc = "idle" /\ boots >= 1 /\ ~dirty =>
    /\ RootShape(spem)
    /\ SignShape(StoredCert(sman.psign)) /\ ChainsTo(StoredCert(sman.psign), spem)
C12_SerialSuccession ==
  [][pc = "r_sign" /\ pc' \in {"r_primary", "upload"} /\ regs'.newCert # NoCert =>
       regs'.newCert.sserial = (IF regs.sov # 0 THEN regs.sov ELSE StoredCert(sman.psign).sserial + 1)]_vars
C12_OnlyPrimarySigns ==
  pc = "idle" /\ lastRet = "ok" /\ boots >= 1 /\ ~dirty =>
    {n \in SignNames : live[n] # 0} = {sman.psign}
C12_NoNameReuse ==
  [][pc = "r_create" /\ pc' = "r_sign" /\ ~dirty => regs.newName \notin everRot]_vars
C12_NoClobber ==
  [][/\ \A o \in ObjIds : sobjs[o] # NoCert /\ sobjs'[o] # sobjs[o] => regs.ow \/ ev'.op = "Wipe"
     /\ spem # NoCert /\ spem' # spem => regs.ow \/ ev'.op = "Wipe"]_vars
C12_WipeoutTotal ==
  ev.op = "Wipe" /\ ev.arg = "all" => (\A n \in Names : live[n] = 0) /\ sman = NoMan /\ spem = NoCert /\ ~CanEndorse

(***************************************************************************)
(* C03 (authority half): everything issued verifies under the root that    *)
(* was stored when it was issued, whatever happens later.                  *)
(***************************************************************************)
Accepts(e) == e.kgen = e.cert.kgen /\ e.kname = e.cert.name /\ ChainsTo(e.cert, e.root)
C03_AllIssuedVerify == \A e \in issued : Accepts(e)
C03_HealthyCanAlwaysEndorse == Healthy /\ pc = "idle" /\ naborts = 0 => CanEndorse

(***************************************************************************)
(* Emission of complete histories.                                         *)
(***************************************************************************)
Quiescent == pc = "idle" /\ (ncmds = MaxCmds \/ naborts = MaxAborts)
Emit == Quiescent /\ ncmds = MaxCmds => PrintT(<<"VCASE", ToJson([hist |-> hist])>>)
\* command + endorse histories (C03 replay)
EmitIssue == pc = "idle" /\ ncmds = MaxCmds /\ Cardinality(issued) = MaxIssued =>
  PrintT(<<"VCASE", ToJson([cmds |-> SelectSeq(hist, LAMBDA e : e.op \in {"Cmd", "Endorse", "Return"})])>>)
\* command histories only (C12 replay): one record per history
EmitCmds == pc = "idle" /\ ncmds = MaxCmds =>
  PrintT(<<"VCASE", ToJson([cmds |-> SelectSeq(hist, LAMBDA e : e.op \in {"Cmd", "Wipe"})])>>)
=============================================================================
