CONSTANTS
  M = 16
  Design = "legacy"
  Which = "certtable"
SPECIFICATION Spec
INVARIANTS Total MemSafe AllocBounded Terminates
CHECK_DEADLOCK FALSE
