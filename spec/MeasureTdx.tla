----------------------------- MODULE MeasureTdx -----------------------------
(***************************************************************************)
(* C05: the TDX build-time measurement (MRTD) of a TDVF layout.            *)
(* part "intervals": guest RAM banks and declared sections as intervals on *)
(* a short line of units (the 4 GiB mark is a unit of the line);           *)
(* Unaccepted is defined declaratively -- per bank in ascending order, the *)
(* maximal runs of units of the bank that no section covers -- and every   *)
(* configuration is emitted for comparison with the code's sweep.          *)
(* part "layout": a TDVF metadata section list (type, extend attribute,    *)
(* declared order) and a launch mode; Stream is the record stream of the   *)
(* TDX module definition at section granularity (per section: one          *)
(* MEM.PAGE.ADD per page, and sixteen MR.EXTEND per page iff the section   *)
(* is flagged for extension or the legacy measure-everything mode is on),  *)
(* Hob is the hand-off block as a sequence of descriptors, Malformed the   *)
(* rejection rule.  Byte layouts are in Abi.tla.                           *)
(***************************************************************************)
EXTENDS Integers, Sequences, FiniteSets, TLC, Json

CONSTANTS LineLen, FourGiB, MaxBanks, MaxSecs, Part

VARIABLES row
vars == <<row>>

\* ---------------- intervals ----------------
Ivs == {[s |-> a, e |-> b] : a \in 0 .. LineLen - 1, b \in 1 .. LineLen} 
Iv == {i \in Ivs : i.s < i.e}
Units(i) == i.s .. i.e - 1
\* sets of at most n pairwise disjoint intervals, built in ascending order (not via SUBSET, which is 2^|Iv|)
Iv1 == {{a} : a \in Iv}
Iv2 == {{p[1], p[2]} : p \in {q \in Iv \X Iv : q[1].e <= q[2].s}}
Iv3 == {{p[1], p[2], p[3]} : p \in {q \in Iv \X Iv \X Iv : q[1].e <= q[2].s /\ q[2].e <= q[3].s}}
IvSets(n) == {{}} \cup Iv1 \cup (IF n >= 2 THEN Iv2 ELSE {}) \cup (IF n >= 3 THEN Iv3 ELSE {})

Covered(secs) == UNION {Units(i) : i \in secs}
\* maximal runs of the units of bank b not covered by any section
Free(b, secs) == Units(b) \ Covered(secs)
RunsOf(b, secs) ==
  {[s |-> x, e |-> y] : x \in Units(b), y \in (Units(b) \cup {b.e})} \cap
  {r \in [s : 0 .. LineLen, e : 0 .. LineLen] :
     /\ r.s < r.e
     /\ (r.s .. r.e - 1) \subseteq Free(b, secs)
     /\ (r.s = b.s \/ r.s - 1 \notin Free(b, secs))
     /\ (r.e = b.e \/ r.e \notin Free(b, secs))}
Unaccepted(banks, secs) == UNION {RunsOf(b, secs) : b \in banks}
\* early-accept attribute of an unaccepted range
EarlyAccept(r, mode) == r.e <= FourGiB \/ mode = "measure_all_ea"

\* ---------------- layout ----------------
\* section types: 0 BFV, 1 CFV, 2 TD_HOB, 3 TempMem, 4 unknown
\* ext = bit 0 of the section attributes (the other bits are ignored); empty = a scratch-memory section
\* of memory size 0: no page is added for it, but it is a declared section like any other (it has its
\* system-memory descriptor in the hand-off block)
LaySec == {s \in [ty : {0, 1, 2, 3, 4}, ext : BOOLEAN, empty : BOOLEAN] : s.empty => s.ty = 3 /\ ~s.ext}
LayLists == UNION {[1 .. n -> LaySec] : n \in 1 .. MaxSecs}
Modes == {"default", "measure_all", "measure_all_ea"}
Flaws == {"none", "overlap", "fvsize", "memsize"}
Count(S, t) == Cardinality({i \in DOMAIN S : S[i].ty = t})
Malformed(r) ==
  \/ Count(r.secs, 0) = 0                 \* no boot firmware volume
  \/ Count(r.secs, 2) # 1                 \* TD hand-off block missing or duplicated
  \/ Count(r.secs, 4) > 0                 \* unknown section type
  \/ r.flaw # "none"                      \* overlapping memory ranges / sizes that do not add up
Extends(r, i) == r.mode # "default" \/ r.secs[i].ext
Source(r, i) == CASE r.secs[i].ty \in {0, 1} -> "image" [] r.secs[i].ty = 2 -> "hob" [] OTHER -> "zeros"
Stream(r) == [i \in DOMAIN r.secs |-> [sec |-> i, extend |-> Extends(r, i), source |-> Source(r, i)]]
\* hand-off block: table, one system-memory descriptor per declared section (declared order), the
\* unaccepted ranges ascending, end marker, zero padding (the unaccepted part comes from "intervals")
Hob(r) == <<"PHIT">> \o [i \in DOMAIN r.secs |-> "SYSTEM_MEMORY"] \o <<"UNACCEPTED*", "END", "PAD0">>

\* GCE machine shapes: RAM size, NUMA nodes, per-node maximum (GiB); banks in MiB around the 3-4 GiB hole
ShapeTable == [
  c3_standard_4 |-> [size |-> 16, nodes |-> 1, max |-> 176], c3_standard_8 |-> [size |-> 32, nodes |-> 1, max |-> 176],
  c3_standard_22 |-> [size |-> 88, nodes |-> 1, max |-> 176], c3_standard_44 |-> [size |-> 176, nodes |-> 1, max |-> 176],
  c3_standard_88 |-> [size |-> 352, nodes |-> 2, max |-> 176], c3_standard_176 |-> [size |-> 704, nodes |-> 4, max |-> 176]]
MinN(a, b) == IF a < b THEN a ELSE b
RECURSIVE NodeBanks(_, _, _, _, _)
NodeBanks(n, start, size, taken, max) ==
  IF n = 0 THEN <<>>
  ELSE LET l == MinN(max - taken, size) IN <<[s |-> start, l |-> l]>> \o NodeBanks(n - 1, start + l, size - l, 0, max)
BanksOf(d) == <<[s |-> 0, l |-> 3072], [s |-> 4094, l |-> 2]>> \o NodeBanks(d.nodes, 4096, d.size * 1024 - 3072, 3072, d.max * 1024)
ShapeBanks == [n \in DOMAIN ShapeTable |-> BanksOf(ShapeTable[n])]
\* every shape's banks add up to its RAM size minus nothing: 3 GiB low + rest above 4 GiB (the 2 MiB TDVF bank is extra)
ASSUME \A n \in DOMAIN ShapeTable :
  LET b == ShapeBanks[n] IN b[1].l + (LET RECURSIVE Sum(_) Sum(i) == IF i > Len(b) THEN 0 ELSE b[i].l + Sum(i + 1) IN Sum(3)) = ShapeTable[n].size * 1024
EmitShapes == PrintT(<<"VEDGE", ToJson([shapes |-> ShapeBanks])>>)
ASSUME EmitShapes

LayRows == [part : {"layout"}, secs : LayLists, mode : Modes, flaw : Flaws]
IvRows == [part : {"intervals"}, banks : IvSets(MaxBanks), secs : IvSets(MaxSecs)]

Init == row \in (IF Part = "layout" THEN LayRows ELSE IvRows)
Next == UNCHANGED row
Spec == Init /\ [][Next]_vars

\* properties of the declarative definition itself
C05_UnacceptedSound ==
  row.part = "intervals" =>
    LET U == Unaccepted(row.banks, row.secs) IN
    /\ \A r \in U : Units(r) \cap Covered(row.secs) = {}                              \* never inside a section
    /\ UNION {Units(r) : r \in U} = UNION {Free(b, row.secs) : b \in row.banks}       \* covers RAM minus sections
    /\ \A r1, r2 \in U : r1 # r2 => Units(r1) \cap Units(r2) = {}                     \* disjoint
C05_ExtendRule ==
  row.part = "layout" /\ ~Malformed(row) =>
    \A i \in DOMAIN row.secs : Stream(row)[i].extend = (row.mode # "default" \/ row.secs[i].ext)

SeqOfSet(S) == LET RECURSIVE F(_) F(T) == IF T = {} THEN <<>> ELSE LET m == CHOOSE x \in T : \A y \in T : x.s <= y.s IN <<m>> \o F(T \ {m}) IN F(S)
Emit ==
  IF row.part = "intervals"
    THEN PrintT(<<"VCASE", ToJson([part |-> "intervals", banks |-> SeqOfSet(row.banks), secs |-> SeqOfSet(row.secs),
                                   unaccepted |-> SeqOfSet(Unaccepted(row.banks, row.secs)), four |-> FourGiB])>>)
    ELSE PrintT(<<"VCASE", ToJson([part |-> "layout", secs |-> row.secs, mode |-> row.mode, flaw |-> row.flaw, malformed |-> Malformed(row),
                                   stream |-> IF Malformed(row) THEN <<>> ELSE Stream(row), hob |-> IF Malformed(row) THEN <<>> ELSE Hob(row)])>>)
=============================================================================
