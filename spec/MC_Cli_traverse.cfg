CONSTANTS
  Traverse = TRUE
  Design = "code"
SPECIFICATION Spec
INVARIANTS AtMostOnce ValidateBeforeInit InOrder RunOnlyWhenReady FailureStops ResultHonest
PROPERTIES Terminates
CHECK_DEADLOCK FALSE
