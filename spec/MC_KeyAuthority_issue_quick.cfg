CONSTANTS
  MaxVer = 3
  MaxSerial = 6
  MaxCmds = 4
  MaxAborts = 1
  MaxIssued = 3
  Rebootstrap = FALSE
  Wipeouts = FALSE
  Collide = FALSE
  Times = {1}
  KeepGoing = {FALSE}
  Design = "atomic"
SPECIFICATION Spec
VIEW view
INVARIANTS C03_AllIssuedVerify C03_HealthyCanAlwaysEndorse C10_PrimaryUsable C11_StoreConsistent
CHECK_DEADLOCK FALSE
