------------------------------- MODULE Listing -------------------------------
(***************************************************************************)
(* C02: an accepted attestation carries a measurement the (authentic)      *)
(* endorsement lists, and the one listed for the configuration the caller  *)
(* named.  Decision table over endorsed tables, report measurements,       *)
(* requests and entry points; the operators transcribe verify.SNP,         *)
(* the measurement part of SevPolicy/SevValidate, TdxPolicy/TdxValidate    *)
(* and the semantics of the go-sev-guest / go-tdx-guest options they fill  *)
(* (an empty allow-list or a zero-length entry means "unchecked" there).   *)
(* Design "repaired": TdxPolicy only takes 48-byte MRTDs and fails when    *)
(* none matches the named RAM size; the CLI forwards --launch_vmsas and    *)
(* --ram_gib.  "legacy_tdx" / "legacy_cli" are the negative controls.      *)
(***************************************************************************)
EXTENDS Integers, Sequences, FiniteSets, TLC, Json

CONSTANTS Design

VARIABLES row, result
vars == <<row, result>>

Counts == {1, 2, 4}
\* table: what the attestation's own certificate table carries under the GCE firmware GUID next to the
\* endorsement the caller supplies: nothing, or ("other") another genuine endorsement that lists the
\* report's measurement for every count.  The caller's endorsement is the one validated against, so
\* the table's never decides (SevValidate only extracts from the attestation when none is supplied).
SnpRows == {r \in [tech : {"snp"}, listed : SUBSET Counts, svsm : BOOLEAN, short2 : BOOLEAN,
                   meas : {"m1", "m2", "m4", "ms", "n2", "un", "short", "nomeas"}, req : {0, 1, 2, 4, 8},
                   \* expected firmware digest: not given, equal, different, or given while the endorsement
                   \* carries no digest at all ("absent": nothing endorsed equals the expectation)
                   digest : {"none", "eq", "diff", "absent"},
                   entry : {"SNP", "EndorsementProto", "SNPFunc", "SevValidate", "cli_sev"},
                   table : {"none", "other"},
                   \* the CLI's --allow_unspecified_vmsas next to --launch_vmsas: validation names the count all the same
                   unspec : BOOLEAN] :
              /\ (r.table = "other" => r.entry \in {"SevValidate", "cli_sev"} /\ r.digest = "none")
              /\ (r.digest = "absent" => r.entry \in {"EndorsementProto", "SNPFunc"})
              \* "nomeas": a report that carries no measurement at all -- a class of attestations, so only of
              \* the entry points that take one (for verify.SNP "no measurement" means none to compare)
              /\ (r.meas = "nomeas" => r.entry \in {"SNPFunc", "SevValidate", "cli_sev"})
              /\ (r.unspec => r.entry = "cli_sev" /\ r.table = "none" /\ r.digest = "none")}
TdxIds == {"d0", "r16", "r16e", "r32"}
RamOf(id) == IF id = "d0" THEN 0 ELSE IF id = "r32" THEN 32 ELSE 16
\* base: the caller's base policy; "mixed" = it already carries an MRTD allow-list made of one endorsed
\* value and the quote's own MRTD (derivation without overwrite must refuse it, not adopt the list)
TdxRows == {r \in [tech : {"tdx"}, rows : SUBSET TdxIds, emptyrow : BOOLEAN,
                   \* RAM sizes a caller may name: none (0), listed ones, an unlisted one, and two that only a 32-bit
                   \* reading confuses with 16 and with "none": 2^32 + 16 and 2^32, written -16 and -1 here (TLC's
                   \* integers are 32 bits wide; the harness puts the real numbers in their place)
                   mrtd : {"d0", "r16", "r16e", "r32", "n16", "un"}, ram : {0, 16, 32, 64, -16, -1},
                   entry : {"TdxPolicy", "TdxValidate", "cli_tdx"}, base : {"none", "mixed"}] :
              r.entry = "cli_tdx" => r.base = "none"}

MName(c) == IF c = 1 THEN "m1" ELSE IF c = 2 THEN "m2" ELSE "m4"
\* value listed for count c ("" = a zero-length entry)
Value(r, c) == IF c = 2 /\ r.short2 THEN "" ELSE MName(c)

\* ---- what the endorsement lists (48-byte values only) ----
SnpListed(r) == ({Value(r, c) : c \in r.listed} \ {""}) \cup (IF r.svsm THEN {"ms"} ELSE {})
SnpListedFor(r, n) ==
  (IF n \in r.listed /\ Value(r, n) # "" THEN {Value(r, n)} ELSE {}) \cup (IF n = 1 /\ r.svsm THEN {"ms"} ELSE {})
TdxListed(r) == r.rows
TdxListedFor(r, ram) == IF ram = 0 THEN r.rows ELSE {id \in r.rows : RamOf(id) = ram}

\* ---- verify.SNP ----
VerifySNP(r, req) ==
  IF req # 0
    THEN \* an endorsement whose table is empty is refused before the SVSM value is consulted
         r.listed # {} /\
         LET inTable == req \in r.listed
             useSvsm == req = 1 /\ r.svsm /\ (~inTable \/ r.meas = "ms")
             measure == IF useSvsm THEN "ms" ELSE IF inTable THEN Value(r, req) ELSE "none"
         IN measure # "none" /\ measure = r.meas
    ELSE r.meas \in SnpListed(r)

\* ---- SevValidate: SevPolicy(LaunchVmsas) + go-sev-guest measurement check + validator closure ----
SevValidate(r, req) ==
  /\ r.meas \notin {"short", "nomeas"}                  \* validator's length gate
  /\ req # 0 => /\ req \in r.listed                      \* SevPolicy needs a table entry for the count
                /\ Value(r, req) # "" /\ Value(r, req) = r.meas   \* policy measurement (an empty entry is refused)
  /\ VerifySNP(r, req)

SnpAccept(r) ==
  LET digestOK == r.digest \notin {"diff", "absent"} IN
  CASE r.entry = "SNP" -> VerifySNP(r, r.req)
    [] r.entry = "EndorsementProto" -> digestOK /\ VerifySNP(r, r.req)
    [] r.entry = "SNPFunc" -> r.meas \notin {"short", "nomeas"} /\ digestOK /\ VerifySNP(r, r.req)
    [] r.entry = "SevValidate" -> SevValidate(r, r.req)
    [] r.entry = "cli_sev" -> SevValidate(r, IF Design = "legacy_cli" THEN 0 ELSE r.req)

\* ---- TdxPolicy + go-tdx-guest allow-list ----
TdxAccept(r) ==
  LET ram == IF r.entry = "cli_tdx" /\ Design = "legacy_cli" THEN 0 ELSE r.ram
      cand == TdxListedFor(r, ram)
      \* the zero-length row (RAM 16) is in the allow-list of the legacy design when it matches
      emptyIn == r.emptyrow /\ ram \in {0, 16}
  IN IF r.base = "mixed" THEN FALSE                                      \* "already has any_mr_td": refused without overwrite
     ELSE IF Design = "legacy_tdx"
       THEN (cand = {} /\ ~emptyIn) \/ emptyIn \/ r.mrtd \in cand      \* empty list / empty entry = unchecked
       ELSE cand # {} /\ r.mrtd \in cand

Accept(r) == IF r.tech = "snp" THEN SnpAccept(r) ELSE TdxAccept(r)

Init == row \in SnpRows \cup TdxRows /\ result = "none"
Decide == result = "none" /\ result' = (IF Accept(row) THEN "accept" ELSE "reject") /\ UNCHANGED row
Spec == Init /\ [][Decide]_vars

DigestApplies(r) == r.tech = "snp" /\ r.entry \in {"EndorsementProto", "SNPFunc"}
C02_Listed ==
  result = "accept" => IF row.tech = "snp" THEN row.meas \in SnpListed(row) ELSE row.mrtd \in TdxListed(row)
C02_ForNamedConfig ==
  result = "accept" =>
    IF row.tech = "snp" THEN row.req # 0 => row.meas \in SnpListedFor(row, row.req)
    ELSE row.ram # 0 => row.mrtd \in TdxListedFor(row, row.ram)
C02_DigestMatches == result = "accept" /\ DigestApplies(row) => row.digest \notin {"diff", "absent"}
C02_UnlistedConfigRejected ==
  result # "none" =>
    IF row.tech = "snp" THEN (row.req # 0 /\ SnpListedFor(row, row.req) = {} => result = "reject")
    ELSE (TdxListedFor(row, row.ram) = {} => result = "reject")

Emit == result # "none" => PrintT(<<"VCASE", ToJson([row |-> row, result |-> result])>>)
=============================================================================
