----------------------------- MODULE MeasureSnp -----------------------------
(***************************************************************************)
(* C04: the SEV-SNP launch measurement as a sequence of SNP_LAUNCH_UPDATE  *)
(* operations.  A firmware description is: ROM size in pages, the declared *)
(* SNP metadata sections (kind, address, length -- in page units, with     *)
(* explicit "unaligned" / "zero" classes), the launch vCPU count and the   *)
(* product.  Ops(fw) is the operation sequence the AMD ABI definition      *)
(* prescribes: ROM pages as NORMAL ascending up to 4 GiB, then every       *)
(* declared section in declared order as UNMEASURED / SECRETS / CPUID /    *)
(* ZERO pages, then one VMSA page per vCPU at the product's top page.      *)
(* Malformed(fw) is the declarative rejection rule.  The byte layouts      *)
(* (PAGE_INFO, VMSA) and the reset-state values live in Abi.tla / below as *)
(* data; the harness interprets them to compute the expected digest.       *)
(***************************************************************************)
EXTENDS Integers, Sequences, FiniteSets, TLC, Json

CONSTANTS Kinds, Addrs, Lens, MaxSecs, Vcpus, Roms, Bases, Metas

VARIABLES fw
vars == <<fw>>

\* addresses / lengths are page units; values >= 90 stand for "not page aligned", length 0 = empty
Unal(x) == x >= 90
Sec == [kind : Kinds, addr : Addrs, len : Lens]
SecLists == UNION {[1 .. n -> Sec] : n \in 0 .. MaxSecs}
\* rom: ROM size in pages; base: where page unit 0 of the section addresses lies ("high": just below
\* the ROM's own range, as in the repository's fixtures; "zero": guest-physical address 0, so that a
\* section at address unit 0 sits at GPA 0 -- a legal address like any other)
\* meta: where in the image the metadata header and its section descriptors lie (the GUID table names
\* the place by its distance from the end of the image): 0 = at byte 0, 1 = inside the first page, 2 = in
\* the last page; the measurement does not depend on it
Fws == [rom : Roms, secs : SecLists, vcpus : Vcpus, product : {"Milan", "Genoa"}, base : Bases, meta : Metas]

PageTypeOf(k) == CASE k = 1 -> "UNMEASURED" [] k = 2 -> "SECRETS" [] k = 3 -> "CPUID" [] k = 4 -> "ZERO" [] OTHER -> "?"

Pages(s) == IF Unal(s.addr) \/ Unal(s.len) \/ s.len = 0 THEN {} ELSE s.addr .. s.addr + s.len - 1
Malformed(f) ==
  LET S == f.secs
      idx == DOMAIN S
  IN \/ \E i \in idx : S[i].len = 0 \/ Unal(S[i].len)                   \* empty or misaligned length
     \/ \E i \in idx : Unal(S[i].addr)                                 \* misaligned address
     \/ \E i \in idx : S[i].kind \notin {1, 2, 3, 4}                   \* unknown kind
     \/ \E i, j \in idx : i # j /\ S[i].kind = S[j].kind /\ S[i].kind \in {2, 3}   \* duplicate secrets / CPUID
     \/ \E k \in {1, 2, 3} : ~\E i \in idx : S[i].kind = k             \* missing mandatory kind
     \/ \E i, j \in idx : i # j /\ Pages(S[i]) \cap Pages(S[j]) # {}   \* overlap

RECURSIVE SecOps(_)
SecOps(S) ==
  IF S = <<>> THEN <<>>
  ELSE [p \in 1 .. Head(S).len |-> [t |-> PageTypeOf(Head(S).kind), where |-> "sec", page |-> Head(S).addr + p - 1]] \o SecOps(Tail(S))
Ops(f) ==
  [p \in 1 .. f.rom |-> [t |-> "NORMAL", where |-> "rom", page |-> p - 1]]
  \o SecOps(f.secs)
  \o [v \in 1 .. f.vcpus |-> [t |-> "VMSA", where |-> IF v = 1 THEN "bsp" ELSE "ap", page |-> 0]]

\* the reset state of the boot processor (values of the non-zero VMSA fields); APs differ in rip / cs.base
VmsaTemplate == [
  es |-> [attrib |-> "0x93", limit |-> "0xffff"], cs |-> [selector |-> "0xf000", attrib |-> "0x9b", limit |-> "0xffff", base |-> "0xffff0000"],
  ss |-> [attrib |-> "0x93", limit |-> "0xffff"], ds |-> [attrib |-> "0x93", limit |-> "0xffff"], fs |-> [attrib |-> "0x93", limit |-> "0xffff"],
  gs |-> [attrib |-> "0x93", limit |-> "0xffff"], gdtr |-> [limit |-> "0xffff"], ldtr |-> [attrib |-> "0x82", limit |-> "0xffff"],
  idtr |-> [limit |-> "0xffff"], tr |-> [attrib |-> "0x8b", limit |-> "0xffff"],
  efer |-> "0x1000", cr0 |-> "0x10", cr4 |-> "0x40", dr6 |-> "0xffff0ff0", dr7 |-> "0x400", rip |-> "0xfff0", rflags |-> "0x2", g_pat |-> "0x70106",
  rdx |-> "0x600", xcr0 |-> "0x1", sev_features |-> "0x1"]
PageTypeCode == [NORMAL |-> 1, VMSA |-> 2, ZERO |-> 3, UNMEASURED |-> 4, SECRETS |-> 5, CPUID |-> 6]
ProductBits == [Milan |-> 48, Genoa |-> 52]

Init == fw \in Fws
Next == UNCHANGED fw
Spec == Init /\ [][Next]_vars

\* structural sanity of the definition itself
C04_OrderRomSectionsVmsas ==
  ~Malformed(fw) =>
    LET o == Ops(fw) IN
    /\ \A i \in 1 .. Len(o) - 1 : (o[i].where = "sec" => o[i + 1].where # "rom") /\ (o[i].where \in {"bsp", "ap"} => o[i + 1].where = "ap")
    /\ Len(o) = fw.rom + fw.vcpus + Cardinality(UNION {Pages(fw.secs[i]) : i \in DOMAIN fw.secs})
C04_AcceptedHaveMandatory == ~Malformed(fw) => \A k \in {1, 2, 3} : \E i \in DOMAIN fw.secs : fw.secs[i].kind = k

Emit == PrintT(<<"VCASE", ToJson([fw |-> fw, malformed |-> Malformed(fw), ops |-> IF Malformed(fw) THEN <<>> ELSE Ops(fw)])>>)
EmitConst == PrintT(<<"VEDGE", ToJson([template |-> VmsaTemplate, types |-> PageTypeCode, bits |-> ProductBits])>>)
ASSUME EmitConst
=============================================================================
