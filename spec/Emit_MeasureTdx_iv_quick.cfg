CONSTANTS
  LineLen = 7
  FourGiB = 4
  MaxBanks = 2
  MaxSecs = 2
  Part = "intervals"
SPECIFICATION Spec
INVARIANTS C05_UnacceptedSound C05_ExtendRule Emit
CHECK_DEADLOCK FALSE
