CONSTANTS Design = "repaired"
SPECIFICATION Spec
INVARIANTS C17_NoWeakening C17_NoWeakeningTdx C17_FromEndorsement C17_NoBaseMeansEndorsement Emit
PROPERTIES C17_BaseUntouched
CHECK_DEADLOCK FALSE
