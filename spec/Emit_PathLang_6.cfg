CONSTANTS
  MaxLen = 6
  Roots = {"Test", "Golden"}
SPECIFICATION Spec
INVARIANTS C19_PathWellTyped C19_EndsInPathOrError Emit
CHECK_DEADLOCK FALSE
