-------------------------------- MODULE Kms --------------------------------
(***************************************************************************)
(* C20: the Cloud KMS client loops of keys/gcpkms.                         *)
(* A key has a list of versions with states; the service pages listings    *)
(* under any legal pagination: a page holds 1..PageSize of the remaining   *)
(* items (possibly fewer than PageSize although more remain), and the      *)
(* next-page token is empty exactly on the page that reaches the end.      *)
(* mode "wipe"  : Manager.wipeoutKey over one key                          *)
(* mode "getver": getEnabledOrPendingKeyVersion (bootstrap)                *)
(* mode "poll"  : waitForKeyVersionGen (bootstrap / rotation)              *)
(* mode "sign"  : Signer.Sign response checks                              *)
(* Design "token" follows the next-page token until it is empty;           *)
(* "shortpage" (pinned tree before the repair) stops on a short page and   *)
(* otherwise continues with whatever token it got.                         *)
(***************************************************************************)
EXTENDS Integers, Sequences, FiniteSets, TLC, Json

CONSTANTS MaxVersions, PageSize, MaxPolls, MaxEmpty, Design, Modes   \* MaxEmpty: empty pages that still carry a continuation token, per listing

VARIABLES mode, vers, cursor, seen, calls, pend, pc, ret, hist, flags, empties
vars == <<mode, vers, cursor, seen, calls, pend, pc, ret, hist, flags, empties>>
view == <<mode, vers, cursor, seen, calls, pend, pc, ret, flags, empties>>

States == {"ENABLED", "DISABLED", "DESTROYED", "DESTROY_SCHEDULED", "PENDING_GENERATION", "GENERATION_FAILED"}
Destroyable(s) == s \in {"ENABLED", "DISABLED"}
SeqsUpTo(S, n) == UNION {[1 .. k -> S] : k \in 0 .. n}
Min(a, b) == IF a < b THEN a ELSE b

SignOpts == {"pss256salt32", "pss256saltauto", "pss384", "pkcs1"}
SignFlags == [opts : SignOpts, sigcrc : BOOLEAN, vdata : BOOLEAN, vdigest : BOOLEAN, svcerr : BOOLEAN]
NoFlags == [opts : {"pss256salt32"}, sigcrc : {TRUE}, vdata : {TRUE}, vdigest : {TRUE}, svcerr : {FALSE}]

Init ==
  /\ mode \in Modes
  /\ IF mode \in {"wipe", "getver"} THEN vers \in SeqsUpTo(States, MaxVersions)
     ELSE IF mode = "poll" THEN vers \in [1 .. 1 -> {"PENDING_GENERATION", "ENABLED", "GENERATION_FAILED", "DISABLED"}]
     ELSE vers = <<>>
  /\ flags \in (IF mode = "sign" THEN SignFlags ELSE NoFlags)
  /\ cursor = 0 /\ seen = {} /\ calls = 0 /\ pend = 0 /\ pc = "loop" /\ ret = "none" /\ hist = <<>> /\ empties = 0

Log(e) == hist' = Append(hist, e)

(***************************************************************************)
(* One listing call and the client's processing of the page.               *)
(***************************************************************************)
ListPage ==
  /\ mode \in {"wipe", "getver"} /\ pc = "loop"
  /\ calls' = calls + 1
  /\ \/ \* the service fails this call
        /\ pc' = "done" /\ ret' = "err"
        /\ Log([op |-> "ListErr", n |-> 0])
        /\ UNCHANGED <<vers, cursor, seen, pend, empties>>
     \/ \* a legal empty page: no items, but a continuation token (the listing is not finished)
        /\ cursor < Len(vers) /\ empties < MaxEmpty
        /\ empties' = empties + 1
        /\ Log([op |-> "ListEmpty", n |-> 0])
        /\ IF Design = "token" THEN pc' = "loop" /\ ret' = ret
           ELSE pc' = "done" /\ ret' = (IF mode = "wipe" THEN "ok" ELSE IF pend # 0 THEN "pending" ELSE "none_found")   \* n < PageSize: stops
        /\ UNCHANGED <<vers, cursor, seen, pend>>
     \/ \E n \in (IF cursor = Len(vers) THEN {0} ELSE 1 .. Min(PageSize, Len(vers) - cursor)) :
          LET page == cursor + 1 .. cursor + n
              last == cursor + n = Len(vers)          \* the service's token is empty iff last
              firstEnabled == {i \in page : vers[i] = "ENABLED"}
              pendingOn == {i \in page : vers[i] = "PENDING_GENERATION"}
              maxOf(S) == CHOOSE x \in S : \A y \in S : y <= x
              minOf(S) == CHOOSE x \in S : \A y \in S : x <= y
          IN
          /\ UNCHANGED empties
          /\ Log([op |-> "List", n |-> n])
          /\ seen' = seen \cup page
          /\ IF mode = "wipe"
               THEN /\ vers' = [i \in DOMAIN vers |-> IF i \in page /\ Destroyable(vers[i]) THEN "DESTROY_SCHEDULED" ELSE vers[i]]
                    /\ UNCHANGED pend
               ELSE /\ UNCHANGED vers
                    /\ pend' = IF pendingOn # {} THEN maxOf(pendingOn) ELSE pend
          /\ IF mode = "getver" /\ Len(vers) = 0
               THEN pc' = "done" /\ ret' = "err" /\ UNCHANGED cursor        \* "missing initial version"
             ELSE IF mode = "getver" /\ firstEnabled # {}
               THEN pc' = "done" /\ ret' = "enabled" /\ UNCHANGED cursor
             ELSE LET stop == IF Design = "token" THEN last ELSE n < PageSize
                  IN IF stop
                       THEN /\ pc' = "done" /\ UNCHANGED cursor
                            /\ ret' = IF mode = "wipe" THEN "ok"
                                      ELSE IF pend' # 0 THEN "pending" ELSE "none_found"
                       ELSE /\ pc' = "loop" /\ ret' = ret
                            /\ cursor' = IF last THEN 0 ELSE cursor + n   \* empty token = start over
  /\ UNCHANGED <<mode, flags>>

(***************************************************************************)
(* Polling a pending version; the service may finish or fail generation.   *)
(***************************************************************************)
Poll ==
  /\ mode = "poll" /\ pc = "loop" /\ calls < MaxPolls
  /\ calls' = calls + 1
  /\ \/ /\ pc' = "done" /\ ret' = "err" /\ Log([op |-> "GetErr", n |-> 0]) /\ UNCHANGED vers
     \/ \E s \in (IF vers[1] = "PENDING_GENERATION" THEN {"PENDING_GENERATION", "ENABLED", "GENERATION_FAILED"} ELSE {vers[1]}) :
          /\ vers' = [vers EXCEPT ![1] = s]
          /\ Log([op |-> "Get", n |-> 0, state |-> s])
          /\ IF s = "ENABLED" THEN pc' = "done" /\ ret' = "enabled"
             ELSE IF s = "PENDING_GENERATION" THEN pc' = "loop" /\ ret' = ret
             ELSE pc' = "done" /\ ret' = "err"
  /\ UNCHANGED <<mode, cursor, seen, pend, flags, empties>>

(***************************************************************************)
(* Signer.Sign                                                             *)
(***************************************************************************)
SignStep ==
  /\ mode = "sign" /\ pc = "loop"
  /\ pc' = "done"
  /\ ret' = IF flags.opts # "pss256salt32" THEN "err:opts"
            ELSE IF flags.svcerr THEN "err:service"
            ELSE IF ~flags.sigcrc THEN "err:sigcrc"
            ELSE IF ~flags.vdata THEN "err:vdata"
            ELSE IF ~flags.vdigest THEN "err:vdigest"
            ELSE "signature"
  /\ Log([op |-> "Sign", n |-> 0])
  /\ calls' = calls + 1
  /\ UNCHANGED <<mode, vers, cursor, seen, pend, flags, empties>>

(***************************************************************************)
(* Wipeout: the service refuses to destroy one version of the page being   *)
(* processed (any error): the versions before it on the page are already   *)
(* scheduled for destruction, the wipeout reports the error and stops --   *)
(* it never reports success while a version it was refused stays usable.   *)
(***************************************************************************)
WipeDestroyErr ==
  /\ mode = "wipe" /\ pc = "loop" /\ cursor < Len(vers)
  /\ calls' = calls + 1
  /\ \E n \in 1 .. Min(PageSize, Len(vers) - cursor) :
       LET page == cursor + 1 .. cursor + n
           dest == {i \in page : Destroyable(vers[i])}
       IN \E k \in dest :
            /\ vers' = [i \in DOMAIN vers |-> IF i \in dest /\ i < k THEN "DESTROY_SCHEDULED" ELSE vers[i]]
            /\ seen' = seen \cup page
            /\ hist' = Append(Append(hist, [op |-> "List", n |-> n]), [op |-> "DestroyErr", n |-> k])
  /\ pc' = "done" /\ ret' = "err"
  /\ UNCHANGED <<mode, flags, cursor, pend, empties>>

Next == ListPage \/ Poll \/ SignStep \/ WipeDestroyErr
Spec == Init /\ [][Next]_vars /\ WF_vars(Next)

(***************************************************************************)
(* C20                                                                     *)
(***************************************************************************)
C20_Terminates == <>(pc = "done" \/ (mode = "poll" /\ calls = MaxPolls))
C20_CallBound == mode \in {"wipe", "getver"} => calls <= Len(vers) + 1 + MaxEmpty
C20_WipeoutComplete ==
  mode = "wipe" /\ pc = "done" /\ ret = "ok" =>
     /\ seen = DOMAIN vers
     /\ \A i \in DOMAIN vers : ~Destroyable(vers[i])
C20_BootstrapSelects ==
  mode = "getver" /\ pc = "done" =>
     /\ ret = "enabled" => \E i \in seen : vers[i] = "ENABLED"
     /\ ret = "pending" => vers[pend] = "PENDING_GENERATION" /\ seen = DOMAIN vers /\ ~\E i \in DOMAIN vers : vers[i] = "ENABLED"
     /\ ret = "none_found" => seen = DOMAIN vers /\ ~\E i \in DOMAIN vers : vers[i] \in {"ENABLED", "PENDING_GENERATION"}
C20_PollReturnsEnabledOnly == mode = "poll" /\ ret = "enabled" => vers[1] = "ENABLED"
C20_SignChecked ==
  mode = "sign" /\ ret = "signature" =>
     flags.opts = "pss256salt32" /\ flags.sigcrc /\ flags.vdata /\ flags.vdigest /\ ~flags.svcerr

Emit == pc = "done" => PrintT(<<"VCASE", ToJson([mode |-> mode, flags |-> flags, hist |-> hist, ret |-> ret, final |-> vers])>>)
=============================================================================
