------------------------- MODULE EndorseCommitCore -------------------------
(***************************************************************************)
(* endorse.VirtualFirmware after the measurement has been computed:        *)
(* sign (CA + Signer calls), then the commit retry loop of                 *)
(* endorse/commit.go (RetrySubmit / tryChange / changeEndorsements /       *)
(* snapshotEndorsement) against a version-control backend with optimistic  *)
(* concurrency (a commit conflicts when the head moved since the workspace *)
(* was created).  One action per interface call the real code makes        *)
(* (VersionControl, ChangeOps, CertificateAuthority, Signer); `ev` is the  *)
(* event the recording doubles log for that call, so the same module is    *)
(* used for exhaustive checking, behaviour generation and trace validation.*)
(*                                                                         *)
(* Decides C14 (bounded / fresh / honest retries, no lost update) and C15  *)
(* (dry-run and measurement-only runs have no side effects, do not panic). *)
(***************************************************************************)
EXTENDS Integers, Sequences, FiniteSets, TLC

CONSTANTS
  MaxRetries,   \* retry budgets explored: -1 .. MaxRetries
  MaxOthers,    \* how many commits a concurrent writer may make
  Design        \* "repaired" | "legacy_dryrun" | "cached_manifest" (negative controls)

VARIABLES
  cfg,        \* [retries, dryRun, measOnly, snapshot, exists0, overwrite]
  pc,         \* program counter of the endorse run
  attempt,    \* number of tryChange calls started
  tries,      \* RetrySubmit's failure counter
  head,       \* committed state: [man : set of entry names, endo : "none"|"old"|"mine", snap : BOOLEAN]
  ws,         \* current workspace: [id, base, cur, readMan] or NoWs
  created,    \* ids of workspaces ever created
  destroyed,  \* ids of workspaces destroyed
  lastErr,    \* "none" | "retriable" | "permanent" : kind of the error that ended the last attempt
  ret,        \* "none" | "ok" | "err" | "noretries" | "panic"
  nResults,   \* VCS.Result calls
  nCommits,   \* successful TryCommit calls
  others,     \* entries committed by the concurrent writer
  cached,     \* manifest remembered across attempts (only used by Design = "cached_manifest")
  effects,    \* set of side-effect classes performed so far
  ev,         \* event record of the last step (what the recording doubles log)
  hist        \* sequence of events so far

vars == <<cfg, pc, attempt, tries, head, ws, created, destroyed, lastErr, ret, nResults,
          nCommits, others, cached, effects, ev, hist>>
\* everything except the observation-only variables
view == <<cfg, pc, attempt, tries, head, ws, created, destroyed, lastErr, ret, nResults,
          nCommits, others, cached, effects>>

NoWs == [id |-> 0, base |-> [man |-> {}, endo |-> "none", snap |-> FALSE],
         cur |-> [man |-> {}, endo |-> "none", snap |-> FALSE], readMan |-> FALSE]
Kinds == {"retriable", "permanent"}
Max(a, b) == IF a > b THEN a ELSE b

Ev(op, w, out) == [op |-> op, ws |-> w, out |-> out]
Step(e) == /\ ev' = e
           /\ hist' = Append(hist, e)

Cfgs == [retries : -1 .. MaxRetries, dryRun : BOOLEAN, measOnly : BOOLEAN,
         snapshot : BOOLEAN, exists0 : BOOLEAN, overwrite : BOOLEAN]

InitWith(c) ==
  /\ cfg = c
  /\ pc = IF cfg.measOnly THEN "print" ELSE "caprimary"
  /\ attempt = 0 /\ tries = 0
  /\ head = [man |-> IF cfg.exists0 THEN {"old"} ELSE {},
             endo |-> IF cfg.exists0 THEN "old" ELSE "none", snap |-> FALSE]
  /\ ws = NoWs /\ created = {} /\ destroyed = {}
  /\ lastErr = "none" /\ ret = "none" /\ nResults = 0 /\ nCommits = 0
  /\ others = {} /\ cached = {} /\ effects = {}
  /\ ev = Ev("Init", 0, "ok") /\ hist = <<>>

Init == \E c \in Cfgs : InitWith(c)

(***************************************************************************)
(* Signing phase.                                                          *)
(***************************************************************************)
PrintMeas ==
  /\ pc = "print"
  /\ pc' = "return" /\ ret' = "ok"
  /\ effects' = effects \cup {"print"}
  /\ Step(Ev("Print", 0, "ok"))
  /\ UNCHANGED <<cfg, attempt, tries, head, ws, created, destroyed, lastErr, nResults,
                 nCommits, others, cached>>

\* A CA / signer call: ok moves on, a failure ends the run with an error.
KeyCall(at, op, eff, next) ==
  /\ pc = at
  /\ effects' = effects \cup {eff}
  /\ \/ /\ pc' = next /\ ret' = ret
        /\ Step(Ev(op, 0, "ok"))
     \/ \E k \in Kinds :
        /\ pc' = "return" /\ ret' = "err"
        /\ Step(Ev(op, 0, k))
  /\ UNCHANGED <<cfg, attempt, tries, head, ws, created, destroyed, lastErr, nResults,
                 nCommits, others, cached>>

CAPrimary == KeyCall("caprimary", "CAPrimary", "ca", "cacert")
CACert    == KeyCall("cacert", "CACert", "ca", "cabundle")
CABundle  == KeyCall("cabundle", "CABundle", "ca", "sign")
Sign      == KeyCall("sign", "Sign", "signer", "loop")

(***************************************************************************)
(* tryChange                                                               *)
(***************************************************************************)
\* An attempt ends with an error of kind k after destroying the workspace (if there is one).
FailAttempt(k) ==
  /\ lastErr' = k
  /\ pc' = IF ws'.id # 0 THEN "destroy" ELSE "failed"

\* tryChange begins.  Dry run: no workspace is created; the change function runs against a
\* no-op file abstraction, nothing is observable until Result (repaired design); the legacy design
\* calls ReadFile on the nil workspace and panics.
BeginDry ==
  /\ pc = "loop" /\ cfg.dryRun
  /\ attempt' = attempt + 1
  /\ IF Design = "legacy_dryrun"
       THEN /\ pc' = "return" /\ ret' = "panic"
            /\ Step(Ev("Panic", 0, "nil workspace"))
            /\ UNCHANGED <<nResults>>
       ELSE /\ pc' = "return" /\ ret' = "ok"
            /\ nResults' = nResults + 1
            /\ Step(Ev("Result", 0, "ok"))
  /\ effects' = effects \cup {"result"}
  /\ UNCHANGED <<cfg, tries, head, ws, created, destroyed, lastErr, nCommits, others, cached>>

GetOps ==
  /\ pc = "loop" /\ ~cfg.dryRun
  /\ attempt' = attempt + 1
  /\ effects' = effects \cup {"workspace"}
  /\ \/ LET id == Cardinality(created) + 1 IN
        /\ ws' = [id |-> id, base |-> head, cur |-> head, readMan |-> FALSE]
        /\ created' = created \cup {id}
        /\ pc' = IF cfg.snapshot THEN "snapw1" ELSE "readman"
        /\ lastErr' = lastErr
        /\ Step(Ev("GetOps", id, "ok"))
     \/ \E k \in Kinds :
        /\ ws' = NoWs /\ created' = created
        /\ FailAttempt(k)
        /\ Step(Ev("GetOps", 0, k))
  /\ UNCHANGED <<cfg, tries, head, destroyed, ret, nResults, nCommits, others, cached>>

\* A fallible file operation in the current workspace: ok applies `upd` to the working copy.
FileOp(at, op, okOut, next, newCur, eff) ==
  /\ pc = at
  /\ effects' = effects \cup eff
  /\ \/ /\ ws' = [ws EXCEPT !.cur = newCur]
        /\ pc' = next /\ lastErr' = lastErr
        /\ Step(Ev(op, ws.id, okOut))
     \/ \E k \in Kinds :
        /\ ws' = ws
        /\ FailAttempt(k)
        /\ Step(Ev(op, ws.id, k))
  /\ UNCHANGED <<cfg, attempt, tries, head, created, destroyed, ret, nResults, nCommits, others, cached>>

\* changeEndorsements: the manifest is read from this attempt's workspace.
ReadMan ==
  /\ pc = "readman"
  /\ \/ /\ ws' = [ws EXCEPT !.readMan = TRUE]
        /\ cached' = IF Design = "cached_manifest" /\ attempt > 1 THEN cached ELSE ws.cur.man
        /\ pc' = "exists" /\ lastErr' = lastErr
        /\ Step(Ev("ReadMan", ws.id, IF ws.cur.man = {} THEN "notfound" ELSE "ok"))
     \/ \E k \in Kinds :
        /\ ws' = ws /\ cached' = cached
        /\ FailAttempt(k)
        /\ Step(Ev("ReadMan", ws.id, k))
  /\ UNCHANGED <<cfg, attempt, tries, head, created, destroyed, ret, nResults, nCommits, others, effects>>

\* defaultGenerateBasename: existence check of the endorsement file, gated by overwrite.
Exists ==
  /\ pc = "exists"
  /\ \/ /\ ws' = ws
        /\ IF ws.cur.endo # "none" /\ ~cfg.overwrite
             THEN FailAttempt("permanent")    \* "cannot overwrite existing file"
             ELSE pc' = "wendo" /\ lastErr' = lastErr
        /\ Step(Ev("Exists", ws.id, IF ws.cur.endo # "none" THEN "found" ELSE "notfound"))
     \/ \E k \in Kinds :
        /\ ws' = ws
        /\ FailAttempt(k)
        /\ Step(Ev("Exists", ws.id, k))
  /\ UNCHANGED <<cfg, attempt, tries, head, created, destroyed, ret, nResults, nCommits, others, cached, effects>>

WriteEndo == FileOp("wendo", "WriteEndo", "ok", "chmod", [ws.cur EXCEPT !.endo = "mine"], {"write"})
Chmod     == FileOp("chmod", "Chmod", "ok", "wman", ws.cur, {"chmod"})
\* the manifest written is the one read in this attempt plus the new entry
ManifestToWrite == ((IF Design = "cached_manifest" THEN cached ELSE ws.cur.man) \ {"old"}) \cup {"mine"}
WriteMan  == FileOp("wman", "WriteMan", "ok", "commit", [ws.cur EXCEPT !.man = ManifestToWrite], {"write"})

\* snapshotEndorsement: signature file, chmod, firmware + events, chmod, chmod; no manifest.
SnapW1 == FileOp("snapw1", "WriteSig", "ok", "snapc1", [ws.cur EXCEPT !.snap = TRUE], {"write"})
SnapC1 == FileOp("snapc1", "Chmod", "ok", "snapw2", ws.cur, {"chmod"})
SnapW2 == FileOp("snapw2", "WriteFw", "ok", "snapc2", ws.cur, {"write"})
SnapC2 == FileOp("snapc2", "Chmod", "ok", "snapc3", ws.cur, {"chmod"})
SnapC3 == FileOp("snapc3", "Chmod", "ok", "commit", ws.cur, {"chmod"})

\* TryCommit: conflicts (retriably) when the head moved since the workspace was created.
Commit ==
  /\ pc = "commit"
  /\ effects' = effects \cup {"commit"}
  /\ IF head # ws.base
       THEN /\ ws' = ws /\ FailAttempt("retriable")
            /\ Step(Ev("Commit", ws.id, "conflict"))
            /\ UNCHANGED <<head, nCommits>>
       ELSE \/ /\ head' = ws.cur /\ nCommits' = nCommits + 1
               /\ pc' = "result" /\ lastErr' = lastErr /\ ws' = ws
               /\ Step(Ev("Commit", ws.id, "ok"))
            \/ \E k \in Kinds :
               /\ ws' = ws /\ FailAttempt(k)
               /\ Step(Ev("Commit", ws.id, k))
               /\ UNCHANGED <<head, nCommits>>
  /\ UNCHANGED <<cfg, attempt, tries, created, destroyed, ret, nResults, others, cached>>

Destroy ==
  /\ pc = "destroy"
  /\ destroyed' = destroyed \cup {ws.id}
  /\ pc' = "failed"
  /\ Step(Ev("Destroy", ws.id, "ok"))
  /\ UNCHANGED <<cfg, attempt, tries, head, ws, created, lastErr, ret, nResults, nCommits, others, cached, effects>>

Result ==
  /\ pc = "result"
  /\ nResults' = nResults + 1
  /\ effects' = effects \cup {"result"}
  /\ pc' = "return" /\ ret' = "ok"
  /\ Step(Ev("Result", 0, "ok"))
  /\ UNCHANGED <<cfg, attempt, tries, head, ws, created, destroyed, lastErr, nCommits, others, cached>>

(***************************************************************************)
(* RetrySubmit: after a failed attempt ask the backend whether the error   *)
(* is retriable; retry while the budget lasts.                             *)
(***************************************************************************)
AskRetriable ==
  /\ pc = "failed"
  /\ Step(Ev("Retriable", 0, IF lastErr = "retriable" THEN "true" ELSE "false"))
  /\ IF lastErr # "retriable"
       THEN pc' = "return" /\ ret' = "err" /\ tries' = tries
       ELSE /\ tries' = tries + 1
            /\ IF cfg.retries - tries' < 0
                 THEN pc' = "return" /\ ret' = "noretries"
                 ELSE pc' = "loop" /\ ret' = ret
  /\ UNCHANGED <<cfg, attempt, head, ws, created, destroyed, lastErr, nResults, nCommits, others, cached, effects>>

Return ==
  /\ pc = "return"
  /\ pc' = "done"
  /\ Step(Ev("Return", 0, ret))
  /\ UNCHANGED <<cfg, attempt, tries, head, ws, created, destroyed, lastErr, ret, nResults, nCommits, others, cached, effects>>

(***************************************************************************)
(* Environment: a concurrent writer commits its own entry to the head,     *)
(* either between attempts or while an attempt is in flight (right after   *)
(* its workspace was created).                                             *)
(***************************************************************************)
OtherName(n) == IF n = 0 THEN "o1" ELSE IF n = 1 THEN "o2" ELSE "o3"
Other ==
  /\ pc \in {"loop", "readman"} /\ ~cfg.dryRun
  /\ Cardinality(others) < MaxOthers
  /\ LET n == OtherName(Cardinality(others)) IN
     /\ others' = others \cup {n}
     /\ head' = [head EXCEPT !.man = @ \cup {n}]
     /\ Step(Ev("Other", 0, n))
  /\ UNCHANGED <<cfg, pc, attempt, tries, ws, created, destroyed, lastErr, ret, nResults, nCommits, cached, effects>>

Next ==
  \/ PrintMeas \/ CAPrimary \/ CACert \/ CABundle \/ Sign
  \/ BeginDry \/ GetOps \/ ReadMan \/ Exists \/ WriteEndo \/ Chmod \/ WriteMan
  \/ SnapW1 \/ SnapC1 \/ SnapW2 \/ SnapC2 \/ SnapC3
  \/ Commit \/ Destroy \/ Result \/ AskRetriable \/ Return \/ Other

Spec == Init /\ [][Next]_vars /\ WF_vars(Next)

(***************************************************************************)
(* C14                                                                     *)
(***************************************************************************)
C14_AttemptBound == attempt <= Max(1, cfg.retries + 1)

\* a further attempt starts only after an error the backend marked retriable
C14_RetryOnlyRetriable == [][attempt' > attempt /\ attempt >= 1 => lastErr = "retriable"]_vars

\* every attempt gets a workspace never used before
C14_FreshWorkspace == [][ws'.id # ws.id /\ ws'.id # 0 => ws'.id \notin created]_vars

\* the manifest that is written was read in this attempt's workspace, which was created from
\* the head of that moment
C14_ManifestReadInAttempt ==
  pc = "commit" /\ ~cfg.snapshot => ws.readMan /\ (ws.base.man \ {"old"}) \subseteq ws.cur.man

\* the workspace of every failed attempt is released before the next attempt or the return
C14_Released ==
  pc \in {"loop", "return", "done"} =>
    created \ destroyed \subseteq (IF nCommits = 1 THEN {ws.id} ELSE {})

C14_Honest ==
  pc = "done" /\ ~cfg.dryRun /\ ~cfg.measOnly /\ ret # "panic" =>
    /\ (ret = "ok") = (nCommits = 1)
    /\ nCommits <= 1
    /\ nResults = nCommits

\* Result is recorded only after the commit succeeded
C14_ResultAfterCommit == [][nResults' > nResults /\ ~cfg.dryRun => nCommits = 1]_vars

\* entries committed concurrently by someone else are never dropped
C14_NoLostUpdate == others \subseteq head.man

C14_MineCommitted ==
  pc = "done" /\ ret = "ok" /\ ~cfg.dryRun /\ ~cfg.measOnly =>
     IF cfg.snapshot THEN head.snap ELSE "mine" \in head.man /\ head.endo = "mine"

\* without overwrite permission an existing endorsement file is never replaced (C13 clause)
C13_NoClobber == cfg.exists0 /\ ~cfg.overwrite => head.endo = "old"

C14_Terminates == <>(pc = "done")

(***************************************************************************)
(* C15                                                                     *)
(***************************************************************************)
C15_DryRunNoEffects ==
  cfg.dryRun => effects \cap {"workspace", "write", "chmod", "commit"} = {}
C15_MeasOnlyNoEffects ==
  cfg.measOnly => effects \subseteq {"print"}
C15_NoPanic == ret # "panic"
C15_HeadUntouched == (cfg.dryRun \/ cfg.measOnly) => head = [man |-> IF cfg.exists0 THEN {"old"} ELSE {},
             endo |-> IF cfg.exists0 THEN "old" ELSE "none", snap |-> FALSE]

=============================================================================
