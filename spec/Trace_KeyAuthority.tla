------------------------- MODULE Trace_KeyAuthority -------------------------
(***************************************************************************)
(* Trace validation for KeyAuthority: trace.ndjson holds recorded          *)
(* executions of the real bootstrap / rotate / wipeout commands (events    *)
(* logged by the doubles around Manager, Signer and storage plus the       *)
(* driver's Cmd / Return / Endorse events), each introduced by a "Reset"   *)
(* line.  Unlogged parameters (certificate time, serial flags) are chosen  *)
(* by the specification's own actions.                                     *)
(***************************************************************************)
EXTENDS KeyAuthority

VARIABLE l
Trace == ndJsonDeserialize("trace.ndjson")

TraceInit == Trace[1].op = "Reset" /\ Init /\ l = 2

TraceReset ==
  /\ l <= Len(Trace) /\ Trace[l].op = "Reset"
  /\ pc = "idle"
  /\ live' = [n \in Names |-> 0] /\ gen' = 0
  /\ sman' = NoMan /\ spem' = NoCert /\ sobjs' = [o \in ObjIds |-> NoCert]
  /\ pc' = "idle" /\ regs' = NoRegs
  /\ ncmds' = 0 /\ naborts' = 0 /\ issued' = {} /\ everRot' = {} /\ boots' = 0
  /\ lastRet' = "none" /\ dirty' = FALSE
  /\ ev' = Ev("Init", "", "ok") /\ hist' = <<>>
  /\ l' = l + 1

TraceEvent ==
  /\ l <= Len(Trace) /\ Trace[l].op # "Reset"
  /\ Next
  /\ ev' = [op |-> Trace[l].op, arg |-> Trace[l].arg, out |-> Trace[l].out]
  /\ l' = l + 1

\* steps the doubles cannot log (an upload or a root-bundle write that --keep_going skips): taken
\* silently, without consuming a trace line; each one shrinks the pending set, so they are bounded
TraceSilent ==
  /\ l <= Len(Trace) /\ Trace[l].op # "Reset"
  /\ Next
  /\ ev'.op \in {"SkipObj", "SkipPem"}
  /\ UNCHANGED l

TraceNext == TraceReset \/ TraceEvent \/ TraceSilent

HighWater == TLCSet(1, IF TLCGet(1) > l THEN TLCGet(1) ELSE l)
TraceAccepted ==
  IF TLCGet(1) = Len(Trace) + 1 THEN TRUE
  ELSE PrintT(<<"VTRACE-REJECT", TLCGet(1)>>) /\ FALSE
ASSUME TLCSet(1, 0)
=============================================================================
