CONSTANTS
  M = 16
  Design = "guarded"
  Which = "sevmeta"
SPECIFICATION Spec
INVARIANTS Total MemSafe AllocBounded Terminates Emit
CHECK_DEADLOCK FALSE
