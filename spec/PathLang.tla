------------------------------ MODULE PathLang ------------------------------
(***************************************************************************)
(* C19: the field-path language of gcetcbendorsement/parsepath.            *)
(* The message types (the repository's test message and the golden         *)
(* measurement) are data; the parser of parse.go is transcribed as a       *)
(* token-by-token state machine keyed on the current descriptor; the       *)
(* property side is the declarative well-typedness of a produced path      *)
(* (WellTyped), which is what makes step-by-step evaluation meaningful.    *)
(* Tokens are abstract: identifiers by name, integer literals by class,    *)
(* two string literals, punctuation, an illegal character.                 *)
(***************************************************************************)
EXTENDS Integers, Sequences, FiniteSets, TLC, Json

CONSTANTS MaxLen, Roots

VARIABLES root, toks, state, desc, path, status
vars == <<root, toks, state, desc, path, status>>

\* ---- message types as data ----
F(n, k, kk, t) == [name |-> n, kind |-> k, key |-> kk, target |-> t]
Fields(ty) ==
  CASE ty = "Test" -> {F("nested", "msg", "", "Nested"), F("repeats", "list_msg", "", "Test"), F("int32repeats", "list_scalar", "", ""),
                       F("strkeymap", "map_msg", "string", "Nested"), F("boolkeymap", "map_msg", "bool", "Test"),
                       F("int32keymap", "map_msg", "int32", "Test"), F("int64keymap", "map_msg", "int64", "Test"),
                       F("uint32keymap", "map_msg", "uint32", "Test"), F("uint64keymap", "map_msg", "uint64", "Test")}
    [] ty = "Nested" -> {F("intfield", "scalar", "", ""), F("stringfield", "scalar", "", ""), F("bytesfield", "scalar", "", ""),
                         F("nested", "msg", "", "Test")}
    [] ty = "Golden" -> {F("timestamp", "msg", "", "Timestamp"), F("cl_spec", "scalar", "", ""), F("commit", "scalar", "", ""),
                         F("cert", "scalar", "", ""), F("digest", "scalar", "", ""), F("ca_bundle", "scalar", "", ""),
                         F("sev_snp", "msg", "", "SevSnp"), F("tdx", "msg", "", "Tdx")}
    [] ty = "SevSnp" -> {F("svn", "scalar", "", ""), F("measurements", "map_scalar", "uint32", ""), F("family_id", "scalar", "", ""),
                         F("image_id", "scalar", "", ""), F("policy", "scalar", "", ""), F("ca_bundle", "scalar", "", ""),
                         F("svsm_measurement", "scalar", "", "")}
    [] ty = "Tdx" -> {F("svn", "scalar", "", ""), F("measurements", "list_msg", "", "TdxMeas")}
    [] ty = "TdxMeas" -> {F("ram_gib", "scalar", "", ""), F("early_accept", "scalar", "", ""), F("mrtd", "scalar", "", "")}
    [] ty = "Timestamp" -> {F("seconds", "scalar", "", ""), F("nanos", "scalar", "", "")}
    [] OTHER -> {}
Types == {"Test", "Nested", "Golden", "SevSnp", "Tdx", "TdxMeas", "Timestamp"}
FieldNames == UNION {{f.name : f \in Fields(t)} : t \in Types}
HasField(ty, n) == \E f \in Fields(ty) : f.name = n
FieldOf(ty, n) == CHOOSE f \in Fields(ty) : f.name = n
\* qualified root names: fragments
QName(ty) == IF ty = "Test" THEN <<"testprotopath", "Test">> ELSE <<"cloud_vmm_proto", "VMGoldenMeasurement">>

\* ---- tokens ----
Idents == FieldNames \cup {"true", "false", "key", "value", "nosuchfield", "testprotopath", "Test", "cloud_vmm_proto", "VMGoldenMeasurement"}
Ints == {"0", "1", "-1", "017", "0x10", "2147483648", "-2147483649", "4294967296", "9223372036854775808", "99999999999999999999"}
Strs == {"a", "zz"}
Tok(k, t) == [k |-> k, t |-> t]
Tokens == {Tok("ident", i) : i \in Idents} \cup {Tok("int", i) : i \in Ints} \cup {Tok("str", s) : s \in Strs}
          \cup {Tok(p, "") : p \in {"dot", "obrack", "cbrack", "oparen", "cparen", "illegal"}}
Wordy(t) == t.k \in {"ident", "int"}

\* integer literal classes: does the literal fit the kind
IntVal(i) == CASE i = "0" -> 0 [] i = "1" -> 1 [] i = "-1" -> -1 [] i = "017" -> 15 [] i = "0x10" -> 16 [] OTHER -> 99
FitsKind(i, kind) ==
  CASE kind = "int32" -> i \in {"0", "1", "-1", "017", "0x10"}
    [] kind = "int64" -> i \in {"0", "1", "-1", "017", "0x10", "2147483648", "-2147483649", "4294967296"}
    [] kind = "uint32" -> i \in {"0", "1", "017", "0x10", "2147483648"}
    [] kind = "uint64" -> i \in {"0", "1", "017", "0x10", "2147483648", "4294967296", "9223372036854775808"}
    [] OTHER -> FALSE
FitsInt(i) == i \in {"0", "1", "-1", "017", "0x10", "2147483648", "-2147483649", "4294967296"}   \* parses as int64
Negative(i) == i \in {"-1", "-2147483649"}

\* ---- descriptors: the parser's cursor ----
DMsg(ty) == [d |-> "msg", ty |-> ty, f |-> F("", "", "", "")]
DField(ty, f) == [d |-> "field", ty |-> ty, f |-> f]
DNil == [d |-> "nil", ty |-> "", f |-> F("", "", "", "")]

Init ==
  /\ root \in Roots
  /\ toks = <<>> /\ state = "needRoot" /\ desc = DMsg(root) /\ path = <<>> /\ status = "ok"

Fail(why) == status' = why /\ UNCHANGED <<state, desc, path>>

\* accessIdent
AccessIdent(id) ==
  LET m == IF desc.d = "field"
             THEN (IF desc.f.kind \in {"msg", "list_msg", "map_msg", "map_scalar"} THEN "msgOf" ELSE "none")
             ELSE IF desc.d = "msg" THEN "self" ELSE "none"
      isMap == desc.d = "field" /\ desc.f.kind \in {"map_msg", "map_scalar"}
      \* fd.Message() of a map field is its entry message {key, value}; of a message/list field its target
      ty == IF desc.d = "msg" THEN desc.ty
            ELSE IF desc.d = "field" /\ desc.f.kind \in {"msg", "list_msg"} THEN desc.f.target ELSE ""
  IN IF desc.d = "field" /\ desc.f.kind \in {"list_msg", "list_scalar"} THEN Fail("err:needindex")   \* a list must be indexed first
     ELSE IF isMap /\ id \in {"key", "value"} THEN Fail("err:mapinternal")
     ELSE IF isMap THEN Fail("err:nofield")                  \* entry message has only key / value
     ELSE IF ty = "" THEN Fail("err:notmessage")
     ELSE IF ~HasField(ty, id) THEN Fail("err:nofield")
     ELSE /\ desc' = DField(ty, FieldOf(ty, id))
          /\ state' = "needAccessor"
          /\ path' = Append(path, [k |-> "field", v |-> id])
          /\ status' = "ok"

\* accessValue
AccessValue(t) ==
  IF desc.d # "field" THEN Fail("err:notfield")
  ELSE IF desc.f.kind \in {"scalar", "msg"} THEN Fail("err:notrepeated")
  ELSE IF desc.f.kind \in {"map_msg", "map_scalar"} THEN
         LET kk == desc.f.key
             ok == CASE t.k = "str" -> kk = "string"
                     [] t.k = "ident" -> kk = "bool"           \* true / false
                     [] t.k = "int" -> FitsKind(t.t, kk)
         IN IF ~ok THEN Fail("err:keykind")
            ELSE /\ desc' = IF desc.f.kind = "map_msg" THEN DMsg(desc.f.target) ELSE DNil
                 /\ path' = Append(path, [k |-> "map", v |-> t.t])
                 /\ state' = "needIndexClose" /\ status' = "ok"
  ELSE \* list
       IF t.k # "int" \/ ~FitsInt(t.t) THEN Fail("err:listindex")
       ELSE IF Negative(t.t) THEN Fail("err:negative")
       ELSE /\ desc' = IF desc.f.kind = "list_msg" THEN DMsg(desc.f.target) ELSE DNil
            /\ path' = Append(path, [k |-> "list", v |-> t.t])
            /\ state' = "needIndexClose" /\ status' = "ok"

Step(t) ==
  CASE t.k = "illegal" -> Fail("err:illegal")
    [] t.k = "oparen" -> IF state = "needRoot" THEN state' = "needRootDescriptor0" /\ UNCHANGED <<desc, path, status>> ELSE Fail("err:unexpected")
    [] t.k = "cparen" ->
         IF state \notin {"needRootClose1", "needRootClose2", "needRootCloseBad"} THEN Fail("err:unexpected")
         ELSE IF state = "needRootClose2" THEN state' = "needFieldAccessor" /\ UNCHANGED <<desc, path, status>>
         ELSE Fail("err:rootname")
    [] t.k = "obrack" -> IF state = "needAccessor" THEN state' = "needIndex" /\ UNCHANGED <<desc, path, status>> ELSE Fail("err:unexpected")
    [] t.k = "cbrack" -> IF state = "needIndexClose" THEN state' = "needAccessor" /\ UNCHANGED <<desc, path, status>> ELSE Fail("err:unexpected")
    [] t.k = "dot" ->
         IF state = "needRootClose1" THEN state' = "needRootDescriptor1" /\ UNCHANGED <<desc, path, status>>
         ELSE IF state \in {"needRootClose2", "needRootCloseBad"} THEN state' = "needRootDescriptorBad" /\ UNCHANGED <<desc, path, status>>
         ELSE IF state \in {"needAccessor", "needFieldAccessor"} THEN state' = "needFieldName" /\ UNCHANGED <<desc, path, status>>
         ELSE Fail("err:unexpected")
    [] t.k = "ident" ->
         \* qualified root name: fragments are tracked as "matched so far" (0, 1, 2 fragments) or "bad"
         IF state = "needRootDescriptor0"
           THEN state' = (IF t.t = QName(root)[1] THEN "needRootClose1" ELSE "needRootCloseBad") /\ UNCHANGED <<desc, path, status>>
         ELSE IF state = "needRootDescriptor1"
           THEN state' = (IF t.t = QName(root)[2] THEN "needRootClose2" ELSE "needRootCloseBad") /\ UNCHANGED <<desc, path, status>>
         ELSE IF state = "needRootDescriptorBad" THEN state' = "needRootCloseBad" /\ UNCHANGED <<desc, path, status>>
         ELSE IF state \in {"needRoot", "needFieldName"} THEN AccessIdent(t.t)
         ELSE IF state = "needIndex" THEN (IF t.t \in {"true", "false"} THEN AccessValue(t) ELSE Fail("err:identindex"))
         ELSE Fail("err:unexpected")
    [] t.k = "int" -> IF state = "needIndex" THEN AccessValue(t) ELSE Fail("err:unexpected")
    [] t.k = "str" -> IF state = "needIndex" THEN AccessValue(t) ELSE Fail("err:unexpected")

Feed ==
  /\ status = "ok" /\ Len(toks) < MaxLen
  /\ \E t \in Tokens :
       /\ ~(toks # <<>> /\ Wordy(toks[Len(toks)]) /\ Wordy(t))     \* adjacent words cannot be written down
       /\ toks' = Append(toks, t)
       /\ Step(t)
  /\ UNCHANGED root
Next == Feed
Spec == Init /\ [][Next]_vars

Terminal == state \in {"needRoot", "needAccessor", "needFieldAccessor"}

(***************************************************************************)
(* Declarative well-typedness of a path against the root type.             *)
(***************************************************************************)
RECURSIVE WT(_, _)
\* cur: a descriptor (as above); p: remaining steps
WT(cur, p) ==
  IF p = <<>> THEN TRUE
  ELSE LET s == Head(p) IN
    CASE s.k = "field" ->
           LET ty == IF cur.d = "msg" THEN cur.ty ELSE IF cur.d = "field" /\ cur.f.kind \in {"msg"} THEN cur.f.target ELSE "" IN
           ty # "" /\ HasField(ty, s.v) /\ WT(DField(ty, FieldOf(ty, s.v)), Tail(p))
      [] s.k = "list" -> cur.d = "field" /\ cur.f.kind \in {"list_msg", "list_scalar"}
                          /\ WT(IF cur.f.kind = "list_msg" THEN DMsg(cur.f.target) ELSE DNil, Tail(p))
      [] s.k = "map" -> cur.d = "field" /\ cur.f.kind \in {"map_msg", "map_scalar"}
                         /\ WT(IF cur.f.kind = "map_msg" THEN DMsg(cur.f.target) ELSE DNil, Tail(p))
C19_PathWellTyped == status = "ok" => WT(DMsg(root), path)
C19_EndsInPathOrError == status = "ok" \/ status \in {"err:illegal", "err:unexpected", "err:rootname", "err:mapinternal", "err:nofield",
   "err:notmessage", "err:needindex", "err:notfield", "err:notrepeated", "err:keykind", "err:listindex", "err:negative", "err:identindex"}

Emit == PrintT(<<"VCASE", ToJson([root |-> root, toks |-> toks, status |-> status, terminal |-> Terminal, path |-> path])>>)
=============================================================================
