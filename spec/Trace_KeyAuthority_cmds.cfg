CONSTANTS
  MaxVer = 4
  MaxSerial = 9
  MaxCmds = 12
  MaxAborts = 12
  MaxIssued = 6
  Rebootstrap = TRUE
  Wipeouts = TRUE
  Collide = TRUE
  Times = {1}
  KeepGoing = {FALSE, TRUE}
  Design = "atomic"
INIT TraceInit
NEXT TraceNext
CONSTRAINT HighWater
INVARIANTS C12_IssuedShape C12_WipeoutTotal C03_AllIssuedVerify
POSTCONDITION TraceAccepted
CHECK_DEADLOCK FALSE
