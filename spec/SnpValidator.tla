---------------------------- MODULE SnpValidator ----------------------------
(***************************************************************************)
(* C09: the validator model is in SnpValidatorCore.tla (so that the proof  *)
(* system can read it: SnpValidatorProof.tla proves C09_Isolated for any   *)
(* number of calls); this module adds what TLC needs to hand the explored  *)
(* schedules to the harness.                                               *)
(***************************************************************************)
EXTENDS SnpValidatorCore, TLC, Json

AllDone == \A p \in Procs : pc[p] = "done"
Emit == AllDone => PrintT(<<"VCASE", ToJson([att |-> att, sched |-> sched, vfam |-> vfam, optfam |-> optfam])>>)
=============================================================================
