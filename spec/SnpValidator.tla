---------------------------- MODULE SnpValidator ----------------------------
(***************************************************************************)
(* C09: one SNP validator function (the closure returned by                *)
(* verify.SNPFamilyValidateFunc) invoked by several callers at once.       *)
(* Each call captures its attestation's measurement and then compares it   *)
(* with the endorsement.  The closure has one observable scheduling point  *)
(* (the verifhook gate right after the capture), so a call is two atomic   *)
(* segments: Capture(p) and Finish(p).  Design "percall" keeps the         *)
(* captured measurement in per-call state; "shared" (the pinned tree       *)
(* before the repair) keeps it in the options value shared by all calls.   *)
(***************************************************************************)
EXTENDS Integers, Sequences, FiniteSets, TLC, Json

CONSTANTS N, Design    \* number of concurrent calls; "percall" | "shared"

VARIABLES att, pc, local, shared, res, sched
vars == <<att, pc, local, shared, res, sched>>

Procs == 1 .. N
Atts == {"endorsed", "unendorsed"}
Alone(a) == IF a = "endorsed" THEN "accept" ELSE "reject"

Init ==
  /\ att \in [Procs -> Atts]
  /\ pc = [p \in Procs |-> "start"]
  /\ local = [p \in Procs |-> "none"]
  /\ shared = "none"
  /\ res = [p \in Procs |-> "none"]
  /\ sched = <<>>

Capture(p) ==
  /\ pc[p] = "start"
  /\ IF Design = "shared" THEN shared' = att[p] /\ UNCHANGED local
     ELSE local' = [local EXCEPT ![p] = att[p]] /\ UNCHANGED shared
  /\ pc' = [pc EXCEPT ![p] = "captured"]
  /\ sched' = Append(sched, [seg |-> "A", p |-> p])
  /\ UNCHANGED <<att, res>>

Finish(p) ==
  /\ pc[p] = "captured"
  /\ LET m == IF Design = "shared" THEN shared ELSE local[p] IN
       res' = [res EXCEPT ![p] = Alone(m)]
  /\ pc' = [pc EXCEPT ![p] = "done"]
  /\ sched' = Append(sched, [seg |-> "B", p |-> p])
  /\ UNCHANGED <<att, local, shared>>

Next == \E p \in Procs : Capture(p) \/ Finish(p)
Spec == Init /\ [][Next]_vars

C09_Isolated == \A p \in Procs : pc[p] = "done" => res[p] = Alone(att[p])

AllDone == \A p \in Procs : pc[p] = "done"
Emit == AllDone => PrintT(<<"VCASE", ToJson([att |-> att, sched |-> sched])>>)
=============================================================================
