CONSTANTS Design = "repaired"
SPECIFICATION Spec
INVARIANTS C01_Authentic C01_SigBeforeContent C01_Complete Emit
CHECK_DEADLOCK FALSE
