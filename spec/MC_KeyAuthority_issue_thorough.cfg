CONSTANTS
  MaxVer = 4
  MaxSerial = 7
  MaxCmds = 5
  MaxAborts = 2
  MaxIssued = 3
  Rebootstrap = FALSE
  Wipeouts = FALSE
  Collide = FALSE
  Times = {1}
  KeepGoing = {FALSE}
  Design = "atomic"
SPECIFICATION Spec
VIEW view
INVARIANTS C03_AllIssuedVerify C03_HealthyCanAlwaysEndorse C10_PrimaryUsable C11_StoreConsistent
CHECK_DEADLOCK FALSE
