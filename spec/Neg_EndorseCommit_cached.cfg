CONSTANTS
  MaxRetries = 1
  MaxOthers = 1
  Design = "cached_manifest"
INIT Init
NEXT Next
INVARIANTS C14_NoLostUpdate
CHECK_DEADLOCK FALSE
