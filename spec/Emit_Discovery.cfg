CONSTANTS
  Design = "repaired"
  MaxName = 4
SPECIFICATION Spec
INVARIANTS C16_LocalFirst C16_FetchOnlyForMeasurement C16_ForcedIsNetwork C16_PathConfined C16_SuppliedDecides C16_ValidatorOffline Emit
CHECK_DEADLOCK FALSE
