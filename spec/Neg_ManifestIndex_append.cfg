CONSTANTS
  Images = {"i1","i2","i3"}
  Names = {"a","b","endorsement"}
  Design = "append_path"
SPECIFICATION Spec
VIEW view
INVARIANTS C13_UniquePaths
CHECK_DEADLOCK FALSE
