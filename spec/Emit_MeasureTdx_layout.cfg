CONSTANTS
  LineLen = 4
  FourGiB = 2
  MaxBanks = 1
  MaxSecs = 4
  Part = "layout"
SPECIFICATION Spec
INVARIANTS C05_UnacceptedSound C05_ExtendRule Emit
CHECK_DEADLOCK FALSE
