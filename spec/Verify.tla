------------------------------- MODULE Verify -------------------------------
(***************************************************************************)
(* The relying party's authenticity decision (C01): verify.EndorsementProto*)
(* transcribed check by check, and the entry points that wrap it           *)
(* (verify.Endorsement, the SNP validator closure, SevValidate,            *)
(* TdxValidate, the CLI commands).  A row is one combination of classes of *)
(* payload, signature, certificate, caller roots, caller time, provenance  *)
(* and entry point; the row is fixed in the initial state and the actions  *)
(* are the successive checks.  Cryptography is symbolic: a signature class *)
(* says by which key, over which bytes and in which scheme it was made.    *)
(* Everything other than authenticity (measurement listed, quote valid) is *)
(* arranged to pass, so that an accepted row is accepted on authenticity   *)
(* alone.                                                                  *)
(***************************************************************************)
EXTENDS Integers, Sequences, FiniteSets, TLC, Json

CONSTANTS Design   \* "repaired" | "legacy_tdx" (TdxValidate never verifies: negative control)

VARIABLES row, stage, result
vars == <<row, stage, result>>

Payloads == {"canonical", "noncanonical", "unparseable"}
\* relative to the carried payload bytes and the key of the carried certificate
Sigs == {"valid", "over_other", "other_key", "pkcs1", "sha384", "garbage", "absent"}
\* "genuine_*issued": the genuine signing key's certificate, issued by the genuine root with another
\* signature scheme than RSA-PSS/SHA-256 (the scheme of the *payload* signature is fixed by the
\* statement, whatever scheme the issuer used on the certificate)
GenuineCerts == {"genuine", "genuine_pkcs1issued", "genuine_sha384issued"}
\* "*_critext": the same certificate carrying a critical extension the verifier does not know.  The
\* library (crypto/x509) refuses such a certificate before it looks at chain or time, so none of them is
\* ever accepted; a genuine-root-issued one would satisfy the statement, the other two never do.
CritExtCerts == {"genuine_critext", "self_signed_evil_critext", "evil_chain_critext"}
\* "webca_issued": the forger's key certified by a CA of the machine's system trust store (any public
\* web CA): the caller's roots decide, never the machine's
Certs == GenuineCerts \cup {"absent", "garbage", "self_signed_evil", "evil_chain", "webca_issued"} \cup CritExtCerts
\* "emptyfile": the caller's root set is empty and given as a zero-length file to the CLI, while the
\* default root is downloadable: the caller still trusts nothing
Roots == {"nil", "empty", "emptyfile", "R", "foreign", "R_and_foreign"}
Times == {"before", "nb", "inside", "na", "after"}
Provs == {"old_none", "new_none", "new_clspec", "new_commit"}   \* document date vs 2 Aug 2024, provenance
Entries == {"Endorsement", "EndorsementProto", "SNPFunc_blob", "SNPFunc_opts", "SNPFunc_getter",
            "SevValidate_opts", "SevValidate_extra", "SevValidate_getter", "TdxValidate_opts",
            \* the caller supplies the endorsement of the row while the attestation also carries a genuine
            \* one: the supplied endorsement is the one policy and verdict are derived from
            "SNPFunc_opts_plus_genuine_blob", "SevValidate_opts_plus_genuine_extra", "cli_sev_plus_genuine_extra",
            \* the bucket serves the row's endorsement to the first request and a genuine one to any later
            \* request: what was downloaded first is what policy AND verdict are derived from
            "SevValidate_getter_then_genuine",
            "cli_verify", "cli_sev_validate", "cli_tdx_validate",
            \* the signer-side library sign/ops/verify.go: VerifySignatureFromCA(ca, key version, now, message,
            \* signature) -- the certificate is the one the authority holds for the key version, the caller's
            \* roots are the authority's bundle for it, the message is the payload bytes as they are
            "SopsVerifySignatureFromCA"}
\* entry points that take the payload as opaque bytes (no parsing, no provenance rule): one payload /
\* provenance class is enough for them
OpaqueEntries == {"SopsVerifySignatureFromCA"}

Rows == {r \in [payload : Payloads, sig : Sigs, cert : Certs, roots : Roots, time : Times, prov : Provs, entry : Entries] :
           r.entry \in OpaqueEntries => r.payload = "canonical" /\ r.prov = "new_clspec"}

\* the declarative property
SigOK(r) == r.sig = "valid" /\ r.payload # "unparseable"
RootsAndTime(r) == r.roots \in {"R", "R_and_foreign"} /\ r.time \in {"nb", "inside", "na"}
Chains(r) == r.cert \in GenuineCerts /\ RootsAndTime(r)                  \* what the verifier lets through
Authentic(r) == SigOK(r) /\ r.cert \in GenuineCerts \cup {"genuine_critext"} /\ RootsAndTime(r)   \* the statement

Init == row \in Rows /\ stage = "entry" /\ result = "none"

Reject(why) == stage' = "done" /\ result' = why /\ UNCHANGED row

\* entry points: how the endorsement reaches EndorsementProto
Enter ==
  /\ stage = "entry"
  /\ IF row.entry \in {"TdxValidate_opts", "cli_tdx_validate"} /\ Design = "legacy_tdx"
       THEN \* policy derived straight from the unverified endorsement; the quote matches it
            IF row.payload = "unparseable" THEN Reject("reject:policy") ELSE Reject("accept")
       ELSE \* SevPolicy / TdxPolicy parse the payload before the verifier sees it
            IF row.entry \in {"SevValidate_opts", "SevValidate_extra", "SevValidate_getter", "SevValidate_getter_then_genuine", "cli_sev_validate",
                              "SevValidate_opts_plus_genuine_extra", "cli_sev_plus_genuine_extra",
                              "TdxValidate_opts", "cli_tdx_validate"} /\ row.payload = "unparseable"
              THEN Reject("reject:policy")
              ELSE IF row.entry \in OpaqueEntries
                THEN stage' = "cert" /\ UNCHANGED <<row, result>>
                ELSE stage' = "unmarshal" /\ UNCHANGED <<row, result>>

Unmarshal ==
  /\ stage = "unmarshal"
  /\ IF row.payload = "unparseable" THEN Reject("reject:unmarshal")
     ELSE stage' = "provenance" /\ UNCHANGED <<row, result>>

Provenance ==
  /\ stage = "provenance"
  /\ IF row.prov = "new_none" THEN Reject("reject:provenance")
     ELSE stage' = "cert" /\ UNCHANGED <<row, result>>

CheckCert ==
  /\ stage = "cert"
  /\ IF row.cert = "absent" THEN Reject("reject:nocert")
     ELSE IF row.roots = "nil" THEN Reject("reject:noroots")
     ELSE IF row.cert = "garbage" THEN Reject("reject:certparse")
     ELSE IF ~Chains(row) THEN Reject("reject:chain")
     \* sign/ops also demands RSA-PSS/SHA-256 of the certificate's own (issuer) signature
     ELSE IF row.entry \in OpaqueEntries /\ row.cert # "genuine" THEN Reject("reject:certscheme")
     ELSE stage' = "sig" /\ UNCHANGED <<row, result>>

CheckSig ==
  /\ stage = "sig"
  /\ IF row.sig # "valid" THEN Reject("reject:signature")
     ELSE stage' = "rest" /\ UNCHANGED <<row, result>>

\* digest / measurement / quote checks: arranged to pass in every row
Rest == stage = "rest" /\ Reject("accept")

Next == Enter \/ Unmarshal \/ Provenance \/ CheckCert \/ CheckSig \/ Rest
Spec == Init /\ [][Next]_vars

C01_Authentic == result = "accept" => Authentic(row)
\* nothing of the payload other than timestamp / provenance is trusted before the signature check
C01_SigBeforeContent == stage = "rest" => Authentic(row)
\* completeness on these rows (drift oracle): authentic rows with provenance are accepted
C01_Complete == stage = "done" /\ Authentic(row) /\ row.cert \in GenuineCerts /\ row.prov # "new_none"
                  /\ (row.entry \in OpaqueEntries => row.cert = "genuine") => result = "accept"

Emit == stage = "done" => PrintT(<<"VCASE", ToJson([row |-> row, result |-> result])>>)
=============================================================================
