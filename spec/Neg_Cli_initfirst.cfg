CONSTANTS
  Traverse = FALSE
  Design = "init_first"
SPECIFICATION Spec
INVARIANTS ValidateBeforeInit
CHECK_DEADLOCK FALSE
