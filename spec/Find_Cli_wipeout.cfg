CONSTANTS
  Traverse = FALSE
  Design = "code"
SPECIFICATION Spec
INVARIANTS Obs_WipeoutWipesOrFails
CHECK_DEADLOCK FALSE
