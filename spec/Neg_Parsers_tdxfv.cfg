CONSTANTS
  M = 16
  Design = "summed"
  Which = "tdxfv"
SPECIFICATION Spec
INVARIANTS Total MemSafe AllocBounded Terminates
CHECK_DEADLOCK FALSE
