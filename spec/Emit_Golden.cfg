CONSTANTS Design = "strict"
SPECIFICATION Spec
INVARIANTS C06_ExactlyRequested C06_ValuesOfThisImage C06_NothingFromFailure Emit
CHECK_DEADLOCK FALSE
