CONSTANTS
  MaxVer = 2
  MaxSerial = 5
  MaxCmds = 3
  MaxAborts = 0
  MaxIssued = 0
  Rebootstrap = FALSE
  Wipeouts = FALSE
  Collide = FALSE
  Times = {1, 2}
  KeepGoing = {FALSE}
  Design = "legacy_template"
SPECIFICATION Spec
VIEW view
INVARIANTS C12_IssuedShape
CHECK_DEADLOCK FALSE
