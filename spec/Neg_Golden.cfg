CONSTANTS Design = "ignore_ea_error"
SPECIFICATION Spec
INVARIANTS C06_ValuesOfThisImage
CHECK_DEADLOCK FALSE
