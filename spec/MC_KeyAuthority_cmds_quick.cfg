CONSTANTS
  MaxVer = 2
  MaxSerial = 5
  MaxCmds = 4
  MaxAborts = 0
  MaxIssued = 1
  Rebootstrap = FALSE
  Wipeouts = TRUE
  Collide = TRUE
  Times = {1, 2}
  KeepGoing = {FALSE}
  Design = "atomic"
SPECIFICATION Spec
VIEW view
INVARIANTS C10_PrimaryUsable C11_StoreConsistent C12_IssuedShape C12_StoredShape C12_OnlyPrimarySigns C12_WipeoutTotal C03_AllIssuedVerify C03_HealthyCanAlwaysEndorse
PROPERTIES C10_DestroyAfterDurable C11_ManifestLast C12_SerialSuccession C12_NoNameReuse C12_NoClobber
CHECK_DEADLOCK FALSE
