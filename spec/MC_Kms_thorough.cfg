CONSTANTS
  MaxVersions = 5
  PageSize = 2
  MaxEmpty = 1
  MaxPolls = 4
  Design = "token"
  Modes = {"wipe","getver","poll","sign"}
SPECIFICATION Spec
VIEW view
INVARIANTS C20_CallBound C20_WipeoutComplete C20_BootstrapSelects C20_PollReturnsEnabledOnly C20_SignChecked
PROPERTIES C20_Terminates
CHECK_DEADLOCK FALSE
