------------------------------- MODULE Policy -------------------------------
(***************************************************************************)
(* C17: deriving a validation policy from an endorsement                   *)
(* (gcetcbendorsement.SevPolicy / TdxPolicy).  Decision table over base    *)
(* policies (each guarded field unset / equal to / different from the      *)
(* endorsement's value), endorsement CA bundles, requests and flags; the   *)
(* operators transcribe policyModificationAllowed / modifyPolicy /         *)
(* modifyTdxPolicy.  The base policy is a constant of the row: no action   *)
(* assigns it.                                                             *)
(***************************************************************************)
EXTENDS Integers, Sequences, FiniteSets, TLC, Json

CONSTANTS Design   \* "repaired" | "legacy_nobase" (without a base the built-in default guest policy counts as the
                   \* caller's value: negative control, the tree before 2f52a98)

VARIABLES row, out
vars == <<row, out>>

Tri == {"unset", "same", "diff"}
\* base guest policy: "diff" sets a bit the endorsed policy does not have, "stricter" lacks a permission
\* bit the endorsed policy has (a bitwise subset): both are different values the caller configured
PolicyVals == Tri \cup {"stricter"}
Differs(v) == v \in {"diff", "stricter"}
\* nobase: the caller gives no base policy at all (then nothing of it is set); epol: the endorsement's guest
\* policy is the value the tool uses as a default when an endorsement carries none, or another value
SevRows == {r \in [tech : {"sev"}, bpolicy : PolicyVals, bmeas : Tri, bsvn : {"unset", "le", "gt"},
            bid : BOOLEAN, bauth : BOOLEAN, nobase : BOOLEAN, epol : {"default", "other"},
            \* "same_id_author": one certificate is both the ID key and the author key of the endorsement
            bundle : {"none", "id", "id_author", "same_id_author", "three", "wrongtype", "wrongauthor", "garbage"},
            count : {"listed", "unlisted", "zero"}, ow : BOOLEAN, unspec : BOOLEAN] :
              /\ (r.nobase => r.bpolicy = "unset" /\ r.bmeas = "unset" /\ r.bsvn = "unset" /\ ~r.bid /\ ~r.bauth)
              \* (the second endorsed policy only with the base shapes that concern the guest policy)
              /\ (r.epol = "other" => r.bmeas = "unset" /\ r.bsvn = "unset" /\ ~r.bid /\ ~r.bauth /\ r.bundle = "none")}
\* "pin_listed" / "pin_other": the base pins one MRTD (mr_td) -- an endorsed one / another -- and has no
\* allow-list: the pin is a field the derivation does not own and survives it
TdxRows == [tech : {"tdx"}, base : {"nil", "nobody", "body_nolist", "list_same", "list_diff", "pin_listed", "pin_other"},
            ram : {"listed", "unlisted", "zero"}, ow : BOOLEAN]

Err(why) == [err |-> why]

\* value of a guarded base field after derivation: "base" = untouched, "endo" = the endorsement's
Sev(r) ==
  LET legacyDefault == Design = "legacy_nobase" /\ r.nobase /\ r.epol = "other"
      conflict ==
        IF r.ow THEN "none"
        ELSE IF Differs(r.bpolicy) \/ legacyDefault THEN "policy"
        ELSE IF r.count # "zero" /\ r.bmeas # "unset" /\ (r.count = "unlisted" \/ r.bmeas = "diff") THEN "measurement"
        ELSE IF r.bsvn = "gt" THEN "svn"
        ELSE "none"
  IN IF conflict # "none" THEN Err("conflict:" \o conflict)
     ELSE IF r.count = "zero" /\ ~r.unspec THEN Err("need-count")
     ELSE IF r.count = "unlisted" THEN Err("no-measurement")
     ELSE IF r.bundle \in {"three", "wrongtype", "wrongauthor", "garbage"} THEN Err("bundle:" \o r.bundle)
     ELSE [err |-> "",
           policy |-> IF legacyDefault THEN "default" ELSE IF ~r.ow \/ r.bpolicy = "unset" THEN "endo" ELSE "base",
           meas |-> IF r.count = "listed" THEN "endo" ELSE "base",
           svn |-> "base",
           idAdded |-> r.bundle \in {"id", "id_author", "same_id_author"},
           authAdded |-> r.bundle \in {"id_author", "same_id_author"}]

Tdx(r) ==
  IF r.base \in {"list_same", "list_diff"} /\ ~r.ow THEN Err("conflict:any_mr_td")
  ELSE IF r.ram = "unlisted" THEN Err("no-measurement")
  ELSE [err |-> "", list |-> "endo"]

Derive(r) == IF r.tech = "sev" THEN Sev(r) ELSE Tdx(r)

Init == row \in SevRows \cup TdxRows /\ out = [err |-> "pending"]
Decide == out.err = "pending" /\ out' = Derive(row) /\ UNCHANGED row
Spec == Init /\ [][Decide]_vars

\* the caller's base policy is never assigned
C17_BaseUntouched == [][row' = row]_vars
\* without overwrite every value already set in the base survives unchanged or derivation fails;
\* ("endo" where base = "same" is the same value)
C17_NoWeakening ==
  out.err = "" /\ row.tech = "sev" /\ ~row.ow =>
    /\ Differs(row.bpolicy) => out.policy = "base"
    /\ row.bmeas = "diff" => out.meas = "base"
    /\ out.svn = "base"
C17_NoWeakeningTdx ==
  out.err = "" /\ row.tech = "tdx" /\ ~row.ow => row.base \notin {"list_same", "list_diff"}
\* what is placed comes from the endorsement (never anything else)
C17_FromEndorsement ==
  out.err = "" /\ row.tech = "sev" => out.policy \in {"base", "endo"} /\ out.meas \in {"base", "endo"}
                                     /\ (out.meas = "endo" => row.count = "listed")
\* a caller that configures nothing gets the endorsement's values
C17_NoBaseMeansEndorsement ==
  row.tech = "sev" /\ row.nobase /\ out.err # "pending" =>
    /\ out.err \notin {"conflict:policy", "conflict:measurement", "conflict:svn"}     \* nothing of the caller's to conflict with
    /\ (out.err = "" => out.policy = "endo")
Emit == out.err # "pending" => PrintT(<<"VCASE", ToJson([row |-> row, out |-> out])>>)
=============================================================================
