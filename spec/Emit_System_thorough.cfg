CONSTANTS
  Images = {"i1", "i2"}
  Cfgs = {1, 2}
  MaxT = 4
  Life = 1
  MaxCmds = 6
  Design = "sound"
SPECIFICATION Spec
INVARIANTS EmitOnValidate
VIEW view
CHECK_DEADLOCK FALSE
