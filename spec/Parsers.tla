------------------------------ MODULE Parsers ------------------------------
(***************************************************************************)
(* C07 / C08: totality and resource bounds of the byte parsers, as         *)
(* skeletons over the handful of quantities that decide them.  Integer     *)
(* fields are modelled at reduced width (all arithmetic modulo M where the *)
(* Go code computes in uint32): the defects at stake are relations between *)
(* an offset and a header size, count*size wrap-around against a declared  *)
(* length, and declared sizes against what is present -- relations that    *)
(* scaling preserves.  Each parser is a function from its fields to an     *)
(* outcome [res, accesses, alloc, iters]; TLC enumerates every field       *)
(* value.  Design "guarded" has the bounds the properties need; "legacy"   *)
(* is the pinned tree before the repairs (negative control).               *)
(*  sevmeta  : ovmf.extractSevOvmfMetadata                                 *)
(*  tdxmeta  : ovmf.extractTDXMetadata + abi.TDXMetadataFromBytes          *)
(*  tdxregion: a TD_HOB / TempMem section's memory size (allocation, loop) *)
(*  tdxfv    : a firmware-volume section's data offset / size against the  *)
(*             image (ovmf.validateTDXMetadataSections, tdxFwParser.parse) *)
(*  guidtable: ovmf.GetFwGUIDTable / GetFwGUIDToBlockMap                   *)
(*  certtable: SEV-SNP certificate table entry ranges (extractsev)         *)
(*  sized    : eventlog size-prefixed readers                              *)
(*  counted  : eventlog digest list (count-prefixed)                       *)
(*  locator  : UEFI-variable locator decoding                              *)
(*  endofields: presence of the endorsement's fields read before / after   *)
(*             the signature check                                         *)
(***************************************************************************)
EXTENDS Integers, Sequences, FiniteSets, TLC, Json

CONSTANTS M, Design, Which

VARIABLES row, out
vars == <<row, out>>

Hdr == 4      \* scaled header size (16 bytes for real)
Ent == 3      \* scaled entry size (12 / 32 bytes for real)
Chunk == 1
Wrap(x) == x % M

Acc(lo, hi) == [lo |-> lo, hi |-> hi]
Out(res, accs, alloc, iters) == [res |-> res, accs |-> accs, alloc |-> alloc, iters |-> iters]

\* ---- sevmeta: fields L (image length), O (offset from the end), S (section count), Ln (length field) ----
SevMeta(r) ==
  LET L == r.L  O == r.O  S == r.S  Ln == r.Ln
      total == IF Design = "legacy" THEN Wrap(Wrap(S * Ent) + Hdr) ELSE S * Ent + Hdr
  IN IF L < O THEN Out("err", {}, 0, 0)
     ELSE IF Design # "legacy" /\ O < Hdr THEN Out("err", {}, 0, 0)
     ELSE LET a0 == Acc(L - O, L - O + Hdr) IN
          IF a0.hi > L THEN Out("panic", {a0}, 0, 0)                          \* header read runs past the image
          ELSE IF Ln # total THEN Out("err", {a0}, 0, 0)
          ELSE IF O < Ln THEN Out("err", {a0}, 0, 0)
          ELSE LET accs == {a0} \cup {Acc(L - O + Hdr + it * Ent, L - O + Hdr + it * Ent + Ent) : it \in 0 .. S - 1}
               IN IF \E a \in accs : a.hi > L THEN Out("panic", accs, 0, S) ELSE Out("ok", accs, S, S)

\* ---- tdxmeta: L, O, C (section count) ----
TdxMeta(r) ==
  LET L == r.L  O == r.O  C == r.S
      expected == IF Design = "legacy" THEN Wrap(C * Ent) ELSE C * Ent
  IN IF O > L \/ O < Hdr THEN Out("err", {}, 0, 0)
     ELSE IF expected > O - Hdr THEN Out("err", {}, 0, 0)
     ELSE Out("ok", {Acc(L - O, L - O + Hdr + expected)}, C, C)             \* one section object per count

\* ---- tdxregion: L, Z (memory size of a non-firmware-volume section), mode ----
TdxRegion(r) ==
  IF Design # "legacy" /\ r.Z > r.L THEN Out("err", {}, 0, 0)               \* larger than the image: refused
  ELSE IF r.ext /\ ~r.measureAll /\ r.Z > 0 THEN Out("err", {}, 0, 0)        \* flagged for extension but has no contents to extend
  ELSE Out("ok", {}, IF r.measureAll THEN r.Z ELSE 0, r.Z)

\* ---- tdxfv: L (image length), O (data offset), S (data size) of a boot / configuration firmware
\*      volume; the volume's bytes image[O : O+S] are copied into the region.  The check must hold in
\*      the field's own width: "summed" (negative control) compares the wrapped sum with the length ----
TdxFv(r) ==
  IF Design = "summed"
    THEN IF r.S = 0 \/ Wrap(r.O + r.S) > r.L THEN Out("err", {}, 0, 0)
         ELSE LET a == Acc(r.O, Wrap(r.O + r.S)) IN
              IF a.lo > a.hi \/ a.hi > r.L THEN Out("panic", {a}, 0, 1) ELSE Out("ok", {a}, r.S, 1)
    ELSE IF r.O > r.L \/ r.S = 0 \/ r.L - r.O < r.S THEN Out("err", {}, 0, 0)
         ELSE Out("ok", {Acc(r.O, r.O + r.S)}, r.S, 1)

\* ---- sized: D declared size, R bytes remaining ----
Sized(r) ==
  IF Design = "legacy"
    THEN Out(IF r.R = 0 /\ r.D = 0 THEN "err" ELSE "ok", {}, r.D, 1)       \* allocates D, accepts a short read
    ELSE IF r.D > r.R THEN Out("err", {}, r.R, 1) ELSE Out("ok", {}, r.D, 1)

\* ---- counted: C declared element count, R elements present ----
Counted(r) ==
  IF Design = "legacy" THEN Out(IF r.D > r.R THEN "err" ELSE "ok", {}, r.D, IF r.D > r.R THEN r.R + 1 ELSE r.D)
  ELSE IF r.D > r.R THEN Out("err", {}, r.R, r.R + 1) ELSE Out("ok", {}, r.D, r.D)

\* ---- locator: n = length in bytes; guid is 16 (scaled 4) ----
Locator(r) ==
  IF r.L <= Hdr + 2 THEN Out("err", {}, 0, 0)                               \* guid + terminator
  ELSE IF (r.L - Hdr) % 2 # 0 THEN Out("err", {}, 0, 0)
  ELSE IF ~r.term THEN Out("err", {Acc(r.L - 2, r.L)}, 0, 0)
  ELSE Out("ok", {Acc(0, Hdr), Acc(Hdr, r.L)}, r.L, 1)

\* ---- endofields: which parts of an endorsement are present / well-formed.  Three relying-party
\*      entry points read them: verify.Endorsement (the timestamp is read before the signature
\*      check), SevPolicy and TdxPolicy. ----
EndoVerify(r) ==
  IF ~r.parses \/ ~r.golden THEN "err"
  ELSE IF ~r.timestamp /\ Design = "legacy" THEN "panic"                     \* nil timestamp dereferenced
  ELSE IF r.timestamp /\ r.late /\ ~r.prov THEN "err"                        \* provenance required after the cut-over date
  ELSE IF ~r.cert THEN "err"
  ELSE IF ~r.sig THEN "err"
  ELSE "ok"
\* bundle: the SNP section's CA bundle: absent; two CERTIFICATE blocks (identity, author); the same two
\* followed by bytes that are no PEM block; three blocks; no PEM at all.  Only "none" and "two" are
\* well-formed; every other one is refused, in bounded time
EndoSev(r) == IF ~r.parses \/ ~r.golden \/ ~r.sevsnp \/ r.bundle \notin {"none", "two"} THEN "err" ELSE "ok"
EndoTdx(r) == IF ~r.parses \/ ~r.golden \/ ~r.tdx \/ ~r.tdxmeas THEN "err" ELSE "ok"
EndoFields(r) ==
  LET v == EndoVerify(r) s == EndoSev(r) t == EndoTdx(r)
      worst == IF "panic" \in {v, s, t} THEN "panic" ELSE v
  IN [res |-> worst, accs |-> {}, alloc |-> 0, iters |-> 0, verify |-> v, sev |-> s, tdx |-> t]

\* ---- certtable: one SEV-SNP certificate-table entry (offset O, length Ln) in a table of L units;
\*      the dependency checks O + Ln in 32 bits (legacy = call sites without the 64-bit pre-check) ----
M2 == 32
CtHdr == 12      \* two 24-byte header entries (one entry + terminator) in units of 4 bytes
CertTable(r) ==
  LET L == r.L  O == r.O  Ln == r.Ln
      end == IF Design = "legacy" THEN (O + Ln) % M2 ELSE O + Ln
  IN IF O < CtHdr THEN Out("err", {}, 0, 0)
     ELSE IF end > L THEN Out("err", {}, 0, 0)
     ELSE LET a == Acc(O, O + Ln) IN IF a.hi > L THEN Out("panic", {a}, Ln, 1) ELSE Out("ok", {a}, Ln, 1)

\* ---- guidtable: image of L units (2 bytes), footer-declared table size T, first entry size E;
\*      the pinned code is the guarded design, "legacy" is the weakening without the end offset
\*      (negative control only) ----
EndOff == 16     \* 0x20 bytes
GEnt == 9        \* 18-byte entry
GuidTable(r) ==
  LET L == r.L  T == r.T  E == r.E
      fits == IF Design = "legacy" THEN L >= T ELSE L >= T + EndOff
  IN IF L < EndOff + GEnt THEN Out("err", {}, 0, 0)
     ELSE IF T < GEnt \/ ~fits THEN Out("err", {Acc(L - EndOff - GEnt, L - EndOff)}, 0, 0)
     ELSE LET start == L - EndOff - T
              C == T - GEnt
              a0 == Acc(start, start + C)
          IN IF start < 0 THEN Out("panic", {a0}, 0, 0)
             ELSE IF C = 0 THEN Out("ok", {a0}, 0, 0)
             ELSE IF C < GEnt THEN Out("err", {a0}, 0, 1)
             ELSE IF C < E \/ E < GEnt THEN Out("err", {a0}, 0, 1)
             ELSE IF C = E THEN Out("ok", {a0, Acc(start + C - E, start + C)}, 1, 1)
             ELSE Out("err", {a0, Acc(start + C - E, start + C)}, 1, 2)          \* the next entry is all zeros

Rows ==
  CASE Which = "sevmeta" -> [p : {"sevmeta"}, L : 0 .. M - 1, O : 0 .. M - 1, S : 0 .. M - 1, Ln : 0 .. M - 1]
    [] Which = "tdxmeta" -> [p : {"tdxmeta"}, L : 0 .. M - 1, O : 0 .. M - 1, S : 0 .. M - 1]
    [] Which = "tdxregion" -> [p : {"tdxregion"}, L : 1 .. M - 1, Z : 0 .. 4 * M, measureAll : BOOLEAN, ext : BOOLEAN]
    [] Which = "tdxfv" -> [p : {"tdxfv"}, L : {M \div 2}, O : 0 .. M - 1, S : 0 .. M - 1]
    [] Which = "certtable" -> [p : {"certtable"}, L : CtHdr .. M2 - 1, O : 0 .. M2 - 1, Ln : 0 .. M2 - 1]
    [] Which = "guidtable" -> [p : {"guidtable"}, L : 0 .. 39, T : 0 .. 39, E : 0 .. 39]
    [] Which = "sized" -> [p : {"sized"}, D : 0 .. M - 1, R : 0 .. M - 1]
    [] Which = "counted" -> [p : {"counted"}, D : 0 .. M - 1, R : 0 .. M - 1]
    \* fill: what the name's code units are -- text, or nothing but NUL code units (then it is terminated
    \* whatever its length); the decoder's verdict depends on length and terminator only
    [] Which = "locator" -> {r \in [p : {"locator"}, L : 0 .. M - 1, term : BOOLEAN, fill : {"text", "nul"}] : r.fill = "nul" => r.term}
    [] Which = "endofields" -> {r \in [p : {"endofields"}, parses : BOOLEAN, golden : BOOLEAN, timestamp : BOOLEAN, late : BOOLEAN, prov : BOOLEAN,
                                         cert : BOOLEAN, sig : BOOLEAN, sevsnp : BOOLEAN, tdx : BOOLEAN, tdxmeas : BOOLEAN,
                                         bundle : {"none", "two", "trailing", "three", "garbage"}] :
                                 /\ (r.bundle # "none" => r.sevsnp /\ r.timestamp /\ r.prov /\ r.cert /\ r.tdx /\ r.tdxmeas)
                                 /\ (~r.parses => ~r.golden) /\ (~r.golden => ~r.timestamp /\ ~r.prov /\ ~r.cert /\ ~r.sevsnp /\ ~r.tdx)
                                 /\ (~r.parses => ~r.sig) /\ (~r.timestamp => ~r.late) /\ (~r.tdx => ~r.tdxmeas)}

Parse(r) ==
  CASE r.p = "sevmeta" -> SevMeta(r) [] r.p = "tdxmeta" -> TdxMeta(r) [] r.p = "tdxregion" -> TdxRegion(r) [] r.p = "tdxfv" -> TdxFv(r)
    [] r.p = "certtable" -> CertTable(r) [] r.p = "guidtable" -> GuidTable(r)
    [] r.p = "sized" -> Sized(r) [] r.p = "counted" -> Counted(r) [] r.p = "locator" -> Locator(r) [] r.p = "endofields" -> EndoFields(r)

Init == row \in Rows /\ out = [res |-> "pending"]
Decide == out.res = "pending" /\ out' = Parse(row) /\ UNCHANGED row
Spec == Init /\ [][Decide]_vars

Size(r) == IF r.p \in {"sevmeta", "tdxmeta", "tdxregion", "tdxfv", "locator", "certtable", "guidtable"} THEN r.L ELSE IF r.p \in {"sized", "counted"} THEN r.R ELSE 1
Total == out.res \in {"pending", "ok", "err"}                                 \* never a panic
MemSafe == out.res = "pending" \/ \A a \in out.accs : 0 <= a.lo /\ a.lo <= a.hi /\ a.hi <= Size(row)
AllocBounded == out.res = "pending" \/ out.alloc <= Size(row) + 1
Terminates == out.res = "pending" \/ out.iters <= Size(row) + 1

Emit == out.res # "pending" =>
  PrintT(<<"VCASE", ToJson(IF Which = "endofields" THEN [row |-> row, res |-> out.res, verify |-> out.verify, sev |-> out.sev, tdx |-> out.tdx]
                           ELSE [row |-> row, res |-> out.res])>>)
=============================================================================
