CONSTANTS
  Kinds = {1, 2, 3}
  Addrs = {0, 1, 2}
  Lens = {1}
  MaxSecs = 3
  Vcpus = {1}
  Roms = {2, 5, 7}
  Bases = {"zero"}
  Metas = {0, 1, 2}
SPECIFICATION Spec
INVARIANTS C04_OrderRomSectionsVmsas C04_AcceptedHaveMandatory Emit
CHECK_DEADLOCK FALSE
