CONSTANTS
  Kinds = {1, 2, 3, 4}
  Addrs = {0, 1, 2}
  Lens = {1}
  MaxSecs = 4
  Vcpus = {1}
  Roms = {2, 3, 5, 6, 7, 9, 11}
  Bases = {"zero"}
  Metas = {0, 1, 2}
SPECIFICATION Spec
INVARIANTS C04_OrderRomSectionsVmsas C04_AcceptedHaveMandatory Emit
CHECK_DEADLOCK FALSE
