CONSTANTS
  LineLen = 1
  FourGiB = 1
  MaxBanks = 0
  MaxSecs = 0
  Part = "intervals"
SPECIFICATION Spec
CHECK_DEADLOCK FALSE
