CONSTANTS
  MaxVer = 2
  MaxSerial = 5
  MaxCmds = 3
  MaxAborts = 0
  MaxIssued = 0
  Rebootstrap = TRUE
  Wipeouts = FALSE
  Collide = FALSE
  Times = {1, 2}
  KeepGoing = {FALSE}
  Design = "atomic"
SPECIFICATION Spec
VIEW view
INVARIANTS C12_OnlyPrimarySigns
CHECK_DEADLOCK FALSE
